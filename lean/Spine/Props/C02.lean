import Spine.StoreF
import Spine.C02Refine
import Spine.C02Idem
import Spine.HashKey
import Spine.SortGen
import Spine.Store
import Spine.Generated.Shapes
import Spine.Generated.Wiring
import Spine.C02Paths
import Spine.Generated.UpdPaths
/-!
# C02 — replicated function data follows the SPINE restricted-exchange update rules

Property theorems only. Lemmas: `Spine/UpdateThm.lean`, `SortThm.lean`, `C02Thm.lean`, `SelectThm.lean`,
`C02Refine.lean`, `C02Idem.lean`, `HashKey.lean`, `SortGen.lean`. SPEC: `Spine/SpecKV.lean` — data as a map identifier → item, the cmdOption
rules as overlay / restrict / erase. Tables regenerated from the tree under test on every run:
`Spine/Generated/Shapes.lean` (G3), `Spine/Generated/Wiring.lean` (G4); row predicates in `Spine/C02Tables.lean`.

## Which code the theorems are about

* **Model as written** = `Spine.updateList` / `updateStore` / `updateData` (`Spine/Update.lean`, `Spine/Store.lean`):
  the transcription of `model/update.go`, `model/collection_operations.go`, `spine/function_data.go` at the
  PINNED commit, over `Item := List (Option Nat)` with one `Shape` per list type.
* **Family** = `Spine.updateListF c` (`Spine/UpdateF.lean`, C04 / C11), indexed by the defect flags
  `mergeStrict, selNilPanics, emptySelPanics, inplaceAltersFlag, deleteStrict`, plus `Tables.SelFacts`
  (`nilPanics, structDeep`: how `SelectorMatch` treats nil item fields and struct values) which decides how the
  selector fields of a list type are encoded in the model's `selMap`. The harness probes all of them on the tree
  under test. All flags on and `SelFacts.asWritten` = the pinned commit (`c02_family_member_as_written`).
* **Repaired HEAD** (after the `fix:` commits incl. e4eb02d) probes to the member `cfg 0 0 0 0 0`, `selfacts 1`
  (all defect flags off, nil check + `reflect.DeepEqual` in `SelectorMatch`).
* `c02_every_member_on_decided`: on every input the SPEC decides, EVERY member of the family — the pinned commit,
  HEAD, anything in between — computes exactly `updateList`. The flags only change behaviour on remote writes
  (C04) and on inputs the SPEC does not decide (an item without the selected field, a selector with an empty list).
  So every theorem below that is stated over `updateList` under `notDecided … = none` holds verbatim for HEAD's
  member; the theorems `c02_repaired_*` speak about the repaired `SelectorMatch` directly; the remaining engine-level
  clauses (`c02_selector_confines`, `c02_delete_removes`, `c02_delete_clears`, `c02_merge_unique_sorted`,
  `c02_selector_first_match`) are about functions the local paths of all members share (proved for the model as
  written; equal for every member wherever `SelectorMatch` does not panic, `c02_selectormatch_members_agree`).

## Proved — every shape (hence every list type of the table), all stored lists, all updates, no size bound

* `c02_refines` — on every input the SPEC decides (`notDecided … = none`: stored data with complete, pairwise
  distinct identifiers; update items with distinct complete identifiers, or one identifier-less item, or a
  selector matching at most one item; delete filter with selector and/or elements that name no identifier;
  all seven filter shapes) a local update succeeds and its result, as a map, is `SpecKV.apply` of the stored map;
  the result is again well-formed. Corollaries `c02_unique`, `c02_partial_keeps_unmentioned`.
* `c02_sorted`, `c02_sorted_multikey` — numeric identifiers with any number of key fields: ordered data stays
  ordered, the merge path orders whatever it gets, and "ordered" means: the identifier TUPLES increase strictly in
  lexicographic order. `c02_comparator_strict_weak_order`: `SortData`'s comparator is irreflexive, asymmetric,
  transitive, negatively transitive, and total on identifiers.
* `c02_history`, `c02_history_sorted` — along any sequence of decided updates through the per-type wrapper:
  stored data = fold of the rules, stays ordered.
* **Idempotence**: `idempotentRegion` is the exact decidable side condition — the second application is decided
  and the rules themselves give the same data at every identifier involved. `c02_idempotent` (numeric identifiers,
  all seven filter shapes, as LISTS, whatever the order before), `c02_idempotent_map` (every kind of identifier,
  as maps), `c02_idempotent_selector` (selector updates, with or without delete filter, any identifiers, as
  lists), `c02_idempotent_delete` (delete filters alone), plus the unconditional `c02_idempotent_partial`,
  `c02_idempotent_identifierless`. Outside the region: `c02_rules_not_idempotent_witness`.
* **Several matches** (beyond the SPEC's decided region): `c02_selector_first_match` / `c02_selector_no_match` — a
  partial update with a selector changes the first matching item only (overlay), every other item stays as it is;
  `c02_delete_removes_all_matches` — a delete selector removes EVERY matching item and keeps every other.
* the four clauses of the statement on the engine functions themselves, with weaker hypotheses than
  `c02_refines`: `c02_full_replaces`, `c02_merge_unique_sorted`, `c02_selector_confines` (any number of
  matches, remote writes included, generic in `Shape` — hence also for struct-typed selector fields),
  `c02_delete_removes`, `c02_delete_clears`.
* **Repaired `SelectorMatch`** (`SelFacts` = ⟨false, true⟩, HEAD): `c02_repaired_selector_classes` (per class of
  selector field and list type how it is encoded: scalar, struct and non-comparable struct fields are compared
  with the item field of the same name; a field of another pointer type is compared but can never be equal; a
  non-pointer item field never matches; the rest is ignored), `c02_repaired_selectors_total`,
  `c02_repaired_selectormatch_decides_equality` (total, and answers exactly `SpecKV.selMatches`),
  `c02_repaired_selectormatch_never_panics`; `c02_selector_encodings` for the other `SelFacts`.
* `c02_all_shapes`, `c02_wiring`, `c02_wiring_failing_exact`, `c02_instances`, `c02_all_types`, `c02_wiring_covers`
  — decided over the regenerated tables: every list type has a shape the theorems apply to; every `UpdateList`
  method outside the generated list `wiringFailing` (empty on HEAD, three rows on the pinned commit) reads, passes
  and assigns one list field, persists only under `success && persist` and returns the data; `wiringFailing` is
  exactly the set of rows that do not.

* **Identity of items as the code computes it** (`hashKey` builds a STRING; `Spine/HashKey.lean` models the string,
  characters and all): `c02_hashkey_numeric` (numeric identifiers of any arity, complete or not: same hash text iff
  same present prefix), `c02_hashkey_numeric_injective`, `c02_hashkey_number_string_injective` (all strings, empty /
  with separator / absent), `c02_hashkey_address_injective` (device, entity, feature addresses, any device
  string, up to absent vs empty device part); `c02_hashkey_model_is_present_prefix`, `c02_hashkey_abstraction_sound`
  (the abstract `Spine.hashKey` every other theorem uses identifies exactly what the string identifies);
  `c02_key_kinds`, `c02_struct_key_types` (over the regenerated table: only these kinds occur). So `hashKey` is
  INJECTIVE on complete, non-degenerate identifiers of every list type. The collisions that exist are
  `c02_hashkey_collisions` (incomplete identifiers with one present prefix; absent vs empty device part) and,
  for a kind that does not occur, `c02_hashkey_string_first_would_collide`; `c02_partial_identifier_collision`
  shows what an incomplete identifier in the data does to `Merge`.
* **`SortData` on arbitrary items**: `c02_sortdata_all_inputs` (permutation, no item less than its left
  neighbour, idempotent, comparator asymmetric — for ALL lists); `c02_comparator_not_weak_order_with_missing_parts`.

* **Entry paths** ("received as reply or notify from a peer or applied through the local API"), over the table
  `Spine/Generated/UpdPaths.lean` that `go/updpaths` regenerates from the SSA form of the tree under test
  (interprocedural, helpers looked through, classifier of a path = the `CmdClassifierType` constant guarding the call):
  `c02_entry_paths` (every row — every way `FeatureLocal.HandleMessage`, `NodeManagement.HandleMessage`,
  `FeatureLocal.SetData` / `UpdateData` / `ApproveOrDenyWrite`, `FeatureRemote.UpdateData` reach
  `FunctionDataInterface.UpdateDataAny` — has the arguments the model assumes: reply, notify and the local API store
  with `remoteWrite = false`, persisting, filters handed on unchanged; a write with `remoteWrite = true`; one call
  site per row), `c02_entry_paths_cover` (no call site of `UpdateDataAny` in the module lies outside these paths;
  the rows for reply, notify, `SetData`, `UpdateData` exist), `c02_store_hands_arguments_on` (`FunctionData` hands
  the five arguments on, in order, once: `UpdateDataAny → UpdateData → Updater.UpdateList`),
  `c02_entry_flags`, `c02_history_any_entry_path` (a history whose updates arrive through ANY mixture of reply,
  notify, `UpdateData`, `SetData` is folded by the one engine call of `c02_history`: same data, same SPEC fold).

## Refuted (kernel-checked witnesses)

* `c02_full_sorted_refuted` — a full update is stored as received: unordered input stays unordered
  (finding `fastpath-stores-as-received`, still open on HEAD); `c02_full_sorted_partial` is the region where the
  clause holds.
* `c02_rules_not_idempotent_witness` — the *rules themselves* are not idempotent when a delete selector tests a
  field the partial part of the same update changes (`idempotentRegion = false` there).

## Not proved here (correspondence + monitor only)

Inputs the SPEC does not decide, beyond the several-matches theorems above: duplicate or missing identifiers,
elements naming an identifier, identifier-less types — there only the clauses with weaker hypotheses apply.
List-level idempotence for non-numeric identifiers on the sorting paths (map-level is proved). Remote writes
(`remoteWrite = true`, C04); panics (C05); sharing of backing arrays (C11).
-/
namespace Spine.Props.C02
open Spine Spine.SpecKV Spine.Tables

/-! ## the engine refines the SPEC -/

/-- **Refinement.** For every shape whose struct-typed key (if any) is the last key, every stored list, update
    list and pair of filters that the SPEC decides: the local update succeeds, the result has complete, pairwise
    distinct identifiers again, and read as a map identifier → item it equals the SPEC's
    `apply` — delete first; then overlay by identifier / lay the identifier-less item over all / lay it over the
    selected item. -/
theorem c02_refines (sh : Shape) (hk : structKeyLast sh.keys = true)
    (st nw : List Item) (fp fd : Option Filter) (h : notDecided sh st nw fp fd = none) :
    ∃ r, updateList sh false st nw fp fd = .ok r ∧ r.ok = true ∧ wfData sh r.out = true ∧
      abs sh r.out = SpecKV.apply sh (abs sh st) nw fp fd :=
  refines_decided sh hk st nw fp fd h

/-- the shape of `LoadControlLimitListDataType` (row of the generated table, see `c02_example_is_a_row`) -/
def exShape : Shape :=
  { n := 5, keys := [(0, .uint)], flag := some 1, selMap := [some 0], elN := 5, elMap := [some 0, some 1, some 2, some 3, some 4] }
def exStore : List Item := [[some 1, some 1, some 0, none, some 3], [some 2, some 1, none, none, none]]
/-- delete item 2, partial update of item 1 and a new item 0 -/
def exUpdate : List Item := [[some 1, none, some 1, none, none], [some 0, none, none, none, some 7]]
def exDelete : Option Filter := some ⟨some [some 2], none⟩

/-- non-vacuity: a decided delete+partial update; the engine's result and the SPEC's map tabulated -/
example : notDecided exShape exStore exUpdate none exDelete = none ∧
    (match updateList exShape false exStore exUpdate none exDelete with
     | .ok r => r.out | .panic _ => []) =
      [[some 0, none, none, none, some 7], [some 1, some 1, some 1, none, some 3]] ∧
    tabulate exShape (SpecKV.apply exShape (abs exShape exStore) exUpdate none exDelete)
      ((exStore ++ exUpdate).map (keyOf exShape)) =
      [[some 0, none, none, none, some 7], [some 1, some 1, some 1, none, some 3]] := by decide

/-- **At most one item per identifier** after every decided update. -/
theorem c02_unique (sh : Shape) (hk : structKeyLast sh.keys = true)
    (st nw : List Item) (fp fd : Option Filter) (h : notDecided sh st nw fp fd = none) :
    ∀ r, updateList sh false st nw fp fd = .ok r → (r.out.map (keyOf sh)).Nodup := by
  intro r hr
  obtain ⟨r', hr', _, hwf, _⟩ := refines_decided sh hk st nw fp fd h
  rw [hr] at hr'
  injection hr' with hr'
  subst hr'
  exact (wf_of_wfData sh _ hwf).nodup

/-- **Ordered by numeric identifier.** With numeric identifiers, ordered data stays ordered under every decided
    update (on the merge path the result is ordered whatever the order before: `c02_merge_unique_sorted`). -/
theorem c02_sorted (sh : Shape) (hu : ∀ k ∈ sh.keys, k.2 = .uint) (hk : structKeyLast sh.keys = true)
    (st nw : List Item) (fp fd : Option Filter) (h : notDecided sh st nw fp fd = none) (hs : Sorted sh st) :
    ∀ r, updateList sh false st nw fp fd = .ok r → Sorted sh r.out :=
  sorted_decided sh hu hk st nw fp fd h hs

example : (∀ k ∈ exShape.keys, k.2 = .uint) ∧ structKeyLast exShape.keys = true ∧
    List.Pairwise (fun a b => less exShape b a = false) exStore := by decide

/-- **Histories.** After any sequence of local persisting updates through the per-type wrapper, each decided by
    the SPEC at the data it meets, the stored data has one item per identifier and equals, as a map, the fold of
    the SPEC rules over the sequence. -/
theorem c02_history (sh : Shape) (hk : structKeyLast sh.keys = true) (us : List Upd) (st : List Item)
    (hw : wfData sh st = true) (hd : DecidedAll sh st us) :
    ∃ l, runStore sh st us = some l ∧ wfData sh l = true ∧ abs sh l = runSpec sh (abs sh st) us :=
  history_refines sh hk us st hw hd

/-- … and stays ordered by numeric identifier. -/
theorem c02_history_sorted (sh : Shape) (hu : ∀ k ∈ sh.keys, k.2 = .uint) (hk : structKeyLast sh.keys = true)
    (us : List Upd) (st : List Item) (hs : Sorted sh st) (hd : DecidedAll sh st us) :
    ∀ l, runStore sh st us = some l → Sorted sh l :=
  history_sorted sh hu hk us st hs hd

example : DecidedAll exShape exStore [⟨exUpdate, none, none⟩] := ⟨by decide, fun _ _ _ _ => trivial⟩

/-- non-vacuity: a two-step history (partial update, then delete by selector) that runs and is decided at
    its first step -/
example : runStore exShape exStore [⟨exUpdate, none, none⟩, ⟨[], none, exDelete⟩] =
      some [[some 0, none, none, none, some 7], [some 1, some 1, some 1, none, some 3]] ∧
    notDecided exShape exStore exUpdate none none = none := by decide

/-! ## the four clauses of the statement -/

/-- **A full update replaces the data** (`FunctionData.UpdateData` without filters, persisting): whatever was
    stored, afterwards exactly the received list is stored. -/
theorem c02_full_replaces (sh : Shape) (remote : Bool) (st nw : List Item) (fp fd : Option Filter) :
    updateData sh remote true true true st nw fp fd = .ok (nw, true) := by
  simp [updateData]

/-- REFUTED on the code as written (finding `fastpath-stores-as-received`): "the result is ordered by numeric
    identifier" after a full update — the list is stored as received. -/
theorem c02_full_sorted_refuted :
    ∃ nw, wfData exShape nw = true ∧
      ∀ l ok, updateData exShape false true true true [] nw none none = .ok (l, ok) → ¬ Sorted exShape l := by
  refine ⟨[[some 2, none, none, none, none], [some 1, none, none, none, none]], by decide, ?_⟩
  intro l ok h
  simp only [updateData, Bool.and_self, if_true, Outcome.ok.injEq, Prod.mk.injEq] at h
  rw [← h.1]
  unfold Sorted
  decide

/-- the region where the clause does hold for full updates: an ordered, well-formed list is stored ordered and
    well-formed (trivially: it is stored as received) -/
theorem c02_full_sorted_partial (sh : Shape) (remote : Bool) (st nw : List Item) (fp fd : Option Filter)
    (hw : wfData sh nw = true) (hs : Sorted sh nw) :
    ∃ l, updateData sh remote true true true st nw fp fd = .ok (l, true) ∧ wfData sh l = true ∧ Sorted sh l :=
  ⟨nw, c02_full_replaces sh remote st nw fp fd, hw, hs⟩

/-- **A partial update merges by identifier, keeping items it does not mention**: an identifier the update does
    not carry maps to the same item before and after. -/
theorem c02_partial_keeps_unmentioned (sh : Shape) (hk : structKeyLast sh.keys = true) (hne : sh.keys ≠ [])
    (st nw : List Item) (hs : WF sh st) (hn : WF sh nw) (k : Key) (hnot : abs sh nw k = none) :
    ∃ r, updateList sh false st nw none none = .ok r ∧ abs sh r.out k = abs sh st k := by
  obtain ⟨r, hr, _, _, habs⟩ := refines_partial sh hk hne st nw hs hn
  refine ⟨r, hr, ?_⟩
  rw [habs]
  simp only [SpecKV.apply]
  rw [applyData_partial sh hne _ nw hn]
  simp [applyPartial, hnot, mergeVal]

/-- … **and fields it does not mention**: in a merged item every field the update carries has the update's value,
    every other field keeps the stored value. -/
theorem c02_partial_keeps_fields (sh : Shape) (a b : Item) (i : Nat) (hi : i < b.length) :
    (updateFields sh false a b).get i = match b.get i with | some v => some v | none => a.get i :=
  merge_local_overlay sh a b i hi

/-- merge path without the SPEC's side conditions on string / struct keys: complete, pairwise distinct *numeric*
    identifiers in store and update give complete, pairwise distinct identifiers afterwards, ordered by
    identifier. -/
theorem c02_merge_unique_sorted (sh : Shape) (hne : sh.keys.isEmpty = false) (s1 s2 : List Item)
    (hk1 : ∀ a ∈ s1, Keyed sh a) (hk2 : ∀ b ∈ s2, Keyed sh b)
    (hn1 : (s1.map (hashKey sh)).Nodup) (hn2 : (s2.map (hashKey sh)).Nodup) :
    let out := sortData sh (merge sh false s1 s2).1
    (out.map (hashKey sh)).Nodup ∧ Sorted sh out ∧ ∀ x ∈ out, Keyed sh x :=
  Spine.c02_merge_unique_sorted sh hne s1 s2 hk1 hk2 hn1 hn2

/-- sorting neither loses nor invents items, for any list -/
theorem c02_sort_is_permutation (sh : Shape) (l : List Item) : (sortData sh l).Perm l := sortData_perm sh l

/-- **A selector confines the update**: whatever the selector, the data and the write mode (local or remote),
    the number of items is unchanged and every item the selector does not match is exactly as before. -/
theorem c02_selector_confines (sh : Shape) (remote : Bool) (sel nw : Item) (ex r : List Item) (b : Bool)
    (h : copyToSelected sh remote ex sel nw = .ok (r, b)) :
    r.length = ex.length ∧
    ∀ (i : Nat) (h1 : i < ex.length) (h2 : i < r.length), selectorMatch sh sel ex[i] = .ok false → r[i] = ex[i] :=
  copyToSelected_confines sh remote sel nw ex r b h

example : (match copyToSelected exShape false exStore [some 2] [none, none, some 1, none, none] with
      | .ok x => some x | .panic _ => none) =
    some ([[some 1, some 1, some 0, none, some 3], [some 2, some 1, some 1, none, none]], true) := by decide

/-- **A delete filter removes the matching items**: a local delete with a selector keeps exactly the items the
    selector does not match, in order, and leaves the stored array itself untouched. -/
theorem c02_delete_removes (sh : Shape) (sel : Item) (ex ip out : List Item) (ok : Bool)
    (h : deleteFiltered sh false ex ⟨some sel, none⟩ = .ok (ip, out, ok)) :
    ip = ex ∧ ok = true ∧ out = ex.filter (fun x => selectorMatch sh sel x matches .ok false) :=
  deleteFiltered_selector_local sh sel ex ip out ok h

/-- **… or clears the named fields**: a local delete with elements only clears, in every item, exactly the
    fields the elements value names (`SpecKV.clear`), provided the elements struct mirrors the item struct
    (`shapeOK` of the generated table decides that per type). -/
theorem c02_delete_clears (sh : Shape) (el : Item) (ex : List Item) (hn : ∀ x ∈ ex, sh.elN = x.length) :
    deleteFiltered sh false ex ⟨none, some el⟩ = .ok (ex.map (clear sh el), ex.map (clear sh el), true) := by
  have h := deleteFiltered_el sh el ex
  have hm : ex.map (removeElements sh el) = ex.map (clear sh el) :=
    List.map_congr_left fun a ha => removeElements_eq_clear sh el a (hn a ha)
  unfold deleteFiltered
  rw [h, hm]

example : (match deleteFiltered exShape false exStore ⟨none, some [none, none, some 0, none, some 0]⟩ with
      | .ok x => some x | .panic _ => none) =
    some ([[some 1, some 1, none, none, none], [some 2, some 1, none, none, none]],
          [[some 1, some 1, none, none, none], [some 2, some 1, none, none, none]], true) := by decide

/-! ## applying the same update a second time -/

/-- **Idempotence, merge path, as lists**: with numeric identifiers, applying the same partial update (items
    with complete distinct identifiers) to the result of its first application returns exactly that result. -/
theorem c02_idempotent_partial (sh : Shape) (hne : sh.keys ≠ []) (hu : ∀ k ∈ sh.keys, k.2 = .uint)
    (hk : structKeyLast sh.keys = true) (st nw : List Item) (hs : WF sh st) (hn : WF sh nw) :
    ∀ r, updateList sh false st nw none none = .ok r →
      ∃ r', updateList sh false r.out nw none none = .ok r' ∧ r'.out = r.out ∧ r'.ok = true :=
  idempotent_partial sh hne hu hk st nw hs hn

example : WF exShape exStore ∧ WF exShape exUpdate ∧ exShape.keys ≠ [] :=
  ⟨wf_of_wfData _ _ (by decide), wf_of_wfData _ _ (by decide), by decide⟩

/-- **Idempotence, identifier-less update, as lists** (any shape, any stored list of items of the update item's
    length): laying the same identifier-less item over every stored item a second time changes nothing. -/
theorem c02_idempotent_identifierless (sh : Shape) (st : List Item) (u0 : Item) (rest : List Item)
    (hl : ∀ a ∈ st, u0.length = a.length) (h : hasIdentifiers sh u0 = false) :
    ∀ r, updateList sh false st (u0 :: rest) none none = .ok r →
      ∃ r', updateList sh false r.out (u0 :: rest) none none = .ok r' ∧ r'.out = r.out ∧ r'.ok = true :=
  idempotent_all sh st u0 rest hl h

example : hasIdentifiers exShape [none, none, some 1, none, none] = false ∧
    (match updateList exShape false exStore [[none, none, some 1, none, none]] none none with
     | .ok r => r.out | .panic _ => []) =
      [[some 1, some 1, some 1, none, some 3], [some 2, some 1, some 1, none, none]] := by decide

/-- the SPEC's overlay of maps is idempotent for every shape (string and struct keys included) -/
theorem c02_rules_idempotent_partial (m u : Map) : applyPartial (applyPartial m u) u = applyPartial m u :=
  applyPartial_idem m u

def witShape : Shape := { exShape with selMap := [some 0, none, some 2] }
def witStore : List Item := [[some 1, none, some 0, none, some 3], [some 2, none, some 1, none, none]]
/-- clear field 4 of the items whose field 2 is 1 … -/
def witDelete : Option Filter := some ⟨some [none, none, some 1], some [none, none, none, none, some 0]⟩
/-- … and set field 2 of item 1 to 1 -/
def witUpdate : List Item := [[some 1, none, some 1, none, none]]
def witOnce : List Item := [[some 1, none, some 1, none, some 3], [some 2, none, some 1, none, none]]
def witTwice : List Item := [[some 1, none, some 1, none, none], [some 2, none, some 1, none, none]]

/-- WITNESS: the rules themselves are not idempotent when the delete selector of an update tests a field that
    its partial part changes. First application: item 1 does not match the delete selector, keeps field 4 and
    receives field 2 = 1. Second application: item 1 now matches and loses field 4. Both applications are
    decided by the SPEC, and the engine agrees with the SPEC on both. Hence "applying the same update a second
    time changes nothing" cannot be demanded of delete+partial updates in general; the monitor demands it
    exactly where the SPEC gives the same data twice. -/
theorem c02_rules_not_idempotent_witness :
    notDecided witShape witStore witUpdate none witDelete = none ∧
    tabulate witShape (SpecKV.apply witShape (abs witShape witStore) witUpdate none witDelete) [[1], [2]] = witOnce ∧
    notDecided witShape witOnce witUpdate none witDelete = none ∧
    tabulate witShape (SpecKV.apply witShape (abs witShape witOnce) witUpdate none witDelete) [[1], [2]] = witTwice ∧
    witOnce ≠ witTwice ∧
    (match updateList witShape false witStore witUpdate none witDelete with | .ok r => r.out | .panic _ => []) = witOnce ∧
    (match updateList witShape false witOnce witUpdate none witDelete with | .ok r => r.out | .panic _ => []) = witTwice := by
  decide

/-- the witness above lies outside `idempotentRegion`; the decided example of the first section lies inside -/
example : idempotentRegion witShape witStore witUpdate none witDelete = false ∧
    idempotentRegion exShape exStore exUpdate none exDelete = true ∧
    idempotentRegion exShape exStore [[none, none, some 1, none, none]] (some ⟨some [some 2], none⟩) exDelete = true := by
  decide

/-- **Idempotence as maps** — every kind of identifier, all seven filter shapes: inside `idempotentRegion` the
    second application succeeds, yields well-formed data, and that data is the same map. -/
theorem c02_idempotent_map (sh : Shape) (hk : structKeyLast sh.keys = true) (st nw : List Item) (fp fd : Option Filter)
    (hreg : idempotentRegion sh st nw fp fd = true) :
    ∀ r, updateList sh false st nw fp fd = .ok r →
      ∃ r', updateList sh false r.out nw fp fd = .ok r' ∧ r'.ok = true ∧ wfData sh r'.out = true ∧
        abs sh r'.out = abs sh r.out :=
  idem_map sh hk st nw fp fd hreg

/-- **Idempotence** — numeric identifiers, all seven filter shapes, as LISTS: on every input the SPEC decides and
    inside `idempotentRegion` (the second application is decided and the rules give the same data twice),
    `updateList (updateList st u) u = updateList st u` — whatever the order of the stored data was. -/
theorem c02_idempotent (sh : Shape) (hu : ∀ k ∈ sh.keys, k.2 = .uint) (hk : structKeyLast sh.keys = true)
    (st nw : List Item) (fp fd : Option Filter) (hdec : notDecided sh st nw fp fd = none)
    (hreg : idempotentRegion sh st nw fp fd = true) :
    ∀ r, updateList sh false st nw fp fd = .ok r →
      ∃ r', updateList sh false r.out nw fp fd = .ok r' ∧ r'.out = r.out ∧ r'.ok = true :=
  idem_list sh hu hk st nw fp fd hdec hreg

/-- **Idempotence of selector updates**, as lists, for EVERY kind of identifier, with or without a delete filter:
    the selector path does not sort, so no numeric order is needed. -/
theorem c02_idempotent_selector (sh : Shape) (hk : structKeyLast sh.keys = true) (st nw : List Item)
    (sel : Item) (fd : Option Filter) (hreg : idempotentRegion sh st nw (some ⟨some sel, none⟩) fd = true) :
    ∀ r, updateList sh false st nw (some ⟨some sel, none⟩) fd = .ok r →
      ∃ r', updateList sh false r.out nw (some ⟨some sel, none⟩) fd = .ok r' ∧ r'.out = r.out ∧ r'.ok = true :=
  idem_unsorted sh hk st nw _ fd hreg (Or.inl (by simp))

/-- **Idempotence of delete filters** (selector, elements or both; no data), numeric identifiers, as lists. -/
theorem c02_idempotent_delete (sh : Shape) (hu : ∀ k ∈ sh.keys, k.2 = .uint) (hk : structKeyLast sh.keys = true)
    (st : List Item) (f : Filter) (hdec : notDecided sh st [] none (some f) = none)
    (hreg : idempotentRegion sh st [] none (some f) = true) :
    ∀ r, updateList sh false st [] none (some f) = .ok r →
      ∃ r', updateList sh false r.out [] none (some f) = .ok r' ∧ r'.out = r.out ∧ r'.ok = true :=
  idem_list sh hu hk st [] none (some f) hdec hreg

example : notDecided exShape exStore [] none exDelete = none ∧ idempotentRegion exShape exStore [] none exDelete = true ∧
    idempotentRegion exShape exStore [] none (some ⟨some [some 1], some [none, none, some 0, none, some 0]⟩) = true := by
  decide

/-! ## selectors that match several items; order on multi-key identifiers -/

/-- **Partial update with a selector, any number of matches** (the weaker reading of "confines"): the code stops
    at the first match. The items before it, which do not match, and ALL items after it are exactly as before; the
    first matching item receives the overlay of the update's first item. -/
theorem c02_selector_first_match (sh : Shape) (sel u0 : Item) (pre : List Item) (x : Item) (post : List Item)
    (hpre : ∀ y ∈ pre, selectorMatch sh sel y = .ok false) (hx : selectorMatch sh sel x = .ok true) :
    copyToSelected sh false (pre ++ x :: post) sel u0 = .ok (pre ++ copyNonNil u0 x :: post, true) :=
  copyToSelected_first_match sh sel u0 pre x post hpre hx

/-- … and when no item matches, nothing changes. -/
theorem c02_selector_no_match (sh : Shape) (sel u0 : Item) (ex : List Item)
    (h : ∀ y ∈ ex, selectorMatch sh sel y = .ok false) : copyToSelected sh false ex sel u0 = .ok (ex, true) :=
  copyToSelected_no_match sh sel u0 ex h

example : (match copyToSelected exShape false (exStore ++ exStore) [some 2] [none, none, some 1, none, none] with
      | .ok x => some x.1 | .panic _ => none) =
    some [[some 1, some 1, some 0, none, some 3], [some 2, some 1, some 1, none, none],
          [some 1, some 1, some 0, none, some 3], [some 2, some 1, none, none, none]] := by decide

/-- **Delete with a selector removes ALL matching items**, however many match (the selector defined on every stored
    item): the update returns `SortData` of exactly the items that do not match — an item is in the result if and
    only if it was stored and does not match. -/
theorem c02_delete_removes_all_matches (sh : Shape) (s : Item) (st : List Item)
    (hd : ∀ x ∈ st, selDefined sh s x = true) :
    ∃ r, updateList sh false st [] none (some ⟨some s, none⟩) = .ok r ∧ r.ok = true ∧
      r.out = sortData sh (st.filter (keepUnless sh s)) ∧
      ∀ x, x ∈ r.out ↔ (x ∈ st ∧ selMatches sh s x = false) :=
  delete_removes_all sh s st hd

example : (match updateList witShape false (witStore ++ [[some 3, none, some 1, none, none]]) [] none
        (some ⟨some [none, none, some 1], none⟩) with | .ok r => r.out | .panic _ => []) =
    [[some 1, none, some 0, none, some 3]] := by decide

/-- **`SortData`'s comparator is a strict weak order** on items with complete numeric identifiers (any number of
    key fields): irreflexive, asymmetric, transitive, negatively transitive (so "neither is less" is transitive),
    and items of which neither is less have the SAME identifier (the order on identifiers is total). -/
theorem c02_comparator_strict_weak_order (sh : Shape) (a b c : Item)
    (ha : Keyed sh a) (hb : Keyed sh b) (hc : Keyed sh c) :
    less sh a a = false ∧
    (less sh a b = true → less sh b a = false) ∧
    (less sh a b = true → less sh b c = true → less sh a c = true) ∧
    (less sh a b = false → less sh b c = false → less sh a c = false) ∧
    (less sh a b = false → less sh b a = false → keyOf sh a = keyOf sh b) :=
  ⟨less_irrefl sh a ha, less_asymm sh a b ha hb, less_trans sh a b c ha hb hc, less_negtrans sh a b c ha hb hc,
   less_total sh a b ha hb⟩

/-- the comparator IS the lexicographic order on the tuple of key values … -/
theorem c02_comparator_is_lexicographic (sh : Shape) (a b : Item) (ha : Keyed sh a) (hb : Keyed sh b) :
    less sh a b = lexLt (keyOf sh a) (keyOf sh b) :=
  less_eq_lexLt sh a b ha hb

/-- … first key first: `(x, xs) < (y, ys)` iff `x < y`, or `x = y` and `xs < ys`. -/
theorem c02_lexicographic (x y : Nat) (xs ys : List Nat) :
    lexLt (x :: xs) (y :: ys) = true ↔ x < y ∨ (x = y ∧ lexLt xs ys = true) :=
  lexLt_cons x y xs ys

/-- **Ordered by numeric identifier, multi-key**: after every decided update on ordered data the identifier TUPLES
    of the result increase STRICTLY in lexicographic order along the list (1, 2 or 3 numeric key fields alike). -/
theorem c02_sorted_multikey (sh : Shape) (hu : ∀ k ∈ sh.keys, k.2 = .uint) (hk : structKeyLast sh.keys = true)
    (st nw : List Item) (fp fd : Option Filter) (h : notDecided sh st nw fp fd = none) (hs : Sorted sh st) :
    ∀ r, updateList sh false st nw fp fd = .ok r →
      r.out.Pairwise fun a b => lexLt (keyOf sh a) (keyOf sh b) = true := by
  intro r hr
  obtain ⟨r', hr', _, hwf, _⟩ := refines_decided sh hk st nw fp fd h
  rw [hr] at hr'
  injection hr' with hr'
  subst hr'
  have hw := wf_of_wfData sh _ hwf
  exact strict_of_sorted sh r.out (keyed_of_wf sh hu _ hw) hw.nodup (sorted_decided sh hu hk st nw fp fd h hs r hr)

/-- the shape of `ElectricalConnectionCharacteristicListDataType` (three numeric keys) -/
def ex3Shape : Shape :=
  { n := 7, keys := [(0, .uint), (1, .uint), (2, .uint)], flag := none, selMap := [some 0, some 1, some 2, some 3, some 4],
    elN := 7, elMap := (List.range 7).map some }

example : (match updateList ex3Shape false
      [[some 0, some 1, some 1, none, none, none, none], [some 1, some 0, some 0, none, none, none, none]]
      [[some 0, some 1, some 0, none, none, none, none], [some 0, some 0, some 2, none, none, none, none]] none none with
      | .ok r => r.out.map (keyOf ex3Shape) | .panic _ => []) = [[0, 0, 2], [0, 1, 0], [0, 1, 1], [1, 0, 0]] := by
  decide

/-! ## the identity of items as the code computes it (`hashKey`, a string) -/

/-- **Numeric identifiers (1, 2, 3 … parts), complete or not**: the hash TEXT the code builds — decimal texts of
    the parts joined with `|`, stopping at the first absent part — is equal for two identifiers if and only if the
    parts before the first absent one are equal. So complete identifiers are told apart for all values
    (`12|3` / `1|23`, the largest uint), and an incomplete identifier is identified with every identifier that has
    the same present prefix. -/
theorem c02_hashkey_numeric (xs ys : List (Option Nat)) :
    HashKey.hashText (HashKey.uints xs) = HashKey.hashText (HashKey.uints ys) ↔
      HashKey.presentPrefix xs = HashKey.presentPrefix ys :=
  HashKey.hashText_uints_inj xs ys

/-- complete numeric identifiers: `hashKey` is injective -/
theorem c02_hashkey_numeric_injective (ns ms : List Nat)
    (h : HashKey.hashText (HashKey.uints (ns.map some)) = HashKey.hashText (HashKey.uints (ms.map some))) : ns = ms :=
  HashKey.hashText_complete_uints_inj ns ms h

/-- … and that is exactly what the abstract model (`Spine.hashKey`, used by every other theorem) computes: for a
    shape with numeric identifier fields only, the abstract hash is the present prefix of the item's key parts — so
    two items have the same hash TEXT iff they have the same abstract hash, complete identifiers or not. -/
theorem c02_hashkey_model_is_present_prefix (sh : Shape) (hu : ∀ k ∈ sh.keys, k.2 = .uint) (it : Item) :
    hashKey sh it = HashKey.presentPrefix (sh.keys.map fun k => it.get k.1) := by
  unfold hashKey
  generalize sh.keys = ks at hu
  induction ks with
  | nil => rfl
  | cons k ks ih =>
    obtain ⟨i, kind⟩ := k
    have hk : kind = .uint := hu (i, kind) List.mem_cons_self
    subst hk
    have ih' := ih (fun k hk => hu k (List.mem_cons_of_mem _ hk))
    simp only [hashKey.go, List.map_cons]
    cases it.get i with
    | none => rfl
    | some v => simp [HashKey.presentPrefix, ih']

theorem c02_hashkey_abstraction_sound (sh : Shape) (hu : ∀ k ∈ sh.keys, k.2 = .uint) (a b : Item) :
    HashKey.hashText (HashKey.uints (sh.keys.map fun k => a.get k.1)) =
      HashKey.hashText (HashKey.uints (sh.keys.map fun k => b.get k.1)) ↔ hashKey sh a = hashKey sh b := by
  rw [c02_hashkey_numeric, c02_hashkey_model_is_present_prefix sh hu a, c02_hashkey_model_is_present_prefix sh hu b]

/-- **Number + string identifier** (measurementId + valueType): injective for ALL strings — empty, containing the
    separator, looking like numbers — and an absent string part is told from an empty one. -/
theorem c02_hashkey_number_string_injective (a b : Nat) (s t : Option (List Nat))
    (h : HashKey.hashText [some (.uint a), s.map HashKey.Part.str] =
         HashKey.hashText [some (.uint b), t.map HashKey.Part.str]) : a = b ∧ s = t :=
  HashKey.hashText_uint_str_inj a b s t h

/-- **Address identifiers** (device / entity / feature description lists): the hash text is the address text, and
    the address texts `device`, `device:[e,…]:`, `device:[e,…]:feature` identify device string, entity list and
    feature — for device strings containing any character — up to an absent vs empty device part. -/
theorem c02_hashkey_address_injective (d d' : Option (List Nat)) (e e' : List Nat) (f f' : Option Nat) :
    (HashKey.hashText [some (.struct (HashKey.featText d e f))] = HashKey.hashText [some (.struct (HashKey.featText d' e' f'))] →
      HashKey.devText d = HashKey.devText d' ∧ e = e' ∧ f = f') ∧
    (HashKey.hashText [some (.struct (HashKey.entText d e))] = HashKey.hashText [some (.struct (HashKey.entText d' e'))] →
      HashKey.devText d = HashKey.devText d' ∧ e = e') ∧
    (HashKey.hashText [some (.struct (HashKey.devText d))] = HashKey.hashText [some (.struct (HashKey.devText d'))] →
      HashKey.devText d = HashKey.devText d') := by
  refine ⟨fun h => ?_, fun h => ?_, fun h => ?_⟩
  · have h1 := HashKey.hashText_struct (some (HashKey.featText d e f))
    have h2 := HashKey.hashText_struct (some (HashKey.featText d' e' f'))
    simp only [Option.map_some, Option.getD_some] at h1 h2
    rw [h1, h2] at h
    exact HashKey.featText_inj d d' e e' f f' h
  · have h1 := HashKey.hashText_struct (some (HashKey.entText d e))
    have h2 := HashKey.hashText_struct (some (HashKey.entText d' e'))
    simp only [Option.map_some, Option.getD_some] at h1 h2
    rw [h1, h2] at h
    exact HashKey.entText_inj d d' e e' h
  · have h1 := HashKey.hashText_struct (some (HashKey.devText d))
    have h2 := HashKey.hashText_struct (some (HashKey.devText d'))
    simp only [Option.map_some, Option.getD_some] at h1 h2
    rw [h1, h2] at h
    exact h

/-- COLLISIONS that exist (kernel-checked; replayed on the real code by `updIdentityProbes`): incomplete
    identifiers with the same present prefix — `(1,-,3)` / `(1,-,4)`, and every identifier without its first part —
    and the degenerate address with an absent vs empty device part, which also collides with "no address".
    None involves a complete, non-degenerate identifier. -/
theorem c02_hashkey_collisions :
    HashKey.hashText (HashKey.uints [some 1, none, some 3]) = HashKey.hashText (HashKey.uints [some 1, none, some 4]) ∧
    HashKey.hashText (HashKey.uints [none, some 2, some 3]) = HashKey.hashText (HashKey.uints [none, some 5, some 6]) ∧
    HashKey.hashText [some (.struct (HashKey.devText none))] = HashKey.hashText [some (.struct (HashKey.devText (some [])))] ∧
    HashKey.hashText [some (.struct (HashKey.devText none))] = HashKey.hashText [none] :=
  ⟨HashKey.collision_incomplete_same_prefix.1, HashKey.collision_incomplete_same_prefix.2.1,
   HashKey.collision_empty_device.1, HashKey.collision_empty_device.2⟩

/-- a kind of identifier that would NOT be injective — a string part before another part — does not occur:
    `c02_key_kinds` below decides that over the regenerated table -/
theorem c02_hashkey_string_first_would_collide :
    HashKey.hashText [some (.str [97, 124, 98]), some (.str [99])] =
      HashKey.hashText [some (.str [97]), some (.str [98, 124, 99])] ∧
    HashKey.hashText [some (.str []), some (.uint 1)] = HashKey.hashText [some (.uint 1)] :=
  HashKey.collision_string_before_another_part

/-- **Incomplete identifiers in the data** (what "at most one item per identifier" does NOT cover): the stored item
    `(1,-,3)` and the incoming `(1,-,2)` (second item of a partial update, so the merge path is taken) have the same
    hash; the update overwrites the stored item — its third key part included — instead of adding an item. The
    model and the real code agree on this (corpus of `TestUpdate`); the SPEC does not decide such inputs
    (`notDecided` = stored-data-not-well-formed). -/
theorem c02_partial_identifier_collision :
    (match updateList ex3Shape false [[some 1, none, some 3, none, none, some 0, none]]
        [[some 2, some 2, some 2, none, none, none, none], [some 1, none, some 2, none, none, some 1, none]] none none with
     | .ok r => r.out | .panic _ => []) =
      [[some 1, none, some 2, none, none, some 1, none], [some 2, some 2, some 2, none, none, none, none]] ∧
    (notDecided ex3Shape [[some 1, none, some 3, none, none, some 0, none]]
        [[some 2, some 2, some 2, none, none, none, none], [some 1, none, some 2, none, none, some 1, none]] none none).isSome = true := by
  decide

/-! ## `SortData` on arbitrary items -/

/-- **For ALL lists** — items with missing identifier parts, string or address parts included — `SortData` returns
    a permutation in which no item is less than its left neighbour, and sorting again changes nothing; the
    comparator is asymmetric for all items. (With complete numeric identifiers more holds: `c02_sorted_multikey`,
    `c02_comparator_strict_weak_order`.) -/
theorem c02_sortdata_all_inputs (sh : Shape) (l : List Item) :
    (sortData sh l).Perm l ∧ Adj sh (sortData sh l) ∧ sortData sh (sortData sh l) = sortData sh l ∧
    ∀ a b, less sh a b = true → less sh b a = false :=
  ⟨sortData_perm sh l, sortData_adj sh l, sortData_idem sh l, less_asymm_all sh⟩

/-- WITNESS: with a missing identifier part the comparator is not a weak order — `1` is not less than the item
    without identifier, that item is not less than `0`, yet `0` is less than `1` — and the output of `SortData`
    is not pairwise ordered: `[1, -, 0]` stays as it is. (Only the neighbour property and idempotence above
    survive; for more than 12 items Go's sort is free to return another permutation.) -/
theorem c02_comparator_not_weak_order_with_missing_parts :
    less exShape [none, none, none, none, none] [some 1, none, none, none, none] = false ∧
    less exShape [some 0, none, none, none, none] [none, none, none, none, none] = false ∧
    less exShape [some 0, none, none, none, none] [some 1, none, none, none, none] = true ∧
    sortData exShape [[some 1, none, none, none, none], [none, none, none, none, none], [some 0, none, none, none, none]] =
      [[some 1, none, none, none, none], [none, none, none, none, none], [some 0, none, none, none, none]] := by
  decide

/-- number + string identifiers (measurement lists): the comparator orders by the number and leaves items with the
    same number in the order they had (it never compares strings) -/
example : sortData { exShape with keys := [(0, .uint), (1, .str)] }
      [[some 2, some 1, none, none, none], [some 1, some 5, none, none, none], [some 1, some 3, none, none, none]] =
      [[some 1, some 5, none, none, none], [some 1, some 3, none, none, none], [some 2, some 1, none, none, none]] := by
  decide

/-! ## every registered list type (regenerated tables) -/

/-- every list type of the tree under test has a shape the engine theorems apply to: identifier fields exist
    and are distinct, a struct key comes last, the write-check field exists and is no identifier, selector
    fields are classified and point into the item, the elements struct mirrors the item struct -/
theorem c02_all_shapes : ∀ t ∈ Generated.listTypes, shapeOK t = true := by decide +kernel

/-- the model's `selMap` of every list type, for every way `SelectorMatch` may treat nil item fields and struct
    values (`SelFacts`, probed by the harness on the tree under test), only holds entries the engine family gives a
    meaning: nothing, an item field, `n` ("never carried"), or `n + 1 + i` with `i` an item field (non-comparable
    struct under `!=` behind the nil check) -/
theorem c02_selector_encodings : ∀ t ∈ Generated.listTypes, ∀ f ∈ [SelFacts.mk true false, ⟨false, false⟩, ⟨false, true⟩, ⟨true, true⟩],
    (shapeFor f t).selMap.all (fun e => match e with
      | none => true
      | some i => i ≤ t.shape.n || (!f.nilPanics && !f.structDeep && i - t.shape.n - 1 < t.shape.n)) = true := by
  decide +kernel

/-- on a tree with the nil check and deep comparison (`SelFacts` = ⟨false, true⟩, the repaired `SelectorMatch`)
    no selector on any list type can make `SelectorMatch` panic: every entry is an item field or `n` -/
theorem c02_repaired_selectors_total : ∀ t ∈ Generated.listTypes,
    ∀ (j i : Nat), ((shapeFor ⟨false, true⟩ t).selMap[j]?).join = some i → i ≤ (shapeFor ⟨false, true⟩ t).n := by
  have h : ∀ t ∈ Generated.listTypes, (shapeFor ⟨false, true⟩ t).selMap.all (fun e => match e with
      | none => true | some i => i ≤ (shapeFor ⟨false, true⟩ t).n) = true := by decide +kernel
  intro t ht j i hji
  have := h t ht
  rw [List.all_eq_true] at this
  cases hg : (shapeFor ⟨false, true⟩ t).selMap[j]? with
  | none => rw [hg] at hji; cases hji
  | some e =>
    rw [hg] at hji
    simp only [Option.join_some] at hji
    subst hji
    have := this (some i) (List.mem_of_getElem? hg)
    simpa using this

theorem c02_repaired_selectormatch_never_panics (t : ListType) (ht : t ∈ Generated.listTypes) (c : UCfg)
    (hc : c.selNilPanics = false) (sel it : Item) :
    ∃ b, selectorMatchF c (shapeFor ⟨false, true⟩ t) sel it = .ok b := by
  rw [selectorMatchF_repaired c hc _ sel it (c02_repaired_selectors_total t ht)]
  cases selectorMatch (shapeFor ⟨false, true⟩ t) sel it with
  | ok b => exact ⟨b, rfl⟩
  | panic s => exact ⟨false, rfl⟩

/-- **per class of selector field, on the repaired tree** (`SelFacts` ⟨false, true⟩ = nil check + `DeepEqual`,
    HEAD): a field of class scalar, struct or non-comparable struct is compared with the item field of the same
    name; a field whose item field has another pointer type is compared too (and can never be equal: values of
    different types); a field whose item field is not a pointer gets the entry `n` (never matches, never panics); an
    ignored field takes no part -/
def classEncodedOK (n : Nat) : List (Option Nat) → List SelType → List (Option Nat) → Bool
  | i :: is, t :: ts, e :: es =>
    (match t with
     | .ignored => e == none
     | .nonptr => e == some n
     | _ => e == i && (match i with | some x => x < n | none => false)) && classEncodedOK n is ts es
  | [], [], [] => true
  | _, _, _ => false

theorem c02_repaired_selector_classes : ∀ t ∈ Generated.listTypes,
    classEncodedOK t.shape.n t.shape.selMap t.selTypes (shapeFor ⟨false, true⟩ t).selMap = true := by
  decide +kernel

/-- **the repaired `SelectorMatch` is total and decides equality**, for every list type of the table and every
    class of selector field (struct-typed ones included): it never panics and answers exactly the SPEC's
    `selMatches` — every field the selector sets names an item field that is present and equal. -/
theorem c02_repaired_selectormatch_decides_equality (t : ListType) (ht : t ∈ Generated.listTypes) (c : UCfg)
    (hc : c.selNilPanics = false) (sel it : Item) :
    selectorMatchF c (shapeFor ⟨false, true⟩ t) sel it = .ok (selMatches (shapeFor ⟨false, true⟩ t) sel it) :=
  selectorMatchF_decides c hc _ sel it (c02_repaired_selectors_total t ht)

/-- where the selector is defined on the item (it carries every field the selector names) every member's
    `SelectorMatch` — pinned commit, HEAD — is the same function -/
theorem c02_selectormatch_members_agree (c : UCfg) (sh : Shape) (sel it : Item) (hl : it.length ≤ sh.n)
    (hd : selDefined sh sel it = true) : selectorMatchF c sh sel it = selectorMatch sh sel it :=
  selectorMatchF_defined c sh sel it hl hd

/-- **the kinds of identifier that occur**: every list type of the tree has no identifier, 1–3 numeric parts, a
    number followed by a string, or a single address — exactly the kinds for which `c02_hashkey_*` prove the hash
    text injective on complete identifiers; in particular no string part is followed by another part
    (`c02_hashkey_string_first_would_collide`) -/
theorem c02_key_kinds : ∀ t ∈ Generated.listTypes,
    t.shape.keys.map (·.2) ∈ [[], [.uint], [.uint, .uint], [.uint, .uint, .uint], [.uint, .str], [.struct]] := by
  decide +kernel

/-- the address-typed identifiers are the three address types whose `String()` the model renders -/
theorem c02_struct_key_types : ∀ t ∈ Generated.listTypes, t.shape.keys.map (·.2) = [.struct] →
    t.keyTypes ∈ [["DeviceAddressType"], ["EntityAddressType"], ["FeatureAddressType"]] := by
  decide +kernel

/-- the combined form of DESIGN §8: every list type has a good shape and — unless the translator lists its
    method as failing (`c02_wiring_failing_exact` keeps that list honest) — a well-wired `UpdateList` -/
theorem c02_all_types : ∀ t ∈ Generated.listTypes,
    shapeOK t = true ∧ (t.name ∉ Generated.wiringFailing → wiringOK Generated.wiring t = true) := by
  decide +kernel

/-- hence `c02_refines`, `c02_unique`, `c02_history` hold for the shape of every list type of the table … -/
theorem c02_instances : ∀ t ∈ Generated.listTypes, structKeyLast t.shape.keys = true := by decide +kernel

/-- … and `c02_sorted`, `c02_idempotent_partial` for every list type except exactly these, whose identifiers are
    not all numeric (string or address-struct key parts, or no identifier at all): for them the order among
    items with equal numeric key part is not determined by the statement -/
theorem c02_non_numeric_types :
    (Generated.listTypes.filter fun t => !t.scalar && !numericKeys t).map (·.name) =
      ["MeasurementListDataType", "MeasurementSeriesListDataType", "NetworkManagementDeviceDescriptionListDataType",
       "NetworkManagementEntityDescriptionListDataType", "NetworkManagementFeatureDescriptionListDataType",
       "NodeManagementDestinationListDataType"] := by decide +kernel

/-- **Wiring.** Every `UpdateList` method of a list type that the translator did not put on the generated list
    `wiringFailing` reads the list field of its own type from the asserted `newList`, passes that same field
    of the receiver to the engine with its own parameters in order, assigns the engine's result to that same
    field only under `success && persist`, and returns the engine's result and success flag. -/
theorem c02_wiring : ∀ t ∈ Generated.listTypes, t.name ∉ Generated.wiringFailing →
    wiringOK Generated.wiring t = true := by decide +kernel

/-- `wiringFailing` is exact: a list type is on it if and only if its row fails — so the list can neither hide a
    failing row nor excuse a good one. On the pinned tree it holds the three methods of
    `model/identification_additions.go` that return `persist` instead of the data; the harness reports every
    entry as a SPEC failure (`updatelist-returns-persist-flag:<Type>` once reproduced on the real code). -/
theorem c02_wiring_failing_exact : ∀ t ∈ Generated.listTypes,
    (t.name ∈ Generated.wiringFailing ↔ wiringOK Generated.wiring t = false) := by decide +kernel

/-- every method named `UpdateList` belongs to a list type of the table, and vice versa -/
theorem c02_wiring_covers :
    (∀ w ∈ Generated.wiring, Generated.listTypes.any (·.name == w.recv) = true) ∧
    (∀ t ∈ Generated.listTypes, Generated.wiring.any (·.recv == t.name) = true) ∧
    (Generated.wiring.map (·.recv)).Nodup ∧
    Generated.listTypes.length = Generated.listTypeCount ∧ Generated.wiring.length = Generated.wiringCount := by
  decide +kernel

/-- the example shape used above is the row of `LoadControlLimitListDataType` -/
theorem c02_example_is_a_row :
    (Generated.listTypes.find? (·.name == "LoadControlLimitListDataType")).map (·.shape.keys) = some exShape.keys ∧
    (Generated.listTypes.find? (·.name == "LoadControlLimitListDataType")).map (·.shape.elMap) = some exShape.elMap ∧
    (Generated.listTypes.find? (·.name == "LoadControlLimitListDataType")).map (·.shape.flag) = some exShape.flag := by
  decide +kernel

/-- The driver runs a member of the engine family `Spine.UpdateF` selected by probing the defect flags of the
    C04 / C05 engine sites on the tree under test. With all flags on that member IS the code as written at the
    pinned commit, i.e. the functions every theorem above speaks about; a repaired site switches one flag off and
    only changes behaviour on the inputs that site is about (remote writes, a selector on an item without the
    selected field, a selector with an empty list) — none of which the C02 theorems' hypotheses admit. -/
theorem c02_family_member_as_written (sh : Shape) (remote persist fpNil fdNil : Bool) (store nw : List Item)
    (fp fd : Option Filter) :
    updateListF .asWritten sh remote store nw fp fd = updateList sh remote store nw fp fd ∧
    updateDataF .asWritten sh remote persist fpNil fdNil store nw fp fd
      = updateData sh remote persist fpNil fdNil store nw fp fd :=
  ⟨updateListF_asWritten sh remote store nw fp fd, updateDataF_asWritten sh remote persist fpNil fdNil store nw fp fd⟩

/-- **Every member of the family on the inputs the SPEC decides.** Whatever the defect flags — all on (the pinned
    commit), all off (`cfg 0 0 0 0 0`, the repaired HEAD), or any mixture — a local update the SPEC decides is
    computed exactly as by `updateList`, through the per-type wrapper and `FunctionData.UpdateData` as well.
    Hence `c02_refines`, `c02_unique`, `c02_sorted`, `c02_sorted_multikey`, `c02_history`, `c02_idempotent*`
    are theorems about the member the check runs against HEAD. -/
theorem c02_every_member_on_decided (c : UCfg) (sh : Shape) (st nw : List Item) (fp fd : Option Filter)
    (h : notDecided sh st nw fp fd = none) (persist fpNil fdNil : Bool) :
    updateListF c sh false st nw fp fd = updateList sh false st nw fp fd ∧
    updateStoreF c sh false persist st nw fp fd = updateStore sh false persist st nw fp fd ∧
    updateDataF c sh false persist fpNil fdNil st nw fp fd = updateData sh false persist fpNil fdNil st nw fp fd := by
  have h1 := updateListF_decided c sh st nw fp fd h
  have h2 : updateStoreF c sh false persist st nw fp fd = updateStore sh false persist st nw fp fd := by
    unfold updateStoreF updateStore
    rw [h1]
    cases updateList sh false st nw fp fd <;> rfl
  refine ⟨h1, h2, ?_⟩
  unfold updateDataF updateData
  rw [h2]
  cases updateStore sh false persist st nw fp fd <;> rfl

/-- the member HEAD probes to -/
def headMember : UCfg :=
  { mergeStrict := false, selNilPanics := false, emptySelPanics := false, inplaceAltersFlag := false, deleteStrict := false }

example : (match updateListF headMember exShape false exStore exUpdate none exDelete with
     | .ok r => r.out | .panic _ => []) =
      [[some 0, none, none, none, some 7], [some 1, some 1, some 1, none, some 3]] := by decide

/-! ## reply, notify, local API: every entry path feeds the one engine (regenerated from the tree's SSA form) -/

/-- **Every way into the store**, over the regenerated table: each row — an entry point of package `spine`
    (`FeatureLocal.HandleMessage` and `NodeManagement.HandleMessage` per command classifier, `FeatureLocal.SetData`,
    `FeatureLocal.UpdateData`, `FeatureLocal.ApproveOrDenyWrite`, `FeatureRemote.UpdateData`) reaching the call of
    `FunctionDataInterface.UpdateDataAny` — hands over what the model assumes (`Paths.pathOK`): reply, notify and the
    local API `remoteWrite = false` and `persist = true`; a write `remoteWrite = true`, `persist = true`;
    `FeatureRemote.UpdateData` its own `persist`; the filters of the message resp. of the caller, or none; and
    every row has exactly one call site. -/
theorem c02_entry_paths : ∀ p ∈ Generated.updPaths, Paths.pathOK p = true ∧ p.sites = 1 := by decide +kernel

/-- **… and there is no other way**: every call site of `UpdateDataAny` in the module is reached from these entry
    points, and the rows of the statement's three kinds of path exist. -/
theorem c02_entry_paths_cover :
    Generated.updSinkSites = Generated.updSinkSitesCovered ∧ 0 < Generated.updSinkSites ∧
    ∀ e ∈ Paths.Entry.all, (Generated.updPaths.any e.covers) = true := by decide +kernel

/-- **The store hands the arguments on**: `FunctionData.UpdateDataAny` calls `UpdateData` once, with its five
    parameters in order; `UpdateData` calls `model.Updater.UpdateList` once, with its five parameters in order
    (the per-type methods' wiring into the generic engine is `c02_wiring`). -/
theorem c02_store_hands_arguments_on :
    Generated.storeAnyToUpdate = [["p0", "p1", "p2", "p3", "p4"]] ∧
    Generated.storeUpdateToList = [["p0", "p1", "p2", "p3", "p4"]] := by decide +kernel

/-- reply, notify, `FeatureLocal.UpdateData`, `FeatureLocal.SetData`: one and the same `(remoteWrite, persist)` -/
theorem c02_entry_flags : ∀ e : Paths.Entry, Paths.entryFlags Generated.updPaths e = some (false, true) := by
  intro e
  cases e <;> decide +kernel

/-- **Histories through any mixture of entry paths**: the stored data after a sequence of decided restricted
    updates, each arriving as reply, as notify, or through the local API, is the data `c02_history` speaks about —
    one item per identifier, equal as a map to the fold of the SPEC rules — because every path runs the same engine
    call with the same arguments. -/
theorem c02_history_any_entry_path (sh : Shape) (hk : structKeyLast sh.keys = true) (us : List (Paths.Entry × Upd))
    (st : List Item) (hw : wfData sh st = true) (hd : DecidedAll sh st (us.map (·.2))) :
    ∃ l, Paths.runVia Generated.updPaths sh st us = some l ∧ wfData sh l = true ∧
      abs sh l = runSpec sh (abs sh st) (us.map (·.2)) := by
  rw [Paths.runVia_eq_runStore Generated.updPaths c02_entry_flags sh us st]
  exact history_refines sh hk (us.map (·.2)) st hw hd

/-- non-vacuity: the partial update of the first section arriving as a notify, then a delete through the local
    API; and what a table with a path that stores as a remote write would do to `entryFlags` -/
example : Paths.runVia Generated.updPaths exShape exStore [(.notify, ⟨exUpdate, none, none⟩), (.localUpdate, ⟨[], none, exDelete⟩)] =
      some [[some 0, none, none, none, some 7], [some 1, some 1, some 1, none, some 3]] ∧
    Paths.entryFlags [⟨"FeatureLocal", "HandleMessage", ["notify"], "true", "true", "nil", "nil", 1⟩] .notify = some (true, true) ∧
    Paths.pathOK ⟨"FeatureLocal", "HandleMessage", ["notify"], "true", "true", "nil", "nil", 1⟩ = false := by
  decide +kernel

end Spine.Props.C02
