import Spine.StoreF
import Spine.C02Refine
import Spine.Store
import Spine.Generated.Shapes
import Spine.Generated.Wiring
/-!
# C02 — replicated function data follows the SPINE restricted-exchange update rules

Property theorems only. Lemmas: `Spine/UpdateThm.lean`, `SortThm.lean`, `C02Thm.lean`, `SelectThm.lean`,
`C02Refine.lean`. Model: `Spine/Update.lean` (transcription of `model/update.go` + `model/collection_operations.go`
over `Item := List (Option Nat)` with one `Shape` per list type), `Spine/Store.lean` (`FunctionData.UpdateData`).
SPEC: `Spine/SpecKV.lean` — data as a map identifier → item, the cmdOption rules as overlay / restrict / erase.
Tables regenerated from the tree under test on every run: `Spine/Generated/Shapes.lean` (G3),
`Spine/Generated/Wiring.lean` (G4); row predicates in `Spine/C02Tables.lean`.

**Proved, for every shape (hence every list type of the table), all stored lists, all updates, no bound on sizes**
* `c02_refines` — on every input the SPEC decides (`notDecided … = none`: stored data with complete, pairwise
  distinct identifiers; update items with distinct complete identifiers, or one identifier-less item, or a
  selector matching at most one item; delete filter with selector and/or elements that name no identifier;
  all seven filter shapes) a local update succeeds and its result, as a map, is `SpecKV.apply` of the stored map;
  the result is again well-formed. Corollaries `c02_unique`, `c02_partial_keeps_unmentioned`.
* `c02_sorted` — numeric identifiers: ordered data stays ordered; the merge path orders whatever it gets.
* `c02_history`, `c02_history_sorted` — the same along any sequence of decided updates through the per-type
  wrapper: stored data = fold of the rules.
* `c02_idempotent_partial`, `c02_idempotent_identifierless` — list-level: re-applying a partial update
  (merge path; identifier-less item over all) returns the same list.
* the four clauses of the statement on the engine functions themselves, with weaker hypotheses than
  `c02_refines`: `c02_full_replaces`, `c02_merge_unique_sorted`, `c02_selector_confines` (any number of
  matches, remote writes included), `c02_delete_removes`, `c02_delete_clears`.
* `c02_all_shapes`, `c02_wiring`, `c02_wiring_failing_exact`, `c02_instances` — decided over the regenerated
  tables: every list type has a shape the theorems apply to; every `UpdateList` method outside the generated
  list `wiringFailing` reads, passes and assigns one list field, persists only under `success && persist` and
  returns the data; `wiringFailing` is exactly the set of rows that do not (three on the pinned tree).

* `c02_selector_encodings`, `c02_repaired_selectors_total`, `c02_repaired_selectormatch_never_panics` — how the
  selector fields of every list type are encoded for the model under each behaviour of `SelectorMatch`
  (`Tables.SelFacts`, probed on the tree: nil item field ⇒ panic / no match; struct values compared with `!=` /
  deeply), and that with nil check + deep comparison no selector on any list type can make `SelectorMatch` panic.

**Refuted (kernel-checked witnesses)**
* `c02_full_sorted_refuted` — a full update is stored as received: unordered input stays unordered
  (finding `fastpath-stores-as-received`); `c02_full_sorted_partial` is the region where the clause holds.
* `c02_rules_not_idempotent_witness` — the *rules themselves* are not idempotent when a delete selector tests a
  field the partial part of the same update changes; the clause "a second application changes nothing" is
  therefore demanded (and monitored) only where the SPEC itself gives the same data twice.

**Not proved here** (covered by correspondence + monitor only): list-level idempotence of selector updates and of
delete filters (with or without a partial part);
inputs the SPEC does not decide (duplicate or missing identifiers, selectors matching several items, elements
naming an identifier, identifier-less types): there only the clauses above with weaker hypotheses apply;
remote writes (`remoteWrite = true`, C04); panics (C05); sharing of backing arrays (C11).
-/
namespace Spine.Props.C02
open Spine Spine.SpecKV Spine.Tables

/-! ## the engine refines the SPEC -/

/-- **Refinement.** For every shape whose struct-typed key (if any) is the last key, every stored list, update
    list and pair of filters that the SPEC decides: the local update succeeds, the result has complete, pairwise
    distinct identifiers again, and read as a map identifier → item it equals the SPEC's
    `apply` — delete first; then overlay by identifier / lay the identifier-less item over all / lay it over the
    selected item. -/
theorem c02_refines (sh : Shape) (hk : structKeyLast sh.keys = true)
    (st nw : List Item) (fp fd : Option Filter) (h : notDecided sh st nw fp fd = none) :
    ∃ r, updateList sh false st nw fp fd = .ok r ∧ r.ok = true ∧ wfData sh r.out = true ∧
      abs sh r.out = SpecKV.apply sh (abs sh st) nw fp fd :=
  refines_decided sh hk st nw fp fd h

/-- the shape of `LoadControlLimitListDataType` (row of the generated table, see `c02_example_is_a_row`) -/
def exShape : Shape :=
  { n := 5, keys := [(0, .uint)], flag := some 1, selMap := [some 0], elN := 5, elMap := [some 0, some 1, some 2, some 3, some 4] }
def exStore : List Item := [[some 1, some 1, some 0, none, some 3], [some 2, some 1, none, none, none]]
/-- delete item 2, partial update of item 1 and a new item 0 -/
def exUpdate : List Item := [[some 1, none, some 1, none, none], [some 0, none, none, none, some 7]]
def exDelete : Option Filter := some ⟨some [some 2], none⟩

/-- non-vacuity: a decided delete+partial update; the engine's result and the SPEC's map tabulated -/
example : notDecided exShape exStore exUpdate none exDelete = none ∧
    (match updateList exShape false exStore exUpdate none exDelete with
     | .ok r => r.out | .panic _ => []) =
      [[some 0, none, none, none, some 7], [some 1, some 1, some 1, none, some 3]] ∧
    tabulate exShape (SpecKV.apply exShape (abs exShape exStore) exUpdate none exDelete)
      ((exStore ++ exUpdate).map (keyOf exShape)) =
      [[some 0, none, none, none, some 7], [some 1, some 1, some 1, none, some 3]] := by decide

/-- **At most one item per identifier** after every decided update. -/
theorem c02_unique (sh : Shape) (hk : structKeyLast sh.keys = true)
    (st nw : List Item) (fp fd : Option Filter) (h : notDecided sh st nw fp fd = none) :
    ∀ r, updateList sh false st nw fp fd = .ok r → (r.out.map (keyOf sh)).Nodup := by
  intro r hr
  obtain ⟨r', hr', _, hwf, _⟩ := refines_decided sh hk st nw fp fd h
  rw [hr] at hr'
  injection hr' with hr'
  subst hr'
  exact (wf_of_wfData sh _ hwf).nodup

/-- **Ordered by numeric identifier.** With numeric identifiers, ordered data stays ordered under every decided
    update (on the merge path the result is ordered whatever the order before: `c02_merge_unique_sorted`). -/
theorem c02_sorted (sh : Shape) (hu : ∀ k ∈ sh.keys, k.2 = .uint) (hk : structKeyLast sh.keys = true)
    (st nw : List Item) (fp fd : Option Filter) (h : notDecided sh st nw fp fd = none) (hs : Sorted sh st) :
    ∀ r, updateList sh false st nw fp fd = .ok r → Sorted sh r.out :=
  sorted_decided sh hu hk st nw fp fd h hs

example : (∀ k ∈ exShape.keys, k.2 = .uint) ∧ structKeyLast exShape.keys = true ∧
    List.Pairwise (fun a b => less exShape b a = false) exStore := by decide

/-- **Histories.** After any sequence of local persisting updates through the per-type wrapper, each decided by
    the SPEC at the data it meets, the stored data has one item per identifier and equals, as a map, the fold of
    the SPEC rules over the sequence. -/
theorem c02_history (sh : Shape) (hk : structKeyLast sh.keys = true) (us : List Upd) (st : List Item)
    (hw : wfData sh st = true) (hd : DecidedAll sh st us) :
    ∃ l, runStore sh st us = some l ∧ wfData sh l = true ∧ abs sh l = runSpec sh (abs sh st) us :=
  history_refines sh hk us st hw hd

/-- … and stays ordered by numeric identifier. -/
theorem c02_history_sorted (sh : Shape) (hu : ∀ k ∈ sh.keys, k.2 = .uint) (hk : structKeyLast sh.keys = true)
    (us : List Upd) (st : List Item) (hs : Sorted sh st) (hd : DecidedAll sh st us) :
    ∀ l, runStore sh st us = some l → Sorted sh l :=
  history_sorted sh hu hk us st hs hd

example : DecidedAll exShape exStore [⟨exUpdate, none, none⟩] := ⟨by decide, fun _ _ _ _ => trivial⟩

/-- non-vacuity: a two-step history (partial update, then delete by selector) that runs and is decided at
    its first step -/
example : runStore exShape exStore [⟨exUpdate, none, none⟩, ⟨[], none, exDelete⟩] =
      some [[some 0, none, none, none, some 7], [some 1, some 1, some 1, none, some 3]] ∧
    notDecided exShape exStore exUpdate none none = none := by decide

/-! ## the four clauses of the statement -/

/-- **A full update replaces the data** (`FunctionData.UpdateData` without filters, persisting): whatever was
    stored, afterwards exactly the received list is stored. -/
theorem c02_full_replaces (sh : Shape) (remote : Bool) (st nw : List Item) (fp fd : Option Filter) :
    updateData sh remote true true true st nw fp fd = .ok (nw, true) := by
  simp [updateData]

/-- REFUTED on the code as written (finding `fastpath-stores-as-received`): "the result is ordered by numeric
    identifier" after a full update — the list is stored as received. -/
theorem c02_full_sorted_refuted :
    ∃ nw, wfData exShape nw = true ∧
      ∀ l ok, updateData exShape false true true true [] nw none none = .ok (l, ok) → ¬ Sorted exShape l := by
  refine ⟨[[some 2, none, none, none, none], [some 1, none, none, none, none]], by decide, ?_⟩
  intro l ok h
  simp only [updateData, Bool.and_self, if_true, Outcome.ok.injEq, Prod.mk.injEq] at h
  rw [← h.1]
  unfold Sorted
  decide

/-- the region where the clause does hold for full updates: an ordered, well-formed list is stored ordered and
    well-formed (trivially: it is stored as received) -/
theorem c02_full_sorted_partial (sh : Shape) (remote : Bool) (st nw : List Item) (fp fd : Option Filter)
    (hw : wfData sh nw = true) (hs : Sorted sh nw) :
    ∃ l, updateData sh remote true true true st nw fp fd = .ok (l, true) ∧ wfData sh l = true ∧ Sorted sh l :=
  ⟨nw, c02_full_replaces sh remote st nw fp fd, hw, hs⟩

/-- **A partial update merges by identifier, keeping items it does not mention**: an identifier the update does
    not carry maps to the same item before and after. -/
theorem c02_partial_keeps_unmentioned (sh : Shape) (hk : structKeyLast sh.keys = true) (hne : sh.keys ≠ [])
    (st nw : List Item) (hs : WF sh st) (hn : WF sh nw) (k : Key) (hnot : abs sh nw k = none) :
    ∃ r, updateList sh false st nw none none = .ok r ∧ abs sh r.out k = abs sh st k := by
  obtain ⟨r, hr, _, _, habs⟩ := refines_partial sh hk hne st nw hs hn
  refine ⟨r, hr, ?_⟩
  rw [habs]
  simp only [SpecKV.apply]
  rw [applyData_partial sh hne _ nw hn]
  simp [applyPartial, hnot, mergeVal]

/-- … **and fields it does not mention**: in a merged item every field the update carries has the update's value,
    every other field keeps the stored value. -/
theorem c02_partial_keeps_fields (sh : Shape) (a b : Item) (i : Nat) (hi : i < b.length) :
    (updateFields sh false a b).get i = match b.get i with | some v => some v | none => a.get i :=
  merge_local_overlay sh a b i hi

/-- merge path without the SPEC's side conditions on string / struct keys: complete, pairwise distinct *numeric*
    identifiers in store and update give complete, pairwise distinct identifiers afterwards, ordered by
    identifier. -/
theorem c02_merge_unique_sorted (sh : Shape) (hne : sh.keys.isEmpty = false) (s1 s2 : List Item)
    (hk1 : ∀ a ∈ s1, Keyed sh a) (hk2 : ∀ b ∈ s2, Keyed sh b)
    (hn1 : (s1.map (hashKey sh)).Nodup) (hn2 : (s2.map (hashKey sh)).Nodup) :
    let out := sortData sh (merge sh false s1 s2).1
    (out.map (hashKey sh)).Nodup ∧ Sorted sh out ∧ ∀ x ∈ out, Keyed sh x :=
  Spine.c02_merge_unique_sorted sh hne s1 s2 hk1 hk2 hn1 hn2

/-- sorting neither loses nor invents items, for any list -/
theorem c02_sort_is_permutation (sh : Shape) (l : List Item) : (sortData sh l).Perm l := sortData_perm sh l

/-- **A selector confines the update**: whatever the selector, the data and the write mode (local or remote),
    the number of items is unchanged and every item the selector does not match is exactly as before. -/
theorem c02_selector_confines (sh : Shape) (remote : Bool) (sel nw : Item) (ex r : List Item) (b : Bool)
    (h : copyToSelected sh remote ex sel nw = .ok (r, b)) :
    r.length = ex.length ∧
    ∀ (i : Nat) (h1 : i < ex.length) (h2 : i < r.length), selectorMatch sh sel ex[i] = .ok false → r[i] = ex[i] :=
  copyToSelected_confines sh remote sel nw ex r b h

example : (match copyToSelected exShape false exStore [some 2] [none, none, some 1, none, none] with
      | .ok x => some x | .panic _ => none) =
    some ([[some 1, some 1, some 0, none, some 3], [some 2, some 1, some 1, none, none]], true) := by decide

/-- **A delete filter removes the matching items**: a local delete with a selector keeps exactly the items the
    selector does not match, in order, and leaves the stored array itself untouched. -/
theorem c02_delete_removes (sh : Shape) (sel : Item) (ex ip out : List Item) (ok : Bool)
    (h : deleteFiltered sh false ex ⟨some sel, none⟩ = .ok (ip, out, ok)) :
    ip = ex ∧ ok = true ∧ out = ex.filter (fun x => selectorMatch sh sel x matches .ok false) :=
  deleteFiltered_selector_local sh sel ex ip out ok h

/-- **… or clears the named fields**: a local delete with elements only clears, in every item, exactly the
    fields the elements value names (`SpecKV.clear`), provided the elements struct mirrors the item struct
    (`shapeOK` of the generated table decides that per type). -/
theorem c02_delete_clears (sh : Shape) (el : Item) (ex : List Item) (hn : ∀ x ∈ ex, sh.elN = x.length) :
    deleteFiltered sh false ex ⟨none, some el⟩ = .ok (ex.map (clear sh el), ex.map (clear sh el), true) := by
  have h := deleteFiltered_el sh el ex
  have hm : ex.map (removeElements sh el) = ex.map (clear sh el) :=
    List.map_congr_left fun a ha => removeElements_eq_clear sh el a (hn a ha)
  unfold deleteFiltered
  rw [h, hm]

example : (match deleteFiltered exShape false exStore ⟨none, some [none, none, some 0, none, some 0]⟩ with
      | .ok x => some x | .panic _ => none) =
    some ([[some 1, some 1, none, none, none], [some 2, some 1, none, none, none]],
          [[some 1, some 1, none, none, none], [some 2, some 1, none, none, none]], true) := by decide

/-! ## applying the same update a second time -/

/-- **Idempotence, merge path, as lists**: with numeric identifiers, applying the same partial update (items
    with complete distinct identifiers) to the result of its first application returns exactly that result. -/
theorem c02_idempotent_partial (sh : Shape) (hne : sh.keys ≠ []) (hu : ∀ k ∈ sh.keys, k.2 = .uint)
    (hk : structKeyLast sh.keys = true) (st nw : List Item) (hs : WF sh st) (hn : WF sh nw) :
    ∀ r, updateList sh false st nw none none = .ok r →
      ∃ r', updateList sh false r.out nw none none = .ok r' ∧ r'.out = r.out ∧ r'.ok = true :=
  idempotent_partial sh hne hu hk st nw hs hn

example : WF exShape exStore ∧ WF exShape exUpdate ∧ exShape.keys ≠ [] :=
  ⟨wf_of_wfData _ _ (by decide), wf_of_wfData _ _ (by decide), by decide⟩

/-- **Idempotence, identifier-less update, as lists** (any shape, any stored list of items of the update item's
    length): laying the same identifier-less item over every stored item a second time changes nothing. -/
theorem c02_idempotent_identifierless (sh : Shape) (st : List Item) (u0 : Item) (rest : List Item)
    (hl : ∀ a ∈ st, u0.length = a.length) (h : hasIdentifiers sh u0 = false) :
    ∀ r, updateList sh false st (u0 :: rest) none none = .ok r →
      ∃ r', updateList sh false r.out (u0 :: rest) none none = .ok r' ∧ r'.out = r.out ∧ r'.ok = true :=
  idempotent_all sh st u0 rest hl h

example : hasIdentifiers exShape [none, none, some 1, none, none] = false ∧
    (match updateList exShape false exStore [[none, none, some 1, none, none]] none none with
     | .ok r => r.out | .panic _ => []) =
      [[some 1, some 1, some 1, none, some 3], [some 2, some 1, some 1, none, none]] := by decide

/-- the SPEC's overlay of maps is idempotent for every shape (string and struct keys included) -/
theorem c02_rules_idempotent_partial (m u : Map) : applyPartial (applyPartial m u) u = applyPartial m u :=
  applyPartial_idem m u

def witShape : Shape := { exShape with selMap := [some 0, none, some 2] }
def witStore : List Item := [[some 1, none, some 0, none, some 3], [some 2, none, some 1, none, none]]
/-- clear field 4 of the items whose field 2 is 1 … -/
def witDelete : Option Filter := some ⟨some [none, none, some 1], some [none, none, none, none, some 0]⟩
/-- … and set field 2 of item 1 to 1 -/
def witUpdate : List Item := [[some 1, none, some 1, none, none]]
def witOnce : List Item := [[some 1, none, some 1, none, some 3], [some 2, none, some 1, none, none]]
def witTwice : List Item := [[some 1, none, some 1, none, none], [some 2, none, some 1, none, none]]

/-- WITNESS: the rules themselves are not idempotent when the delete selector of an update tests a field that
    its partial part changes. First application: item 1 does not match the delete selector, keeps field 4 and
    receives field 2 = 1. Second application: item 1 now matches and loses field 4. Both applications are
    decided by the SPEC, and the engine agrees with the SPEC on both. Hence "applying the same update a second
    time changes nothing" cannot be demanded of delete+partial updates in general; the monitor demands it
    exactly where the SPEC gives the same data twice. -/
theorem c02_rules_not_idempotent_witness :
    notDecided witShape witStore witUpdate none witDelete = none ∧
    tabulate witShape (SpecKV.apply witShape (abs witShape witStore) witUpdate none witDelete) [[1], [2]] = witOnce ∧
    notDecided witShape witOnce witUpdate none witDelete = none ∧
    tabulate witShape (SpecKV.apply witShape (abs witShape witOnce) witUpdate none witDelete) [[1], [2]] = witTwice ∧
    witOnce ≠ witTwice ∧
    (match updateList witShape false witStore witUpdate none witDelete with | .ok r => r.out | .panic _ => []) = witOnce ∧
    (match updateList witShape false witOnce witUpdate none witDelete with | .ok r => r.out | .panic _ => []) = witTwice := by
  decide

/-! ## every registered list type (regenerated tables) -/

/-- every list type of the tree under test has a shape the engine theorems apply to: identifier fields exist
    and are distinct, a struct key comes last, the write-check field exists and is no identifier, selector
    fields are classified and point into the item, the elements struct mirrors the item struct -/
theorem c02_all_shapes : ∀ t ∈ Generated.listTypes, shapeOK t = true := by decide +kernel

/-- the model's `selMap` of every list type, for every way `SelectorMatch` may treat nil item fields and struct
    values (`SelFacts`, probed by the harness on the tree under test), only holds entries the engine family gives a
    meaning: nothing, an item field, `n` ("never carried"), or `n + 1 + i` with `i` an item field (non-comparable
    struct under `!=` behind the nil check) -/
theorem c02_selector_encodings : ∀ t ∈ Generated.listTypes, ∀ f ∈ [SelFacts.mk true false, ⟨false, false⟩, ⟨false, true⟩, ⟨true, true⟩],
    (shapeFor f t).selMap.all (fun e => match e with
      | none => true
      | some i => i ≤ t.shape.n || (!f.nilPanics && !f.structDeep && i - t.shape.n - 1 < t.shape.n)) = true := by
  decide +kernel

/-- on a tree with the nil check and deep comparison (`SelFacts` = ⟨false, true⟩, the repaired `SelectorMatch`)
    no selector on any list type can make `SelectorMatch` panic: every entry is an item field or `n` -/
theorem c02_repaired_selectors_total : ∀ t ∈ Generated.listTypes,
    ∀ (j i : Nat), ((shapeFor ⟨false, true⟩ t).selMap[j]?).join = some i → i ≤ (shapeFor ⟨false, true⟩ t).n := by
  have h : ∀ t ∈ Generated.listTypes, (shapeFor ⟨false, true⟩ t).selMap.all (fun e => match e with
      | none => true | some i => i ≤ (shapeFor ⟨false, true⟩ t).n) = true := by decide +kernel
  intro t ht j i hji
  have := h t ht
  rw [List.all_eq_true] at this
  cases hg : (shapeFor ⟨false, true⟩ t).selMap[j]? with
  | none => rw [hg] at hji; cases hji
  | some e =>
    rw [hg] at hji
    simp only [Option.join_some] at hji
    subst hji
    have := this (some i) (List.mem_of_getElem? hg)
    simpa using this

theorem c02_repaired_selectormatch_never_panics (t : ListType) (ht : t ∈ Generated.listTypes) (c : UCfg)
    (hc : c.selNilPanics = false) (sel it : Item) :
    ∃ b, selectorMatchF c (shapeFor ⟨false, true⟩ t) sel it = .ok b := by
  rw [selectorMatchF_repaired c hc _ sel it (c02_repaired_selectors_total t ht)]
  cases selectorMatch (shapeFor ⟨false, true⟩ t) sel it with
  | ok b => exact ⟨b, rfl⟩
  | panic s => exact ⟨false, rfl⟩

/-- the combined form of DESIGN §8: every list type has a good shape and — unless the translator lists its
    method as failing (`c02_wiring_failing_exact` keeps that list honest) — a well-wired `UpdateList` -/
theorem c02_all_types : ∀ t ∈ Generated.listTypes,
    shapeOK t = true ∧ (t.name ∉ Generated.wiringFailing → wiringOK Generated.wiring t = true) := by
  decide +kernel

/-- hence `c02_refines`, `c02_unique`, `c02_history` hold for the shape of every list type of the table … -/
theorem c02_instances : ∀ t ∈ Generated.listTypes, structKeyLast t.shape.keys = true := by decide +kernel

/-- … and `c02_sorted`, `c02_idempotent_partial` for every list type except exactly these, whose identifiers are
    not all numeric (string or address-struct key parts, or no identifier at all): for them the order among
    items with equal numeric key part is not determined by the statement -/
theorem c02_non_numeric_types :
    (Generated.listTypes.filter fun t => !t.scalar && !numericKeys t).map (·.name) =
      ["MeasurementListDataType", "MeasurementSeriesListDataType", "NetworkManagementDeviceDescriptionListDataType",
       "NetworkManagementEntityDescriptionListDataType", "NetworkManagementFeatureDescriptionListDataType",
       "NodeManagementDestinationListDataType"] := by decide +kernel

/-- **Wiring.** Every `UpdateList` method of a list type that the translator did not put on the generated list
    `wiringFailing` reads the list field of its own type from the asserted `newList`, passes that same field
    of the receiver to the engine with its own parameters in order, assigns the engine's result to that same
    field only under `success && persist`, and returns the engine's result and success flag. -/
theorem c02_wiring : ∀ t ∈ Generated.listTypes, t.name ∉ Generated.wiringFailing →
    wiringOK Generated.wiring t = true := by decide +kernel

/-- `wiringFailing` is exact: a list type is on it if and only if its row fails — so the list can neither hide a
    failing row nor excuse a good one. On the pinned tree it holds the three methods of
    `model/identification_additions.go` that return `persist` instead of the data; the harness reports every
    entry as a SPEC failure (`updatelist-returns-persist-flag:<Type>` once reproduced on the real code). -/
theorem c02_wiring_failing_exact : ∀ t ∈ Generated.listTypes,
    (t.name ∈ Generated.wiringFailing ↔ wiringOK Generated.wiring t = false) := by decide +kernel

/-- every method named `UpdateList` belongs to a list type of the table, and vice versa -/
theorem c02_wiring_covers :
    (∀ w ∈ Generated.wiring, Generated.listTypes.any (·.name == w.recv) = true) ∧
    (∀ t ∈ Generated.listTypes, Generated.wiring.any (·.recv == t.name) = true) ∧
    (Generated.wiring.map (·.recv)).Nodup ∧
    Generated.listTypes.length = Generated.listTypeCount ∧ Generated.wiring.length = Generated.wiringCount := by
  decide +kernel

/-- the example shape used above is the row of `LoadControlLimitListDataType` -/
theorem c02_example_is_a_row :
    (Generated.listTypes.find? (·.name == "LoadControlLimitListDataType")).map (·.shape.keys) = some exShape.keys ∧
    (Generated.listTypes.find? (·.name == "LoadControlLimitListDataType")).map (·.shape.elMap) = some exShape.elMap ∧
    (Generated.listTypes.find? (·.name == "LoadControlLimitListDataType")).map (·.shape.flag) = some exShape.flag := by
  decide +kernel

/-- The driver runs a member of the engine family `Spine.UpdateF` selected by probing the defect flags of the
    C04 / C05 engine sites on the tree under test. With all flags on that member IS the code as written at the
    pinned commit, i.e. the functions every theorem above speaks about; a repaired site switches one flag off and
    only changes behaviour on the inputs that site is about (remote writes, a selector on an item without the
    selected field, a selector with an empty list) — none of which the C02 theorems' hypotheses admit. -/
theorem c02_family_member_as_written (sh : Shape) (remote persist fpNil fdNil : Bool) (store nw : List Item)
    (fp fd : Option Filter) :
    updateListF .asWritten sh remote store nw fp fd = updateList sh remote store nw fp fd ∧
    updateDataF .asWritten sh remote persist fpNil fdNil store nw fp fd
      = updateData sh remote persist fpNil fdNil store nw fp fd :=
  ⟨updateListF_asWritten sh remote store nw fp fd, updateDataF_asWritten sh remote persist fpNil fdNil store nw fp fd⟩

end Spine.Props.C02
