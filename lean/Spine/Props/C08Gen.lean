import Spine.Registry
import Spine.Generated.Managers
/-!
# C08 — facts regenerated from spine/subscription_manager.go on every run (tie b1)

The registry model `Spine.Reg` has every subscription call as ONE operation (`Reg.Op.sub`, `Reg.Op.unsub`): duplicate
check and append, filter and write-back are not interleaved with other calls. That is a claim about the source text,
re-extracted from `/repo`'s current tree by the translator (generator `managers`) and re-checked by every `./check C08`.
-/
namespace Spine.Props.C08Gen
open Spine

/-- `AddSubscription`: duplicate check and append lie in one exclusive region of `c.mux` — "the same pair is not
    subscribed already" cannot be outrun by a concurrent identical request (`C08.c08_pairs_nodup_static` speaks about
    the calls as single operations). -/
theorem c08gen_duplicate_check_and_insert_one_region : Generated.Managers.addSubscriptionOneRegion = true := by decide

/-- `RemoveSubscription`: filter and write-back lie in one exclusive region. -/
theorem c08gen_remove_one_region : Generated.Managers.removeSubscriptionOneRegion = true := by decide

example : (Reg.addSub (Reg.addSub { loc := [⟨[1], 1, 1, .server⟩], rem := fun _ => [⟨[1], 1, 1, .client⟩] } 1 [1] 1 [1] 1 1).1 1 [1] 1 [1] 1 1).2
    = false := by decide

end Spine.Props.C08Gen
