import Spine.Heartbeat
import Spine.HeartbeatSeq
import Spine.HBCounter
import Spine.HBCounterWeakest
import Spine.HBRefresh
import Spine.HBMulti
import Spine.HBPace
import Spine.HBStamp
import Spine.Period
/-!
# C16 — heartbeat: monotone, periodic, stoppable

Property theorems only (models and lemmas: `Spine/Heartbeat.lean` — start / stop as events, both members;
`HeartbeatSeq.lean` — non-overlapping operations of the code as written; `HBCounter.lean` — a refresh as draw + store;
`HBRefresh.lean` — subscribers and notify datagrams, one stream with ticker and stop channel; `Period.lean`).

Status of the clauses of the statement
* "period not exceeding the announced timeout" (incl. the `− 2 s` rule above 2 s): PROVED for all timeouts
  (`c16_period_le_timeout`); that the ticker really fires every period is A-time (the harness measures it on live
  heartbeats and compares the measured period with `Spine.HB.period`).
* "starting it again never produces two concurrent streams", "start and stop from any goroutines in any order
  without panicking": PROVED for the repaired operations over all event lists (`c16_single_stream_no_panic`);
  REFUTED for the code as written by kernel-checked schedules that the harness replays through the yield points on
  every run (`c16_no_panic_refuted`, `c16_single_stream_refuted`, `c16_single_stream_refuted_replayed`);
  PARTIAL for the code as written: operations that do not overlap behave as the repaired ones
  (`c16_partial_sequential`).
* "carrying a strictly increasing counter": PROVED for every schedule in which no counter is drawn while a refresh is
  in flight, any number of streams (`c16_counter_increasing`, assumption A-inflight); over unrestricted schedules
  REFUTED by a schedule that needs a goroutine to rest between two adjacent statements for a whole period
  (`c16_counter_unrestricted_refuted`, not reported as a finding; the monitor checks strict growth on the real trace).
* "every refresh is notified to the subscribers": PROVED on the fan-out model for any fixed duplicate-free set of
  subscribers and all schedules of refreshes (`c16_refresh_notified`, `c16_subscriber_sees_increasing`); that the
  registry holds each subscriber once is C08.
* "after stop / removal has returned, at most one refresh that was already in flight completes and the data then
  stays unchanged": PROVED for one stream under the promptness assumption (`c16_stop_is_final`; A-inflight/A-time),
  and — second deepening round — for ALL streams of a manager in one model (`Spine.HBM`: start → stop → start with the
  goroutine of the earlier start still in flight or not yet returned; shared counter and data) over every schedule in
  which a ticker fires only when nothing is pending (`c16_stop_is_final_all_streams`,
  `c16_data_unchanged_after_the_last_refresh`); both halves of that assumption are necessary
  (`c16_stop_final_needs_no_refresh_in_flight`, `c16_stop_final_needs_stopped_streams_gone`); under the same assumption
  the counter clause needs no separate hypothesis (`c16_counter_increasing_all_streams`).
* `RemoveEntity`: towards the heartbeat it is a `StopHeartbeat` (device_local.go calls it unconditionally, before and
  independently of the membership of the entity in the device's list); the harness maps every `RemoveEntity` — on a
  listed, a removed or a never-listed entity — to the stop events of the model, and the monitor applies the stop
  clause after every such call.
* "a current timestamp": second deepening round — `Spine.HBS`: the text (wall-clock reading rounded to the second +
  literal `Z`) denotes the instant of the refresh, in every local zone, iff the reading is the UTC one
  (`c16_timestamp_current`, `c16_timestamp_local_reading_refuted`, `c16_timestamp_current_iff`); the harness runs the
  whole test in a process whose local zone is UTC+2, reads the text on the wire with its own reader and compares it
  with the model's instant and with its own clock.
* period IN TIME (second round): `Spine.HBP` — with one ticker created before the loop the refreshes begin exactly one
  period apart however long a refresh takes (≤ a period); with a timer armed per iteration the gap is period + refresh
  time and exceeds every timeout ≤ 2 s (`c16_refresh_gap_le_timeout`, `c16_timer_per_iteration_refuted`); which of the
  two the tree under test is, is regenerated (`Props/C16Gen`) and measured (worlds with a slow subscriber).
-/
namespace Spine.Props.C16
open Spine

/-- "with a period not exceeding the announced timeout": for every positive timeout (milliseconds) the refresh period
    is positive and at most the timeout — including timeouts above 2 s, where the period is shortened by 2 s. -/
theorem c16_period_le_timeout (t : Nat) (ht : 0 < t) : 0 < HB.period t ∧ HB.period t ≤ t :=
  HB.c16_period_le_timeout t ht

/-- non-vacuity / the rule itself: 100 ms and 2 s tick at the timeout, 2.3 s every 0.3 s, 2.001 s every millisecond
    (the observation of DESIGN §8: just above 2 s the period becomes arbitrarily small) -/
example : HB.period 100 = 100 ∧ HB.period 2000 = 2000 ∧ HB.period 2300 = 300 ∧ HB.period 2001 = 1 := by decide

/-- "starting it again never produces two concurrent heartbeat streams; start and stop may be called from any
    goroutines in any order without panicking" — repaired operations (each one critical section under `stopMux`):
    under every interleaving of starts, stops and goroutine exits there is never a panic (no channel is closed twice,
    no nil channel is closed) and never more than one stream that has not been told to stop. -/
theorem c16_single_stream_no_panic (evs : List HB.Ev) (hrep : ∀ e ∈ evs, HB.repaired e = true) :
    (HB.run evs).panicked = false ∧ (HB.live (HB.run evs)).length ≤ 1 :=
  HB.c16_single_stream_no_panic evs hrep

/-- non-vacuity: restarts, stops and exits in some order; one live stream at the end, three goroutines ever -/
example :
    let evs : List HB.Ev := [.startAtomic, .startAtomic, .exit 0, .stopAtomic, .stopAtomic, .startAtomic, .exit 1]
    (∀ e ∈ evs, HB.repaired e = true) ∧ HB.live (HB.run evs) = [2] ∧ (HB.run evs).nextId = 3 := by decide

/-- REFUTED for the code as written (finding `double-close-panic`): two concurrent `StopHeartbeat` calls both pass
    the running check (made under `stopMux`) before either closes the channel (outside it): the second close
    panics. -/
theorem c16_no_panic_refuted :
    (HB.run [.startMake 1, .startSpawn 1, .stopCheck 2, .stopCheck 3, .stopClose 2, .stopClose 3]).panicked = true :=
  HB.double_close_witness

/-- REFUTED for the code as written (finding `two-streams`): two concurrent `StartHeartbeat` calls leave two
    heartbeat streams running. -/
theorem c16_single_stream_refuted :
    (HB.live (HB.run [.startMake 1, .startMake 2, .startSpawn 1, .startSpawn 2])).length = 2 :=
  HB.two_streams_witness

/-- the schedule the harness replays through the yield point `StartHeartbeat.stopped-old` (there is no yield point
    between making the channel and spawning): heartbeat added, stopped, then two starts that both finish their
    stop phase before either makes its channel — the first stream is orphaned: nobody holds its channel, no stop
    reaches it. -/
theorem c16_single_stream_refuted_replayed :
    let s := HB.run [.stopCheck 0, .stopClose 0, .startMake 0, .startSpawn 0, .stopCheck 0, .stopClose 0, .exit 0,
      .stopCheck 1, .stopCheck 2, .startMake 1, .startSpawn 1, .startMake 2, .startSpawn 2]
    HB.live s = [2, 1] ∧ s.panicked = false ∧
      HB.live (HB.step (HB.step s (.stopCheck 3)) (.stopClose 3)) = [1] := by decide

/-- PARTIAL, code as written: operations that do not overlap (the events of each operation run without another
    operation's events in between) never panic and never leave more than one live stream — they end in exactly the
    state of the repaired operations. Excluded region: overlapping operations (refuted above). -/
theorem c16_partial_sequential (ops : List (Nat × HB.Op)) :
    let s := HB.run (ops.flatMap fun x => HB.splitEvents x.1 x.2)
    s.panicked = false ∧ (HB.live s).length ≤ 1 := by
  have h := (HB.seq_run_eq ops {} ⟨rfl, rfl⟩).1
  have hr := HB.c16_single_stream_no_panic (ops.map fun x => HB.atomicEvent x.2) (HB.repaired_atomic ops)
  simp only [HB.run] at hr ⊢
  rw [h]
  exact hr

/-- non-vacuity: five restarts and two stops of the code as written, one after the other -/
example : (HB.run (([(1, .start), (2, .start), (3, .start), (4, .stop), (5, .stop), (6, .start)] :
    List (Nat × HB.Op)).flatMap fun x => HB.splitEvents x.1 x.2)).streams.length = 4 := by decide

/-- "carrying a strictly increasing counter": in every schedule in which no counter is drawn while a refresh is in
    flight (A-inflight) — any number of streams, started and stopped in any order — the counters stored into the
    feature are strictly increasing. -/
theorem c16_counter_increasing (evs : List HBC.Ev) (hc : HBC.Calm {} evs) :
    (HBC.run evs).stored.Pairwise (· < ·) :=
  HBC.c16_counter_increasing evs hc

/-- non-vacuity: two streams taking turns -/
example : HBC.Calm {} [.draw 1, .store 1, .draw 2, .store 2, .draw 1, .store 1] ∧
    (HBC.run [.draw 1, .store 1, .draw 2, .store 2, .draw 1, .store 1]).stored = [1, 2, 3] := by
  refine ⟨?_, by decide⟩
  simp [HBC.Calm, HBC.step]

/-- REFUTED over unrestricted schedules: the old stream's refresh has drawn its counter and is not yet stored while
    the new stream draws and stores the next one — the stored counter goes down. The schedule needs a goroutine to
    rest between two adjacent statements for a whole period (≥ 100 ms); it is recorded as assumption A-inflight, not
    as a finding. -/
theorem c16_counter_unrestricted_refuted : (HBC.run [.draw 1, .draw 2, .store 2, .store 1]).stored = [2, 1] :=
  HBC.overtaking_witness

/-- A-inflight is the WEAKEST condition on draws: whenever, in any schedule, stream `k` draws its counter while the
    refresh of another stream is in flight (the one draw `Calm` forbids), the schedule has a continuation — `store k`,
    then the store of that other refresh — in which the stored counters are NOT strictly increasing. Together with
    `c16_counter_increasing`: strict growth in all continuations ⇔ every draw is calm. -/
theorem c16_calm_is_weakest (evs : List HBC.Ev) (k : Nat) (h1 : (HBC.run evs).inflight ≠ [])
    (h2 : (HBC.run evs).inflight.any (·.1 = k) = false) :
    ∃ j, ¬ (HBC.run (evs ++ [.draw k, .store k, .store j])).stored.Pairwise (· < ·) :=
  HBC.calm_is_weakest evs k h1 h2

/-- non-vacuity: stream 1 has drawn 3 and not stored it; stream 2 draws -/
example : (HBC.run [.draw 1, .store 1, .draw 2, .store 2, .draw 1]).inflight = [(1, 3)] ∧
    (HBC.run ([.draw 1, .store 1, .draw 2, .store 2, .draw 1] ++ [.draw 2, .store 2, .store 1])).stored = [1, 2, 4, 3] := by
  decide

/-- "every refresh is notified to the subscribers of the device-diagnosis feature": for any duplicate-free set of
    subscribers and every schedule of draws and stores by any number of streams, every subscriber has received
    exactly the counters stored into the feature, each once, in the order in which they were stored. -/
theorem c16_refresh_notified (subs : List Nat) (hn : subs.Nodup) (p : Nat) (hp : p ∈ subs) (es : List HBC.Ev) :
    HBR.received (HBR.run subs (es.map .refresh)) p = (HBR.run subs (es.map .refresh)).core.stored :=
  (HBR.refresh_inv subs hn p hp es { subs := subs } rfl rfl).1

/-- and in calm schedules that sequence is strictly increasing -/
theorem c16_subscriber_sees_increasing (subs : List Nat) (hn : subs.Nodup) (p : Nat) (hp : p ∈ subs)
    (es : List HBC.Ev) (hc : HBC.Calm {} es) :
    (HBR.received (HBR.run subs (es.map .refresh)) p).Pairwise (· < ·) := by
  have h := HBR.refresh_inv subs hn p hp es { subs := subs } rfl rfl
  simp only [HBR.run] at h ⊢
  rw [h.1, h.2]
  exact HBC.c16_counter_increasing es hc

/-- non-vacuity: two subscribers, two streams; a subscriber that joins later receives the later counters only -/
example :
    let s := HBR.run [7, 9] [.refresh (.draw 1), .refresh (.store 1), .subscribe 4, .refresh (.draw 2),
      .refresh (.store 2), .unsubscribe 7, .refresh (.draw 1), .refresh (.store 1)]
    HBR.received s 9 = [1, 2, 3] ∧ HBR.received s 4 = [2, 3] ∧ HBR.received s 7 = [1, 2] ∧ s.core.stored = [1, 2, 3] := by
  decide

/-- "after stop, or removal of the entity, has returned, at most one refresh that was already in flight completes":
    one stream with its ticker channel (capacity one), its stop channel and a refresh in two steps, under every
    schedule in which the ticker does not fire while a refresh is in flight nor after the stop (`Prompt`: the stream
    notices the closed channel within one period — A-inflight / A-time): at most one refresh completes after the
    stop, whichever branch `select` takes. -/
theorem c16_stop_is_final (es : List HBR.SEv) (hp : HBR.Prompt {} es) :
    (es.foldl HBR.sstep {}).afterStop ≤ 1 := by
  suffices ∀ s : HBR.Stream, HBR.SInv s → HBR.Prompt s es → HBR.SInv (es.foldl HBR.sstep s) by
    have h := this {} ⟨(by intro h; cases h), (by intro _; exact ⟨rfl, by decide⟩)⟩ hp
    by_cases hs : (es.foldl HBR.sstep {}).stopped = true
    · have := h.one hs; omega
    · have hs' : (es.foldl HBR.sstep {}).stopped = false := by simpa using hs
      have := (h.pre hs').1; omega
  clear hp
  induction es with
  | nil => intro s h _; exact h
  | cons e es ih =>
    intro s h hpr
    simp only [List.foldl_cons]
    cases e with
    | tick =>
      obtain ⟨hi, hs, hrest⟩ := hpr
      exact ih _ (HBR.sstep_inv s .tick h (fun _ => ⟨hi, hs⟩)) hrest
    | take => exact ih _ (HBR.sstep_inv s .take h (fun hc => by cases hc)) hpr
    | store => exact ih _ (HBR.sstep_inv s .store h (fun hc => by cases hc)) hpr
    | stop => exact ih _ (HBR.sstep_inv s .stop h (fun hc => by cases hc)) hpr
    | exit => exact ih _ (HBR.sstep_inv s .exit h (fun hc => by cases hc)) hpr

/-- non-vacuity: the stop arrives while a refresh is in flight (it completes: one), and while a tick is waiting
    (select may still take it: one); without promptness a second tick would allow a second refresh -/
example :
    HBR.Prompt {} [.tick, .take, .store, .tick, .take, .stop, .store, .exit] ∧
    ([HBR.SEv.tick, .take, .store, .tick, .take, .stop, .store, .exit].foldl HBR.sstep {}).afterStop = 1 ∧
    HBR.Prompt {} [.tick, .stop, .take, .store, .exit] ∧
    ([HBR.SEv.tick, .stop, .take, .store, .exit].foldl HBR.sstep {}).afterStop = 1 ∧
    ([HBR.SEv.tick, .stop, .take, .store, .tick, .take, .store, .exit].foldl HBR.sstep {}).afterStop = 2 := by
  simp [HBR.Prompt, HBR.sstep]

/-- "After stop, or removal of the entity, has returned, at most one refresh that was already in flight completes" —
    ALL streams of one manager (`Spine.HBM`): any number of starts and stops, the goroutines of earlier starts still
    between `<-ticker.C` and the end of `SetData`, or stopped and not yet returned, while later starts and stops
    happen. For EVERY schedule of starts, stops, ticks, takes, stores and exits in which a ticker fires only when
    nothing is pending (`promptAll`: no refresh in flight and no stopped stream that has not returned — A-inflight for
    the whole manager): whenever the heartbeat is stopped, at most one counter has been stored since the stop
    (`mark` = number stored when the stop returned). -/
theorem c16_stop_is_final_all_streams (evs : List HBM.Ev) (hp : HBM.promptAll {} evs = true)
    (hs : (HBM.run evs).cur = none) : (HBM.run evs).stored.length ≤ (HBM.run evs).mark + 1 :=
  ((HBM.run_inv evs {} HBM.inv_init hp).fin hs).1

/-- non-vacuity: start → a refresh of stream 0 in flight → stop → start → stop → the refresh of stream 0 completes
    → both goroutines return: exactly one refresh after the (second) stop; and: the old stream's refresh completes
    while the new stream runs, the new stream refreshes, stop arrives with a tick waiting: one more -/
example :
    let a : List HBM.Ev := [.start, .tick 0, .take 0, .stop, .start, .stop, .store 0, .exit 0, .exit 1]
    let b : List HBM.Ev := [.start, .tick 0, .take 0, .start, .store 0, .exit 0, .tick 1, .take 1, .store 1, .tick 1,
      .stop, .take 1, .store 1, .exit 1]
    HBM.promptAll {} a = true ∧ (HBM.run a).cur = none ∧ (HBM.run a).stored = [1] ∧ (HBM.run a).mark = 0 ∧
    HBM.promptAll {} b = true ∧ (HBM.run b).cur = none ∧ (HBM.run b).stored = [1, 2, 3] ∧ (HBM.run b).mark = 2 := by
  decide

/-- "... and the data then stays unchanged": once the heartbeat is stopped, however the schedule continues without a
    start (ticks of old tickers, takes, stores, exits, further stops — under the same assumption), the data has
    changed at most once since the stop returned, for ever. -/
theorem c16_data_unchanged_after_the_last_refresh (evs es : List HBM.Ev) (hp : HBM.promptAll {} (evs ++ es) = true)
    (hs : (HBM.run evs).cur = none) (hn : ∀ e ∈ es, HBM.isStart e = false) :
    (HBM.run (evs ++ es)).stored.length ≤ (HBM.run evs).mark + 1 := by
  have h := c16_stop_is_final_all_streams (evs ++ es) hp
  have hst := HBM.stays_stopped es (HBM.run evs) hs hn
  simp only [HBM.run, List.foldl_append] at h hst ⊢
  rw [hst.2] at h
  exact h hst.1

/-- non-vacuity: after the one refresh that was in flight, old tickers may fire and goroutines return: nothing more -/
example :
    let evs : List HBM.Ev := [.start, .tick 0, .take 0, .stop, .start, .stop, .store 0]
    let es : List HBM.Ev := [.exit 0, .exit 1, .tick 0, .tick 1, .take 0, .take 1, .store 0, .store 1, .stop]
    HBM.promptAll {} (evs ++ es) = true ∧ (HBM.run evs).cur = none ∧ (∀ e ∈ es, HBM.isStart e = false) ∧
      (HBM.run (evs ++ es)).stored = [1] := by decide

/-- the assumption cannot be dropped, first half: when the ticker of the new stream fires while the refresh of the old
    stream is still in flight (it has lasted longer than a period), a stop finds TWO refreshes in flight and both
    complete after it. (A schedule of the real code: a subscriber's connection that blocks for more than a period.) -/
theorem c16_stop_final_needs_no_refresh_in_flight :
    let evs : List HBM.Ev := [.start, .tick 0, .take 0, .stop, .start, .tick 1, .take 1, .stop, .store 0, .store 1]
    (HBM.run evs).cur = none ∧ (HBM.run evs).stored.length = (HBM.run evs).mark + 2 ∧
      HBM.promptAll {} evs = false := by decide

/-- second half: a stopped stream that has not yet noticed its closed channel keeps a waiting tick; when the new
    stream's ticker fires before that, a later stop finds two waiting ticks, and `select` may take both. -/
theorem c16_stop_final_needs_stopped_streams_gone :
    let evs : List HBM.Ev := [.start, .tick 0, .stop, .start, .tick 1, .stop, .take 0, .store 0, .take 1, .store 1]
    (HBM.run evs).cur = none ∧ (HBM.run evs).stored.length = (HBM.run evs).mark + 2 ∧
      HBM.promptAll {} evs = false := by decide

/-- "carrying a strictly increasing counter", all streams of a manager, under the assumption of the stop clause alone
    (it implies the `Calm` of `c16_counter_increasing`: at most one refresh is pending in the whole manager). -/
theorem c16_counter_increasing_all_streams (evs : List HBM.Ev) (hp : HBM.promptAll {} evs = true) :
    (HBM.run evs).stored.Pairwise (· < ·) :=
  (HBM.run_inv evs {} HBM.inv_init hp).sorted

/-- non-vacuity: three streams, restarts with a refresh in flight -/
example :
    let evs : List HBM.Ev := [.start, .tick 0, .take 0, .start, .store 0, .exit 0, .tick 1, .take 1, .start, .store 1,
      .exit 1, .tick 2, .take 2, .store 2]
    HBM.promptAll {} evs = true ∧ (HBM.run evs).stored = [1, 2, 3] ∧ (HBM.run evs).next = 3 := by decide

/-- under the same assumption at most one refresh is pending in the whole manager (in flight, or a tick waiting at a
    stream that has not returned): the "credit" of all streams but one is zero -/
theorem c16_at_most_one_refresh_pending (evs : List HBM.Ev) (hp : HBM.promptAll {} evs = true) (i j : Nat)
    (hij : i ≠ j) :
    HBM.credit ((HBM.run evs).strm i) = 0 ∨ HBM.credit ((HBM.run evs).strm j) = 0 :=
  (HBM.run_inv evs {} HBM.inv_init hp).excl i j hij

example : HBM.credit ((HBM.run [.start, .tick 0, .take 0, .stop, .start]).strm 0) = 1 := by decide

/-- "refreshed periodically, with a period not exceeding the announced timeout" IN TIME: the loop is paced by one
    ticker created before it; whatever time each refresh takes (`r k`, at most a period — a subscriber whose connection
    is slow to write), two consecutive refreshes begin exactly `period timeout` apart, which is at most the timeout. -/
theorem c16_refresh_gap_le_timeout (t : Nat) (ht : 0 < t) (r : Nat → Nat) (hr : ∀ k, r k ≤ HB.period t) (k : Nat) :
    HBP.begins .ticker (HB.period t) r (k + 1) - HBP.begins .ticker (HB.period t) r k = HB.period t ∧
    HBP.begins .ticker (HB.period t) r (k + 1) - HBP.begins .ticker (HB.period t) r k ≤ t :=
  HBP.gap_le_timeout t ht r hr k

/-- non-vacuity: timeout 400 ms, every refresh takes 150 ms: the ticker keeps the grid, a timer per iteration drifts -/
example : HBP.begins .ticker (HB.period 400) (fun _ => 150) 3 = 1600 ∧
    HBP.begins .perIteration (HB.period 400) (fun _ => 150) 3 = 2050 ∧
    HBP.begins .ticker (HB.period 2300) (fun _ => 150) 3 = 1200 := by decide

/-- REFUTED for a loop paced by a timer armed anew in every iteration (`case <-time.After(d)`): for every timeout up
    to 2 s the gap between two refreshes exceeds the announced timeout as soon as a refresh takes any time. -/
theorem c16_timer_per_iteration_refuted (t : Nat) (ht : t ≤ 2000) (r : Nat → Nat) (k : Nat) (hk : 0 < r k) :
    t < HBP.begins .perIteration (HB.period t) r (k + 1) - HBP.begins .perIteration (HB.period t) r k :=
  HBP.perIteration_exceeds t ht r k hk

example : HBP.begins .perIteration (HB.period 400) (fun _ => 150) 1 - HBP.begins .perIteration (HB.period 400) (fun _ => 150) 0 = 550 := by
  decide

/-- "carrying … a current timestamp": the text of a refresh made at instant `now` (ms since the epoch), read as the
    UTC text it claims to be, denotes `now` up to the resolution of the text — in every local zone of the process. -/
theorem c16_timestamp_current (now zone : Int) :
    HBS.denoted {} now zone - now ≤ 500 ∧ now - HBS.denoted {} now zone ≤ 500 :=
  HBS.current now zone

example : HBS.denoted {} 1790609334766 7200 = 1790609335000 := by decide

/-- REFUTED for a refresh that formats the LOCAL wall-clock reading with the literal `Z`: in a zone two hours east of
    UTC the text denotes an instant two hours ahead. -/
theorem c16_timestamp_local_reading_refuted (now : Int) :
    HBS.denoted { utc := false } now 7200 = HBS.denoted {} now 7200 + 7200000 :=
  HBS.local_reading_off now 7200

example : HBS.denoted { utc := false } 1790609334766 7200 = 1790616535000 := by decide

/-- the timestamp is current in a zone at least a quarter of an hour off UTC ⇔ the UTC reading is used -/
theorem c16_timestamp_current_iff (c : HBS.Cfg) (now zone : Int) (hz : 900 ≤ zone ∨ zone ≤ -900) :
    (HBS.denoted c now zone - now ≤ 500 ∧ now - HBS.denoted c now zone ≤ 500) ↔ c.utc = true :=
  HBS.current_iff c now zone hz

example : (900 : Int) ≤ 7200 ∨ (7200 : Int) ≤ -900 := by decide

end Spine.Props.C16
