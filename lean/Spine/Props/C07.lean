import Spine.Feature
import Spine.FeatureMore
import Spine.LocalTreeThm
import Spine.LocalTreeMore
import Spine.LocalTreeSpec
import Spine.LocalTreeNote
import Spine.LocalTreeRead
import Spine.LocalTreeReadThm
/-!
# C07 — the local device tree is announced faithfully and addressed uniquely

Property theorems only. Models:
* `Spine.LTree` (`Spine/LocalTree.lean`, lemmas in `Spine/LocalTreeThm.lean`): entity objects in a pool indexed by
  slot (= entity address), `attached` = `DeviceLocal.entities`, per entity the features with number, type, role,
  description and registered functions with read/write flags, the feature-number generator; operations AddEntity,
  RemoveEntity, NewEntityLocal, GetOrAddFeature, NextFeatureId, AddFunctionType, SetDescriptionString, node-management
  (un)subscription, detailed-discovery read. The reply (`replyEnts`, `replyFeats`), `resolve` (= FeatureByAddress)
  and the notifications are pure functions of the state.
* SPEC (`Spine/LocalTreeSpec.lean`): what the application declared, as plain maps folded over the trace of API calls
  and the numbers they returned (`Spec`, `specStep`, `specOf`); `recvNotes` / `expNotes` for notifications.
* `Spine.Feat` (`Spine/Feature.lean`): GetOrAddFeature / NextFeatureId on one entity as events `lookup`, `create`
  (two critical sections); flag `recheck`. `recheck = true` — the creation looks the feature up again under the
  lock — **is the member the current tree is** (since `fix:` 694fa73; regenerated fact `Spine.Props.C07Gen`).
  `recheck = false` is "the code as written" in the statements below: that always means the pinned commit a1767d0.
  The harness probes the tree and selects the member, so it still tells the truth if the re-check is removed again.

Status.
PROVED, history level (`c07_refines`): for EVERY history of API calls the discovery reply computed from the model
state, read as maps from addresses, equals the SPEC folded over that history — entities, and per (entity, feature
number) type, role, description and per function the read/write flags of its first addition; inside the domain the
reply has no duplicate keys, so the maps lose nothing but order. `c07_reply_faithful` is its per-state part (also
for a read that overlaps an entity addition or removal: `c07_reply_faithful_held`); per-operation effects:
`c07_feature_announced`, `c07_function_announced`, `c07_function_first_wins`, `c07_function_client_ignored`.
PROVED for all histories: every announced address resolves back to that feature (`c07_resolves`), announced addresses
pairwise distinct inside the domain (`c07_addresses_unique`), over any history the partial notifications each peer
received are exactly one per AddEntity / RemoveEntity performed while it was subscribed, in order, with the entity's
features / without (`c07_notifications_history`; per step `c07_entity_added_notification`,
`c07_entity_removed_notification`, `c07_notifications_only_to_subscribers`), also when other peers' connections fail
(`c07_notify_independent_of_other_failures`), feature numbers fresh
(`c07_ids_fresh_tree`, `c07_fresh_number`), one feature per type and role sequentially
(`c07_one_feature_per_type_role_sequential`, `c07_get_or_add_idempotent`).
PROVED for every interleaving of any number of calls: numbers never duplicated, both members (`c07_ids_fresh`); for the
current tree's member (`recheck = true`) one feature per type and role and one and the same feature for every caller
(`c07_one_feature_per_type_role`, `c07_same_feature`).
For the pinned commit's member (`recheck = false`): REFUTED (`c07_one_feature_per_type_role_refuted`,
`c07_same_feature_refuted`; finding `get-or-add-double-creation`, recorded as fixed), PARTIAL: holds when no two calls
overlap (`c07_one_feature_per_type_role_partial`).
Domain assumption made explicit (`Op.ok`, `validFrom`): an entity is added only while it is not part of the device
(the API does not reject a duplicate address); needed only for "no duplicate keys", not for `c07_refines`' map equality.
The announced CONTENTS are modelled as well: device description and destination list (`c07_destination_list`,
`c07_destination_list_function_announced`), supported functions with read / write / partial flags as
`Operations.Information` derives them (`c07_supported_functions`; the partial-write capability of a function on a
feature type comes from the regenerated factory table `Spine.Generated.Functions`, supplied by the driver).
Reads overlapping feature / function / description additions: modelled as events (second wave, section "Clause 1 for a
read that overlaps additions" below; `Spine/LocalTreeRead.lean`).
Deepening round (audit table: `design/audit-C07.md`): "never reused" is now a theorem over histories of the tree model
incl. entities removed from the device and added again (`c07_numbers_never_reused_history`) and over every schedule of
the event model incl. numbers burnt by NextFeatureId (`c07_numbers_never_reused`); "one and the same feature" is stated
for what the calls ASKED for (`c07_handed_what_was_asked`, `c07_same_feature_asked`, `c07_same_feature_asked_refuted`,
`c07_call_answered`) through the observers `Feat.drawn` / `Feat.answers` (`Spine/FeatureMore.lean`), which the driver
prints and the harness compares with the implementation's own record.
-/
namespace Spine.Props.C07
open Spine Spine.LTree

/-! ## Clause 1: the reply lists exactly the current entities and their features -/

/-- In every state (hence at every moment of every history) the reply to a detailed-discovery read — whoever asks,
    subscribed or not — lists exactly the entities that are part of the device, with their type, and for each of them
    exactly its features (number, type, role, description, functions with read/write flags are the fields of `Feat`);
    reading changes nothing. -/
theorem c07_reply_faithful (s : St) (p : Nat) :
    step s (.read p) = (s, [.reply p s.dev (replyEnts s) (replyFeats s)]) ∧
    (∀ k et, (k, et) ∈ replyEnts s ↔ k ∈ s.attached ∧ et = (s.pool k).etype) ∧
    (∀ k f, (k, f) ∈ replyFeats s ↔ k ∈ s.attached ∧ f ∈ (s.pool k).feats) :=
  ⟨rfl, mem_replyEnts s, mem_replyFeats s⟩

/-- "At every moment", for a read that overlaps an entity addition or removal (the read has taken the entity list and
    is rendering it when AddEntity / RemoveEntity happens): the reply is the faithful reply of one moment — the state
    before the operation — never a mixture; the operation's notifications are sent as usual. -/
theorem c07_reply_faithful_held (s : St) (p : Nat) (o : Op) :
    heldRead s p o = ((step s o).1, .reply p s.dev (replyEnts s) (replyFeats s) :: (step s o).2) ∧
    (∀ k et, (k, et) ∈ replyEnts s ↔ k ∈ s.attached ∧ et = (s.pool k).etype) ∧
    (∀ k f, (k, f) ∈ replyFeats s ↔ k ∈ s.attached ∧ f ∈ (s.pool k).feats) :=
  ⟨rfl, mem_replyEnts s, mem_replyFeats s⟩

/-- a history used for the non-vacuity examples: two entities, features, functions, a subscriber, removal -/
def exOps : List Op :=
  [.sub 0, .renew 1 1, .feat 1 0 1, .addFn 1 1 0 true true true, .addFn 1 1 0 false false true, .feat 1 0 0, .addFn 1 2 3 true false false,
   .renew 2 2, .feat 2 4 2, .nextId 2, .feat 2 1 1, .attach 1, .attach 2, .setDescr 2 1 1001, .detach 1, .attach 1]

example : validFrom (init {}) exOps ∧ replyEnts (run {} exOps) = [(0, 0), (2, 2), (1, 1)] ∧
    (replyFeats (run {} exOps)).drop 2 =
      [(2, ⟨1, 4, 2, 1001, []⟩), (2, ⟨3, 1, 1, 5, []⟩), (1, ⟨1, 0, 1, 2, [⟨0, true, true, true⟩]⟩), (1, ⟨2, 0, 0, 1, []⟩)] := by
  refine ⟨?_, by decide, by decide⟩
  simp only [exOps, validFrom, Op.ok, and_true, true_and]
  decide

example : (heldRead (run {} exOps) 1 (.detach 2)).2 =
    [.reply 1 {} [(0, 0), (2, 2), (1, 1)] (replyFeats (run {} exOps)), .notify 0 false 2 2 []] := by decide

/-! ## Clause 1 for a read that overlaps additions: the read as events (second deepening wave)

`processReadDetailedDiscoveryData` is not one critical section: it takes the entity list, then per entity the feature
list, then per feature the operations map and the description, each under its own lock (`Spine/LocalTreeRead.lean`:
events `ent`, `ops`, `descr` performed by `tick` in the fixed order of the walk; `Ev.app o` is an application call that
happens in between). -/

/-- A read that nothing overlaps — the events of the walk, all on one state — IS the atomic read of the tree model:
    it ends (after at most `measure` events) and sends exactly the reply of `step s (.read p)`, i.e. the reply
    `c07_reply_faithful` / `c07_refines` talk about. -/
theorem c07_read_events_refine_atomic_read (s : St) (h : Inv s) (p : Nat) :
    (tickN s (LTree.measure s (rbegin s p)) (rbegin s p)).done = true ∧
    ∀ n, (tickN s n (rbegin s p)).done = true → [(tickN s n (rbegin s p)).reply s] = (step s (.read p)).2 :=
  ⟨done_after_measure s _ _ (Nat.le_refl _), fun n hd => read_alone s h p n hd⟩

/-- a tree with two entities and a feature each, used below -/
def exTwo : St := run {} [.renew 1 1, .feat 1 0 1, .addFn 1 1 0 true true true, .renew 2 2, .feat 2 1 1, .attach 1, .attach 2]

example : Inv exTwo ∧ LTree.measure exTwo (rbegin exTwo 1) = 11 ∧
    (tickN exTwo 11 (rbegin exTwo 1)).reply exTwo = .reply 1 {} (replyEnts exTwo) (replyFeats exTwo) ∧
    (tickN exTwo 10 (rbegin exTwo 1)).done = false := ⟨inv_run {} _, by decide, by decide, by decide⟩

/-- "At every moment", for a read that ONE application call overlaps (GetOrAddFeature, NextFeatureId, AddFunctionType,
    SetDescriptionString, AddEntity, RemoveEntity, a subscription …; any call but a fresh object for a slot), wherever
    in the walk the call falls (a events of the read before it, b after it, for all a and b): the reply is a linearisable
    snapshot — exactly the atomic reply of the tree BEFORE the call or exactly that of the tree AFTER it, never a
    mixture; the call's own observations (returned number, notifications) are those of `step`. Domain: distinct entity
    addresses in the device. -/
theorem c07_overlapped_read_one_call (s : St) (h : Inv s) (hn : s.attached.Nodup) (o : Op) (hr : ∀ k et, o ≠ .renew k et)
    (p a b : Nat) :
    let x := runRead s p (List.replicate a .tick ++ [.app o] ++ List.replicate b .tick)
    x.1 = (step s o).1 ∧ x.2.2 = (step s o).2 ∧
    (x.2.1.done = true →
      x.2.1.reply x.1 = .reply p s.dev (replyEnts s) (replyFeats s) ∨
      x.2.1.reply x.1 = .reply p s.dev (replyEnts (step s o).1) (replyFeats (step s o).1)) := by
  simp only [runRead_one]
  refine ⟨trivial, trivial, ?_⟩
  intro hd
  have hp : (tickN (step s o).1 b (tickN s a (rbegin s p))).peer = p := by rw [peer_tickN, peer_tickN]; rfl
  rcases one_overlap s h hn o hr p a b hd with e | e
  · left
    simp only [Rd.reply, hp, dev_step, Obs.reply.injEq, true_and]
    exact ⟨congrArg Prod.fst e, congrArg Prod.snd e⟩
  · right
    simp only [Rd.reply, hp, dev_step, Obs.reply.injEq, true_and]
    exact ⟨congrArg Prod.fst e, congrArg Prod.snd e⟩

/-- non-vacuity: the read of `exTwo` has rendered entity [0] and taken the feature list of entity 1 (a = 6 events) when feature (2, 3) is added
    to entity 2 — the reply shows it (the tree after); added to entity 1 instead, the reply does not (the tree before) -/
example : exTwo.attached.Nodup ∧
    (let x := runRead exTwo 1 (List.replicate 6 .tick ++ [.app (.feat 2 3 1)] ++ List.replicate 7 .tick)
     x.2.1.done = true ∧ x.2.1.outF = replyFeats (step exTwo (.feat 2 3 1)).1 ∧ x.2.1.outF ≠ replyFeats exTwo) ∧
    (let x := runRead exTwo 1 (List.replicate 6 .tick ++ [.app (.feat 1 2 1)] ++ List.replicate 5 .tick)
     x.2.1.done = true ∧ x.2.1.outF = replyFeats exTwo ∧ x.2.1.outF ≠ replyFeats (step exTwo (.feat 1 2 1)).1) := by
  decide

/-- With TWO overlapping calls the clause fails for the code as it is, and this is NOT repaired (observation, not a
    finding: the read is not one critical section by design, features are meant to be added before AddEntity): the
    read has taken the feature list of entity 1, then entity 1 gets feature 2 and after that entity 2 gets feature 2; the reply lists
    the later addition and not the earlier one — the tree of no moment of this history. The harness reproduces this
    schedule on the real code (gate in the entity's `Information()`) and finds the same reply. -/
theorem c07_overlapped_read_not_atomic_refuted :
    let evs := List.replicate 6 Ev.tick ++ [.app (.feat 1 2 1), .app (.feat 2 3 1)] ++ List.replicate 7 .tick
    let x := runRead exTwo 1 evs
    let s1 := (step exTwo (.feat 1 2 1)).1
    x.2.1.done = true ∧ replyFeats x.1 = replyFeats (step s1 (.feat 2 3 1)).1 ∧
    x.2.1.outF ≠ replyFeats exTwo ∧ x.2.1.outF ≠ replyFeats s1 ∧ x.2.1.outF ≠ replyFeats x.1 ∧
    (2, ⟨2, 3, 1, descrOf 3 1, []⟩) ∈ x.2.1.outF ∧ (1, ⟨2, 2, 1, descrOf 2 1, []⟩) ∉ x.2.1.outF := by
  decide

/-- What holds for ANY schedule — any number of overlapping calls at any points of the walk (a fresh object for a slot
    excepted): the entity list of the reply is exactly the entity list, with the entity types, of the moment the read
    started (AddEntity / RemoveEntity during the read do not show, whatever else happens). The feature part of such a
    reply: `c07_overlapped_read_sandwich`. -/
theorem c07_overlapped_read_entities (s : St) (p : Nat) (evs : List Ev) (he : ∀ e ∈ evs, noRenewEv e)
    (hd : (runRead s p evs).2.1.done = true) :
    (runRead s p evs).2.1.outE = replyEnts s ∧ (runRead s p evs).2.1.peer = p := by
  refine ⟨overlapped_entities s p evs he hd, ?_⟩
  have : ∀ (evs : List Ev) (x : St × Rd × List Obs), (evs.foldl evStep x).2.1.peer = x.2.1.peer := by
    intro evs
    induction evs with
    | nil => intro x; rfl
    | cons e es ih =>
      intro x
      rw [List.foldl_cons, ih]
      cases e with
      | tick => exact peer_tick _ _
      | app o => rfl
  exact this evs _

example : (let x := runRead exTwo 1 ([.tick, .app (.detach 2), .tick, .app (.attach 4), .app (.feat 1 2 1)] ++ List.replicate 12 .tick)
    x.2.1.done = true ∧ x.2.1.outE = [(0, 0), (1, 1), (2, 2)] ∧ x.1.attached = [0, 1, 4]) := by decide

/-- … and the feature part, for ANY schedule with any number of overlapping calls: the reply lies between the tree at
    the START of the read and the tree at its END, feature by feature. Every feature entry of the reply is a feature
    the tree has at the end — that number in that entity, that type and role — and lists only functions that feature
    has by then, with the operations of their first addition (the entry's function list is an initial part of the
    feature's: functions are only appended and keep their flags); and every feature the tree had when the read
    started, in an entity of the start's list, has an entry, with its type and role and at least the functions it had
    then. (The description of an entry is the one the feature carried at the moment its `descr` event ran; between
    start and end it may have been set several times — judged by the harness's monitor only.) This is exactly what the
    model-free monitor of the harness judges on the real replies (`overlapped-read-*`). -/
theorem c07_overlapped_read_sandwich (s : St) (h : Inv s) (p : Nat) (evs : List Ev) (he : ∀ e ∈ evs, noRenewEv e)
    (hd : (runRead s p evs).2.1.done = true) :
    (∀ k e, (k, e) ∈ (runRead s p evs).2.1.outF →
      ∃ g ∈ ((runRead s p evs).1.pool k).feats, g.id = e.id ∧ g.typ = e.typ ∧ g.role = e.role ∧ e.fns <+: g.fns) ∧
    (∀ k ∈ s.attached, ∀ f0 ∈ (s.pool k).feats,
      ∃ e, (k, e) ∈ (runRead s p evs).2.1.outF ∧ e.id = f0.id ∧ e.typ = f0.typ ∧ e.role = f0.role ∧ f0.fns <+: e.fns) :=
  sandwich s h p evs he hd

/-- non-vacuity: three overlapping calls; the reply has feature (1,1) with the function it had at the start but not the
    one added after it was rendered, and (2,1) with the function added before it was rendered -/
example : (let x := runRead exTwo 1 (List.replicate 8 .tick ++
      [.app (.addFn 1 1 1 true false false), .app (.addFn 2 1 2 true true false), .app (.feat 1 2 1)] ++ List.replicate 3 .tick)
    x.2.1.done = true ∧ x.2.1.outF.drop 2 = [(1, ⟨1, 0, 1, 2, [⟨0, true, true, true⟩]⟩), (2, ⟨1, 1, 1, 5, [⟨2, true, true, false⟩]⟩)] ∧
    (replyFeats x.1).drop 2 = [(1, ⟨1, 0, 1, 2, [⟨0, true, true, true⟩, ⟨1, true, false, false⟩]⟩), (1, ⟨2, 2, 1, 8, []⟩),
      (2, ⟨1, 1, 1, 5, [⟨2, true, true, false⟩]⟩)]) := by decide

/-! ## Clause 1 as one statement over histories: the reply equals the SPEC of the history -/

/-- For EVERY history of API calls (no domain assumption): let σ be the SPEC — the maps of what the application
    declared, folded over the calls and the numbers they returned (`specOf`). Then the model state abstracts to σ, and
    the discovery reply computed from the model state, read as maps from addresses, is σ restricted to the entities
    that are part of the device: the entity map gives exactly the attached entities with their type, the feature map
    gives per (entity, feature number) exactly the declared type, role, description and, per function, the read/write
    flags of its first addition — nothing more, nothing less. For histories inside the domain (`validFrom`) the
    reply's entity addresses, feature addresses and the function names of each feature are free of duplicates, so the
    reply lists are determined by these maps up to order. -/
theorem c07_refines (cfg : DevCfg) (ops : List Op) :
    LTree.abs (run cfg ops) = specOf cfg ops ∧
    (∀ k, replyEntMap (run cfg ops) k = if (specOf cfg ops).att k then some ((specOf cfg ops).etype k) else none) ∧
    (∀ k id, replyFeatMap (run cfg ops) k id = if (specOf cfg ops).att k then (specOf cfg ops).feat k id else none) ∧
    (validFrom (init cfg) ops →
      ((replyEnts (run cfg ops)).map (·.1)).Nodup ∧
      ((replyFeats (run cfg ops)).map fun p => (p.1, p.2.id)).Nodup ∧
      ∀ k f, (k, f) ∈ replyFeats (run cfg ops) → (f.fns.map (·.fn)).Nodup) := by
  refine ⟨abs_run cfg ops, ?_, ?_, ?_⟩
  · intro k; rw [replyEntMap_eq, abs_run]
  · intro k id; rw [replyFeatMap_eq, abs_run]
  · intro hv
    refine ⟨?_, ?_, ?_⟩
    · have : (replyEnts (run cfg ops)).map (·.1) = (run cfg ops).attached := by
        simp [replyEnts, List.map_map, Function.comp_def]
      rw [this]; exact attached_run cfg ops hv
    · rw [replyFeats_addrs]
      exact addrs_nodup _ (fun k => ((inv_run cfg ops).1 k).1.1) _ (attached_run cfg ops hv)
    · intro k f hm
      exact ((inv_run cfg ops).1 k).2.2 f ((mem_replyFeats _ k f).mp hm).2

/-- non-vacuity: the SPEC of the example history at some points — entity 1 is part of the device again, its feature
    1 is LoadControl(0)/server with function 0 readable and writable (the second add with other flags did not count),
    its client feature 2 took no function, entity 2's feature 1 carries the custom description, number 2 of entity 2
    was consumed by NextFeatureId and is no feature -/
example : validFrom (init {}) exOps ∧ (specOf {} exOps).att 1 = true ∧ (specOf {} exOps).att 3 = false ∧
    ((specOf {} exOps).feat 1 1).map (fun d => (d.typ, d.role, d.descr, d.ops 0, d.ops 3)) = some (0, 1, 2, some (true, true, true), none) ∧
    ((specOf {} exOps).feat 1 2).map (fun d => (d.typ, d.role, d.ops 3)) = some (0, 0, none) ∧
    ((specOf {} exOps).feat 2 1).map (·.descr) = some 1001 ∧ ((specOf {} exOps).feat 2 2).isNone = true ∧
    ((specOf {} exOps).feat 0 0).map (fun d => (d.typ, d.ops 100, d.ops 103)) = some (nmType, some (true, false, false), some (false, false, false)) := by
  refine ⟨?_, by decide, by decide, by rfl, by rfl, by rfl, by rfl, by rfl⟩
  simp only [exOps, validFrom, Op.ok, and_true, true_and]
  decide

/-- GetOrAddFeature for a type and role the entity does not have yet: afterwards the reply (if the entity is part of
    the device) lists a feature with the returned number, that type and role, the documented description and no
    functions; every feature listed before is still listed. -/
theorem c07_feature_announced (s : St) (k typ role : Nat) (hk : k ∈ s.attached)
    (hn : findTR (s.pool k) typ role = none) :
    let s' := (step s (.feat k typ role)).1
    (step s (.feat k typ role)).2 = [.ret (s.pool k).nextId] ∧
    (k, ⟨(s.pool k).nextId, typ, role, descrOf typ role, []⟩) ∈ replyFeats s' ∧
    ∀ k' f', (k', f') ∈ replyFeats s → (k', f') ∈ replyFeats s' := by
  simp only [step, entGetOrAdd, hn]
  refine ⟨trivial, ?_, ?_⟩
  · rw [mem_replyFeats]
    exact ⟨hk, by simp [upd_same]⟩
  · intro k' f' h
    rw [mem_replyFeats] at h ⊢
    refine ⟨h.1, ?_⟩
    by_cases hkk : k' = k
    · subst hkk; simp only [upd_same]; exact List.mem_append_left _ h.2
    · simp only [upd_other _ _ _ _ hkk]; exact h.2

example : findTR ((run {} exOps).pool 1) 3 1 = none ∧ 1 ∈ (run {} exOps).attached := by decide

/-- AddFunctionType of a new function on a server or special feature: afterwards the reply lists that feature with
    the function and exactly the read/write flags given; all other features are listed unchanged. -/
theorem c07_function_announced (s : St) (h : Inv s) (k : Nat) (f : Feat) (fn : Nat) (r w cap : Bool)
    (hm : (k, f) ∈ replyFeats s) (hr : f.role ≠ 0) (hnew : fn ∉ f.fns.map (·.fn)) :
    let s' := (step s (.addFn k f.id fn r w cap)).1
    (k, { f with fns := f.fns ++ [⟨fn, r, w, w && cap⟩] }) ∈ replyFeats s' ∧
    ∀ k' f', (k', f') ∈ replyFeats s → (k', f'.id) ≠ (k, f.id) → (k', f') ∈ replyFeats s' := by
  obtain ⟨hk, hf⟩ := (mem_replyFeats s k f).mp hm
  obtain ⟨u1, u2⟩ := updFeat_of_nodup (s.pool k).feats (h.1 k).1.1 f hf (fun x => featAddFn x fn r w cap)
  rw [featAddFn_new f fn r w cap hr hnew] at u1
  simp only [step]
  refine ⟨?_, ?_⟩
  · rw [mem_replyFeats]; exact ⟨hk, by simp only [upd_same]; exact u1⟩
  · intro k' f' hm' hne
    obtain ⟨hk', hf'⟩ := (mem_replyFeats s k' f').mp hm'
    rw [mem_replyFeats]
    refine ⟨hk', ?_⟩
    by_cases hkk : k' = k
    · subst hkk
      simp only [upd_same]
      exact u2 f' hf' (fun hid => hne (by rw [hid]))
    · simp only [upd_other _ _ _ _ hkk]; exact hf'

example : Inv (run {} exOps) ∧ (1, ⟨1, 0, 1, 2, [⟨0, true, true, true⟩]⟩) ∈ replyFeats (run {} exOps) :=
  ⟨inv_run {} exOps, by decide⟩

/-- … a function that is already registered keeps the operations it was added with (first add wins) … -/
theorem c07_function_first_wins (f : Feat) (fn : Nat) (r w cap : Bool) (h : fn ∈ f.fns.map (·.fn)) :
    featAddFn f fn r w cap = f := featAddFn_again f fn r w cap h

/-- … and client features take no functions (documented behaviour of AddFunctionType). -/
theorem c07_function_client_ignored (f : Feat) (fn : Nat) (r w cap : Bool) (h : f.role = 0) :
    featAddFn f fn r w cap = f := featAddFn_client f fn r w cap h

example : featAddFn ⟨1, 0, 1, 2, [⟨0, true, true, true⟩]⟩ 0 false false true = ⟨1, 0, 1, 2, [⟨0, true, true, true⟩]⟩ ∧
    featAddFn ⟨2, 0, 0, 1, []⟩ 3 true false true = ⟨2, 0, 0, 1, []⟩ := by decide

/-! ## Clause 1, the announced CONTENTS: device description, destination list, supported functions and operations -/

/-- Device description and destination list. For every device configuration (the constructor arguments address,
    device type, feature set), every history and every peer: the device description a discovery reply carries is the
    configuration; a destination-list read from a feature the peer announced — with or without filter, the filter is
    ignored — is answered with exactly ONE entry, the configuration (device address, device type, feature set as given
    to the constructor), independent of entities, features, subscriptions and peers; a read whose source is not an
    announced feature of the peer is not answered; reading changes nothing. -/
theorem c07_destination_list (cfg : DevCfg) (ops : List Op) (p : Nat) :
    step (run cfg ops) (.destRead p true) = (run cfg ops, [.destList p [cfg]]) ∧
    step (run cfg ops) (.destRead p false) = (run cfg ops, []) ∧
    step (run cfg ops) (.read p) = (run cfg ops, [.reply p cfg (replyEnts (run cfg ops)) (replyFeats (run cfg ops))]) := by
  simp [step, destEntries, dev_run]

/-- … and node management announces the destination-list function (readable) exactly if a feature set is given and
    it is not `simple` -/
theorem c07_destination_list_function_announced (cfg : DevCfg) :
    (⟨108, true, false, false⟩ ∈ nmFns cfg.fset ↔ cfg.fset ≠ 0 ∧ cfg.fset ≠ 4) ∧
    (0, ⟨0, nmType, 2, 0, nmFns cfg.fset⟩) ∈ replyFeats (init cfg) := by
  refine ⟨?_, by simp [replyFeats, init, devInfo]⟩
  unfold nmFns
  by_cases h : cfg.fset = 0 ∨ cfg.fset = 4
  · simp only [h, if_true, List.append_nil]
    constructor
    · intro hm; exact absurd hm (by decide)
    · intro hn; rcases h with h | h
      · exact absurd h hn.1
      · exact absurd h hn.2
  · simp only [h, if_false]
    constructor
    · intro _; exact ⟨fun e => h (Or.inl e), fun e => h (Or.inr e)⟩
    · intro _; simp

example : (step (run ⟨7, 2, 4⟩ exOps) (.destRead 1 true)).2 = [.destList 1 [⟨7, 2, 4⟩]] ∧
    (nmFns 4).length = 8 ∧ (nmFns 3).length = 9 := by decide

/-- Supported functions and operations. For every history and every feature the reply announces: its
    supportedFunction list names each function once; the functions named are exactly those the SPEC declares for that
    (entity, feature number) — the functions added to it while it was a server or special feature — each with the
    read / write / partial-write flags of its FIRST addition (`specOf`, `declFn`: partial write = write ∧ the function's
    data type supports partial updates on this feature); and what `Operations.Information` renders for a function
    (`Fn.info`) never carries a partial read, and a partial write only together with write. -/
theorem c07_supported_functions (cfg : DevCfg) (ops : List Op) (k : Nat) (f : Feat)
    (h : (k, f) ∈ replyFeats (run cfg ops)) :
    (f.fns.map (·.fn)).Nodup ∧
    (specOf cfg ops).feat k f.id = some (toDecl f) ∧
    (∀ fn, fnOps f.fns fn = ((specOf cfg ops).feat k f.id).bind (·.ops fn)) ∧
    ∀ x ∈ f.fns, x.info.2.1 = false ∧ (x.info.2.2.2 = true → x.info.2.2.1 = true) ∧
      (x.info.1, x.info.2.2.1) = (x.read, x.write) := by
  obtain ⟨_, hf⟩ := (mem_replyFeats _ k f).mp h
  have hs : (specOf cfg ops).feat k f.id = some (toDecl f) := by
    rw [← abs_run cfg ops]
    simp only [LTree.abs, featAt, find_of_nodup _ ((inv_run cfg ops).1 k).1.1 f hf, Option.map_some]
  refine ⟨((inv_run cfg ops).1 k).2.2 f hf, hs, ?_, ?_⟩
  · intro fn; rw [hs]; rfl
  · intro x hx
    refine ⟨rfl, ?_, rfl⟩
    intro hp
    simp only [Fn.info, Bool.and_eq_true] at hp
    exact hp.1

/-- non-vacuity: LoadControlLimitListData-like function 0 added read/write on a feature whose data supports partial
    updates is announced (read, -, write, partial write); re-added read-only it stays; a function whose data does not
    support partial updates (cap = false) is announced without partial write -/
example : (replyFeats (run {} [.renew 1 1, .feat 1 0 1, .addFn 1 1 0 true true true, .addFn 1 1 0 true false true,
      .addFn 1 1 3 false true false, .attach 1])).drop 2 =
    [(1, ⟨1, 0, 1, 2, [⟨0, true, true, true⟩, ⟨3, false, true, false⟩]⟩)] ∧
    (⟨0, true, true, true⟩ : Fn).info = (true, false, true, true) ∧
    (⟨3, false, true, false⟩ : Fn).info = (false, false, true, false) := by decide

/-! ## Clause 1, second half: every announced feature address resolves back to that feature -/

/-- For every history (no domain assumption needed): each (entity, feature number) the reply announces resolves —
    `DeviceLocal.FeatureByAddress` — to exactly the announced feature. -/
theorem c07_resolves (cfg : DevCfg) (ops : List Op) (k : Nat) (f : Feat) (h : (k, f) ∈ replyFeats (run cfg ops)) :
    resolve (run cfg ops) k f.id = some f :=
  resolves (run cfg ops) (inv_run cfg ops) k f h

example : (2, ⟨3, 1, 1, 5, []⟩) ∈ replyFeats (run {} exOps) ∧ resolve (run {} exOps) 2 3 = some ⟨3, 1, 1, 5, []⟩ := by decide

/-- "addressed uniquely": for every history inside the domain (an entity is added only while it is not part of the
    device) the announced feature addresses are pairwise distinct. -/
theorem c07_addresses_unique (cfg : DevCfg) (ops : List Op) (hv : validFrom (init cfg) ops) :
    ((replyFeats (run cfg ops)).map fun p => (p.1, p.2.id)).Nodup := by
  rw [replyFeats_addrs]
  exact addrs_nodup _ (fun k => ((inv_run cfg ops).1 k).1.1) _ (attached_run cfg ops hv)

/-- outside the domain the clause fails (the API does not reject adding an entity twice): recorded, not a finding -/
theorem c07_addresses_unique_needs_domain :
    ¬ ((replyFeats (run {} [.renew 1 1, .feat 1 0 1, .attach 1, .attach 1])).map fun p => (p.1, p.2.id)).Nodup := by decide

/-! ## Clause 2: entity addition and removal notify each node-management subscriber exactly once -/

/-- AddEntity: the partial detailed-discovery notifications addressed to peer p are exactly one — describing the
    entity as added, with its type and its features — if p is subscribed to node management, and none otherwise. -/
theorem c07_entity_added_notification (s : St) (h : Inv s) (k p : Nat) :
    (step s (.attach k)).2.filter (discTo p) =
      if p ∈ s.subs then [.notify p true k (s.pool k).etype (s.pool k).feats] else [] := by
  simp only [step, notifyAll, if_true]
  exact filter_map_nodup s.subs h.2 (fun q => Obs.notify q true k (s.pool k).etype (s.pool k).feats) p
    (fun q => by simp [discTo])

/-- RemoveEntity: exactly one partial notification per subscriber, describing the entity as removed, without features
    (a use-case notification may accompany it; it is not a detailed-discovery notification and is not counted). -/
theorem c07_entity_removed_notification (s : St) (h : Inv s) (k p : Nat) :
    (step s (.detach k)).2.filter (discTo p) =
      if p ∈ s.subs then [.notify p false k (s.pool k).etype []] else [] := by
  simp only [step, notifyAll, List.filter_append]
  have h1 : (if s.ucData = true then ucNotifyAll s else []).filter (discTo p) = [] := by
    split
    · exact filter_ucNotify s.subs p
    · rfl
  rw [h1, List.nil_append]
  exact filter_map_nodup s.subs h.2 (fun q => Obs.notify q false k (s.pool k).etype []) p (fun q => by simp [discTo])

/-- Nothing at all is sent to a peer that is not subscribed to node management when an entity is added or removed. -/
theorem c07_notifications_only_to_subscribers (s : St) (k : Nat) (o : Obs) (q : Nat)
    (ho : o ∈ (step s (.attach k)).2 ∨ o ∈ (step s (.detach k)).2) (hq : peerOf o = some q) : q ∈ s.subs := by
  rcases ho with ho | ho
  · simp only [step, notifyAll, List.mem_map] at ho
    obtain ⟨p, hp, rfl⟩ := ho
    simp only [peerOf, Option.some.injEq] at hq; exact hq ▸ hp
  · simp only [step, notifyAll, ucNotifyAll, List.mem_append, List.mem_map] at ho
    rcases ho with ho | ⟨p, hp, rfl⟩
    · split at ho
      · obtain ⟨p, hp, rfl⟩ := List.mem_map.mp ho
        simp only [peerOf, Option.some.injEq] at hq; exact hq ▸ hp
      · simp at ho
    · simp only [peerOf, Option.some.injEq] at hq; exact hq ▸ hp

/-- non-vacuity: two subscribers and a bystander; entity 1 with two features -/
def exSt : St := run {} [.sub 0, .sub 2, .renew 1 1, .feat 1 0 1, .addFn 1 1 0 true true false, .feat 1 0 0, .addUc 1]
example : Inv exSt ∧ exSt.subs = [0, 2] ∧
    (step exSt (.attach 1)).2 =
      [.notify 0 true 1 1 [⟨1, 0, 1, 2, [⟨0, true, true, false⟩]⟩, ⟨2, 0, 0, 1, []⟩],
       .notify 2 true 1 1 [⟨1, 0, 1, 2, [⟨0, true, true, false⟩]⟩, ⟨2, 0, 0, 1, []⟩]] ∧
    (step (step exSt (.attach 1)).1 (.detach 1)).2 =
      [.ucNotify 0, .ucNotify 2, .notify 0 false 1 1 [], .notify 2 false 1 1 []] :=
  ⟨inv_run {} _, by decide, by decide, by decide⟩

/-- Clause 2 as one statement over histories: over ANY history, the partial detailed-discovery notifications peer p
    received (`recvNotes`, in order) are exactly those of the SPEC (`expNotes`): one for every AddEntity and every
    RemoveEntity performed while p was subscribed to node management — subscribed meaning between its subscription
    call and its unsubscription call (`subdAfter`, no reference to the model's registry) — describing that entity as
    added with its type and the features it had at that moment (which `c07_refines` identifies with the declared
    ones), or as removed without features; none for operations performed while p was not subscribed; and their number
    is the number of such operations. -/
theorem c07_notifications_history (cfg : DevCfg) (ops : List Op) (p : Nat) :
    recvNotes p (init cfg) ops = expNotes p (init cfg) false ops ∧
    (recvNotes p (init cfg) ops).length = expCount p false ops := by
  have h := recv_eq_exp p ops (init cfg) (inv_init cfg)
  have h0 : decide (p ∈ (init cfg).subs) = false := by simp [init]
  rw [h0] at h
  exact ⟨h, by rw [h, expNotes_length]⟩

/-- non-vacuity: peer 0 subscribes, sees entity 1 added and removed, unsubscribes, misses entity 2, subscribes again
    and sees entity 2 removed; peer 1 never subscribes -/
def exNotif : List Op :=
  [.renew 1 1, .feat 1 0 1, .renew 2 2, .sub 0, .attach 1, .addUc 1, .detach 1, .unsub 0, .attach 2, .sub 0, .detach 2]
example : recvNotes 0 (init {}) exNotif =
      [.notify 0 true 1 1 [⟨1, 0, 1, 2, []⟩], .notify 0 false 1 1 [], .notify 0 false 2 2 []] ∧
    expCount 0 false exNotif = 3 ∧ recvNotes 1 (init {}) exNotif = [] := by decide

/-- Clause 2, the CONTENT of the notifications against the SPEC (second wave; before: an argument in the doc comment of
    `c07_notifications_history`). Over ANY history, the partial notifications peer p received, read as maps (`noteDecl`:
    added / removed, slot, entity type, feature number ↦ type, role, description, operations per function), are exactly
    `specNotes`: the list computed from the SPEC maps alone — `specStep` folded over the calls and the numbers they
    returned, subscribed = between p's subscription and unsubscription call — one entry per AddEntity performed while p
    was subscribed, carrying the DECLARED entity type and the DECLARED features of that slot at that moment, and one
    per RemoveEntity, carrying no feature. The reading loses nothing: the number of entries is the number of
    notifications received, every notification is addressed to p, its feature numbers are pairwise distinct and each
    of its features names every function once. -/
theorem c07_notification_content (cfg : DevCfg) (ops : List Op) (p : Nat) :
    (recvNotes p (init cfg) ops).filterMap noteDecl = specNotes p (init cfg) (LTree.abs (init cfg)) false ops ∧
    ((recvNotes p (init cfg) ops).filterMap noteDecl).length = (recvNotes p (init cfg) ops).length ∧
    ∀ q a k et fs, Obs.notify q a k et fs ∈ recvNotes p (init cfg) ops →
      q = p ∧ (fs.map (·.id)).Nodup ∧ ∀ f ∈ fs, (f.fns.map (·.fn)).Nodup := by
  have h := recv_eq_exp p ops (init cfg) (inv_init cfg)
  have h0 : decide (p ∈ (init cfg).subs) = false := by simp [init]
  rw [h0] at h
  have hc := exp_eq_spec p ops (init cfg) false (inv_init cfg)
  refine ⟨by rw [h]; exact hc, ?_, ?_⟩
  · rw [h, hc, specNotes_length, expNotes_length]
  · intro q a k et fs hm
    rw [h] at hm
    exact exp_wellformed p ops (init cfg) false (inv_init cfg) q a k et fs hm

/-- … and per step, at any point of any history: AddEntity of slot k while p is subscribed sends p exactly one
    notification; it announces the entity type the application declared for the object in that slot and a feature list
    that, read as a map from feature numbers, IS the SPEC's feature map of that slot at that moment (`specOf` of the
    prefix); RemoveEntity announces the declared entity type and no feature. -/
theorem c07_entity_notification_content (cfg : DevCfg) (pre : List Op) (k p : Nat) (hp : p ∈ (run cfg pre).subs) :
    (∃ fs, (step (run cfg pre) (.attach k)).2.filter (discTo p) = [.notify p true k ((specOf cfg pre).etype k) fs] ∧
      featsMap fs = (specOf cfg pre).feat k ∧ (fs.map (·.id)).Nodup) ∧
    (step (run cfg pre) (.detach k)).2.filter (discTo p) = [.notify p false k ((specOf cfg pre).etype k) []] := by
  have hi := inv_run cfg pre
  refine ⟨⟨((run cfg pre).pool k).feats, ?_, ?_, ((hi.1 k).1.1)⟩, ?_⟩
  · rw [c07_entity_added_notification _ hi k p, if_pos hp, ← abs_run cfg pre]; rfl
  · rw [← abs_run cfg pre]; rfl
  · rw [c07_entity_removed_notification _ hi k p, if_pos hp, ← abs_run cfg pre]; rfl

/-- non-vacuity: the notifications of `exNotif` for peer 0 as maps — entity 1 added with feature 1 = LoadControl(0) /
    server / "LoadControl Server" without functions and no feature 2, removed, entity 2 removed; and a history in which
    a function is added, re-added with other flags and a description set before the entity is added -/
example : ((recvNotes 0 (init {}) exNotif).filterMap noteDecl).map
      (fun n => (n.added, n.slot, n.etype, (n.feat 1).map fun d => (d.typ, d.role, d.descr, d.ops 0), (n.feat 2).isSome)) =
    [(true, 1, 1, some (0, 1, 2, none), false), (false, 1, 1, none, false), (false, 2, 2, none, false)] := by rfl
example : ((specNotes 0 (init {}) (LTree.abs (init {})) false
      [.sub 0, .renew 1 3, .feat 1 0 1, .addFn 1 1 0 true true true, .addFn 1 1 0 false false false, .setDescr 1 1 77,
       .feat 1 2 0, .attach 1]).map
      (fun n => (n.added, n.slot, n.etype, (n.feat 1).map fun d => (d.typ, d.role, d.descr, d.ops 0),
        (n.feat 2).map fun d => (d.typ, d.role), (n.feat 3).isSome))) =
    [(true, 1, 3, some (0, 1, 77, some (true, true, true)), some (2, 0), false)] := by rfl

/-- Clause 2 under FAILING peers (`notify_independent_of_other_failures`): when the connections of some peers cannot
    be written to (their sends return an error), what every healthy peer receives from any step — partial
    notifications, use-case notifications, replies — is exactly what it receives when nobody fails: the set of healthy
    subscribers notified does not depend on the failure flags of the others, wherever the failing peers stand in the
    subscription order; a failing peer receives nothing; and the state does not depend on failures at all (`delivered`
    only filters the observations). With the two history theorems: each healthy subscriber still gets exactly one
    notification per AddEntity / RemoveEntity performed while it was subscribed. -/
theorem c07_notify_independent_of_other_failures (failing : List Nat) (s : St) (o : Op) (p : Nat) :
    (p ∉ failing → (delivered failing (step s o).2).filter (toPeer p) = (step s o).2.filter (toPeer p)) ∧
    (p ∉ failing → (delivered failing (step s o).2).filter (discTo p) = (step s o).2.filter (discTo p)) ∧
    (p ∈ failing → (delivered failing (step s o).2).filter (toPeer p) = []) := by
  refine ⟨fun hp => delivered_to_healthy failing p hp _, ?_, fun hp => delivered_to_failing failing p hp _⟩
  intro hp
  have h := delivered_to_healthy failing p hp (step s o).2
  have e : ∀ l : List Obs, l.filter (discTo p) = (l.filter (toPeer p)).filter (discTo p) := by
    intro l
    rw [List.filter_filter]
    apply List.filter_congr
    intro x _
    cases hx : discTo p x
    · simp
    · simp [discTo_toPeer p x hx]
  rw [e (delivered failing (step s o).2), e (step s o).2, h]

/-- non-vacuity: subscribers 1 (failing), 0 and 2 in that order; entity 1 is added — 0 and 2 are notified -/
example : (delivered [1] (step (run {} [.sub 1, .sub 0, .sub 2, .renew 1 1]) (.attach 1)).2) =
    [.notify 0 true 1 1 [], .notify 2 true 1 1 []] := by decide

/-! ## Clause 3: feature numbers are never reused or duplicated; one feature per type and role -/

/-- Tree model, every history, every entity object: the feature numbers are pairwise distinct and all below the
    generator (so a number handed out later is larger than every number in use). -/
theorem c07_ids_fresh_tree (cfg : DevCfg) (ops : List Op) (k : Nat) : EntFresh ((run cfg ops).pool k) :=
  ((inv_run cfg ops).1 k).1

/-- A number handed out — by NextFeatureId or to a newly created feature — is at least the generator's value, hence
    larger than every number handed out before on this entity object, and the generator moves past it. -/
theorem c07_fresh_number (s : St) (h : Inv s) (k : Nat) :
    (step s (.nextId k)).2 = [.ret (s.pool k).nextId] ∧
    ((step s (.nextId k)).1.pool k).nextId = (s.pool k).nextId + 1 ∧
    (∀ typ role, findTR (s.pool k) typ role = none →
      (step s (.feat k typ role)).2 = [.ret (s.pool k).nextId] ∧
      ((step s (.feat k typ role)).1.pool k).nextId = (s.pool k).nextId + 1) ∧
    ∀ f ∈ (s.pool k).feats, f.id < (s.pool k).nextId := by
  refine ⟨rfl, by simp [step, upd_same], ?_, (h.1 k).1.2⟩
  intro typ role hn
  simp [step, entGetOrAdd, hn, upd_same]

/-- Event model, BOTH members (pinned commit and current tree), every interleaving of any number of GetOrAddFeature and
    NextFeatureId calls from any goroutines: feature numbers are never duplicated and stay below the generator. -/
theorem c07_ids_fresh (recheck : Bool) (evs : List Feat.Ev) : Feat.Fresh (Feat.run recheck evs) :=
  Feat.ids_fresh recheck evs

example : (Feat.run false [.lookup 1 7 0, .nextId, .lookup 2 7 0, .create 2, .create 1, .getOrAdd 3 8 1]).feats
    = [⟨2, 7, 0⟩, ⟨3, 7, 0⟩, ⟨4, 8, 1⟩] := by decide

/-- Sequential use (tree model, every history): at most one feature per type and role on every entity object —
    asking repeatedly yields the same feature. -/
theorem c07_one_feature_per_type_role_sequential (cfg : DevCfg) (ops : List Op) (k : Nat) : OnePer ((run cfg ops).pool k) :=
  ((inv_run cfg ops).1 k).2.1

/-- … and a repeated GetOrAddFeature returns the existing feature's number and changes nothing -/
theorem c07_get_or_add_idempotent (s : St) (k typ role : Nat) (f : Feat) (hf : findTR (s.pool k) typ role = some f) :
    (step s (.feat k typ role)).2 = [.ret f.id] ∧ (step s (.feat k typ role)).1.pool k = s.pool k := by
  simp [step, entGetOrAdd, hf, upd_same]

example : findTR ((run {} exOps).pool 1) 0 1 = some ⟨1, 0, 1, 2, [⟨0, true, true, true⟩]⟩ := by decide

/-- CURRENT TREE's member (`recheck = true`: creation looks up again under the lock, 694fa73), every interleaving of the lookups and creations of any
    number of concurrent calls: at most one feature per type and role. -/
theorem c07_one_feature_per_type_role (evs : List Feat.Ev) : Feat.OnePer (Feat.run true evs) :=
  Feat.c07_one_feature_per_type_role evs

/-- CURRENT TREE's member (`recheck = true`): asking repeatedly, from any goroutines, for the feature of one type and role yields one and the
    same feature (any two calls that were handed features of equal type and role were handed the same feature). -/
theorem c07_same_feature (evs : List Feat.Ev) (p q : Nat × Feat.F)
    (hp : p ∈ (Feat.run true evs).res) (hq : q ∈ (Feat.run true evs).res)
    (ht : p.2.typ = q.2.typ) (hr : p.2.role = q.2.role) : p.2 = q.2 :=
  Feat.c07_same_feature evs p q hp hq ht hr

example : (Feat.run true [.lookup 1 7 0, .lookup 2 7 0, .create 1, .create 2]).feats = [⟨1, 7, 0⟩] ∧
    (Feat.run true [.lookup 1 7 0, .lookup 2 7 0, .create 1, .create 2]).res = [(2, ⟨1, 7, 0⟩), (1, ⟨1, 7, 0⟩)] :=
  Feat.repaired_witness

/-- Member `recheck = false` (the pinned commit a1767d0), PARTIAL: as long as no two GetOrAddFeature calls overlap (every call's lookup and creation are
    adjacent: events `getOrAdd`, `nextId` only) there is at most one feature per type and role. The excluded region
    is exactly "a second call looks up between another call's lookup and creation". -/
theorem c07_one_feature_per_type_role_partial (evs : List Feat.Ev)
    (h : ∀ e ∈ evs, Feat.repaired false e = true) : Feat.OnePer (Feat.run false evs) :=
  Feat.c07_one_feature_per_type_role_nonoverlap evs h

example : ∀ e ∈ [Feat.Ev.getOrAdd 1 7 0, .nextId, .getOrAdd 2 7 0], Feat.repaired false e = true := by decide

/-- Member `recheck = false` (the pinned commit a1767d0), REFUTED (finding `get-or-add-double-creation`, repaired by
    694fa73): two goroutines ask for the same type and
    role, both lookups miss, both create — two features of one type and role. -/
theorem c07_one_feature_per_type_role_refuted :
    ¬ (∀ evs : List Feat.Ev, Feat.OnePer (Feat.run false evs)) := by
  intro h
  have := h [.lookup 1 7 0, .lookup 2 7 0, .create 1, .create 2] 7 0
  rw [Feat.double_creation_witness] at this
  revert this; decide

/-- Member `recheck = false` (the pinned commit), REFUTED: … and the two callers are handed two different features. -/
theorem c07_same_feature_refuted :
    ¬ (∀ (evs : List Feat.Ev) (p q : Nat × Feat.F), p ∈ (Feat.run false evs).res → q ∈ (Feat.run false evs).res →
        p.2.typ = q.2.typ → p.2.role = q.2.role → p.2 = q.2) := by
  intro h
  have := h [.lookup 1 7 0, .lookup 2 7 0, .create 1, .create 2] (2, ⟨2, 7, 0⟩) (1, ⟨1, 7, 0⟩)
    (by rw [Feat.two_features_witness]; simp) (by rw [Feat.two_features_witness]; simp) rfl rfl
  revert this; decide

/-! ## Clause 3 at full strength: "never reused", "the feature of the type and role ASKED for", every schedule -/

/-- "Feature numbers handed out within an entity are never reused or duplicated", over HISTORIES of the tree model
    (added in the deepening round; before, only "per state the numbers in use are distinct and below the generator"
    was a theorem and "hence never reused" an argument). For every history `pre` and every continuation `ops` that
    does not replace the entity object in slot k (`renew`) — it may remove the entity from the device and add it
    again any number of times, and do anything to other entities — the numbers the object hands out during `ops`
    (`drawnOn`: by NextFeatureId, or to a feature GetOrAddFeature creates), in the order of time, are strictly
    increasing, each is at least the generator's value at the start of `ops`, hence larger than the number of every
    feature the entity had then; and each is what the call returned. -/
theorem c07_numbers_never_reused_history (cfg : DevCfg) (pre ops : List Op) (k : Nat) (hr : noRenew k ops) :
    (drawnOn k (run cfg pre) ops).Pairwise (· < ·) ∧
    (∀ n ∈ drawnOn k (run cfg pre) ops, ∀ f ∈ ((run cfg pre).pool k).feats, f.id < n) ∧
    (∀ (s : St) (o : Op) (n : Nat), drawnAt k s o = some n → (step s o).2 = [.ret n]) := by
  refine ⟨drawnOn_increasing k ops _ hr, ?_, fun s o n h => (drawnAt_spec k s o n h).2.2⟩
  intro n hn f hf
  have h1 := drawnOn_ge k ops _ hr n hn
  have h2 := (((inv_run cfg pre).1 k).1).2 f hf
  omega

/-- non-vacuity: entity 1 gets a feature (number 1), is added to the device, removed, burns a number, is added
    again, gets another feature — the numbers drawn are 1, 2, 3; the removal and re-addition did not restart them -/
example : noRenew 1 [.feat 1 0 1, .attach 1, .detach 1, .nextId 1, .attach 1, .feat 1 0 0, .feat 1 0 1, .feat 2 0 1] ∧
    drawnOn 1 (run {} [.renew 1 1, .renew 2 2])
      [.feat 1 0 1, .attach 1, .detach 1, .nextId 1, .attach 1, .feat 1 0 0, .feat 1 0 1, .feat 2 0 1] = [1, 2, 3] := by
  refine ⟨?_, by decide⟩
  intro et hm
  simp at hm

/-- The same for EVERY SCHEDULE of the event model, both members (pinned commit and current tree): all numbers
    drawn from the generator by any interleaving of any number of GetOrAddFeature and NextFeatureId calls
    (`Feat.drawn`, in the order of time — including numbers NextFeatureId burnt without a feature) are strictly
    increasing, all below the generator's final value, and the number of every feature in the list is one of them. -/
theorem c07_numbers_never_reused (recheck : Bool) (evs : List Feat.Ev) :
    (Feat.drawn recheck evs).Pairwise (· < ·) ∧
    (∀ n ∈ Feat.drawn recheck evs, n < (Feat.run recheck evs).nextId) ∧
    ∀ f ∈ (Feat.run recheck evs).feats, f.id ∈ Feat.drawn recheck evs := by
  refine ⟨Feat.drawnFrom_increasing recheck evs {}, Feat.drawnFrom_lt recheck evs {}, ?_⟩
  intro f hf
  rcases Feat.feats_drawn_from recheck evs {} f hf with h | h
  · simp at h
  · exact h

example : Feat.drawn false [.lookup 1 7 0, .nextId, .lookup 2 7 0, .create 2, .create 1, .getOrAdd 3 8 1, .getOrAdd 4 7 0]
    = [1, 2, 3, 4] := by decide

/-- A call is handed what it ASKED for (both members, every schedule; `Feat.answers` = the completed calls with the
    type and role they asked for): the feature handed back has the asked type and role and is in the entity's feature
    list at the end of the schedule (features are never dropped); and the model's own record of results is exactly
    this list. (Before the deepening round `c07_same_feature` spoke about the type and role of the features handed
    back, not about what was asked.) -/
theorem c07_handed_what_was_asked (recheck : Bool) (evs : List Feat.Ev) :
    (∀ a ∈ Feat.answers recheck evs, a.f ∈ (Feat.run recheck evs).feats ∧ a.f.typ = a.typ ∧ a.f.role = a.role) ∧
    (Feat.run recheck evs).res = ((Feat.answers recheck evs).map fun a => (a.op, a.f)).reverse :=
  ⟨Feat.answersFrom_spec recheck evs {}, Feat.res_eq_answers recheck evs⟩

/-- CURRENT TREE's member, every schedule of any number of goroutines: any two calls that ASKED for the same type
    and role — whenever they ran, however their lookups and creations interleaved with each other and with other
    calls — were handed one and the same feature. -/
theorem c07_same_feature_asked (evs : List Feat.Ev) (a b : Feat.Answer)
    (ha : a ∈ Feat.answers true evs) (hb : b ∈ Feat.answers true evs)
    (ht : a.typ = b.typ) (hr : a.role = b.role) : a.f = b.f := by
  obtain ⟨ha1, ha2, ha3⟩ := Feat.answersFrom_spec true evs {} a ha
  obtain ⟨hb1, hb2, hb3⟩ := Feat.answersFrom_spec true evs {} b hb
  exact Feat.unique_of_onePer _ (Feat.c07_one_feature_per_type_role evs) a.f b.f ha1 hb1
    (by rw [ha2, hb2, ht]) (by rw [ha3, hb3, hr])

/-- non-vacuity: four goroutines, three of them asking for type 7 / client in an interleaved schedule, one for
    another type; a NextFeatureId call in between -/
example : Feat.answers true [.lookup 1 7 0, .lookup 2 7 0, .lookup 3 8 1, .nextId, .create 2, .create 3, .create 1, .getOrAdd 4 7 0] =
    [⟨2, 7, 0, ⟨2, 7, 0⟩⟩, ⟨3, 8, 1, ⟨3, 8, 1⟩⟩, ⟨1, 7, 0, ⟨2, 7, 0⟩⟩, ⟨4, 7, 0, ⟨2, 7, 0⟩⟩] := by decide

/-- Member `recheck = false` (the pinned commit), REFUTED in this form too: two calls asking for the same type and
    role are handed different features. -/
theorem c07_same_feature_asked_refuted :
    ¬ (∀ (evs : List Feat.Ev) (a b : Feat.Answer), a ∈ Feat.answers false evs → b ∈ Feat.answers false evs →
        a.typ = b.typ → a.role = b.role → a.f = b.f) := by
  intro h
  have := h [.lookup 1 7 0, .lookup 2 7 0, .create 1, .create 2] ⟨1, 7, 0, ⟨1, 7, 0⟩⟩ ⟨2, 7, 0, ⟨2, 7, 0⟩⟩
    (by decide) (by decide) rfl rfl
  revert this; decide

/-- Every call is answered (both members): a lookup either hands back a feature at once or leaves the call pending
    with what it asked for; the creation event of a pending call hands back a feature for exactly that request and
    clears the pending entry. So a goroutine that runs its lookup and then its creation always returns a feature. -/
theorem c07_call_answered (recheck : Bool) (s : Feat.St) (op typ role : Nat) :
    ((∃ f, Feat.answerOf recheck s (.lookup op typ role) = some ⟨op, typ, role, f⟩) ∨
      (Feat.step recheck s (.lookup op typ role)).missed.find? (·.1 = op) = some (op, typ, role)) ∧
    (s.missed.find? (·.1 = op) = some (op, typ, role) →
      ∃ f, Feat.answerOf recheck s (.create op) = some ⟨op, typ, role, f⟩ ∧
        (Feat.step recheck s (.create op)).missed.find? (·.1 = op) = none) :=
  ⟨Feat.lookup_answers_or_pends recheck s op typ role, Feat.create_answers recheck s op typ role⟩

example : (Feat.step true {} (.lookup 1 7 0)).missed.find? (·.1 = 1) = some (1, 7, 0) ∧
    Feat.answerOf true (Feat.step true {} (.lookup 1 7 0)) (.create 1) = some ⟨1, 7, 0, ⟨1, 7, 0⟩⟩ := by decide

end Spine.Props.C07
