import Spine.TeardownServe
import Spine.TeardownServeHist
import Spine.TeardownServeEnt
/-!
# C10 — "every other peer … continues to be served": a frame theorem over RESPONSES

Composition of the identity-key teardown model `Spine.TdK` with the dispatch model `Spine.Disp`
(`Spine/TeardownServe.lean`): `TdS.world x s` is the dispatch world the `TdK` state `s` denotes (peer := connection,
registries projected to (local server feature, connection, client feature), the remote features of a connection are the
features of the entities its device currently has) plus the context `x` a teardown does not touch (local features and
their data, senders, member of the dispatch family). The responses of the stack are those of `Disp.processCmd` /
`Disp.processCall` in that world.

Every theorem is stated for EVERY context, EVERY state of the invariant `TdK.Inv` (reachable: `C10Keys.c10k_reachable`),
EVERY `F : Facts` with `F.ok` (instantiated with the regenerated comparisons in `C10Gen`), BOTH teardown kinds
(`TdK.drop` = connection removed, also of an unknown connection; `TdK.dropEntity` = entity announced removed, also [0],
unknown entities, unknown connections), every other connection `q ≠ k` and every datagram / call of `q`.
-/
namespace Spine.Props.C10Serve
open Spine Spine.TdK Spine.TdS Spine.Disp

/-- Connection `k` removed: whatever datagram another connection `q` sends afterwards — a read, a write, a notification,
    a reply, a result, well-formed or not —, the stack's outputs on every connection other than `k`'s (the reply, the
    results, the notifications an accepted write fans out to the subscribers, read requests) are exactly the ones it would
    have produced had the connection not been removed. -/
theorem c10s_device_served (x : Ctx) (F : Facts) (hF : F.ok = true) (s : St) (hs : Inv s) (k q : Nat) (hq : q ≠ k) (d : Dg) :
    (processCmd (world x (drop F s k).1) q d).2.filter (fun o => o.1 ≠ k) =
    (processCmd (world x s) q d).2.filter (fun o => o.1 ≠ k) :=
  serve_cmd_frame (world_drop_frame x F hF s hs k) q hq d

/-- … and none of these outputs goes to the removed connection: serving another peer writes no datagram to `k` (the
    notification fan-out of an accepted write included) — "no further datagram is written to the removed connection" for
    the writers of the dispatch path. -/
theorem c10s_device_silent (x : Ctx) (F : Facts) (hF : F.ok = true) (s : St) (hs : Inv s) (k : Nat) (c : Conn)
    (hk : forSki s k = some c) (q : Nat) (hq : q ≠ k) (d : Dg) :
    ∀ o ∈ (processCmd (world x (drop F s k).1) q d).2, o.1 ≠ k := by
  intro o ho
  rcases outs_dest _ q d o ho with h | ⟨b, hb, h⟩
  · rw [h]; exact hq
  · rw [← h]; exact world_drop_no_subs x F hF s hs k c hk b hb

/-- … nor does a data change by the local application (`SetData` / `UpdateData`: the subscribers of the feature are notified)
    write anything to the removed connection. -/
theorem c10s_local_change_silent (x : Ctx) (F : Facts) (hF : F.ok = true) (s : St) (hs : Inv s) (k : Nat) (c : Conn)
    (hk : forSki s k = some c) (a : Addr) (fn v : Nat) :
    ∀ o ∈ (localSet (world x (drop F s k).1) a fn v).2, o.1 ≠ k := by
  have hn : ∀ o ∈ notifsAt (world x (drop F s k).1) a fn v, o.1 ≠ k := by
    intro o ho
    unfold notifsAt at ho
    obtain ⟨b, hb, rfl⟩ := List.mem_map.1 ho
    exact world_drop_no_subs x F hF s hs k c hk b (List.mem_filter.1 hb).1
  intro o ho
  unfold localSet at ho
  cases hl : locF (world x (drop F s k).1) a with
  | none => rw [hl] at ho; simp at ho
  | some lf =>
    rw [hl] at ho
    dsimp only at ho
    split at ho
    · exact hn o ho
    · simp at ho

/-- Entity `ent` of connection `k` announced as removed (any `ent`): every datagram of every other connection gets the
    same outputs on every connection other than `k`'s. -/
theorem c10s_entity_served (x : Ctx) (F : Facts) (hF : F.ok = true) (s : St) (hs : Inv s) (k : Nat) (ent : List Nat)
    (q : Nat) (hq : q ≠ k) (d : Dg) :
    (processCmd (world x (dropEntity F s k ent).1) q d).2.filter (fun o => o.1 ≠ k) =
    (processCmd (world x s) q d).2.filter (fun o => o.1 ≠ k) :=
  serve_cmd_frame (world_dropEntity_frame x F hF s hs k ent) q hq d

/-- Subscription requests, subscription deletes and binding deletes (node-management calls) of every other connection are
    answered exactly as without the teardown — after either kind of teardown. -/
theorem c10s_calls_served (x : Ctx) (F : Facts) (hF : F.ok = true) (s : St) (hs : Inv s) (k : Nat) (ent : List Nat)
    (q : Nat) (hq : q ≠ k) (ctr : Nat) (ack : Bool) (c : Call) (hc : Call.own c = true) :
    (processCall (world x (drop F s k).1) q ctr ack c).2 = (processCall (world x s) q ctr ack c).2 ∧
    (processCall (world x (dropEntity F s k ent).1) q ctr ack c).2 = (processCall (world x s) q ctr ack c).2 :=
  ⟨serve_call_frame (world_drop_frame x F hF s hs k) q hq ctr ack c hc,
   serve_call_frame (world_dropEntity_frame x F hF s hs k ent) q hq ctr ack c hc⟩

/-- A BINDING request of another connection is answered as without the teardown whenever the removed connection held no
    binding on the requested server feature (a server feature admits one binding, whoever holds it; if the removed
    connection held it the feature is free afterwards — example below). -/
theorem c10s_bind_served (x : Ctx) (F : Facts) (hF : F.ok = true) (s : St) (hs : Inv s) (k : Nat) (ent : List Nat)
    (q : Nat) (hq : q ≠ k) (ctr : Nat) (ack : Bool) (c a : Addr) (t : Nat)
    (hfree : ∀ b ∈ (world x s).binds, b.1 = a → b.2.1 ≠ k) :
    (processCall (world x (drop F s k).1) q ctr ack (.bind c a t)).2 = (processCall (world x s) q ctr ack (.bind c a t)).2 ∧
    (processCall (world x (dropEntity F s k ent).1) q ctr ack (.bind c a t)).2 = (processCall (world x s) q ctr ack (.bind c a t)).2 :=
  ⟨serve_bind_frame (world_drop_frame x F hF s hs k) q hq ctr ack c a t hfree,
   serve_bind_frame (world_dropEntity_frame x F hF s hs k ent) q hq ctr ack c a t hfree⟩

/-- HISTORIES: after either kind of teardown about connection `k`, along EVERY history of datagrams of the other
    connections, of their subscription requests / deletes and binding deletes, and of data changes by the local application
    (whose subscribers are notified), every step's outputs on every connection other than `k`'s are exactly those of the
    same history without the teardown — the other peers are served identically from then on, not only for one request. -/
theorem c10s_history_served (x : Ctx) (F : Facts) (hF : F.ok = true) (s : St) (hs : Inv s) (k : Nat) (ent : List Nat)
    (rs : List Req) (hok : ∀ r ∈ rs, r.okFor k = true) :
    reqRun k (world x (drop F s k).1) rs = reqRun k (world x s) rs ∧
    reqRun k (world x (dropEntity F s k ent).1) rs = reqRun k (world x s) rs :=
  ⟨serve_history_frame rs (world_drop_frame x F hF s hs k) hok,
   serve_history_frame rs (world_dropEntity_frame x F hF s hs k ent) hok⟩

/-! ### non-vacuity: two connections with IDENTICAL numbering, both subscribed to the local server feature [1]/1,
    connection 2 bound to it; local server features [1]/1 and [2]/1 with a readable and writable function 7 -/

def lf (e : Nat) : LF := { ent := [e], feat := 1, typ := 5, role := .server, fds := [7], ops := [(7, true)] }
def nm : LF := { ent := [0], feat := 0, typ := 9, role := .special, fds := [], ops := [], nm := true }
def x0 : Ctx :=
  { loc := [nm, lf 1, lf 2],
    featsOf := fun _ e => if e = [0] then [⟨[0], 0, [], 9, .special⟩] else [⟨e, 1, [7], 5, .client⟩, ⟨e, 2, [7], 5, .client⟩] }

def conns0 : List Conn := [⟨1, 101, [[0], [1], [1, 1]]⟩, ⟨2, 102, [[0], [1], [1, 1]]⟩]
def w0 : St := run Facts.head { conns := conns0 }
  [.entry false 1 1 [1] 1 [1] 1, .entry false 2 2 [1] 1 [1] 1, .entry true 3 2 [1] 1 [1] 1, .entry true 4 1 [1] 1 [2] 1]

theorem inv_w0 : Inv w0 := by
  refine ⟨?_, ?_, ?_, ?_⟩
  · intro a ha b hb h
    have ha' : a ∈ conns0 := ha
    have hb' : b ∈ conns0 := hb
    simp [conns0] at ha' hb'; rcases ha' with rfl | rfl <;> rcases hb' with rfl | rfl <;> simp_all
  · intro a ha b hb h
    have ha' : a ∈ conns0 := ha
    have hb' : b ∈ conns0 := hb
    simp [conns0] at ha' hb'; rcases ha' with rfl | rfl <;> rcases hb' with rfl | rfl <;> simp_all
  · decide
  · decide

/-- connection 2 (same entity and feature numbers as 1) writes value 42 to [1]/1 with acknowledgement, then reads it -/
def wr : Dg := { src := ([1], 1), dst := ([1], 1), ctr := some 5, ref := none, cls := .write, ack := true, fn := 7, val := 42 }
def rd : Dg := { src := ([1], 1), dst := ([1], 1), ctr := some 6, ref := none, cls := .read, ack := false, fn := 7 }

/-- before the teardown the write of connection 2 is accepted and notifies BOTH subscribers (1 and 2); after connection 1
    is removed it is accepted, notifies connection 2 only, and nothing is written to connection 1; the read is answered
    the same; hypotheses of the theorems hold -/
example : Inv w0 ∧ Facts.head.ok = true ∧
    (processCmd (world x0 w0) 2 wr).2 =
      [(1, .notify 7 ([1], 1) ([1], 1) 42), (2, .notify 7 ([1], 1) ([1], 1) 42), (2, .result (some 5) 0 ([1], 1) ([1], 1) (some 0))] ∧
    (processCmd (world x0 (drop Facts.head w0 1).1) 2 wr).2 =
      [(2, .notify 7 ([1], 1) ([1], 1) 42), (2, .result (some 5) 0 ([1], 1) ([1], 1) (some 0))] ∧
    (processCmd (world x0 (drop Facts.head w0 1).1) 2 rd).2 = [(2, .reply (some 6) 7 ([1], 1) ([1], 1) 0 (some 0))] ∧
    (processCmd (world x0 w0) 2 rd).2 = [(2, .reply (some 6) 7 ([1], 1) ([1], 1) 0 (some 0))] :=
  ⟨inv_w0, by decide, by decide, by decide, by decide, by decide⟩

/-- a local data change after the teardown notifies connection 2 only (before: both) -/
example : (localSet (world x0 (drop Facts.head w0 1).1) ([1], 1) 7 9).2 = [(2, .notify 7 ([1], 1) ([1], 1) 9)] ∧
    (localSet (world x0 w0) ([1], 1) 7 9).2 = [(1, .notify 7 ([1], 1) ([1], 1) 9), (2, .notify 7 ([1], 1) ([1], 1) 9)] := by decide

/-- the entity removal: [1] of connection 1 removed — connection 2's write from ITS [1]/1 is still accepted, and it no
    longer notifies connection 1 (whose subscription went with the entity) -/
example : (processCmd (world x0 (dropEntity Facts.head w0 1 [1]).1) 2 wr).2 =
      [(2, .notify 7 ([1], 1) ([1], 1) 42), (2, .result (some 5) 0 ([1], 1) ([1], 1) (some 0))] := by decide

/-- calls: a second subscription request of connection 2 for the same pair is refused before and after (error 1), a fresh
    one ([1]/2) is granted before and after; connection 2's binding request for [2]/1 is refused while connection 1 holds
    that feature's binding and granted once connection 1 is gone (the hypothesis of `c10s_bind_served` is necessary) -/
example :
    (processCall (world x0 w0) 2 9 true (.sub ([1], 1) ([1], 1) 5)).2 = [(2, .result (some 9) 1 nmAddr nmAddr (some 0))] ∧
    (processCall (world x0 (drop Facts.head w0 1).1) 2 9 true (.sub ([1], 1) ([1], 1) 5)).2 = [(2, .result (some 9) 1 nmAddr nmAddr (some 0))] ∧
    (processCall (world x0 w0) 2 9 true (.sub ([1], 2) ([1], 1) 5)).2 = [(2, .result (some 9) 0 nmAddr nmAddr (some 0))] ∧
    (processCall (world x0 (drop Facts.head w0 1).1) 2 9 true (.sub ([1], 2) ([1], 1) 5)).2 = [(2, .result (some 9) 0 nmAddr nmAddr (some 0))] ∧
    (processCall (world x0 w0) 2 9 true (.bind ([1], 2) ([2], 1) 5)).2 = [(2, .result (some 9) 1 nmAddr nmAddr (some 0))] ∧
    (processCall (world x0 (drop Facts.head w0 1).1) 2 9 true (.bind ([1], 2) ([2], 1) 5)).2 = [(2, .result (some 9) 0 nmAddr nmAddr (some 0))] := by
  decide

/-- a history after the teardown of connection 1: connection 2 subscribes [1]/2 as well, writes 42, the application sets 43,
    connection 2 reads — five outputs in four steps, the same with and without the teardown once the removed connection's
    share is left out (without the teardown connection 1 is notified twice) -/
def hist : List Req :=
  [.call 2 9 true (.sub ([1], 2) ([1], 1) 5), .dg 2 wr, .setData ([1], 1) 7 43, .dg 2 rd]

example : (∀ r ∈ hist, r.okFor 1 = true) ∧
    reqRun 1 (world x0 (drop Facts.head w0 1).1) hist =
      [[(2, .result (some 9) 0 nmAddr nmAddr (some 0))],
       [(2, .notify 7 ([1], 1) ([1], 1) 42), (2, .notify 7 ([1], 1) ([1], 2) 42), (2, .result (some 5) 0 ([1], 1) ([1], 1) (some 0))],
       [(2, .notify 7 ([1], 1) ([1], 1) 43), (2, .notify 7 ([1], 1) ([1], 2) 43)],
       [(2, .reply (some 6) 7 ([1], 1) ([1], 1) 43 (some 0))]] ∧
    ((reqRun 0 (world x0 w0) hist).map fun l => (l.filter fun o => o.1 = 1).length) = [0, 1, 1, 0] := by decide

/-! ### the SAME device after an entity removal: all and only what refers to that ENTITY -/

/-- Entity `ent` (not [0]) of connection `k` announced as removed: the datagrams connection `k` ITSELF sends afterwards from
    its other entities (to a local feature, or to node management except the two reads that list the caller's own
    subscriptions / bindings, which rightly shrink) produce exactly the outputs of before — minus the notifications to
    client features of the removed entity, the only outputs that disappear. (`x.wf`: the context lists, for an entity, features
    of that entity.) -/
theorem c10s_entity_same_device_served (x : Ctx) (hx : x.wf) (F : Facts) (hF : F.ok = true) (s : St) (hs : Inv s) (k : Nat) (c : Conn)
    (hk : forSki s k = some c) (ent : List Nat) (h0 : ent ≠ [0]) (hent : c.ents.contains ent = true)
    (d : Dg) (hsrc : d.src.1 ≠ ent) (h4 : d.fn ≠ 904) (h5 : d.fn ≠ 905) :
    (processCmd (world x (dropEntity F s k ent).1) k d).2.filter (fun o => !toEnt k ent o) =
    (processCmd (world x s) k d).2.filter (fun o => !toEnt k ent o) :=
  serve_cmd_frameE (world_dropEntity_frameE x hx F hF s hs k c hk ent h0 hent) d hsrc h4 h5

theorem x0_wf : x0.wf := by
  intro q e f hf
  simp only [x0] at hf
  split at hf
  · rename_i he; simp at hf; rw [hf, he]
  · simp at hf; rcases hf with rfl | rfl <;> rfl

/-- connection 1 is subscribed to [2]/1 from its entities [1] and [1,1] and bound to it from [1,1]; connection 2 is subscribed too -/
def w1 : St := run Facts.head { conns := conns0 }
  [.entry false 1 1 [1] 1 [2] 1, .entry false 2 1 [1, 1] 1 [2] 1, .entry false 3 2 [1] 1 [2] 1, .entry true 4 1 [1, 1] 1 [2] 1]
def wr1 : Dg := { src := ([1, 1], 1), dst := ([2], 1), ctr := some 8, ref := none, cls := .write, ack := true, fn := 7, val := 50 }

/-- non-vacuity: after [1] of connection 1 is removed, connection 1's write from [1,1]/1 is still accepted and still notifies
    its own [1,1]/1 and connection 2 — only the notification to the removed [1]/1 is gone -/
example : x0.wf ∧
    (processCmd (world x0 w1) 1 wr1).2 =
      [(1, .notify 7 ([2], 1) ([1], 1) 50), (1, .notify 7 ([2], 1) ([1, 1], 1) 50), (2, .notify 7 ([2], 1) ([1], 1) 50),
       (1, .result (some 8) 0 ([2], 1) ([1, 1], 1) (some 0))] ∧
    (processCmd (world x0 (dropEntity Facts.head w1 1 [1]).1) 1 wr1).2 =
      [(1, .notify 7 ([2], 1) ([1, 1], 1) 50), (2, .notify 7 ([2], 1) ([1], 1) 50), (1, .result (some 8) 0 ([2], 1) ([1, 1], 1) (some 0))] :=
  ⟨x0_wf, by decide, by decide⟩

/-- Sharpness: with the comparisons of the pinned commit (`RemoveBindingsForEntity` compared the entity address only,
    `Facts.pinned`, not `ok`) the removal of connection 1 takes connection 2's binding, and connection 2's write — accepted
    before — is DENIED afterwards: that peer is no longer served. -/
theorem c10s_pinned_not_served_refuted :
    Facts.pinned.ok = false ∧
    (processCmd (world x0 (drop Facts.pinned w0 1).1) 2 wr).2 = [(2, .result (some 5) 1 ([1], 1) ([1], 1) (some 0))] ∧
    (processCmd (world x0 w0) 2 wr).2.filter (fun o => o.1 ≠ 1) =
      [(2, .notify 7 ([1], 1) ([1], 1) 42), (2, .result (some 5) 0 ([1], 1) ([1], 1) (some 0))] := by decide

end Spine.Props.C10Serve
