import Spine.CmdNat
import Spine.CmdThm
/-!
# C18, part 2b — the refuted shapes (split from `C18Shapes` so that the two halves build in parallel)

The delete shapes on the code as written (`deleteByRef`), and the rows of the regenerated list `tagFailing`.
Everything here is decided by the kernel over the tables regenerated from the tree under test.
-/
namespace Spine.Props.C18
open Spine.Json Spine.Generated Spine.Cmd

theorem c18_delete_refuted_tok :
    ∀ f ∈ functions, ∀ sh ∈ Shape.all, sh.usesDelete = true → applicable f sh = true → tagBad f sh = false →
      roundtrip asWritten f sh tok = .error .deleteByRef := by decide +kernel

/-- REFUTED on the code as written (`notify-delete-filter-panics`): for every registered function, every
    shape with a delete selector or delete elements panics in `reflect.Value.Convert`, whatever the values,
    because `filtersForSelectorsElements` passes the address of its `any` parameter. -/
theorem c18_delete_refuted {α : Type} (a : Args α) :
    ∀ f ∈ functions, ∀ sh ∈ Shape.all, sh.usesDelete = true → applicable f sh = true → tagBad f sh = false →
      roundtrip asWritten f sh a = .error .deleteByRef :=
  fun f hf sh hsh hd ha hb =>
    roundtrip_error_of_tok asWritten f sh .deleteByRef (c18_delete_refuted_tok f hf sh hsh hd ha hb) a

example : ∃ f ∈ functions, applicable f .delSel = true ∧ tagBad f .delSel = false := by decide +kernel

/-- REFUTED on every row of `tagFailing` (`tag:<field>`): what is recognised after the round trip is not
    what was put in — the selectors resp. elements are silently dropped (no field carries the function's
    tag), or the builder panics (the tag sits on a field of another type). -/
theorem c18_roundtrip_cmd_refuted :
    ∀ f ∈ functions, ∀ sh ∈ Shape.all, applicable f sh = true → tagBad f sh = true →
      roundtrip clean f sh tok ≠ .ok (some (expected f sh tok)) := by decide +kernel

/-- … and where nothing panics the command is still recognised as the function with its payload: only
    the filter content is lost (this is why no test notices). -/
def silentlyDropped (f : FnRow) (sh : Shape) : Bool :=
  match roundtrip clean f sh tok with
  | .ok (some r) => r.function == some f.key && r.payloadTy == f.payloadKey &&
      r.payload == (expected f sh tok).payload
  | .ok none => false
  | .error _ => true

theorem c18_failing_rows_keep_function :
    ∀ f ∈ functions, ∀ sh ∈ Shape.all, applicable f sh = true → tagBad f sh = true →
      silentlyDropped f sh = true := by decide +kernel

end Spine.Props.C18
