import Spine.Registry
import Spine.Generated.Managers
/-!
# C10 — facts regenerated from the two managers on every run (tie b1)

`C10.c10_teardown_is_passes` models a teardown as a sequence of passes — per entity one `Reg.subsPass`, then per entity
one `Reg.bindsPass` — each ONE operation between which calls of other peers may be processed, and
`c10_subs_pass_others` / `c10_binds_pass_others` say that nothing of another peer is lost to a pass. That a pass is one
critical section (filter, events and write-back under one exclusive region — no snapshot / write-back split that
could overwrite an entry added in between) is a claim about the source text, re-extracted from `/repo`'s current tree
by the translator (generator `managers`) and re-checked by every `./check C10`.
-/
namespace Spine.Props.C10Gen
open Spine

/-- `RemoveSubscriptionsForEntity` and `RemoveBindingsForEntity` are one exclusive region of their manager's mutex each:
    a pass is one operation of the model. -/
theorem c10gen_pass_is_one_region :
    Generated.Managers.removeSubscriptionsForEntityOneRegion = true ∧
    Generated.Managers.removeBindingsForEntityOneRegion = true := by decide

/-- `RemoveSubscriptionsForDevice` / `RemoveBindingsForDevice` touch the registries only through the per-entity pass,
    once per entity: the device teardown is the sequence of passes of `c10_teardown_is_passes`. -/
theorem c10gen_device_teardown_is_passes : Generated.Managers.forDeviceDelegates = true := by decide

example : (Reg.subsPass { loc := [], rem := fun _ => [], subs := [⟨1, [1], 1, 1, [1], 1⟩, ⟨2, [1], 1, 2, [1], 1⟩] } 1 [1]).subs
    = [⟨2, [1], 1, 2, [1], 1⟩] := by decide

end Spine.Props.C10Gen
