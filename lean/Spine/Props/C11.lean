import Spine.HeapThm
import Spine.C04Wit
import Spine.C04Applied
/-!
# C11 — data handed to the application is a stable snapshot

Property theorems only (lemmas: `Spine/HeapThm.lean`; kernel-checked witnesses: `Spine/C04Wit.lean`).

Model: `Spine.Heap` — the function-data store with Go's sharing made explicit. A value of a list type is a struct
holding a slice header (array id, length); `DataCopy` (`FeatureLocal.DataCopy`, `FeatureRemote.DataCopy`) copies
the struct and shares the array; the filter-less persisting update adopts the caller's struct (which is also the
`Data` of the data-change event); the engine writes in place or into fresh arrays exactly as `model/update.go`
does. A *retained value* is a struct id; what the application reads from it is `readStruct`. Histories are lists of
`Op` (`copy`, `upd remote persist items filterPartial filterDelete`) run by `run` from any state.

**Which member is /repo.** /repo (after 36 `fix:` commits) is `Heap.head`; for this property only its flags
`fastpathAdopts` (on) and the in-place behaviour of the engine (unchanged, codified by the repository's own tests)
matter. With fixes/c04/04 (`Heap.patched`) `fastpathAdopts` is off. Theorems are stated for every member, with a
hypothesis where a flag must be off; refutations are stated for `head` and `patched`.

Clauses and status:

1. a data set obtained from a feature / delivered in an event never changes afterwards — STILL REFUTED on `head`
   and `patched` (`c11_snapshot_stable_refuted`: selector, identifier-less and delete-elements updates write through
   the snapshot's backing array, findings `inplace:copyToSelectedData`, `inplace:copyToAllData`,
   `inplace:RemoveElementFromItem`). REFUTED on `head` only: `c11_payload_stable_refuted` (the adopted value changes
   even under a merge-path update, finding `fastpath-pointer-shared`, removed by fixes/c04/04). PROVED for every
   history, of any length, from any reachable state, made of DataCopy, replace and merge-path updates
   (identifier-based partial updates and non-persisting filter-less updates; local or remote; persisting or not;
   succeeding or failing; every member): every retained value other than the adopted struct is stable
   (`c11_snapshot_stable_partial`, `c11_datacopy_stable`); for members with `fastpathAdopts` off there is no
   adopted struct: EVERY value ever handed in or out is stable across such histories
   (`c11_every_handle_stable`).
2. an update requested without persistence leaves the stored data as it was — STILL REFUTED
   (`c11_nonpersist_noop_refuted`, findings `nonpersist-modifies-store:*`); PROVED on the merge path
   (`c11_nonpersist_noop_partial`).
3. an update reported as failed leaves the stored data as it was — STILL REFUTED (`c11_failed_noop_refuted`,
   findings `failed-modifies-store:*`); PROVED on the merge path (`c11_failed_noop_partial`).

Exact regions (added): `c11_nonpersist_noop_exact` and `c11_failed_noop_exact` widen the two partial theorems from the
merge path to every update that makes no in-place write — delete filter without elements, and a partial part that
on an in-place path (selector, identifier-less) addresses no stored item it may write (a remote write skips
unwritable items; a local update writes every item it addresses): `partialTouches = false`. Each of the six
refutation witnesses of clauses 2 and 3 violates exactly one of these hypotheses (`c11_noop_refuted_is_outside`),
so region and known findings (`nonpersist-modifies-store:*`, `failed-modifies-store:*`) are complementary.
`c11_failed_is_remote`: a local update is never reported as failed, so clause 3 is about remote writes only.

Not modelled here: the concurrent clause ("while the snapshot is being read or encoded") is a data race on the
array elements and belongs to C17; the use-case helpers of `EntityLocal`, which modified a one-level copy of
`NodeManagementUseCaseData` in place (monitored by the harness, findings `usecase-helper-inplace:*`, removed by
fixes/c04/03). No repaired member exists for the in-place paths: the repository's own suite codifies them.
-/
namespace Spine.Props.C11
open Spine Spine.Heap

/-! ### clause 1: a snapshot never changes -/

/-- STILL REFUTED on /repo (`head`) and on the patched member: a DataCopy snapshot of [changeable0, fixed1] reads
    differently after a later selector update, after a later identifier-less update, and after a later delete with
    elements. -/
theorem c11_snapshot_stable_refuted : ∀ c ∈ [head, patched],
    let h := (dataCopy (updateData c lc {} false true [changeable0, fixed1] .nil .nil).1).1
    let snap := ((dataCopy (updateData c lc {} false true [changeable0, fixed1] .nil .nil).1).2).getD 0
    h.readStruct snap = [changeable0, fixed1] ∧
    (updateData c lc h false true [[none, none, none, some 2, none]] (.data ⟨some (selId 0), none⟩) .nil).1.readStruct snap ≠ h.readStruct snap ∧
    (updateData c lc h false true [[none, none, none, some 2, none]] .nodata .nil).1.readStruct snap ≠ h.readStruct snap ∧
    (updateData c lc h false true [] .nil (.data ⟨none, some elValue⟩)).1.readStruct snap ≠ h.readStruct snap := by
  intro c hc
  simp only [List.mem_cons, List.mem_nil_iff, or_false] at hc
  rcases hc with rfl | rfl <;> decide

/-- REFUTED on /repo (`head`; finding `fastpath-pointer-shared`, removed by fixes/c04/04): the value handed to a
    filter-less update — struct 0, which is also the payload of the data-change event — is adopted by the store and
    reads differently after a later identifier-based partial update, although that update writes nothing in place. -/
theorem c11_payload_stable_refuted :
    let h := (updateData head lc {} false true [changeable0, fixed1] .nil .nil).1
    (updateData head lc h false true [changeable2] .nodata .nil).1.readStruct 0 ≠ h.readStruct 0 := by decide

/-- PROVED for every member with `fastpathAdopts` off (`patched`): take ANY history `ops1` from the empty store
    (all shapes, in-place paths included); every struct it handed in or out — inputs, event payloads, DataCopy
    results, returned data — reads, across any later history of DataCopy, replace and merge-path updates, exactly what
    it read at the end of `ops1`. No struct is exempt: the store never points to a struct the application holds. -/
theorem c11_every_handle_stable (c : Cfg) (hc : c.fastpathAdopts = false) (sh : Shape) (ops1 ops2 : List Op)
    (hsafe : ∀ op ∈ ops2, op.Safe c sh) :
    ∀ x ∈ (runH c sh ({}, []) ops1).2,
      (run c sh (run c sh {} ops1) ops2).readStruct x = (run c sh {} ops1).readStruct x := by
  intro x hx
  obtain ⟨hw, hlt, hst⟩ := private_run c hc sh ops1 _ private_empty
  rw [runH_fst] at hw hlt hst
  exact readStruct_ext (run_safe_ext c sh ops2 _ hsafe) hw x (hlt x hx) (fun e => hst x e hx)

/-- non-vacuity: in `patched` the input of the filter-less update (struct 0) is a handle and stays stable under the
    merge-path update that changes it on /repo -/
example : patched.fastpathAdopts = false ∧
    0 ∈ (runH patched lc ({}, []) [.upd false true [changeable0, fixed1] .nil .nil]).2 ∧
    (run patched lc (run patched lc {} [.upd false true [changeable0, fixed1] .nil .nil]) [.upd false true [changeable2] .nodata .nil]).readStruct 0
      = [changeable0, fixed1] ∧
    (run patched lc (run patched lc {} [.upd false true [changeable0, fixed1] .nil .nil]) [.upd false true [changeable2] .nodata .nil]).readStore
      = [changeable0, fixed1, changeable2] := by decide

/-- PROVED (partial; every member of the family; histories of any length from any well-formed state): across
    DataCopy, replace and merge-path updates — `Op.Safe` — every retained value other than the struct the store
    currently points to reads exactly what it read before. -/
theorem c11_snapshot_stable_partial (c : Cfg) (sh : Shape) (h : H) (hw : h.WF) (ops : List Op)
    (hsafe : ∀ op ∈ ops, op.Safe c sh) (s : Nat) (hs : s < h.structs.length) (hne : h.store ≠ some s) :
    (run c sh h ops).readStruct s = h.readStruct s :=
  readStruct_ext (run_safe_ext c sh ops h hsafe) hw s hs hne

/-- PROVED (partial): take ANY history `ops1` (all shapes, in-place paths included) from the empty store, then a
    DataCopy; across any later history of DataCopy, replace and merge-path updates the snapshot reads the data that
    was stored when it was taken. -/
theorem c11_datacopy_stable (c : Cfg) (sh : Shape) (ops1 ops2 : List Op) (hsafe : ∀ op ∈ ops2, op.Safe c sh)
    (s : Nat) (hst : (run c sh {} ops1).store = some s) :
    let h := run c sh {} ops1
    (dataCopy h).2 = some h.structs.length ∧
      (run c sh (dataCopy h).1 ops2).readStruct h.structs.length = h.readStore := by
  intro h
  have hw : h.WF := wf_run c sh ops1 {} wf_empty
  obtain ⟨h1, h2, h3, h4⟩ := dataCopy_snapshot hw s hst
  refine ⟨h1, ?_⟩
  rw [readStruct_ext (run_safe_ext c sh ops2 _ hsafe) (wf_dataCopy hw) _ h4 h3]
  exact h2

/-- non-vacuity: a history that reaches a non-trivial store through an in-place path, a snapshot, and a later
    history of a merge-path update, a non-persisting update, a replace and another merge that all change the store -/
def exOps1 : List Op := [.upd false true [changeable0, fixed1] .nil .nil, .upd false true [[none, none, none, some 0, none]] .nodata .nil]
def exOps2 : List Op := [.upd false true [changeable2] .nodata .nil, .upd true false [[some 0, none, none, some 1, none]] .nil .nil,
  .copy, .upd false true [changeable1] .nil .nil, .upd false true [[some 1, none, some 1, none, none]] .nodata .nil]
example : (∀ op ∈ exOps2, op.Safe aw lc) ∧ (run aw lc {} exOps1).store = some 0 ∧
    (run aw lc {} exOps1).readStore = [[some 0, some 1, none, some 0, none], [some 1, some 0, none, some 0, none]] ∧
    (run aw lc (dataCopy (run aw lc {} exOps1)).1 exOps2).readStore = [[some 1, some 1, some 1, some 2, none]] ∧
    (run aw lc (dataCopy (run aw lc {} exOps1)).1 exOps2).readStruct 3 = (run aw lc {} exOps1).readStore := by
  refine ⟨?_, by decide, by decide, by decide, by decide⟩
  intro op hop
  simp only [exOps2, List.mem_cons, List.mem_nil_iff, or_false] at hop
  rcases hop with rfl | rfl | rfl | rfl | rfl <;> simp only [Op.Safe] <;> decide

/-! ### clause 2: an update requested without persistence leaves the stored data as it was -/

/-- STILL REFUTED on /repo (`head`) and on the patched member: `UpdateData(persist = false)` with an
    identifier-less item, with a selector and with delete elements succeeds and has modified the stored data. -/
theorem c11_nonpersist_noop_refuted : ∀ c ∈ [head, patched],
    let h := storeOf [changeable0, fixed1]
    (updateData c lc h false false [[none, none, none, some 2, none]] .nil .nil).1.readStore ≠ h.readStore ∧
    (updateData c lc h false false [[none, none, none, some 2, none]] (.data ⟨some (selId 0), none⟩) .nil).1.readStore ≠ h.readStore ∧
    (updateData c lc h false false [] .nil (.data ⟨none, some elValue⟩)).1.readStore ≠ h.readStore := by
  intro c hc
  simp only [List.mem_cons, List.mem_nil_iff, or_false] at hc
  rcases hc with rfl | rfl <;> decide

/-- PROVED (partial; every member; local or remote): a non-persisting update on the merge path — no filter data,
    items with identifiers — leaves the stored data exactly as it was. -/
theorem c11_nonpersist_noop_partial (c : Cfg) (sh : Shape) (h : H) (hw : h.WF) (remote : Bool) (nw : List Item)
    (fp fd : FArg) (hp : fp.toOpt = none) (hd : fd.toOpt = none) (hnw : MergeNw sh nw) :
    (updateData c sh h remote false nw fp fd).1.readStore = h.readStore :=
  updateData_merge_noop c sh hw remote false nw fp fd hp hd hnw (by simp [fastPath]) (Or.inl rfl)

/-- non-vacuity: the non-persisting update returns a merged list that differs from the stored data -/
example : (updateData aw lc (storeOf [changeable0, fixed1]) false false [[some 0, none, none, some 2, none]] .nil .nil).2 = .done true 1 (some 2) ∧
    (updateData aw lc (storeOf [changeable0, fixed1]) false false [[some 0, none, none, some 2, none]] .nil .nil).1.readStruct 2
      = [[some 0, some 1, none, some 2, none], fixed1] ∧
    (updateData aw lc (storeOf [changeable0, fixed1]) false false [[some 0, none, none, some 2, none]] .nil .nil).1.readStore
      = [changeable0, fixed1] := by decide

/-! ### clause 3: an update reported as failed leaves the stored data as it was -/

/-- STILL REFUTED on /repo (`head`) and on the patched member: updates reported as failed (remote writes meeting an
    unchangeable element they address) that have modified the stored data — identifier-less, selector, delete
    elements. -/
theorem c11_failed_noop_refuted : ∀ c ∈ [head, patched],
    (updateData c lc (storeOf [changeable0, fixed1]) true true [[none, none, none, some 2, none]] .nodata .nil).2 = .done false 1 none ∧
    (updateData c lc (storeOf [changeable0, fixed1]) true true [[none, none, none, some 2, none]] .nodata .nil).1.readStore
      ≠ (storeOf [changeable0, fixed1]).readStore ∧
    (updateData c lc (storeOf [fixed1, changeable2]) true true [[none, none, none, some 2, none]] (.data ⟨some selAll, none⟩) .nil).2 = .done false 1 none ∧
    (updateData c lc (storeOf [fixed1, changeable2]) true true [[none, none, none, some 2, none]] (.data ⟨some selAll, none⟩) .nil).1.readStore
      ≠ (storeOf [fixed1, changeable2]).readStore ∧
    (updateData c lc (storeOf [changeable0, fixed1]) true true [] .nil (.data ⟨none, some elValue⟩)).2 = .done false 1 none ∧
    (updateData c lc (storeOf [changeable0, fixed1]) true true [] .nil (.data ⟨none, some elValue⟩)).1.readStore
      ≠ (storeOf [changeable0, fixed1]).readStore := by
  intro c hc
  simp only [List.mem_cons, List.mem_nil_iff, or_false] at hc
  rcases hc with rfl | rfl <;> decide

/-- PROVED (partial; every member): an update on the merge path that is reported as failed leaves the stored data
    exactly as it was. -/
theorem c11_failed_noop_partial (c : Cfg) (sh : Shape) (h : H) (hw : h.WF) (remote persist : Bool) (nw : List Item)
    (fp fd : FArg) (hp : fp.toOpt = none) (hd : fd.toOpt = none) (hnw : MergeNw sh nw)
    (hnf : fastPath c (h.allocValue nw).1 remote persist fp fd = false)
    (hfail : ∃ i o, (updateData c sh h remote persist nw fp fd).2 = .done false i o) :
    (updateData c sh h remote persist nw fp fd).1.readStore = h.readStore :=
  updateData_merge_noop c sh hw remote persist nw fp fd hp hd hnw hnf (Or.inr hfail)

/-- non-vacuity: on /repo a merge-path write that addresses the unchangeable limit 1 fails -/
example : (updateData head lc (storeOf [changeable0, fixed1]) true true [[some 1, none, none, some 0, none]] .nodata .nil).2 = .done false 1 none ∧
    fastPath head ((storeOf [changeable0, fixed1]).allocValue [[some 1, none, none, some 0, none]]).1 true true .nodata .nil = false := by
  decide

/-- every state a history reaches is well-formed (slices point into existing arrays, the store to an existing
    struct) — the hypothesis `h.WF` of the partial theorems costs nothing -/
theorem c11_reachable_wf (c : Cfg) (sh : Shape) (ops : List Op) : (run c sh {} ops).WF :=
  wf_run c sh ops {} wf_empty

/-! ### clauses 2 and 3 in their exact regions -/

/-- PROVED (every member, every shape, local or remote): **a non-persisting update leaves the stored data as it
    was** whenever it makes no in-place write: its delete filter names no elements and its partial part addresses,
    on an in-place path, no stored item it may write. The merge path (`c11_nonpersist_noop_partial`), a selector
    that matches nothing, a delete by selector alone, a remote update that meets unwritable items only are all
    inside. -/
theorem c11_nonpersist_noop_exact (c : Cfg) (sh : Shape) (h : H) (hw : h.WF) (remote : Bool) (nw : List Item)
    (fp fd : FArg) (hel : ∀ f, fd.toOpt = some f → f.el = none)
    (ht : partialTouches c.u sh remote nw fp.toOpt h.readStore = false) :
    (updateData c sh h remote false nw fp fd).1.readStore = h.readStore :=
  updateData_nochange c sh hw remote false nw fp fd (by simp [fastPath]) hel ht (Or.inl rfl)

/-- non-vacuity: a non-persisting delete-by-selector combined with a merge returns the new list and leaves the
    store alone; a non-persisting selector update whose selector matches nothing -/
example : (updateData patched lc (storeOf [changeable0, fixed1]) false false [[some 1, none, none, some 7, none]] .nil (.data ⟨some (selId 0), none⟩)).2
      = .done true 1 (some 2) ∧
    (updateData patched lc (storeOf [changeable0, fixed1]) false false [[some 1, none, none, some 7, none]] .nil (.data ⟨some (selId 0), none⟩)).1.readStruct 2
      = [[some 1, some 0, none, some 7, none]] ∧
    partialTouches patched.u lc false [[some 1, none, none, some 7, none]] none (storeOf [changeable0, fixed1]).readStore = false ∧
    partialTouches patched.u lc false [[none, none, none, some 7, none]] (some ⟨some (selId 5), none⟩) (storeOf [changeable0, fixed1]).readStore = false := by
  decide

/-- PROVED (every member, every shape, persisting or not): **an update reported as failed leaves the stored data
    as it was** whenever its delete filter names no elements and its partial part addresses, on an in-place path,
    no stored item it may write. -/
theorem c11_failed_noop_exact (c : Cfg) (sh : Shape) (h : H) (hw : h.WF) (remote persist : Bool) (nw : List Item)
    (fp fd : FArg) (hnf : fastPath c (h.allocValue nw).1 remote persist fp fd = false)
    (hel : ∀ f, fd.toOpt = some f → f.el = none)
    (ht : partialTouches c.u sh remote nw fp.toOpt h.readStore = false)
    (hfail : ∃ i o, (updateData c sh h remote persist nw fp fd).2 = .done false i o) :
    (updateData c sh h remote persist nw fp fd).1.readStore = h.readStore :=
  updateData_nochange c sh hw remote persist nw fp fd hnf hel ht (Or.inr hfail)

example : (updateData patched lc (storeOf [changeable0, fixed1]) true true [[none, none, none, some 7, none]] (.data ⟨some (selId 1), none⟩) .nil).2
      = .done false 1 none ∧
    partialTouches patched.u lc true [[none, none, none, some 7, none]] (some ⟨some (selId 1), none⟩) (storeOf [changeable0, fixed1]).readStore = false := by
  decide

/-- PROVED (every member): a LOCAL update is never reported as failed — `success` only becomes false on a remote
    write. Clause 3 is therefore a statement about remote writes, and `c11_failed_noop_exact` with `remote = true`
    covers every failing call there is. -/
theorem c11_failed_is_remote (c : Cfg) (sh : Shape) (h : H) (persist : Bool) (nw : List Item) (fp fd : FArg) :
    ∀ i o, (updateData c sh h false persist nw fp fd).2 ≠ .done false i o :=
  updateData_local_never_fails c sh h persist nw fp fd

/-- the regions are exact: each refutation witness of `c11_nonpersist_noop_refuted` and `c11_failed_noop_refuted`
    violates exactly one hypothesis — the identifier-less and the selector updates address an item they may write,
    the delete names elements -/
theorem c11_noop_refuted_is_outside : ∀ c ∈ [head, patched],
    partialTouches c.u lc false [[none, none, none, some 2, none]] none (storeOf [changeable0, fixed1]).readStore = true ∧
    partialTouches c.u lc false [[none, none, none, some 2, none]] (some ⟨some (selId 0), none⟩) (storeOf [changeable0, fixed1]).readStore = true ∧
    partialTouches c.u lc true [[none, none, none, some 2, none]] none (storeOf [changeable0, fixed1]).readStore = true ∧
    partialTouches c.u lc true [[none, none, none, some 2, none]] (some ⟨some selAll, none⟩) (storeOf [fixed1, changeable2]).readStore = true ∧
    (⟨none, some elValue⟩ : Filter).el ≠ none := by
  intro c hc
  simp only [List.mem_cons, List.mem_nil_iff, or_false] at hc
  rcases hc with rfl | rfl <;> exact ⟨by decide, by decide, by decide, by decide, by decide⟩

end Spine.Props.C11
