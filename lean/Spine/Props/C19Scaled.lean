import Spine.FExpr
import Spine.Generated.ScaledExpr
/-!
# C19, clauses S1 / S2 — the model's intermediate expressions are the ones in the source

The translator generator `scaledexpr` recovers from the source of the tree under test (go/ast, looking through
helpers, renames, conversions) the `strconv.FormatFloat` call that yields the count of fractional digits, the cap
of the count, the function of package `math` applied to the product, the product, and what `GetValue` returns for
a negative / non-negative scale — as expression trees (`Spine/Generated/ScaledExpr.lean`), validated by the
generator against the compiled code on a sample. The theorems below say that these trees, evaluated over
`Spine.Num`, ARE the hand-written model (`scaledProduct`, `getValue` of the member the source denotes); the
harness evaluates the same trees with the Go runtime to obtain the `decimals` and `product` columns it compares
with the model bit for bit. Guarded by `known` (a refactoring the generator cannot follow makes them vacuous and
the harness falls back to its own expressions; it never alarms).
-/
namespace Spine.Props.C19Scaled
open Spine.Num Spine.FExpr Spine.Generated.ScaledExpr

/-- the member of the model family that the source denotes: truncation iff `math.Trunc` is applied, the inexact
    power iff `GetValue` does not divide for a negative scale -/
def srcCfg : Cfg := ⟨roundFn == 0, !isDiv getNeg⟩

/-- the argument of the rounding function in the source is the model's `value * math.Pow(10, decimals)` -/
theorem c19_src_product :
    known = false ∨ ∀ v : Dbl, evalF ⟨v, 0, 0, decimalsCapped v⟩ product = some (scaledProduct v) := by
  first
  | exact Or.inl (by decide)
  | exact Or.inr (fun v => rfl)
  | exact Or.inr (fun v => by
      simp only [product, evalF, evalExp, evalI, Option.map_some, scaledProduct]
      rw [Spine.FExpr.mul_comm])

/-- the rounding function in the source is `math.Trunc` or `math.Round`, and `NewScaledNumberType` of the model
    member the source denotes is that function applied to the recovered product -/
theorem c19_src_number :
    known = false ∨ (roundFn ≤ 1 ∧ ∀ v : Dbl, ∀ p : Dbl, evalF ⟨v, 0, 0, decimalsCapped v⟩ product = some p →
      (newScaled srcCfg v).1 = toInt srcCfg p) := by
  rcases c19_src_product with h | h
  · exact Or.inl h
  · refine Or.inr ⟨by decide, fun v p hp => ?_⟩
    rw [h v] at hp
    cases hp
    rfl

/-- what `GetValue` returns in the source is the model's `getValue` of that member, for every number and scale -/
theorem c19_src_getvalue :
    known = false ∨
    ((∀ n s : Int, s < 0 → evalF ⟨⟨false, 0, 0⟩, n, s, 0⟩ getNeg = some (getValue srcCfg n s)) ∧
     (∀ n s : Int, 0 ≤ s → evalF ⟨⟨false, 0, 0⟩, n, s, 0⟩ getNonneg = some (getValue srcCfg n s))) := by
  first
  | exact Or.inl (by decide)
  | exact Or.inr ⟨fun n s hs => by
        have hs' : decide (s < 0) = true := by simpa using hs
        simp [getNeg, evalF, evalExp, evalI, getValue, srcCfg, isDiv, hs'],
      fun n s hs => by
        have hs' : decide (s < 0) = false := by simpa using hs
        simp [getNonneg, evalF, evalExp, evalI, getValue, srcCfg, isDiv, hs']⟩

/-- the count of fractional digits: the source formats with `strconv.FormatFloat(value, 'f', -1, 64)` (assumption
    A-strconv is about exactly this call) and caps the count at the model's cap -/
theorem c19_src_decimals :
    known = false ∨
    (fmtVerb = 102 ∧ fmtPrec = -1 ∧ fmtBits = 64 ∧ decimalsCap = 4 ∧ ∀ v : Dbl, decimalsCapped v ≤ decimalsCap) := by
  first
  | exact Or.inl (by decide)
  | exact Or.inr ⟨by decide, by decide, by decide, by decide, fun v => decimalsCapped_le v⟩

/-- non-vacuity (where recovered — the translator note in the evidence of every run says `known true` or why not; a
    refactoring the generator cannot follow must make these theorems vacuous, not break them): the member is one of the two of the family; 0.29 through the recovered
    product is the double 28.999999999999996 -/
example : known = false ∨ ((srcCfg = .repaired ∨ srcCfg = .asWritten) ∧
    evalF ⟨parseDec 29 2, 0, 0, 2⟩ product = some ⟨false, 8162774324609023, -48⟩) := by
  first
  | exact Or.inl (by decide)
  | exact Or.inr (by decide +kernel)

end Spine.Props.C19Scaled
