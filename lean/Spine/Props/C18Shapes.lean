import Spine.CmdNat
import Spine.CmdThm
/-!
# C18, part 2 — the nine command shapes, for every registered function

See `Spine/Props/C18.lean` for the overview. Everything here is decided by the kernel over the tables
regenerated from the tree under test.
-/
namespace Spine.Props.C18
open Spine.Json Spine.Generated Spine.Cmd

/-! ## the nine command shapes -/

/-- What the kernel decides, over the regenerated tables, with the five distinct tokens `tok` in the
    place of the values (`roundtrip_of_tok` lifts it to all values). -/
theorem c18_roundtrip_cmd_tok :
    ∀ f ∈ functions, ∀ sh ∈ Shape.all, applicable f sh = true → tagBad f sh = false →
      roundtrip clean f sh tok = .ok (some (expected f sh tok)) := by decide +kernel

/-- MAIN (repaired member `clean`, i.e. with function_data_cmd.go:68,71 passing the values): for every
    registered function, every command shape the API can build for it (the nine of the property and three
    combinations) and EVERY choice of payload, selectors and elements values (of any type `α` — take
    `α := J`, the values' JSON encodings), the command built, encoded and decoded again is recognised as
    that same function with the same payload type, the same payload, and the same partial and delete
    filters with the same selectors and elements (same Go type, same value) — for every row outside
    `tagFailing`. With `c18_decode_encode` (the values themselves survive encoding and decoding up to
    absent/empty lists) this is the property's first sentence for the model. -/
theorem c18_roundtrip_cmd {α : Type} (a : Args α) :
    ∀ f ∈ functions, ∀ sh ∈ Shape.all, applicable f sh = true → tagBad f sh = false →
      roundtrip clean f sh a = .ok (some (expected f sh a)) :=
  fun f hf sh hsh ha hb => roundtrip_of_tok clean f sh (c18_roundtrip_cmd_tok f hf sh hsh ha hb) a

/-- non-vacuity: every shape is applicable to some function outside `tagFailing` -/
example : ∀ sh ∈ Shape.all, ∃ f ∈ functions, applicable f sh = true ∧ tagBad f sh = false := by
  decide +kernel

/-- EVERY CALL, not only the listed shapes: `ReadCmdType`, `ReplyCmdType` and `NotifyOrWriteCmdType` can be
    called with each selectors / elements argument given or nil — 22 presence patterns (`Call`). Each builds
    what one of the 15 shapes builds (`buildCall_eq_shape`; with `partialWithoutSelector` the other
    arguments are ignored, `notifyOrWriteCmd_pws`), so for EVERY call and every choice of values the
    command built, encoded and decoded is recognised as what the shape of the call demands. -/
theorem c18_roundtrip_every_call {α : Type} (a : Args α) :
    ∀ f ∈ functions, ∀ c : Call, applicable f c.shape = true → tagBad f c.shape = false →
      roundtripCall clean f c a = .ok (some (expected f c.shape a)) := by
  intro f hf c ha hb
  rw [roundtripCall_eq_shape]
  exact c18_roundtrip_cmd a f hf c.shape c.shape_mem_all ha hb

/-- non-vacuity: all 22 calls are covered, 15 of them ignore no argument and reach 15 distinct shapes,
    and a call with all three of delete selector, partial selector and delete elements is among them -/
example : Call.all.length = 22 ∧ (Call.all.filter fun c => !c.ignoresArgs).length = 15 ∧
    ((Call.all.filter fun c => !c.ignoresArgs).map Call.shape).eraseDups.length = 15 ∧
    (∃ f ∈ functions, applicable f (Call.now true true false true).shape = true ∧
      tagBad f (Call.now true true false true).shape = false) := by decide +kernel

/-- PARTIAL (member as written): the same for the shapes that carry no delete filter. -/
theorem c18_roundtrip_cmd_partial {α : Type} (a : Args α) :
    ∀ f ∈ functions, ∀ sh ∈ Shape.all, sh.usesDelete = false → applicable f sh = true → tagBad f sh = false →
      roundtrip asWritten f sh a = .ok (some (expected f sh a)) := by
  intro f hf sh hsh hd ha hb
  rw [roundtrip_cfg_indep f sh a hd]
  exact c18_roundtrip_cmd a f hf sh hsh ha hb

/-- Absent selectors / elements may reach the builders as the untyped nil or as a nil pointer of their
    concrete type: the command built is the same (the model of `util.IsNil`; the harness passes both
    forms in every argument position and compares the commands). -/
theorem c18_builder_nil_forms_agree {α : Type} (cfg : Cfg) (fn : FnRow) (x : α) (a b c : ArgForm α) (pws : Bool) :
    readCmdAny cfg fn x a b = readCmdAny cfg fn x a.forget b.forget ∧
    notifyOrWriteCmdAny cfg fn x a b pws c = notifyOrWriteCmdAny cfg fn x a.forget b.forget pws c.forget :=
  builder_nil_forms_agree cfg fn x a b c pws

example : (ArgForm.typedNil 7 : ArgForm Nat).forget = .untypedNil ∧
    readCmdAny clean ⟨"f", 1, "T", 2, false⟩ (0 : Nat) (.typedNil 7) .untypedNil =
      readCmdAny clean ⟨"f", 1, "T", 2, false⟩ 0 .untypedNil .untypedNil := ⟨rfl, rfl⟩

end Spine.Props.C18
