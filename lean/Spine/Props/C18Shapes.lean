import Spine.CmdThm
/-!
# C18, part 2 — the nine command shapes, for every registered function

See `Spine/Props/C18.lean` for the overview. Everything here is decided by the kernel over the tables
regenerated from the tree under test.
-/
namespace Spine.Props.C18
open Spine.Json Spine.Generated Spine.Cmd

/-! ## the nine command shapes -/

/-- MAIN (repaired member `clean`, i.e. with function_data_cmd.go:68,71 passing the values): for every
    registered function and every command shape the API can build for it (the nine of the property and
    three combinations), the command built, encoded and decoded again is recognised as that same
    function with the same payload type, the same payload, and the same partial and delete filters with
    the same selectors and elements (same Go type, same value) — for every row outside `tagFailing`. -/
theorem c18_roundtrip_cmd :
    ∀ f ∈ functions, ∀ sh ∈ Shape.all, applicable f sh = true → tagBad f sh = false →
      roundtrip clean f sh tok = .ok (some (expected f sh tok)) := by decide +kernel

/-- non-vacuity: every shape is applicable to some function outside `tagFailing` -/
example : ∀ sh ∈ Shape.all, ∃ f ∈ functions, applicable f sh = true ∧ tagBad f sh = false := by
  decide +kernel

/-- PARTIAL (member as written): the same for the shapes that carry no delete filter. -/
theorem c18_roundtrip_cmd_partial :
    ∀ f ∈ functions, ∀ sh ∈ Shape.all, sh.usesDelete = false → applicable f sh = true → tagBad f sh = false →
      roundtrip asWritten f sh tok = .ok (some (expected f sh tok)) := by
  intro f hf sh hsh hd ha hb
  rw [roundtrip_cfg_indep f sh tok hd]
  exact c18_roundtrip_cmd f hf sh hsh ha hb

/-- REFUTED on the code as written (`notify-delete-filter-panics`): for every registered function, every
    shape with a delete selector or delete elements panics in `reflect.Value.Convert`, because
    `filtersForSelectorsElements` passes the address of its `any` parameter. -/
theorem c18_delete_refuted :
    ∀ f ∈ functions, ∀ sh ∈ Shape.all, sh.usesDelete = true → applicable f sh = true → tagBad f sh = false →
      roundtrip asWritten f sh tok = .error .deleteByRef := by decide +kernel

example : ∃ f ∈ functions, applicable f .delSel = true ∧ tagBad f .delSel = false := by decide +kernel

/-- REFUTED on every row of `tagFailing` (`tag:<field>`): the command is built without panic, but what is
    recognised after the round trip is not what was put in — the selectors resp. elements are gone. -/
def silentlyDropped (f : FnRow) (sh : Shape) : Bool :=
  match roundtrip clean f sh tok with
  | .ok (some r) => r != expected f sh tok && r.function == some f.key && r.payloadTy == f.payloadKey
  | _ => false

theorem c18_roundtrip_cmd_refuted :
    ∀ f ∈ functions, ∀ sh ∈ Shape.all, applicable f sh = true → tagBad f sh = true →
      silentlyDropped f sh = true := by decide +kernel

end Spine.Props.C18
