import Spine.SenderKeyThm
import Spine.SenderEvThm
/-!
# C13 — "identical request (same destination, same command)": the request identity inside the model

`Spine.Snd.request` works on an abstract hash. What the statement calls *identical* is fixed here: the same
destination address (device, entity path, feature) and the same command LIST — every command, in order, and how many
(`SndK.Key`). The keyed model `SndK.requestK f` is `Sender.Request` with `hashForMessage = f`; the monitor `SpecK`
judges a withholding by key equality and never sees a hash. The Go harness sends the structured key to the driver
(op `reqk`; requests with 0–3 commands, equal prefixes and different tails, permutations, destinations differing in one
component) and evaluates the same monitor on the implementation's trace; which components the real `hashForMessage`
covers is regenerated from the source (`Spine.Props.C13Hash`).
-/
namespace Spine.Props.C13Key
open Spine Spine.SndK

/-- The model's request identity is the WHOLE key: two requests have the same hash iff they have the same destination
    device, entity path and feature and the same command list (same commands, same order, same number). -/
theorem c13_identity_is_whole_key (k k' : Key) : k.hash = k'.hash ↔ k = k' :=
  ⟨Key.hash_inj k k', fun h => h ▸ rfl⟩

/-- non-vacuity: keys that differ only in a later command, in the number of commands, in their order, or in one
    component of the destination have different hashes -/
example : (Key.mk ⟨1, [1], 1⟩ [1, 2]).hash ≠ (Key.mk ⟨1, [1], 1⟩ [1, 3]).hash ∧
    (Key.mk ⟨1, [1], 1⟩ [1]).hash ≠ (Key.mk ⟨1, [1], 1⟩ [1, 2]).hash ∧
    (Key.mk ⟨1, [1], 1⟩ [1, 2]).hash ≠ (Key.mk ⟨1, [1], 1⟩ [2, 1]).hash ∧
    (Key.mk ⟨1, [1], 1⟩ []).hash ≠ (Key.mk ⟨1, [1], 1⟩ [1]).hash ∧
    (Key.mk ⟨1, [1], 1⟩ [1]).hash ≠ (Key.mk ⟨1, [1], 2⟩ [1]).hash ∧
    (Key.mk ⟨1, [1], 1⟩ [1]).hash ≠ (Key.mk ⟨1, [1, 1], 1⟩ [1]).hash ∧
    (Key.mk ⟨1, [1], 1⟩ [1]).hash ≠ (Key.mk ⟨2, [1], 1⟩ [1]).hash ∧
    (Key.mk ⟨1, [1, 2], 1⟩ [3]).hash ≠ (Key.mk ⟨1, [1], 1⟩ [2, 3]).hash := by decide

/-- MODEL ⊨ SPEC with "identical" = same key, every history: a request is withheld only while a request with the
    same destination and the same command list is written and unanswered, and then with that request's counter; a
    response re-enables; a request that differs in ANY part of the key is never withheld. Holds for every hash
    function that is injective on keys (A-hash), in particular for the model's. -/
theorem c13_keyed_model_satisfies_spec (ops : List OpK) :
    (SpecK.run [] (observationsK Key.hash {} ops)).isSome :=
  keyed_satisfies_spec Key.hash Key.hash_inj ops

theorem c13_keyed_model_satisfies_spec_any_injective_hash (f : Key → Nat) (hinj : ∀ k k', f k = f k' → k = k')
    (ops : List OpK) : (SpecK.run [] (observationsK f {} ops)).isSome :=
  keyed_satisfies_spec f hinj ops

/-- non-vacuity of the hypothesis: injective hash functions exist (the model's is one) -/
example : ∀ k k' : Key, k.hash = k'.hash → k = k' := Key.hash_inj

/-- non-vacuity: the key-level monitor rejects the withholding of a request that differs in a later command, and
    accepts a legitimate withholding; the model's history with both passes -/
example : SpecK.run [] [.req ⟨⟨1, [1], 1⟩, [1, 2]⟩ 1 true, .req ⟨⟨1, [1], 1⟩, [1, 3]⟩ 1 false] = none ∧
    (SpecK.run [] [.req ⟨⟨1, [1], 1⟩, [1, 2]⟩ 1 true, .req ⟨⟨1, [1], 1⟩, [1, 2]⟩ 1 false]).isSome ∧
    observationsK Key.hash {} [.request ⟨⟨1, [1], 1⟩, [1, 2]⟩, .request ⟨⟨1, [1], 1⟩, [1, 3]⟩,
      .request ⟨⟨1, [1], 1⟩, [1, 2]⟩, .response 1, .request ⟨⟨1, [1], 1⟩, [1, 2]⟩] =
      [.req ⟨⟨1, [1], 1⟩, [1, 2]⟩ 1 true, .req ⟨⟨1, [1], 1⟩, [1, 3]⟩ 2 true, .req ⟨⟨1, [1], 1⟩, [1, 2]⟩ 1 false,
       .resp 1, .req ⟨⟨1, [1], 1⟩, [1, 2]⟩ 3 true] := by decide

/-- "A different request is never withheld", state level, any state: if no remembered hash stems from the key `k`
    itself, the request is written. -/
theorem c13_distinct_key_never_withheld (s : Snd.St) (k : Key)
    (hn : ∀ k', k'.hash ∈ s.req.map (·.2) → k' ≠ k) : (requestK Key.hash s k).2.2 = true :=
  Snd.distinct_never_withheld s k.hash (fun h => hn k h rfl)

/-- non-vacuity: with the request [1,2] remembered, the requests [1,3], [1] and [2,1] to the same destination meet the hypothesis -/
example : ∀ k' : Key, k'.hash ∈ ((stepK Key.hash {} (.request ⟨⟨1, [1], 1⟩, [1, 2]⟩)).req.map (·.2)) →
    k' ≠ ⟨⟨1, [1], 1⟩, [1, 3]⟩ := by
  intro k' h
  have : k'.hash = (Key.mk ⟨1, [1], 1⟩ [1, 2]).hash := by simpa [stepK, OpK.lower, Snd.step, Snd.request, Snd.evict] using h
  rw [Key.hash_inj _ _ this]; decide

/-- ... under EVERY interleaving of `Request` callers with the reader goroutine (repaired member; for the member as
    written: every calm interleaving): a key-level trace whose hashed image is a trace of the event-sourced model
    passes the key-level monitor. -/
theorem c13_keyed_dedup_all_interleavings (insertFirst : Bool) (evs : List SndEv.Ev) (obsK : List SpecK.Obs)
    (hcalm : insertFirst = false → SndEv.calm insertFirst {} evs = true)
    (h : obsK.map (·.lower Key.hash) = SndEv.observations insertFirst {} evs) : (SpecK.run [] obsK).isSome := by
  have hs := SndEv.run_coupled insertFirst evs {} [] (SndEv.init_coupled insertFirst) hcalm
  have hl := run_lower Key.hash Key.hash_inj obsK []
  rw [h] at hl
  have : lowerU Key.hash [] = [] := rfl
  rw [this] at hl
  rw [hl] at hs
  cases hr : SpecK.run [] obsK with
  | none => rw [hr] at hs; simp at hs
  | some _ => rfl

/-- non-vacuity: two callers, the second with a request differing in its second command, and a response in between -/
example : [SpecK.Obs.req ⟨⟨1, [1], 1⟩, [1, 2]⟩ 1 true, .req ⟨⟨1, [1], 1⟩, [1, 3]⟩ 2 true, .resp 1].map (·.lower Key.hash) =
    SndEv.observations true {} [.reqBegin 1 (Key.mk ⟨1, [1], 1⟩ [1, 2]).hash, .reqEnd 1,
      .reqBegin 2 (Key.mk ⟨1, [1], 1⟩ [1, 3]).hash, .plain (.response 1), .reqEnd 2] := by decide

/-- REFUTED for every hash that does NOT cover the whole key: a `hashForMessage` that ignores the device, the entity
    path or the feature of the destination, or looks at the first command only, withholds a DIFFERENT request — there
    are two different keys whose two-request history the monitor rejects (the second request returns counter 1 and
    nothing is written). -/
theorem c13_partial_identity_refuted (cov : Coverage) (h : cov ≠ Coverage.full) :
    ∃ k1 k2 : Key, k1 ≠ k2 ∧
      SpecK.run [] (observationsK (hashWith cov) {} [.request k1, .request k2]) = none ∧
      (requestK (hashWith cov) (stepK (hashWith cov) {} (.request k1)) k2).2 = (1, false) := by
  obtain ⟨d, e, f, a⟩ := cov
  cases a
  · exact ⟨⟨⟨1, [1], 1⟩, [1, 2]⟩, ⟨⟨1, [1], 1⟩, [1, 3]⟩, by decide,
      collision_refuted _ _ _ (by decide) (by simp [hashWith, Key.proj])⟩
  cases d
  · exact ⟨⟨⟨1, [1], 1⟩, [1]⟩, ⟨⟨2, [1], 1⟩, [1]⟩, by decide,
      collision_refuted _ _ _ (by decide) (by simp [hashWith, Key.proj])⟩
  cases e
  · exact ⟨⟨⟨1, [1], 1⟩, [1]⟩, ⟨⟨1, [2], 1⟩, [1]⟩, by decide,
      collision_refuted _ _ _ (by decide) (by simp [hashWith, Key.proj])⟩
  cases f
  · exact ⟨⟨⟨1, [1], 1⟩, [1]⟩, ⟨⟨1, [1], 2⟩, [1]⟩, by decide,
      collision_refuted _ _ _ (by decide) (by simp [hashWith, Key.proj])⟩
  exact absurd rfl h

/-- the seeded class spelled out: hashing the destination and the FIRST command only — the request [1,3] after the
    unanswered [1,2], and the single-command request [1] after it, are withheld with counter 1 -/
theorem c13_first_cmd_only_refuted :
    SpecK.run [] (observationsK (hashWith ⟨true, true, true, false⟩) {}
      [.request ⟨⟨1, [1], 1⟩, [1, 2]⟩, .request ⟨⟨1, [1], 1⟩, [1, 3]⟩]) = none ∧
    SpecK.run [] (observationsK (hashWith ⟨true, true, true, false⟩) {}
      [.request ⟨⟨1, [1], 1⟩, [1, 2]⟩, .request ⟨⟨1, [1], 1⟩, [1]⟩]) = none ∧
    (SpecK.run [] (observationsK (hashWith Coverage.full) {}
      [.request ⟨⟨1, [1], 1⟩, [1, 2]⟩, .request ⟨⟨1, [1], 1⟩, [1, 3]⟩, .request ⟨⟨1, [1], 1⟩, [1]⟩])).isSome := by
  decide

end Spine.Props.C13Key
