import Spine.Feature
import Spine.LocalTreeReact
import Spine.Generated.EntityLocal
/-!
# C07 — facts regenerated from spine/entity_local.go, spine/entity.go on every run (tie b1)

Which member of the `Spine.Feat` family the tree under test is, is decided by the text of `GetOrAddFeature`. The
translator (generator `entitylocal`) re-extracts the facts from `/repo`'s current tree; these theorems are re-checked by
every `./check C07`. The facts are semantic: the function is flattened into a trace of lock / unlock / search / create /
append / return events, following calls to helpers of the same package up to three levels, with deferred and explicit
unlocks treated alike — so extracting the second lookup into a helper, or writing it with `slices.ContainsFunc`, keeps
the facts, while removing it, weakening it to the type only, ignoring its result, or moving the creation out of the
entity lock breaks an obligation named here — before the schedule search has to find the double-creation witness.
-/
namespace Spine.Props.C07Gen
open Spine

/-- the member of the family the current tree is: `recheck` = "the creation section looks the feature up again" -/
def currentRecheck : Bool := Generated.EntityLocal.getOrAddRechecks

/-- the creation (`NewFeatureLocal(NextFeatureId(), …)` and the append) is one critical section under the entity
    lock, and it starts with a second lookup by type and role: the event `create` of the model re-checks -/
theorem c07_creation_rechecks_under_lock :
    Generated.EntityLocal.getOrAddCreationLocked = true ∧ Generated.EntityLocal.getOrAddRechecks = true := by decide

/-- every search of the feature list by type and role that `GetOrAddFeature` performs — the first lookup (through
    `FeatureOfTypeAndRole` or however it is written) and the re-check — happens under a mutex of the entity: the
    model's `lookup` is ONE event that sees a consistent list (added in the deepening round; holds as well if the
    whole call is put under one lock hold) -/
theorem c07_lookup_is_one_event : Generated.EntityLocal.getOrAddSearchesLocked = true := by decide

/-- `NextFeatureId` is one critical section: the model's number generator hands out each number in one event
    (what `c07_ids_fresh` rests on) -/
theorem c07_generator_is_one_event : Generated.EntityLocal.nextFeatureIdLocked = true := by decide

/-- hence the all-interleavings theorem applies to the member the current tree is -/
theorem c07_current_tree_one_feature_per_type_role (evs : List Feat.Ev) :
    Feat.OnePer (Feat.run currentRecheck evs) := by
  have h : currentRecheck = true := by decide
  rw [h]
  exact Feat.c07_one_feature_per_type_role evs

/-! ### round 6: the order of the two events of AddEntity / RemoveEntity (tree change, announcement) -/

/-- the order of "the entity joins / leaves the device's list" and "the notification is written" in the current
    source of `DeviceLocal.AddEntity` / `DeviceLocal.RemoveEntity`, regenerated on every run (the list field is found
    by its type, the notification through helpers on the receiver, deferred and explicit unlocks alike) -/
def currentOrder : LTree.Order :=
  ⟨Generated.EntityLocal.addEntityChangeBeforeNotify, Generated.EntityLocal.removeEntityChangeBeforeNotify⟩

/-- in the current source the tree changes BEFORE the change is announced, in both operations, and every write to
    the list of entities happens under a mutex of the device (the change is one event) -/
theorem c07_tree_changes_before_announcement :
    currentOrder = ⟨true, true⟩ ∧ Generated.EntityLocal.entityListWritesLocked = true := by decide

/-- hence a detailed-discovery read a subscriber issues from INSIDE the notification (the sender writes
    synchronously), or any read that falls between the announcement and the end of the call, is answered exactly
    like a read after the call: for every state, operation and peer -/
theorem c07_read_inside_notification_current (s : LTree.St) (o : LTree.Op) (p : Nat) :
    LTree.reactReply currentOrder s o p = (LTree.step (LTree.step s o).1 (.read p)).2 := by
  rw [c07_tree_changes_before_announcement.1]
  exact LTree.react_reply_is_read_after s o p

/-- an entity announced as removed is not in the tree such a read meets; an entity announced as added is -/
theorem c07_announced_removed_not_listed (s : LTree.St) (k : Nat) (hk : k ∈ s.attached) :
    k ∉ (LTree.treeAtAnnounce currentOrder s (.detach k)).attached :=
  (LTree.react_removed_not_listed_iff currentOrder s k hk).2 (by decide)

theorem c07_announced_added_listed (s : LTree.St) (k : Nat) (hk : k ∉ s.attached) :
    k ∈ (LTree.treeAtAnnounce currentOrder s (.attach k)).attached :=
  (LTree.react_added_listed_iff currentOrder s k hk).2 (by decide)

/-- the order is NECESSARY: with the announcement first, in EVERY state in which the entity is part of the device
    the read from inside the 'removed' notification still meets it (and dually for 'added') — the regenerated fact
    above is exactly what the clause needs -/
theorem c07_announcement_first_refuted (s : LTree.St) (k : Nat) :
    (k ∈ s.attached → k ∈ (LTree.treeAtAnnounce ⟨true, false⟩ s (.detach k)).attached) ∧
    (k ∉ s.attached → k ∉ (LTree.treeAtAnnounce ⟨false, true⟩ s (.attach k)).attached) :=
  ⟨fun hk => by simp [LTree.treeAtAnnounce, hk], fun hk => by simp [LTree.treeAtAnnounce, hk]⟩

/-- non-vacuity: entity 1 attached, peer 0 subscribed; the read from inside the 'removed' notification of entity 1
    lists entity 0 only, with the announcement first it would list entity 1 as well -/
example : (LTree.treeAtAnnounce currentOrder { (LTree.init {}) with attached := [0, 1], subs := [0] } (.detach 1)).attached = [0]
    ∧ (LTree.treeAtAnnounce ⟨true, false⟩ { (LTree.init {}) with attached := [0, 1], subs := [0] } (.detach 1)).attached = [0, 1]
    ∧ (LTree.treeAtAnnounce currentOrder (LTree.init {}) (.attach 2)).attached = [0, 2] := by decide

end Spine.Props.C07Gen
