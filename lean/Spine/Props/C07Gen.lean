import Spine.Feature
import Spine.Generated.EntityLocal
/-!
# C07 — facts regenerated from spine/entity_local.go, spine/entity.go on every run (tie b1)

Which member of the `Spine.Feat` family the tree under test is, is decided by the text of `GetOrAddFeature`. The
translator (generator `entitylocal`) re-extracts the facts from `/repo`'s current tree; these theorems are re-checked by
every `./check C07`. The facts are semantic: the function is flattened into a trace of lock / unlock / search / create /
append / return events, following calls to helpers of the same package up to three levels, with deferred and explicit
unlocks treated alike — so extracting the second lookup into a helper, or writing it with `slices.ContainsFunc`, keeps
the facts, while removing it, weakening it to the type only, ignoring its result, or moving the creation out of the
entity lock breaks an obligation named here — before the schedule search has to find the double-creation witness.
-/
namespace Spine.Props.C07Gen
open Spine

/-- the member of the family the current tree is: `recheck` = "the creation section looks the feature up again" -/
def currentRecheck : Bool := Generated.EntityLocal.getOrAddRechecks

/-- the creation (`NewFeatureLocal(NextFeatureId(), …)` and the append) is one critical section under the entity
    lock, and it starts with a second lookup by type and role: the event `create` of the model re-checks -/
theorem c07_creation_rechecks_under_lock :
    Generated.EntityLocal.getOrAddCreationLocked = true ∧ Generated.EntityLocal.getOrAddRechecks = true := by decide

/-- every search of the feature list by type and role that `GetOrAddFeature` performs — the first lookup (through
    `FeatureOfTypeAndRole` or however it is written) and the re-check — happens under a mutex of the entity: the
    model's `lookup` is ONE event that sees a consistent list (added in the deepening round; holds as well if the
    whole call is put under one lock hold) -/
theorem c07_lookup_is_one_event : Generated.EntityLocal.getOrAddSearchesLocked = true := by decide

/-- `NextFeatureId` is one critical section: the model's number generator hands out each number in one event
    (what `c07_ids_fresh` rests on) -/
theorem c07_generator_is_one_event : Generated.EntityLocal.nextFeatureIdLocked = true := by decide

/-- hence the all-interleavings theorem applies to the member the current tree is -/
theorem c07_current_tree_one_feature_per_type_role (evs : List Feat.Ev) :
    Feat.OnePer (Feat.run currentRecheck evs) := by
  have h : currentRecheck = true := by decide
  rw [h]
  exact Feat.c07_one_feature_per_type_role evs

end Spine.Props.C07Gen
