import Spine.RegistryMore
import Spine.Bind
import Spine.BindSchedLin
/-!
# C09 — bindings: exact registry with at most one binding per server feature

Property theorems only (lemmas: `Spine/RegistryThm.lean`, `Spine/RegistryMore.lean`, `Spine/Bind.lean`).

Models: `Spine.Reg` (the registry family, sequential histories of calls by several peers with identical numbering;
flags relevant here: `delBindByDevice` — RemoveBinding matches the device address named in the request —,
`unbindDisjunct` — its retain condition has `&&` where it needs `||`, so it drops every binding of the same client
*or* on the same server) and `Spine.Bind` (AddBinding as the two events `check` / `insert` it consists of, since the
single-binding check and the insertion are separate critical sections; `atomicAdd` = the repaired, single critical
section). Both validated against the real code, `Bind` through the yield point `AddBinding.checked`.

Status on the code as written: "at most one binding" is proved for all sequential histories of every member
(`c09_at_most_one`) and for non-overlapping requests in the event model (`c09_at_most_one_partial`), REFUTED for the
schedule check₁ check₂ insert₁ insert₂ (`c09_at_most_one_refuted`) and proved for all interleavings of the repaired
operation (`c09_at_most_one_schedules`). "A delete removes exactly the addressed binding" is REFUTED twice
(`c09_unbind_disjunct_refuted`, `c09_delete_by_device_refuted`), proved for the repaired member and, for every
member, in the region named by `c09_delete_partial`. Merged only lightly: the event model `Bind` is separate from the
family `Reg` (the schedule theorems speak about abstract server / client ids); the bridge is `c09_halves` (AddBinding
= check half ; insert half) with the witness restated in the family (`c09_at_most_one_refuted_family`). For the
repaired operation — one critical section — every interleaving of requests is a sequential history, which is what
`c09_at_most_one` quantifies over with the real role / type checks — since the deepening round a THEOREM: the event
model `Spine.BindSched` splits the repaired `AddBinding` at its program points (start: server lookup and check; look:
client lookup, check and the id draw outside the lock; commit: the one region of c.mux) over the state of the family
`Spine.Reg`; `c09_at_most_one_schedules_family`, `c09_ids_never_reused` hold for every event list of every member,
`c09_linearisable` proves every event list over static trees equivalent (registry up to ids, and answers) to the
sequential history of its linearisation points, `c09_granted_iff_schedules` is the grant clause at the commit point.
Events are monitored by the harness only.
-/
namespace Spine.Props.C09
open Spine

/-! ## example world for the non-vacuity checks -/
def loc : List Reg.Feat := [⟨[1], 1, 1, .server⟩, ⟨[1], 2, 2, .server⟩, ⟨[2], 1, 1, .server⟩, ⟨[1], 3, 1, .client⟩]
def rem : Nat → List Reg.Feat := fun _ => [⟨[1], 1, 1, .client⟩, ⟨[1], 3, 0, .client⟩, ⟨[1], 4, 1, .server⟩]
def s0 : Reg.St := { loc := loc, rem := rem }
/-- peer 1 binds its Generic client [1]/3 to two server features, peer 2 is refused on a bound feature and binds another -/
def hist : List Reg.Op := [.bind 1 [1] 3 [1] 1 1, .bind 1 [1] 3 [1] 2 2, .bind 2 [1] 1 [1] 1 1, .bind 2 [1] 1 [2] 1 1]

/-! ## clause 1: a request is granted exactly when … -/

/-- A binding request is granted exactly when the request conditions hold (server and client feature exist with the
    right roles and type, see `C08.c08_request_conditions` — the same predicate) and the server feature has no
    binding yet. Every state, every member. -/
theorem c09_granted_iff (s : Reg.St) (p : Nat) (cEnt : List Nat) (cFeat : Nat) (sEnt : List Nat) (sFeat typ : Nat) :
    (Reg.addBind s p cEnt cFeat sEnt sFeat typ).2 = true ↔
      Reg.requestOk s p cEnt cFeat sEnt sFeat typ = true ∧ Reg.onServer s sEnt sFeat = [] :=
  Reg.addBind_result s p cEnt cFeat sEnt sFeat typ

/-- the request conditions, in the words of the property -/
theorem c09_request_conditions (s : Reg.St) (p : Nat) (cEnt : List Nat) (cFeat : Nat) (sEnt : List Nat) (sFeat typ : Nat) :
    Reg.requestOk s p cEnt cFeat sEnt sFeat typ = true ↔
      ∃ sv cl, Reg.findF s.loc sEnt sFeat = some sv ∧ Reg.findF (s.rem p) cEnt cFeat = some cl ∧
        (sv.role = .special ∨ sv.role = .server) ∧ (sv.typ = typ ∨ sv.typ = 0) ∧
        (cl.role = .special ∨ cl.role = .client) ∧ (cl.typ = typ ∨ cl.typ = 0) :=
  Reg.requestOk_iff s p cEnt cFeat sEnt sFeat typ

/-- A granted request adds exactly that binding with a fresh id; a refused one changes nothing. -/
theorem c09_add_effect (s : Reg.St) (p : Nat) (cEnt : List Nat) (cFeat : Nat) (sEnt : List Nat) (sFeat typ : Nat) :
    (Reg.addBind s p cEnt cFeat sEnt sFeat typ).1.binds =
      if (Reg.addBind s p cEnt cFeat sEnt sFeat typ).2 then s.binds ++ [⟨s.bindNum + 1, sEnt, sFeat, p, cEnt, cFeat⟩]
      else s.binds :=
  Reg.addBind_effect s p cEnt cFeat sEnt sFeat typ

/-- non-vacuity: granted; second binding on the bound feature refused (other peer, identical numbering); wrong type;
    wrong role; unknown server -/
example : (Reg.addBind s0 1 [1] 1 [1] 1 1).2 = true ∧
    (Reg.addBind (Reg.addBind s0 1 [1] 1 [1] 1 1).1 2 [1] 1 [1] 1 1).2 = false ∧
    (Reg.addBind s0 1 [1] 1 [1] 2 1).2 = false ∧ (Reg.addBind s0 1 [1] 4 [1] 1 1).2 = false ∧
    (Reg.addBind s0 1 [1] 1 [3] 1 1).2 = false := by decide

/-! ## clause 2: at no time, under any interleaving, more than one binding per server feature -/

/-- Every member of the family, every sequential history of bind / unbind / subscribe / unsubscribe calls, drops and
    entity removals by any number of peers: no local server feature ever has more than one binding. -/
theorem c09_at_most_one (c : Reg.Cfg) (loc : List Reg.Feat) (rem : Nat → List Reg.Feat) (ops : List Reg.Op) :
    Reg.AtMostOne (Reg.run c loc rem ops) :=
  Reg.c09_at_most_one c loc rem ops

example : (Reg.run {} loc rem hist).binds.map Reg.key =
    [(1, [1], 3, [1], 1), (1, [1], 3, [1], 2), (2, [1], 1, [2], 1)] := by decide

/-- REFUTED on the code as written (known finding `two-bindings-under-interleaving`): two requests from different
    connections whose checks both run before either insertion leave two bindings on server feature 7. -/
theorem c09_at_most_one_refuted :
    ¬ Bind.AtMostOne (Bind.run [.check 1 7 100, .check 2 7 200, .insert 1, .insert 2]) :=
  Bind.current_code_violates

/-- The same schedule in the registry family (real roles, types, two peers with identical numbering): `AddBinding`
    is the check half followed by the insert half (`Reg.addBind_halves`); both checks pass on the same state and both
    insertions leave two bindings on server feature [1]/1. -/
theorem c09_at_most_one_refuted_family :
    let fs : List Reg.Feat := [⟨[1], 1, 1, .client⟩]
    let s : Reg.St := { loc := [⟨[1], 1, 1, .server⟩], rem := fun _ => fs }
    Reg.bindCheck s 1 [1] 1 [1] 1 1 = true ∧ Reg.bindCheck s 2 [1] 1 [1] 1 1 = true ∧
    (Reg.onServer (Reg.bindInsert (Reg.bindInsert s 1 [1] 1 [1] 1) 2 [1] 1 [1] 1) [1] 1).length = 2 :=
  Reg.bind_interleaving_witness

/-- the two halves run without interruption are the sequential operation all other theorems speak about -/
theorem c09_halves (s : Reg.St) (p : Nat) (cEnt : List Nat) (cFeat : Nat) (sEnt : List Nat) (sFeat typ : Nat) :
    Reg.addBind s p cEnt cFeat sEnt sFeat typ =
      if Reg.bindCheck s p cEnt cFeat sEnt sFeat typ then (Reg.bindInsert s p cEnt cFeat sEnt sFeat, true) else (s, false) :=
  Reg.addBind_halves s p cEnt cFeat sEnt sFeat typ

example : Reg.bindCheck s0 1 [1] 1 [1] 1 1 = true ∧ Reg.bindCheck (Reg.bindInsert s0 2 [1] 1 [1] 1) 1 [1] 1 [1] 1 1 = false := by
  decide

/-- PARTIAL, the code as written, event model: at most one binding per server feature as long as requests do not
    overlap (every check is immediately followed by its insertion). The excluded region — overlapping requests — is
    where `c09_at_most_one_refuted` lives. -/
theorem c09_at_most_one_partial (calls : List Bind.Call) : Bind.AtMostOne (Bind.run (calls.flatMap Bind.Call.evs)) :=
  Bind.sequential_at_most_one calls

example : (Bind.run ([Bind.Call.add 1 7 100, .add 2 7 200, .remove 7 100, .add 3 7 300].flatMap Bind.Call.evs)).entries
    = [⟨2, 7, 300⟩] := by decide

/-- Repaired operation (check and insertion in one critical section): at most one binding per server feature for
    every event list, that is under every interleaving of any number of requests and deletions. -/
theorem c09_at_most_one_schedules (evs : List Bind.Ev) (hr : ∀ e ∈ evs, Bind.repaired e = true) :
    Bind.AtMostOne (Bind.run evs) :=
  Bind.repaired_at_most_one evs hr

example : (Bind.run [.atomicAdd 7 100, .atomicAdd 7 200, .atomicAdd 8 200]).entries = [⟨1, 7, 100⟩, ⟨2, 8, 200⟩] := by
  decide

/-! ### the schedule clause inside the registry family (real role / type checks, any number of peers) -/

/-- the world of the examples below: requests 1 (peer 1) and 2 (peer 2, identical numbering) for the same free server
    feature [1]/1, request 3 (peer 1, Generic client) for [1]/2, request 4 with a server of the wrong type -/
def r1 : BindSched.Req := ⟨1, [1], 1, [1], 1, 1⟩
def r2 : BindSched.Req := ⟨2, [1], 1, [1], 1, 1⟩
def r3 : BindSched.Req := ⟨1, [1], 3, [1], 2, 2⟩
def r4 : BindSched.Req := ⟨2, [1], 1, [1], 2, 1⟩
/-- both requests for [1]/1 pass their checks and draw their ids before either commits; 2 commits first -/
def sched : List BindSched.Ev :=
  [.start 1 r1, .start 2 r2, .start 3 r3, .start 4 r4, .look 1, .look 2, .commit 2, .look 3, .commit 1, .commit 3,
   .op (.unbind 2 0 [1] 1 [1] 1), .start 5 r1, .look 5, .commit 5]

/-- Every member of the family, EVERY event list — any number of binding requests of any number of peers with
    identical numbering, each split at the program points of the repaired `AddBinding` (server check | client check and
    id draw | the one exclusive region with scan and append), interleaved in any order with each other and with any
    other registry call, entity removals included: at no time does a local server feature have more than one binding.
    (`c09_at_most_one_schedules` with the real lookups, roles and types.) -/
theorem c09_at_most_one_schedules_family (c : Reg.Cfg) (loc : List Reg.Feat) (rem : Nat → List Reg.Feat)
    (evs : List BindSched.Ev) : Reg.AtMostOne (BindSched.run c loc rem evs).reg :=
  BindSched.run_atMostOne c loc rem evs

/-- non-vacuity: the schedule in which both requests for [1]/1 are past their checks before either commits leaves one
    binding there (the later commit is refused), with the id drawn SECOND registered FIRST -/
example : (BindSched.run {} loc rem sched).reg.binds = [⟨3, [1], 2, 1, [1], 3⟩, ⟨4, [1], 1, 1, [1], 1⟩] ∧
    (BindSched.run {} loc rem (sched.take 9)).reg.binds = [⟨2, [1], 1, 2, [1], 1⟩] := by
  decide

/-- Every member, every event list: the ids of the registered bindings and the ids drawn by requests still in flight
    are pairwise distinct and were all drawn from the counter — an id is never used twice, whatever was deleted,
    refused after drawing, or torn down in between (ids are drawn outside the lock, in `look` order). -/
theorem c09_ids_never_reused (c : Reg.Cfg) (loc : List Reg.Feat) (rem : Nat → List Reg.Feat) (evs : List BindSched.Ev) :
    (BindSched.allIds (BindSched.run c loc rem evs)).Nodup ∧
    ∀ x ∈ BindSched.allIds (BindSched.run c loc rem evs), x ≤ (BindSched.run c loc rem evs).reg.bindNum :=
  ⟨(BindSched.run_idInv c loc rem evs).nodup, (BindSched.run_idInv c loc rem evs).bound⟩

example : BindSched.allIds (BindSched.run {} loc rem (sched.take 7)) = [2, 1] ∧
    BindSched.allIds (BindSched.run {} loc rem sched) = [3, 4] := by decide

/-- LINEARISABILITY (the bridge between the event model and the family, now a theorem): every member, every event list
    over static announced trees (no entity removal / featureless re-announcement among the interleaved calls): the
    registry afterwards equals the registry of the SEQUENTIAL history `Reg.run` of the list's linearisation points —
    same trees, same subscriptions, same bindings up to ids — and the answers of the requests, in the order in which
    they end, are the answers of those sequential calls. Every theorem about sequential histories (`c09_granted_iff`,
    `c09_at_most_one`, `c09_delete_exact`, …) therefore speaks about every interleaving. -/
theorem c09_linearisable (c : Reg.Cfg) (loc : List Reg.Feat) (rem : Nat → List Reg.Feat) (evs : List BindSched.Ev)
    (hs : ∀ e ∈ evs, e.static = true) :
    BindSched.KeyEq (BindSched.run c loc rem evs).reg (Reg.run c loc rem (BindSched.trace c (BindSched.init loc rem) evs)) ∧
    BindSched.outcomes c (BindSched.init loc rem) evs =
      BindSched.seqOutcomes c { loc := loc, rem := rem } (BindSched.trace c (BindSched.init loc rem) evs) :=
  BindSched.linearisable c loc rem evs hs

/-- non-vacuity: the sequential history of the example schedule (request 4 ends at its server check, request 2 commits
    before request 1) and the answers -/
example : (BindSched.trace {} (BindSched.init loc rem) sched).length = 6 ∧
    (Reg.run {} loc rem (BindSched.trace {} (BindSched.init loc rem) sched)).binds =
      [⟨2, [1], 2, 1, [1], 3⟩, ⟨3, [1], 1, 1, [1], 1⟩] ∧
    BindSched.outcomes {} (BindSched.init loc rem) sched = [false, true, false, true, true] ∧
    sched.all (·.static) = true := by decide

/-- The grant clause at the linearisation point, every state reachable or not: a request that reaches `commit` (server
    and client checks passed) is granted exactly when the server feature has no binding at that moment, and then
    exactly its binding is appended. -/
theorem c09_granted_iff_schedules (s : BindSched.St) (k : Nat) (x : Nat × BindSched.Req × Nat)
    (hx : s.looked.find? (·.1 = k) = some x) :
    BindSched.outcome s (.commit k) = some (Reg.onServer s.reg x.2.1.sEnt x.2.1.sFeat).isEmpty ∧
    (BindSched.commitStep s k).reg.binds =
      if (Reg.onServer s.reg x.2.1.sEnt x.2.1.sFeat).isEmpty then s.reg.binds ++ [BindSched.entryOf x.2.2 x.2.1]
      else s.reg.binds := by
  obtain ⟨k', r, id⟩ := x
  have hb : BindSched.bound s.reg r = !(Reg.onServer s.reg r.sEnt r.sFeat).isEmpty := by
    simp only [BindSched.bound, Reg.onServer]
    cases h : s.reg.binds.any (fun e => decide (e.sEnt = r.sEnt) && decide (e.sFeat = r.sFeat))
    · have : s.reg.binds.filter (fun e => decide (e.sEnt = r.sEnt) && decide (e.sFeat = r.sFeat)) = [] :=
        List.filter_eq_nil_iff.mpr (fun e he => by have := List.any_eq_false.mp h e he; simpa using this)
      rw [this]; rfl
    · obtain ⟨e, he, hp⟩ := List.any_eq_true.mp h
      have hne : s.reg.binds.filter (fun e => decide (e.sEnt = r.sEnt) && decide (e.sFeat = r.sFeat)) ≠ [] :=
        fun hn => by have := List.filter_eq_nil_iff.mp hn e he; exact this hp
      cases hl : s.reg.binds.filter (fun e => decide (e.sEnt = r.sEnt) && decide (e.sFeat = r.sFeat)) with
      | nil => exact absurd hl hne
      | cons _ _ => rfl
  simp only [BindSched.outcome, BindSched.commitStep, hx, hb]
  cases (Reg.onServer s.reg r.sEnt r.sFeat).isEmpty <;> simp

example : BindSched.outcome (BindSched.run {} loc rem (sched.take 8)) (.commit 1) = some false ∧
    BindSched.outcome (BindSched.run {} loc rem (sched.take 6)) (.commit 2) = some true := by decide

/-! ## clause 3: a delete removes exactly the addressed binding and leaves every other binding in place -/

/-- Repaired (`delBindByDevice`, `unbindDisjunct` off): a binding delete removes exactly the addressed binding of the
    requesting peer, or nothing — bindings of the same client to other features stay. -/
theorem c09_delete_exact (s : Reg.St) (p cDev : Nat) (cEnt : List Nat) (cFeat : Nat) (sEnt : List Nat) (sFeat : Nat) :
    (Reg.delBind Reg.Cfg.clean s p cDev cEnt cFeat sEnt sFeat).1.binds = s.binds ∨
    (Reg.delBind Reg.Cfg.clean s p cDev cEnt cFeat sEnt sFeat).1.binds =
      s.binds.filter (fun e => !e.is p cEnt cFeat sEnt sFeat) :=
  Reg.c09_delete_exact s p cDev cEnt cFeat sEnt sFeat

/-- Repaired: bindings of other peers stay, whatever is asked. -/
theorem c09_delete_other_peers (s : Reg.St) (p q cDev : Nat) (hq : q ≠ p) (cEnt : List Nat) (cFeat : Nat)
    (sEnt : List Nat) (sFeat : Nat) :
    Reg.bindsOf (Reg.delBind Reg.Cfg.clean s p cDev cEnt cFeat sEnt sFeat).1 q = Reg.bindsOf s q :=
  Reg.c09_delete_other_peers s p q cDev hq cEnt cFeat sEnt sFeat

/-- Repaired: the request succeeds exactly when both addressed features exist, the server has server (or special)
    role, the device part is omitted or the requester's own and the requester holds the addressed binding. -/
theorem c09_delete_result (s : Reg.St) (p cDev : Nat) (cEnt : List Nat) (cFeat : Nat) (sEnt : List Nat) (sFeat : Nat) :
    (Reg.delBind Reg.Cfg.clean s p cDev cEnt cFeat sEnt sFeat).2 = true ↔
      (Reg.findF (s.rem p) cEnt cFeat).isSome = true ∧
      (∃ sv, Reg.findF s.loc sEnt sFeat = some sv ∧ (sv.role = .special ∨ sv.role = .server)) ∧
      (cDev = 0 ∨ cDev = p) ∧ s.binds.any (·.is p cEnt cFeat sEnt sFeat) = true :=
  Reg.c09_delete_result s p cDev cEnt cFeat sEnt sFeat

/-- FRAME, repaired member, every state: whatever delete is asked by whomever, every binding other than the addressed
    triple (requesting connection, client feature, server feature) stays — the same client's bindings to other server
    features, and bindings of OTHER PEERS even when their client and server addresses are identical to the addressed
    ones in every part but the connection. -/
theorem c09_delete_frame (s : Reg.St) (p cDev : Nat) (cEnt : List Nat) (cFeat : Nat) (sEnt : List Nat) (sFeat : Nat)
    (e : Reg.Entry) (he : e ∈ s.binds) (hne : e.is p cEnt cFeat sEnt sFeat = false) :
    e ∈ (Reg.delBind Reg.Cfg.clean s p cDev cEnt cFeat sEnt sFeat).1.binds := by
  rcases Reg.c09_delete_exact s p cDev cEnt cFeat sEnt sFeat with h | h
  · rw [h]; exact he
  · rw [h]; exact List.mem_filter.mpr ⟨he, by simp [hne]⟩

/-- … and nothing is ever added by a delete. -/
theorem c09_delete_adds_nothing (c : Reg.Cfg) (s : Reg.St) (p cDev : Nat) (cEnt : List Nat) (cFeat : Nat)
    (sEnt : List Nat) (sFeat : Nat) : (Reg.delBind c s p cDev cEnt cFeat sEnt sFeat).1.binds.Sublist s.binds :=
  (Reg.delBind_shape c s p cDev cEnt cFeat sEnt sFeat).1

/-- non-vacuity (a state not reachable through requests, to show the frame is about the triple, not about
    reachability): peers 1 and 2 hold bindings with IDENTICAL client and server addresses; peer 1's delete removes its
    own and keeps peer 2's -/
example :
    let s : Reg.St := { loc := loc, rem := rem, binds := [⟨1, [1], 1, 1, [1], 1⟩, ⟨2, [1], 1, 2, [1], 1⟩, ⟨3, [1], 2, 1, [1], 1⟩] }
    (Reg.delBind Reg.Cfg.clean s 1 0 [1] 1 [1] 1).1.binds.map Reg.key = [(2, [1], 1, [1], 1), (1, [1], 1, [1], 2)] := by
  decide

/-- non-vacuity: the client bound to two servers keeps its other binding, the other peer keeps its own -/
example :
    let s := Reg.run Reg.Cfg.clean loc rem hist
    (Reg.delBind Reg.Cfg.clean s 1 0 [1] 3 [1] 1).2 = true ∧
    (Reg.delBind Reg.Cfg.clean s 1 0 [1] 3 [1] 1).1.binds.map Reg.key = [(1, [1], 3, [1], 2), (2, [1], 1, [2], 1)] ∧
    (Reg.delBind Reg.Cfg.clean s 2 0 [1] 1 [1] 1).2 = false := by decide

/-- REFUTED on the code as written (known finding `unbind-removes-other-binding`): deleting one binding of a client
    deletes its other binding too. -/
theorem c09_unbind_disjunct_refuted :
    let fs : List Reg.Feat := [⟨[1], 3, 0, .client⟩]
    let s : Reg.St := { loc := [⟨[1], 1, 1, .server⟩, ⟨[1], 2, 2, .server⟩], rem := fun _ => fs,
                        binds := [⟨1, [1], 1, 1, [1], 3⟩, ⟨2, [1], 2, 1, [1], 3⟩] }
    (Reg.delBind {} s 1 0 [1] 3 [1] 1).1.binds = [] :=
  Reg.c09_unbind_disjunct_refutes

/-- REFUTED on the code as written (known finding `delete-by-named-device`): peer 2, holding a binding of its own,
    deletes peer 1's binding by naming peer 1's device address. -/
theorem c09_delete_by_device_refuted :
    let fs : List Reg.Feat := [⟨[1], 3, 0, .client⟩]
    let s : Reg.St := { loc := [⟨[1], 1, 1, .server⟩, ⟨[1], 2, 2, .server⟩], rem := fun _ => fs,
                        binds := [⟨1, [1], 2, 1, [1], 3⟩, ⟨2, [1], 1, 2, [1], 3⟩] }
    Reg.bindsOf (Reg.delBind {} s 2 1 [1] 3 [1] 1).1 1 = [] ∧ Reg.bindsOf s 1 ≠ [] :=
  Reg.delBind_by_device_witness

/-- PARTIAL, every member of the family (the code as written included), on states with at most one binding per
    server feature (all sequentially reachable ones, `c09_at_most_one`): if the device part is omitted or the
    requester's own and the addressed client feature holds no binding on another server feature, a delete behaves as
    the repaired code. Excluded: a foreign device part, and a client bound to several server features — exactly where
    the two refutations live. -/
theorem c09_delete_partial (c : Reg.Cfg) (s : Reg.St) (h1 : Reg.AtMostOne s) (p cDev : Nat) (hd : cDev = 0 ∨ cDev = p)
    (cEnt : List Nat) (cFeat : Nat) (sEnt : List Nat) (sFeat : Nat)
    (hsingle : ∀ e ∈ s.binds, e.peer = p → e.cEnt = cEnt → e.cFeat = cFeat → e.sEnt = sEnt ∧ e.sFeat = sFeat) :
    Reg.delBind c s p cDev cEnt cFeat sEnt sFeat = Reg.delBind Reg.Cfg.clean s p cDev cEnt cFeat sEnt sFeat :=
  Reg.delBind_single_binding c s h1 p cDev hd cEnt cFeat sEnt sFeat hsingle

/-- non-vacuity: peer 2's only binding is deleted exactly by the code as written, peer 1's two bindings stay -/
example : (Reg.delBind {} (Reg.run {} loc rem hist) 2 0 [1] 1 [2] 1).1.binds.map Reg.key =
    [(1, [1], 3, [1], 1), (1, [1], 3, [1], 2)] := by decide

/-! ## clause 4: the list reported for a peer contains exactly that peer's bindings, each with a distinct id -/

theorem c09_list_per_peer (s : Reg.St) (p : Nat) (e : Reg.Entry) : e ∈ Reg.bindsOf s p ↔ e ∈ s.binds ∧ e.peer = p := by
  simp [Reg.bindsOf]

/-- Every member, every sequential history: the ids of the bindings are pairwise distinct. -/
theorem c09_ids_distinct (c : Reg.Cfg) (loc : List Reg.Feat) (rem : Nat → List Reg.Feat) (ops : List Reg.Op) :
    ((Reg.run c loc rem ops).binds.map (·.id)).Nodup :=
  (Reg.history_bindInv c loc rem ops).ids

example : (Reg.run {} loc rem hist).binds.map (·.id) = [1, 2, 3] ∧
    (Reg.bindsOf (Reg.run {} loc rem hist) 2).map Reg.key = [(2, [1], 1, [2], 1)] := by decide

end Spine.Props.C09
