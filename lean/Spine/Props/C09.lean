import Spine.RegistryMore
import Spine.Bind
/-!
# C09 — bindings: exact registry with at most one binding per server feature

Property theorems only (lemmas: `Spine/RegistryThm.lean`, `Spine/RegistryMore.lean`, `Spine/Bind.lean`).

Models: `Spine.Reg` (the registry family, sequential histories of calls by several peers with identical numbering;
flags relevant here: `delBindByDevice` — RemoveBinding matches the device address named in the request —,
`unbindDisjunct` — its retain condition has `&&` where it needs `||`, so it drops every binding of the same client
*or* on the same server) and `Spine.Bind` (AddBinding as the two events `check` / `insert` it consists of, since the
single-binding check and the insertion are separate critical sections; `atomicAdd` = the repaired, single critical
section). Both validated against the real code, `Bind` through the yield point `AddBinding.checked`.

Status on the code as written: "at most one binding" is proved for all sequential histories of every member
(`c09_at_most_one`) and for non-overlapping requests in the event model (`c09_at_most_one_partial`), REFUTED for the
schedule check₁ check₂ insert₁ insert₂ (`c09_at_most_one_refuted`) and proved for all interleavings of the repaired
operation (`c09_at_most_one_schedules`). "A delete removes exactly the addressed binding" is REFUTED twice
(`c09_unbind_disjunct_refuted`, `c09_delete_by_device_refuted`), proved for the repaired member and, for every
member, in the region named by `c09_delete_partial`. Merged only lightly: the event model `Bind` is separate from the
family `Reg` (the schedule theorems speak about abstract server / client ids); the bridge is `c09_halves` (AddBinding
= check half ; insert half) with the witness restated in the family (`c09_at_most_one_refuted_family`). For the
repaired operation — one critical section — every interleaving of requests is a sequential history, which is what
`c09_at_most_one` quantifies over with the real role / type checks. Events are monitored by the harness only.
-/
namespace Spine.Props.C09
open Spine

/-! ## example world for the non-vacuity checks -/
def loc : List Reg.Feat := [⟨[1], 1, 1, .server⟩, ⟨[1], 2, 2, .server⟩, ⟨[2], 1, 1, .server⟩, ⟨[1], 3, 1, .client⟩]
def rem : Nat → List Reg.Feat := fun _ => [⟨[1], 1, 1, .client⟩, ⟨[1], 3, 0, .client⟩, ⟨[1], 4, 1, .server⟩]
def s0 : Reg.St := { loc := loc, rem := rem }
/-- peer 1 binds its Generic client [1]/3 to two server features, peer 2 is refused on a bound feature and binds another -/
def hist : List Reg.Op := [.bind 1 [1] 3 [1] 1 1, .bind 1 [1] 3 [1] 2 2, .bind 2 [1] 1 [1] 1 1, .bind 2 [1] 1 [2] 1 1]

/-! ## clause 1: a request is granted exactly when … -/

/-- A binding request is granted exactly when the request conditions hold (server and client feature exist with the
    right roles and type, see `C08.c08_request_conditions` — the same predicate) and the server feature has no
    binding yet. Every state, every member. -/
theorem c09_granted_iff (s : Reg.St) (p : Nat) (cEnt : List Nat) (cFeat : Nat) (sEnt : List Nat) (sFeat typ : Nat) :
    (Reg.addBind s p cEnt cFeat sEnt sFeat typ).2 = true ↔
      Reg.requestOk s p cEnt cFeat sEnt sFeat typ = true ∧ Reg.onServer s sEnt sFeat = [] :=
  Reg.addBind_result s p cEnt cFeat sEnt sFeat typ

/-- the request conditions, in the words of the property -/
theorem c09_request_conditions (s : Reg.St) (p : Nat) (cEnt : List Nat) (cFeat : Nat) (sEnt : List Nat) (sFeat typ : Nat) :
    Reg.requestOk s p cEnt cFeat sEnt sFeat typ = true ↔
      ∃ sv cl, Reg.findF s.loc sEnt sFeat = some sv ∧ Reg.findF (s.rem p) cEnt cFeat = some cl ∧
        (sv.role = .special ∨ sv.role = .server) ∧ (sv.typ = typ ∨ sv.typ = 0) ∧
        (cl.role = .special ∨ cl.role = .client) ∧ (cl.typ = typ ∨ cl.typ = 0) :=
  Reg.requestOk_iff s p cEnt cFeat sEnt sFeat typ

/-- A granted request adds exactly that binding with a fresh id; a refused one changes nothing. -/
theorem c09_add_effect (s : Reg.St) (p : Nat) (cEnt : List Nat) (cFeat : Nat) (sEnt : List Nat) (sFeat typ : Nat) :
    (Reg.addBind s p cEnt cFeat sEnt sFeat typ).1.binds =
      if (Reg.addBind s p cEnt cFeat sEnt sFeat typ).2 then s.binds ++ [⟨s.bindNum + 1, sEnt, sFeat, p, cEnt, cFeat⟩]
      else s.binds :=
  Reg.addBind_effect s p cEnt cFeat sEnt sFeat typ

/-- non-vacuity: granted; second binding on the bound feature refused (other peer, identical numbering); wrong type;
    wrong role; unknown server -/
example : (Reg.addBind s0 1 [1] 1 [1] 1 1).2 = true ∧
    (Reg.addBind (Reg.addBind s0 1 [1] 1 [1] 1 1).1 2 [1] 1 [1] 1 1).2 = false ∧
    (Reg.addBind s0 1 [1] 1 [1] 2 1).2 = false ∧ (Reg.addBind s0 1 [1] 4 [1] 1 1).2 = false ∧
    (Reg.addBind s0 1 [1] 1 [3] 1 1).2 = false := by decide

/-! ## clause 2: at no time, under any interleaving, more than one binding per server feature -/

/-- Every member of the family, every sequential history of bind / unbind / subscribe / unsubscribe calls, drops and
    entity removals by any number of peers: no local server feature ever has more than one binding. -/
theorem c09_at_most_one (c : Reg.Cfg) (loc : List Reg.Feat) (rem : Nat → List Reg.Feat) (ops : List Reg.Op) :
    Reg.AtMostOne (Reg.run c loc rem ops) :=
  Reg.c09_at_most_one c loc rem ops

example : (Reg.run {} loc rem hist).binds.map Reg.key =
    [(1, [1], 3, [1], 1), (1, [1], 3, [1], 2), (2, [1], 1, [2], 1)] := by decide

/-- REFUTED on the code as written (known finding `two-bindings-under-interleaving`): two requests from different
    connections whose checks both run before either insertion leave two bindings on server feature 7. -/
theorem c09_at_most_one_refuted :
    ¬ Bind.AtMostOne (Bind.run [.check 1 7 100, .check 2 7 200, .insert 1, .insert 2]) :=
  Bind.current_code_violates

/-- The same schedule in the registry family (real roles, types, two peers with identical numbering): `AddBinding`
    is the check half followed by the insert half (`Reg.addBind_halves`); both checks pass on the same state and both
    insertions leave two bindings on server feature [1]/1. -/
theorem c09_at_most_one_refuted_family :
    let fs : List Reg.Feat := [⟨[1], 1, 1, .client⟩]
    let s : Reg.St := { loc := [⟨[1], 1, 1, .server⟩], rem := fun _ => fs }
    Reg.bindCheck s 1 [1] 1 [1] 1 1 = true ∧ Reg.bindCheck s 2 [1] 1 [1] 1 1 = true ∧
    (Reg.onServer (Reg.bindInsert (Reg.bindInsert s 1 [1] 1 [1] 1) 2 [1] 1 [1] 1) [1] 1).length = 2 :=
  Reg.bind_interleaving_witness

/-- the two halves run without interruption are the sequential operation all other theorems speak about -/
theorem c09_halves (s : Reg.St) (p : Nat) (cEnt : List Nat) (cFeat : Nat) (sEnt : List Nat) (sFeat typ : Nat) :
    Reg.addBind s p cEnt cFeat sEnt sFeat typ =
      if Reg.bindCheck s p cEnt cFeat sEnt sFeat typ then (Reg.bindInsert s p cEnt cFeat sEnt sFeat, true) else (s, false) :=
  Reg.addBind_halves s p cEnt cFeat sEnt sFeat typ

example : Reg.bindCheck s0 1 [1] 1 [1] 1 1 = true ∧ Reg.bindCheck (Reg.bindInsert s0 2 [1] 1 [1] 1) 1 [1] 1 [1] 1 1 = false := by
  decide

/-- PARTIAL, the code as written, event model: at most one binding per server feature as long as requests do not
    overlap (every check is immediately followed by its insertion). The excluded region — overlapping requests — is
    where `c09_at_most_one_refuted` lives. -/
theorem c09_at_most_one_partial (calls : List Bind.Call) : Bind.AtMostOne (Bind.run (calls.flatMap Bind.Call.evs)) :=
  Bind.sequential_at_most_one calls

example : (Bind.run ([Bind.Call.add 1 7 100, .add 2 7 200, .remove 7 100, .add 3 7 300].flatMap Bind.Call.evs)).entries
    = [⟨2, 7, 300⟩] := by decide

/-- Repaired operation (check and insertion in one critical section): at most one binding per server feature for
    every event list, that is under every interleaving of any number of requests and deletions. -/
theorem c09_at_most_one_schedules (evs : List Bind.Ev) (hr : ∀ e ∈ evs, Bind.repaired e = true) :
    Bind.AtMostOne (Bind.run evs) :=
  Bind.repaired_at_most_one evs hr

example : (Bind.run [.atomicAdd 7 100, .atomicAdd 7 200, .atomicAdd 8 200]).entries = [⟨1, 7, 100⟩, ⟨2, 8, 200⟩] := by
  decide

/-! ## clause 3: a delete removes exactly the addressed binding and leaves every other binding in place -/

/-- Repaired (`delBindByDevice`, `unbindDisjunct` off): a binding delete removes exactly the addressed binding of the
    requesting peer, or nothing — bindings of the same client to other features stay. -/
theorem c09_delete_exact (s : Reg.St) (p cDev : Nat) (cEnt : List Nat) (cFeat : Nat) (sEnt : List Nat) (sFeat : Nat) :
    (Reg.delBind Reg.Cfg.clean s p cDev cEnt cFeat sEnt sFeat).1.binds = s.binds ∨
    (Reg.delBind Reg.Cfg.clean s p cDev cEnt cFeat sEnt sFeat).1.binds =
      s.binds.filter (fun e => !e.is p cEnt cFeat sEnt sFeat) :=
  Reg.c09_delete_exact s p cDev cEnt cFeat sEnt sFeat

/-- Repaired: bindings of other peers stay, whatever is asked. -/
theorem c09_delete_other_peers (s : Reg.St) (p q cDev : Nat) (hq : q ≠ p) (cEnt : List Nat) (cFeat : Nat)
    (sEnt : List Nat) (sFeat : Nat) :
    Reg.bindsOf (Reg.delBind Reg.Cfg.clean s p cDev cEnt cFeat sEnt sFeat).1 q = Reg.bindsOf s q :=
  Reg.c09_delete_other_peers s p q cDev hq cEnt cFeat sEnt sFeat

/-- Repaired: the request succeeds exactly when both addressed features exist, the server has server (or special)
    role, the device part is omitted or the requester's own and the requester holds the addressed binding. -/
theorem c09_delete_result (s : Reg.St) (p cDev : Nat) (cEnt : List Nat) (cFeat : Nat) (sEnt : List Nat) (sFeat : Nat) :
    (Reg.delBind Reg.Cfg.clean s p cDev cEnt cFeat sEnt sFeat).2 = true ↔
      (Reg.findF (s.rem p) cEnt cFeat).isSome = true ∧
      (∃ sv, Reg.findF s.loc sEnt sFeat = some sv ∧ (sv.role = .special ∨ sv.role = .server)) ∧
      (cDev = 0 ∨ cDev = p) ∧ s.binds.any (·.is p cEnt cFeat sEnt sFeat) = true :=
  Reg.c09_delete_result s p cDev cEnt cFeat sEnt sFeat

/-- non-vacuity: the client bound to two servers keeps its other binding, the other peer keeps its own -/
example :
    let s := Reg.run Reg.Cfg.clean loc rem hist
    (Reg.delBind Reg.Cfg.clean s 1 0 [1] 3 [1] 1).2 = true ∧
    (Reg.delBind Reg.Cfg.clean s 1 0 [1] 3 [1] 1).1.binds.map Reg.key = [(1, [1], 3, [1], 2), (2, [1], 1, [2], 1)] ∧
    (Reg.delBind Reg.Cfg.clean s 2 0 [1] 1 [1] 1).2 = false := by decide

/-- REFUTED on the code as written (known finding `unbind-removes-other-binding`): deleting one binding of a client
    deletes its other binding too. -/
theorem c09_unbind_disjunct_refuted :
    let fs : List Reg.Feat := [⟨[1], 3, 0, .client⟩]
    let s : Reg.St := { loc := [⟨[1], 1, 1, .server⟩, ⟨[1], 2, 2, .server⟩], rem := fun _ => fs,
                        binds := [⟨1, [1], 1, 1, [1], 3⟩, ⟨2, [1], 2, 1, [1], 3⟩] }
    (Reg.delBind {} s 1 0 [1] 3 [1] 1).1.binds = [] :=
  Reg.c09_unbind_disjunct_refutes

/-- REFUTED on the code as written (known finding `delete-by-named-device`): peer 2, holding a binding of its own,
    deletes peer 1's binding by naming peer 1's device address. -/
theorem c09_delete_by_device_refuted :
    let fs : List Reg.Feat := [⟨[1], 3, 0, .client⟩]
    let s : Reg.St := { loc := [⟨[1], 1, 1, .server⟩, ⟨[1], 2, 2, .server⟩], rem := fun _ => fs,
                        binds := [⟨1, [1], 2, 1, [1], 3⟩, ⟨2, [1], 1, 2, [1], 3⟩] }
    Reg.bindsOf (Reg.delBind {} s 2 1 [1] 3 [1] 1).1 1 = [] ∧ Reg.bindsOf s 1 ≠ [] :=
  Reg.delBind_by_device_witness

/-- PARTIAL, every member of the family (the code as written included), on states with at most one binding per
    server feature (all sequentially reachable ones, `c09_at_most_one`): if the device part is omitted or the
    requester's own and the addressed client feature holds no binding on another server feature, a delete behaves as
    the repaired code. Excluded: a foreign device part, and a client bound to several server features — exactly where
    the two refutations live. -/
theorem c09_delete_partial (c : Reg.Cfg) (s : Reg.St) (h1 : Reg.AtMostOne s) (p cDev : Nat) (hd : cDev = 0 ∨ cDev = p)
    (cEnt : List Nat) (cFeat : Nat) (sEnt : List Nat) (sFeat : Nat)
    (hsingle : ∀ e ∈ s.binds, e.peer = p → e.cEnt = cEnt → e.cFeat = cFeat → e.sEnt = sEnt ∧ e.sFeat = sFeat) :
    Reg.delBind c s p cDev cEnt cFeat sEnt sFeat = Reg.delBind Reg.Cfg.clean s p cDev cEnt cFeat sEnt sFeat :=
  Reg.delBind_single_binding c s h1 p cDev hd cEnt cFeat sEnt sFeat hsingle

/-- non-vacuity: peer 2's only binding is deleted exactly by the code as written, peer 1's two bindings stay -/
example : (Reg.delBind {} (Reg.run {} loc rem hist) 2 0 [1] 1 [2] 1).1.binds.map Reg.key =
    [(1, [1], 3, [1], 1), (1, [1], 3, [1], 2)] := by decide

/-! ## clause 4: the list reported for a peer contains exactly that peer's bindings, each with a distinct id -/

theorem c09_list_per_peer (s : Reg.St) (p : Nat) (e : Reg.Entry) : e ∈ Reg.bindsOf s p ↔ e ∈ s.binds ∧ e.peer = p := by
  simp [Reg.bindsOf]

/-- Every member, every sequential history: the ids of the bindings are pairwise distinct. -/
theorem c09_ids_distinct (c : Reg.Cfg) (loc : List Reg.Feat) (rem : Nat → List Reg.Feat) (ops : List Reg.Op) :
    ((Reg.run c loc rem ops).binds.map (·.id)).Nodup :=
  (Reg.history_bindInv c loc rem ops).ids

example : (Reg.run {} loc rem hist).binds.map (·.id) = [1, 2, 3] ∧
    (Reg.bindsOf (Reg.run {} loc rem hist) 2).map Reg.key = [(2, [1], 1, [2], 1)] := by decide

end Spine.Props.C09
