import Spine.EventsLock
import Spine.EventsConn
import Spine.Generated.EventBus
/-!
# C15 — facts regenerated from spine/events.go on every run (tie b1)

The hand-written models `Spine.Bus` (`Spine/Events.lean`) and its lock refinement (`Spine/EventsLock.lean`) split
`Publish` into events at its lock boundaries and treat `subscribe` / `unsubscribe` as single events. That split is a
claim about the source. The translator (generator `eventbus`) re-establishes it from `/repo`'s current tree by ABSTRACT
INTERPRETATION of the methods over go/ast (go/cmd/translate/absint.go): calls to helpers of package spine are followed
(in whatever file they live), deferred calls run at the end of the frame that deferred them, the loop over the levels
is unrolled and an abstract handler list with one core and one application item is visited in both orders; mutexes,
the list and the level field are identified by type, not by name. Extracting or inlining helpers, if/else <-> switch,
loops <-> calls, renames of unexported identifiers and moved files leave the facts unchanged. These theorems are
re-checked by every `./check C15`. A code change that moves a lock
operation, makes a core handler asynchronous or an application handler synchronous, or swaps the level order breaks
the obligation named here — before, and independently of whether, the harness finds the failing schedule.
-/
namespace Spine.Props.C15Gen
open Spine

/-- A publisher that waits for `muHandle` does not hold `mu`: in `Publish`, `r.mu.Unlock()` precedes
    `r.muHandle.Lock()`, and there is no other lock operation on these two mutexes (a further mutex of the bus is tolerated
    only as a LEAF lock: every critical section of it, in every method of the type, is closed by the method that opened
    it and contains no handler invocation, no list access, no other lock operation, nothing that blocks — such a lock is
    never held for ever by anybody and is not held when `muHandle` is acquired). This is why `LEv.snapshot` is an event after which
    `mu` is free, why `Enabled s (.subscribe h)` / `(.unsubscribe h)` / `(.snapshot p)` hold in EVERY state of
    `Spine.Bus.LSt`, and so what `c15_reentrant_ok` (1) rests on. The member without this fact deadlocks when a core
    handler (un)subscribes while a second publisher is queued (`Spine.Props.C15.handover_deadlock_witness`). -/
theorem c15gen_mu_free_while_queued :
    Generated.EventBus.muReleasedBeforeMuHandle = true ∧ Generated.EventBus.publishFourLockOps = true := by decide

/-- `subscribe` and `unsubscribe` are one critical section under `mu` each, take no other lock and call no handler;
    the exported `Subscribe` / `Unsubscribe` only delegate. This is why they are single events of the model that never
    wait for `muHandle` — (un)subscription from inside a handler that runs under `muHandle` cannot block on it. -/
theorem c15gen_subscribe_is_one_mu_section :
    Generated.EventBus.subscribeOnlyMu = true ∧ Generated.EventBus.unsubscribeOnlyMu = true ∧
    Generated.EventBus.exportedDelegate = true := by decide

/-- The dispatch loop of `Publish` runs entirely under `muHandle`, released by the last statement: this is why
    `Ev.handle` (`LEv.deliver`) is one event between `acquire` and `release`. -/
theorem c15gen_dispatch_is_one_muHandle_section : Generated.EventBus.muHandleSpansDispatch = true := by decide

/-- `Publish` dispatches from a copy of the handler list made under `mu`: this is why a publication has a snapshot
    (`Pub.snap`) that later (un)subscriptions do not change (`c15_exactly_once`, `c15_nothing_after_unsubscribe`). -/
theorem c15gen_snapshot_is_copy : Generated.EventBus.snapshotIsCopy = true := by decide

/-- Core handlers are called synchronously, application handlers are started with `go`, core level first: this is
    why `Ev.handle` delivers to the core handlers and only spawns the application ones
    (`c15_core_before_application`, `c15_core_done_before_return`, `c15_application_asynchronous`). -/
theorem c15gen_core_sync_application_async_core_first :
    Generated.EventBus.coreSynchronous = true ∧ Generated.EventBus.applicationAsync = true ∧
    Generated.EventBus.coreLevelFirst = true := by decide

/-- `Publish` blocks on nothing but `mu` and `muHandle`: every operation in it is on a white list (no WaitGroup or
    Cond wait, no channel operation, no select, no function literal, no defer), and the bus has no state besides the
    two mutexes and the handler list — apart from leaf locks (see above) and fields touched only inside their sections. This is why `Enabled` depends on `holder` only, and what
    `c15_publish_never_waits_for_application_handlers` rests on. The member in which the dispatch waits for earlier
    application handlers deadlocks (`Spine.Props.C15.wait_member_deadlock_witness`). -/
theorem c15gen_publish_blocks_only_on_the_two_mutexes :
    Generated.EventBus.publishBlocksOnlyOnTheTwoMutexes = true ∧ Generated.EventBus.stateIsTwoMutexesAndList = true := by
  decide

/-- The local device subscribes itself at core level on every `SetupRemoteDevice` (one unconditional statement),
    unsubscribes exactly when the last peer is gone, and nothing else touches the core level: the transitions of
    `Spine.Bus.Conn.step false`, on which `c15_internal_handler_while_connected` rests. The member that subscribes
    only once fails after "connect, disconnect all, connect again" (`Spine.Props.C15.once_member_witness`). -/
theorem c15gen_internal_handler_subscription_sites :
    Generated.EventBus.coreSubscribedOnEverySetup = true ∧ Generated.EventBus.coreUnsubscribedOnlyWhenNoPeerLeft = true ∧
    Generated.EventBus.coreLevelSitesAreThoseTwo = true := by decide

end Spine.Props.C15Gen
