import Spine.UseCaseLock
import Spine.Generated.EntityLocal
/-!
# C20 — facts regenerated from spine/entity_local.go on every run (tie b1)

The concurrent clause of C20 is proved for the member with the lock (`Spine.UC.LSt`, `c20_concurrent_locked`). That the
tree under test IS that member is a fact about the text of the four `EntityLocal` use-case operations; the translator
(generator `entitylocal`) re-extracts it from `/repo`'s current tree and these theorems are re-checked by every
`./check C20`. Removing the lock from one operation, unlocking early, or making the mutex per entity breaks an
obligation named here — before the schedule search has to find the lost-update witness.
-/
namespace Spine.Props.C20Gen
open Spine

/-- all four read-modify-write operations take `useCaseMux` first, release it only by defer, and their one DataCopy
    and one SetData are inside: each cycle is `acquire; copy; store; release` of the model -/
theorem c20_cycles_are_locked :
    Generated.EntityLocal.lockedAddUseCaseSupport = true ∧ Generated.EntityLocal.lockedSetUseCaseAvailability = true ∧
    Generated.EntityLocal.lockedRemoveUseCaseSupport = true ∧ Generated.EntityLocal.lockedRemoveAllUseCaseSupports = true := by
  decide

/-- it is ONE lock for the whole device (package level), not one per entity: operations on different entities
    exclude each other — the model has a single `holder` -/
theorem c20_one_lock_for_all_entities : Generated.EntityLocal.useCaseMuxPackageLevel = true := by decide

end Spine.Props.C20Gen
