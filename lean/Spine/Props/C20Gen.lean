import Spine.UseCaseLock
import Spine.UseCaseFrame
import Spine.Generated.EntityLocal
import Spine.Generated.UCHelpers
/-!
# C20 — facts regenerated from spine/entity_local.go on every run (tie b1)

The concurrent clause of C20 is proved for the member with the lock (`Spine.UC.LSt`, `c20_concurrent_locked`). That the
tree under test IS that member is a fact about the text of the four `EntityLocal` use-case operations; the translator
(generator `entitylocal`) re-extracts it from `/repo`'s current tree and these theorems are re-checked by every
`./check C20`. The facts are semantic: each operation is flattened into a trace of lock / unlock / copy / store events,
following calls to helpers of the same package up to three levels, with deferred and explicit unlocks treated alike —
so folding the four cycles into one helper keeps the facts, while removing the lock from one operation, unlocking
between the copy and the store, or making the mutex per entity breaks an obligation named here — before the schedule
search has to find the lost-update witness.
-/
namespace Spine.Props.C20Gen
open Spine

/-- for all four read-modify-write operations every DataCopy and SetData they perform lies inside ONE critical section
    of a package-level mutex: each cycle is `acquire; copy; store; release` of the model -/
theorem c20_cycles_are_locked :
    Generated.EntityLocal.lockedAddUseCaseSupport = true ∧ Generated.EntityLocal.lockedSetUseCaseAvailability = true ∧
    Generated.EntityLocal.lockedRemoveUseCaseSupport = true ∧ Generated.EntityLocal.lockedRemoveAllUseCaseSupports = true := by
  decide

/-- it is ONE lock, the same package-level mutex for all four operations, not one per entity: operations on different
    entities exclude each other — the model has a single `holder` -/
theorem c20_one_lock_for_all_entities : Generated.EntityLocal.useCaseMuxPackageLevel = true := by decide

/-- WIRING (added in the deepening round): each of the four `EntityLocal` operations applies to the copied data
    exactly ONE helper of `model.NodeManagementUseCaseDataType` — the one the model's `apply` transcribes for that
    operation (`UC.Op.helper`: AddUseCaseSupport → AddUseCaseSupport / `UC.add`, SetUseCaseAvailability →
    SetAvailability / `UC.setAvail`, RemoveUseCaseSupport → RemoveUseCaseSupport / `UC.remove`,
    RemoveAllUseCaseSupports → RemoveUseCaseDataForAddress / `UC.removeAll`) — and it applies it after the DataCopy,
    before the SetData and inside the same hold of the package-level mutex: the model's event `store k o` = "modify
    the copy with o's helper and SetData" is what the source does on every path. Function literals are followed, so
    a cycle written once with the helper passed in as a closure yields the same facts. -/
theorem c20_operations_apply_their_helper :
    Generated.EntityLocal.helperAddUseCaseSupport = (UC.Op.add [] 0 ⟨0, 0, false, [], 0⟩).helper ∧
    Generated.EntityLocal.helperSetUseCaseAvailability = (UC.Op.setAvail [] 0 0 false).helper ∧
    Generated.EntityLocal.helperRemoveUseCaseSupport = (UC.Op.remove [] 0 0).helper ∧
    Generated.EntityLocal.helperRemoveAllUseCaseSupports = (UC.Op.removeAll []).helper := by decide

/-- `HasUseCaseSupport` works on a copy, asks the data type's helper of that name and stores nothing: it is a pure
    observation of the registry (`UC.has` on the current `reg`), no event of the cycle model -/
theorem c20_has_is_read_only : Generated.EntityLocal.hasUseCaseSupportReadOnly = true := by decide

/-- OWN ADDRESS (added in round 5; before: "not regenerated", judged only by the SPEC monitor and the differential
    run): in each of the four read-modify-write operations and in `HasUseCaseSupport`, the address handed to the
    helper of the data type is the RECEIVER'S OWN — a `model.FeatureAddressType` whose `Device` and `Entity` are those
    of the receiver's `Address()` (the `address` field of the embedded `Entity`) and whose `Feature` is not set. The
    translator decides this by a small symbolic evaluation of where the argument comes from: through local variables,
    field-wise construction, helper methods of the receiver that build the address, parameters of closures and of the
    generic cycle helper, `&`, `*` and `util.Ptr`. In the model this is `UC.Op.ent`: an operation issued on entity `e`
    reads and writes the entries keyed by `e` only (`c20_isolation`, `c20_frame_history`, `c20_frame_concurrent` are
    about exactly that `e`). -/
theorem c20_operations_pass_own_address :
    Generated.EntityLocal.addressOwnAddUseCaseSupport = true ∧ Generated.EntityLocal.addressOwnSetUseCaseAvailability = true ∧
    Generated.EntityLocal.addressOwnRemoveUseCaseSupport = true ∧ Generated.EntityLocal.addressOwnRemoveAllUseCaseSupports = true ∧
    Generated.EntityLocal.addressOwnHasUseCaseSupport = true := by decide

/-! ### copies are values (round 7)

`DataCopy` of the use-case data copies one level: the stored data and every outstanding copy — a reply in preparation,
the copy an overlapping cycle works on — share the arrays of `useCaseInformation` and of each `useCaseSupport` list.
`Spine.UC` / `Spine.UC.LSt` treat a copy as a value; that is the code's behaviour exactly as long as no helper of the
registry writes through an array it did not allocate itself. Regenerated (generator `uchelpers`, syntactic and erring
on the side of reporting): among the methods of `NodeManagementUseCaseDataType` and `UseCaseInformationDataType` there
is no index assignment through a slice that was not cloned or made in the same function, no mutating function of
package `slices`, no `append` / `copy` onto a slice that is not the function's own. -/

/-- no helper of the use-case registry writes into a shared array, and the extraction is not empty: the operations the
    four `EntityLocal` cycles call are among the methods examined -/
theorem c20_helpers_never_write_shared_arrays :
    Generated.UCHelpers.sharedArrayWriters = [] ∧
    (["NodeManagementUseCaseDataType.AddUseCaseSupport", "NodeManagementUseCaseDataType.SetAvailability",
      "NodeManagementUseCaseDataType.RemoveUseCaseSupport", "NodeManagementUseCaseDataType.RemoveUseCaseDataForAddress",
      "UseCaseInformationDataType.Add", "UseCaseInformationDataType.Remove"].all
        fun m => Generated.UCHelpers.methods.contains m) = true := by decide

end Spine.Props.C20Gen
