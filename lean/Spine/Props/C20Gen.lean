import Spine.UseCaseLock
import Spine.Generated.EntityLocal
/-!
# C20 — facts regenerated from spine/entity_local.go on every run (tie b1)

The concurrent clause of C20 is proved for the member with the lock (`Spine.UC.LSt`, `c20_concurrent_locked`). That the
tree under test IS that member is a fact about the text of the four `EntityLocal` use-case operations; the translator
(generator `entitylocal`) re-extracts it from `/repo`'s current tree and these theorems are re-checked by every
`./check C20`. The facts are semantic: each operation is flattened into a trace of lock / unlock / copy / store events,
following calls to helpers of the same package up to three levels, with deferred and explicit unlocks treated alike —
so folding the four cycles into one helper keeps the facts, while removing the lock from one operation, unlocking
between the copy and the store, or making the mutex per entity breaks an obligation named here — before the schedule
search has to find the lost-update witness.
-/
namespace Spine.Props.C20Gen
open Spine

/-- for all four read-modify-write operations every DataCopy and SetData they perform lies inside ONE critical section
    of a package-level mutex: each cycle is `acquire; copy; store; release` of the model -/
theorem c20_cycles_are_locked :
    Generated.EntityLocal.lockedAddUseCaseSupport = true ∧ Generated.EntityLocal.lockedSetUseCaseAvailability = true ∧
    Generated.EntityLocal.lockedRemoveUseCaseSupport = true ∧ Generated.EntityLocal.lockedRemoveAllUseCaseSupports = true := by
  decide

/-- it is ONE lock, the same package-level mutex for all four operations, not one per entity: operations on different
    entities exclude each other — the model has a single `holder` -/
theorem c20_one_lock_for_all_entities : Generated.EntityLocal.useCaseMuxPackageLevel = true := by decide

end Spine.Props.C20Gen
