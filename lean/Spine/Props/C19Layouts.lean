import Spine.TimeGlue
import Spine.Generated.TimeLayouts
/-!
# C19, clause (d) — instants: the glue between formatting and parsing, over facts regenerated from the
tree under test on every run (translator generator `timelayouts`).

Only the glue is modelled. Calendar arithmetic and `time.Format` / `time.Parse` themselves are assumption
A-time; the round trip on the real code is monitored by the harness for instants across years 1–9999
(`TestNumeric`, ops `instant`, `instantns`, `date`, `tod`).

The facts come in two independent derivations (see `go/cmd/translate/gen_timelayouts.go`):
* DYNAMIC (authoritative): which text shapes the real `GetTime` methods accept and read as the right
  instant, which shape `NewDateTimeTypeFromTime` writes, whether it rounds to the second and converts to
  UTC — obtained by probing the compiled code, so no refactoring of the source text can disturb them;
* STATIC (cross-check): the layout strings found in the source by structural search. They may be
  "unknown" after a refactoring (`astParseKnown`, `astFormatKnown`); the theorems over them are guarded,
  so they can become vacuous but a layout that is found and contradicts the glue breaks the obligation.
-/
namespace Spine.Props.C19Layouts
open Spine.Generated.TimeLayouts Spine.TG

/-- the text shape `NewDateTimeTypeFromTime` writes is one that `DateTimeType.GetTime` accepts and reads
    as the instant it denotes (dynamic) -/
theorem c19_datetime_written_is_read :
    dateTimeWrittenKnown = true ∧ dateTimeAccepts.contains dateTimeWritten = true := by decide

/-- the instant is rounded to the whole second and converted to UTC before it is written, and the
    written shape carries no fraction (dynamic) -/
theorem c19_datetime_whole_second_utc :
    dateTimeRoundsToSecondDyn = true ∧ dateTimeConvertsToUTCDyn = true ∧
    stripFrac dateTimeWritten = dateTimeWritten := by decide

/-- every getter accepts the plain form and the form with the literal `Z` (dynamic) -/
theorem c19_plain_and_z_forms :
    (dateTimeAccepts.any fun l => l.getLast? = some 2) = true ∧
    (dateAccepts.any fun l => l.getLast? = some 2) = true ∧ (timeAccepts.any fun l => l.getLast? = some 2) = true ∧
    (dateTimeAccepts.any fun l => !l.contains 1 && !l.contains 2 && !l.contains 3 && !l.contains 4) = true ∧
    (dateAccepts.any fun l => !l.contains 1 && !l.contains 2 && !l.contains 3 && !l.contains 4) = true ∧
    (timeAccepts.any fun l => !l.contains 1 && !l.contains 2 && !l.contains 3 && !l.contains 4) = true := by decide

/-- static cross-check: where the layouts could be recovered from the source, some layout tried by
    `GetTime` accepts the text formatted from a whole-second instant, and the first that does differs from
    the formatting layout at most by the optional fraction: every field and the literal `Z` are read back
    by the element that wrote them -/
theorem c19_ast_first_match :
    (astParseKnown && astFormatKnown) = false ∨
    (firstMatch dateTimeParse dateTimeFormat).map stripFrac = some dateTimeFormat := by decide

/-- static cross-check: where found, the formatting layout is the shape observed, and a rounding to the
    second and a conversion to UTC are on the way to it -/
theorem c19_ast_format_agrees :
    (astFormatKnown && dateTimeWrittenKnown) = false ∨
    (dateTimeFormat = dateTimeWritten ∧ dateTimeRoundsToSecond = true ∧ dateTimeConvertsToUTC = true) := by decide

/-- static cross-check: where found, every layout in the source (except those containing the text
    "+07:00", which is not a zone element) denotes a shape the real getter accepts -/
theorem c19_ast_layouts_accepted :
    astParseKnown = false ∨
    ((dateTimeParse.all fun l => l.contains 4 || dateTimeAccepts.contains (stripFrac l)) = true ∧
     (dateParse.all fun l => l.contains 4 || dateAccepts.contains (stripFrac l)) = true ∧
     (timeParse.all fun l => l.contains 4 || timeAccepts.contains (stripFrac l)) = true) := by decide

end Spine.Props.C19Layouts
