import Spine.TimeGlue
import Spine.Generated.TimeLayouts
/-!
# C19, clause (d) — instants: the glue between formatting and parsing, over the layouts regenerated
from `model/commondatatypes_additions.go` on every run (translator generator `timelayouts`).

Only the glue is modelled: which layout formats, which layouts are tried for parsing and in which
order, that the instant is rounded to the second and converted to UTC first. Calendar arithmetic and
`time.Format` / `time.Parse` themselves are assumption A-time; the round trip on the real code is
monitored by the harness for instants across years 1–9999 (`TestNumeric`, ops `instant`, `instantns`).
A change of a layout in the code re-checks these theorems (a failure is reported as a broken proof
obligation).
-/
namespace Spine.Props.C19Layouts
open Spine.Generated.TimeLayouts Spine.TG

/-- some layout tried by `GetTime` accepts the text formatted from a whole-second instant, and the first
    that does differs from the formatting layout at most by the optional fraction: every field and the literal `Z` are read back
    by the element that wrote them (so, under A-time, the instant read is the instant written) -/
theorem c19_datetime_first_match :
    (firstMatch dateTimeParse dateTimeFormat).map stripFrac = some dateTimeFormat := by decide

/-- the instant is rounded to the whole second and converted to UTC before it is formatted, and the
    formatting layout has no fraction element and ends in the literal `Z` (read as UTC by
    `ParseInLocation(…, time.UTC)`) -/
theorem c19_datetime_whole_second_utc :
    dateTimeRoundsToSecond = true ∧ dateTimeConvertsToUTC = true ∧
    stripFrac dateTimeFormat = dateTimeFormat ∧ dateTimeFormat.getLast? = some 2 := by decide

/-- every list of parsing layouts offers the plain form and the form with the literal `Z` -/
theorem c19_plain_and_z_forms :
    (dateTimeParse.any fun l => l.getLast? = some 2) = true ∧
    (dateParse.any fun l => l.getLast? = some 2) = true ∧ (timeParse.any fun l => l.getLast? = some 2) = true ∧
    (dateParse.any fun l => !l.contains 2 && !l.contains 3 && !l.contains 4) = true ∧
    (timeParse.any fun l => !l.contains 1 && !l.contains 2 && !l.contains 3 && !l.contains 4) = true := by decide

end Spine.Props.C19Layouts
