import Spine.Bind
import Spine.Generated.Managers
/-!
# C09 — facts regenerated from spine/binding_manager.go on every run (tie b1)

"At no time, under any interleaving of requests from different peers, more than one binding" is proved for the event
model in which a request is ONE event (`Spine.Bind.Ev.atomicAdd`, `C09.c09_at_most_one_schedules`) and refuted for the
member in which check and insertion are two events (`C09.c09_at_most_one_refuted`). Which member the tree under test is,
is a claim about the source text. The translator (generator `managers`, go/ast) re-extracts it from `/repo`'s current
tree; these theorems are re-checked by every `./check C09`. A change that moves the scan out of the region, splits the
region (read lock for the scan, write lock for the append), or routes the check through a helper that locks on its
own breaks the obligation named here — independently of whether the schedule search finds the failing interleaving.
-/
namespace Spine.Props.C09Gen
open Spine

/-- In `AddBinding` the scan of `bindingEntries` for the server feature and the append lie in one exclusive region of
    `c.mux` (`Lock` immediately followed by `defer Unlock`, no other operation on `c.mux`, no `RLock`, no locking
    helper): the request is the single event `Bind.Ev.atomicAdd`, which is what `c09_at_most_one_schedules` quantifies
    over. -/
theorem c09gen_check_and_insert_one_region : Generated.Managers.addBindingOneRegion = true := by decide

/-- `RemoveBinding` filters and writes back in one exclusive region: a delete is the single event `Bind.Ev.remove` /
    one `Reg.Op.unbind`. -/
theorem c09gen_remove_one_region : Generated.Managers.removeBindingOneRegion = true := by decide

/-- non-vacuity of the quantifier these facts feed: the atomic event really refuses the second request -/
example : (Bind.run [.atomicAdd 7 100, .atomicAdd 7 200]).entries = [⟨1, 7, 100⟩] := by decide

end Spine.Props.C09Gen
