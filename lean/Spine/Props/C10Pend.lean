import Spine.TeardownKeysPend
/-!
# C10 — "all and only the … PENDING WRITE APPROVALS … that refer to that device or entity disappear", over identity keys

Model: `Spine.TdK` extended by the pending approvals (`Spine/TeardownKeysPend.lean`, state `PSt`): a pending approval is
keyed by (SKI, connection EPOCH, msgCounter, entity of the writing client feature, client feature, local server feature)
— the map key of `FeatureLocal.pendingWriteApprovals / pendingWriteMessages` plus the connection object and the entity
object the stored message carries. A re-connection under the same SKI is a new epoch, hence a different key (cf.
`C10.c10_reconnect_fresh` for the one-number model `Spine.Td`). `PInv` (every pending approval was stored by the CURRENT
connection of a connected SKI for one of its entities) holds along every history (`c10k_pending_reachable`).
-/
namespace Spine.Props.C10Pend
open Spine Spine.TdK

/-- Connection `k` removed: the pending approvals afterwards are exactly the previous ones minus ALL those stored under
    that SKI (whatever epoch, counter, entity, feature), every registry component is as `c10k_device_exact` says (the
    registry half of the extended step is `TdK.drop`), and no verdict for that SKI is taken any more. -/
theorem c10k_pending_device_exact (F : Facts) (p : PSt) (k : Nat) (c : Conn) (hk : forSki p.s k = some c) :
    (pdrop F p k).1.pends = p.pends.filter (fun x => x.ski != k) ∧
    (pdrop F p k).1.s = (drop F p.s k).1 ∧ (pdrop F p k).2 = (drop F p.s k).2 ∧
    (∀ epoch ctr srv, taken (pdrop F p k).1 k epoch ctr srv = false) :=
  ⟨pdrop_pends F p k c hk, (pdrop_state F p k).1, (pdrop_state F p k).2, fun e ctr srv => pdrop_none_taken F p k c hk e ctr srv⟩

/-- Frame: the pending approvals of every other SKI `q` — same counters, same entity and feature numbers or not — are
    still there, in the same order, and every verdict for `q` is taken exactly as before. -/
theorem c10k_pending_others_keep (F : Facts) (p : PSt) (k : Nat) (c : Conn) (hk : forSki p.s k = some c) (q : Nat) (hq : q ≠ k) :
    (pdrop F p k).1.pends.filter (fun x => x.ski == q) = p.pends.filter (fun x => x.ski == q) ∧
    (∀ epoch ctr srv, taken (pdrop F p k).1 q epoch ctr srv = taken p q epoch ctr srv) := by
  constructor
  · rw [pdrop_pends F p k c hk, List.filter_filter]
    apply filter_congr_mem
    intro x _
    by_cases hx : x.ski = q <;> simp [hx, hq]
  · intro epoch ctr srv
    have : (pdrop F p k).1.pends = p.pends.filter (fun x => x.ski != k) := pdrop_pends F p k c hk
    unfold taken
    rw [this]
    apply any_filter_other
    intro x hx
    simp only [Pend.slot, Bool.and_eq_true, beq_iff_eq] at hx
    simp [hx.1.1.1, hq]

/-- Entity `ent` (not [0]) of connection `k` announced as removed: exactly the pending approvals of writes that came from
    (that SKI, that entity) go; those of the SKI's other entities and of every other SKI stay; the registry half is
    `TdK.dropEntity` (`c10k_entity_exact`). Needs the invariant: the code compares the entity OBJECT of the current
    connection, and every pending approval of the SKI is of the current connection (`PInv.cur`). -/
theorem c10k_pending_entity_exact (F : Facts) (p : PSt) (hp : PInv p) (k : Nat) (c : Conn) (hk : forSki p.s k = some c)
    (ent : List Nat) (h0 : ent ≠ [0]) (hent : c.ents.contains ent = true) :
    (pdropEntity F p k ent).1.pends = p.pends.filter (fun x => !(x.ski == k && x.ent == ent)) ∧
    (pdropEntity F p k ent).1.s = (dropEntity F p.s k ent).1 ∧ (pdropEntity F p k ent).2 = (dropEntity F p.s k ent).2 :=
  ⟨pdropEntity_pends F p hp k c hk ent h0 hent, (pdropEntity_state F p k ent).1, (pdropEntity_state F p k ent).2⟩

/-- A re-connection is a different key: in every state of the invariant a verdict for a message stored by an EARLIER
    connection of the SKI (epoch ≠ the current one) is not taken — whatever the current connection has pending under the
    same counter on the same feature. -/
theorem c10k_pending_reconnect_fresh (p : PSt) (hp : PInv p) (k epoch ctr : Nat) (srv : List Nat × Nat)
    (he : epoch ≠ epochOf p k) : (presolve p k epoch ctr srv).2 = false ∧ (presolve p k epoch ctr srv).1.pends = p.pends := by
  have h := stale_verdict_ignored p hp k epoch ctr srv he
  unfold presolve
  rw [h]; exact ⟨rfl, rfl⟩

/-- The invariants hold along every history of connections (each announcing a fresh device address), granted requests,
    client requests, writes that wait for approval, verdicts (also stale ones), teardowns and entity removals. -/
theorem c10k_pending_reachable (F : Facts) (hF : F.ok = true) (ops : List POp) (hok : pokRun F { s := { conns := [] } } ops = true) :
    Inv (prun F { s := { conns := [] } } ops).s ∧ PInv (prun F { s := { conns := [] } } ops) :=
  pinv_run F hF ops _ inv_empty pinv_empty hok

/-! ### non-vacuity: two SKIs with IDENTICAL numbering and IDENTICAL counters; SKI 1 drops and connects again -/

def hist0 : List POp :=
  [.base (.connect ⟨1, 101, [[0], [1], [2]]⟩), .base (.connect ⟨2, 102, [[0], [1], [2]]⟩),
   .base (.entry true 1 1 [1] 1 [3] 1), .base (.entry true 2 2 [1] 1 [4] 1), .base (.entry true 3 1 [2] 1 [2] 1),
   .write 1 500 [1] 1 ([3], 1), .write 2 500 [1] 1 ([4], 1), .write 1 501 [2] 1 ([2], 1)]
def p0 : PSt := prun Facts.head { s := { conns := [] } } hist0

/-- three pending approvals (SKI 1 twice — entities [1] and [2] —, SKI 2 once with the SAME counter and numbering as SKI 1);
    the teardown of SKI 1 leaves exactly SKI 2's; the removal of entity [1] of SKI 1 leaves SKI 1's other one and SKI 2's -/
example : pokRun Facts.head { s := { conns := [] } } hist0 = true ∧
    (p0.pends.map fun x => (x.ski, x.epoch, x.ctr, x.ent)) = [(1, 1, 500, [1]), (2, 1, 500, [1]), (1, 1, 501, [2])] ∧
    ((pdrop Facts.head p0 1).1.pends.map fun x => (x.ski, x.epoch, x.ctr, x.ent)) = [(2, 1, 500, [1])] ∧
    ((pdropEntity Facts.head p0 1 [1]).1.pends.map fun x => (x.ski, x.epoch, x.ctr, x.ent)) = [(2, 1, 500, [1]), (1, 1, 501, [2])] ∧
    taken (pdrop Facts.head p0 1).1 2 1 500 ([4], 1) = true ∧ taken (pdrop Facts.head p0 1).1 1 1 500 ([3], 1) = false := by decide

/-- SKI 1 connects again, is bound again and writes with the SAME counter 500: pending under epoch 2; the verdict for the
    message of the first connection (epoch 1) is ignored, the one for the new message is taken -/
def p1 : PSt := prun Facts.head (pdrop Facts.head p0 1).1
  [.base (.connect ⟨1, 101, [[0], [1], [2]]⟩), .base (.entry true 5 1 [1] 1 [3] 1), .write 1 500 [1] 1 ([3], 1)]

example : epochOf p1 1 = 2 ∧ (p1.pends.map fun x => (x.ski, x.epoch, x.ctr)) = [(2, 1, 500), (1, 2, 500)] ∧
    (presolve p1 1 1 500 ([3], 1)).2 = false ∧ (presolve p1 1 2 500 ([3], 1)).2 = true ∧
    ((presolve p1 1 2 500 ([3], 1)).1.pends.map fun x => (x.ski, x.epoch, x.ctr)) = [(2, 1, 500)] := by decide

/-- Sharpness of the hypothesis `PInv` in `c10k_pending_entity_exact`: in a state OUTSIDE the invariant — a pending approval
    of epoch 1 while SKI 1 is at epoch 2, which is what a teardown that forgot `CleanWriteApprovalCaches` would leave
    behind — the entity removal (which compares the entity OBJECT of the current connection) misses the stale entry. -/
theorem c10k_pending_stale_epoch_refuted :
    let p : PSt := { p1 with pends := p1.pends ++ [⟨1, 1, 777, [1], 1, ([3], 1)⟩] }
    ((pdropEntity Facts.head p 1 [1]).1.pends.map fun x => (x.ski, x.epoch, x.ctr)) = [(2, 1, 500), (1, 1, 777)] := by decide

end Spine.Props.C10Pend
