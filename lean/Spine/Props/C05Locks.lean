import Spine.Lock
import Spine.LockTables
import Spine.Generated.Locks
/-!
# C05 — "message handling returns … without blocking forever": the lock order of the tree under test (tie b1)

Handling an inbound message takes mutexes of the stack — of the device, the entities and features, the two managers,
the sender, the event bus, the write-approval machinery — and so do the things that run concurrently with it: the
handlers of OTHER connections, application calls (`ApproveOrDenyWrite`, `SubscribeToRemote`, `SetData`, …), timers.
If two of these paths take two mutexes in opposite orders (e.g. the clean-up that an entity-removal notification runs
takes the tally mutex inside the pending-approvals mutex while a verdict takes them the other way round), a message
handler blocks forever on the stack's own locks: the notification never returns, the connection's reader goroutine is
gone, no read of that peer — and, once the other party holds a manager or bus mutex, of any peer — is answered again.

The lock-order edges come from `go/lockgraph` (the analyser of C17: go/ssa, may-held sets closed over the call graph
with interface calls resolved inside the module; run on the tree under test by a pre-command of this check). They
cover ALL mutexes of the module, a superset of those reachable from `HandleSpineMesssage`. The abstract theorem is
C17's (`Spine.Lock.ranked_no_deadlock`, restated there as `c17_ranked_no_deadlock`): ranked acquisition excludes
cyclic waiting for any number of threads and locks. Assumption (trusted analyser, as in C17): `RespectsEdges` — whenever
a goroutine holds `h` and waits for `m`, `(h, m)` is an extracted edge. Blocking on anything else (a SHIP writer that
does not return, an application callback) is outside: A-writer.
-/
namespace Spine.Props.C05Locks
open Spine Spine.LockTables Spine.Generated.Locks

/-- every mutex of the stack is taken in ONE order on every path of the tree under test: the regenerated rank strictly
    increases along every extracted edge (no cycle, no self-edge, no inversion between any two paths) -/
theorem c05_lock_order_ranked : Ranked rank lockEdges := by
  unfold Ranked; decide +kernel

/-- **No message handling blocks forever on the stack's own locks.** In every state of any number of goroutines
    (message handlers of any connections, application calls, timer functions) whose "holds h, waits for m" pairs are
    among the extracted edges, no set of goroutines waits cyclically. -/
theorem c05_handlers_never_deadlock (thrs : List Lock.Thr) (he : RespectsEdges lockEdges thrs) :
    ¬ Lock.Deadlocked thrs :=
  ranked_edges_no_deadlock rank lockEdges c05_lock_order_ranked thrs he

/-- … and whenever some goroutine waits, one of the waiting goroutines wants a mutex that is free or held only by
    goroutines that are running: every wait can end -/
theorem c05_some_waiting_handler_can_proceed (thrs : List Lock.Thr) (he : RespectsEdges lockEdges thrs)
    (hw : ∃ t ∈ thrs, t.waiting ≠ none) :
    ∃ t ∈ thrs, ∃ m, t.waiting = some m ∧ ∀ t' ∈ thrs, m ∈ t'.held → t'.waiting = none :=
  some_waiter_can_proceed thrs (c05_handlers_never_deadlock thrs he) hw

/-- a running holder gives its mutexes back: no function of the tree returns holding a lock, every Lock / Unlock site
    was identified — so a handler that has returned does not keep a later read from being answered -/
theorem c05_no_lock_survives_the_handler : lockLeaks = [] ∧ unknownLockSites = [] ∧ unbalancedUnlocks = [] := by
  decide

/-- non-vacuity: there IS nesting to rank on this tree, and a state in which a handler holds the first mutex of an
    extracted edge and waits for the second, whose holder runs, respects the table -/
example : lockEdges ≠ [] ∧ ∀ e ∈ lockEdges, RespectsEdges lockEdges [⟨[e.1], some e.2⟩, ⟨[e.2], none⟩] := by
  decide +kernel

/-- non-vacuity of the danger: a table with one inverted pair admits a state that respects it and is deadlocked -/
example : ∃ thrs, RespectsEdges [(12, 13), (13, 12)] thrs ∧ Lock.Deadlocked thrs :=
  two_cycle_deadlocks 12 13 _ (by decide) (by decide)

end Spine.Props.C05Locks
