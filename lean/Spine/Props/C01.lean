import Spine.DispatchHist
/-!
# C01 — every inbound request gets exactly the one correctly addressed response

Property theorems only (lemmas: `Spine/DispatchThm.lean`, `Spine/DispatchHist.lean`). Model: `Spine.Disp`
(`processCmd` = `DeviceLocal.ProcessCmd` + `FeatureLocal/NodeManagement.HandleMessage` + the write gate + the
sender's counter and request cache, for several peers; outputs are tagged with the connection they are written to).
`expected` is the classifier rule table of the statement; `kindOf` keeps replies and results (with their
connection) and drops what the stack sends on its own account (read requests, notifications to subscribers).

Status: the exactness clause is PROVED for the repaired member (`c01_exact`), REFUTED for the code as written
(`c01_exact_refuted`: a result addressed to an unknown feature is answered with an error result) and PROVED for
every member outside that one point (`c01_exact_partial`); addressing, "no response to any other peer", the
node-management calls and the lift over histories are PROVED for every member.
Not modelled (monitored on the real code by `TestDispatch` only): that the reply *carries the function's current
data* (payloads are abstract function ids), the *device part* of the addresses, datagrams that trip
`PrintMessageOverview` (reply / result without reference, result without result data: `panics`, C05's subject).
-/
namespace Spine.Props.C01
open Spine.Disp

/-- Exactness, repaired member (`resultOnResult` off), full strength: for every world (any prior state of counters,
    caches, subscriptions and bindings), every peer and every datagram, the replies and results the stack emits are
    exactly those the classifier rules prescribe, in that order, all on the sender's connection — no more, no
    fewer, none to another peer. -/
theorem c01_exact (w : W) (p : Nat) (d : Dg) (hcfg : w.cfg.resultOnResult = false) (hwf : panics d = false)
    (hNM : nmReadOnly w) :
    (processCmd w p d).2.filterMap kindOf = (expected w p d).map fun r => (p, r) :=
  Spine.Disp.c01_exact w p d hcfg hwf hNM

/-- Exactness, every member of the family (also the code as written), outside the one excluded point: a `result`
    addressed to a local feature that does not exist. -/
theorem c01_exact_partial (w : W) (p : Nat) (d : Dg) (hwf : panics d = false) (hNM : nmReadOnly w)
    (hx : w.cfg.resultOnResult = true → ¬ resultToUnknown w d) :
    (processCmd w p d).2.filterMap kindOf = (expected w p d).map fun r => (p, r) :=
  Spine.Disp.c01_exact_partial w p d hwf hNM hx

/-- REFUTED for the code as written (`cfg = {}`): "never any result in answer to a result" — a result addressed to
    an unknown local feature is answered with an error result (`device_local.go`, `ProcessCmd` sends the error
    before it looks at the classifier). Kernel-checked witness `refW`, `refD`. -/
theorem c01_exact_refuted :
    ∃ (w : W) (p : Nat) (d : Dg), w.cfg = {} ∧ panics d = false ∧ nmReadOnly w ∧
      (processCmd w p d).2.filterMap kindOf ≠ (expected w p d).map fun r => (p, r) :=
  Spine.Disp.c01_exact_refuted

/-- the witness, spelled out: the code as written answers, the repaired member does not -/
example : (processCmd refW 1 refD).2 = [(1, Out.result 7 4 ([9], 9) ([0], 0))] ∧ expected refW 1 refD = [] ∧
    (processCmd { refW with cfg := Cfg.clean } 1 refD).2 = [] := by decide

/-- Addressing, every member: every reply and result is written to the sender's connection (no response to any
    other peer), references the request's message counter, is addressed to the request's source feature and names
    the addressed local feature as its source. -/
theorem c01_addressing (w : W) (p : Nat) (d : Dg) (o : Nat × Out) (ho : o ∈ (processCmd w p d).2) :
    addressed p d o :=
  Spine.Disp.c01_addressing w p d o ho

/-- Binding / subscription calls at node management, every member: exactly one error when refused, exactly the
    requested acknowledgement when accepted, on the caller's connection. -/
theorem c01_call (w : W) (p : Nat) (ctr : Nat) (ack : Bool) (k : Call) (hc : connected w p = true) :
    (processCall w p ctr ack k).2.filterMap kindOf =
      if callOk w p k then (if ack then [(p, Resp.success)] else []) else [(p, Resp.error)] :=
  Spine.Disp.c01_call w p ctr ack k hc

/-- Histories: after any sequence of datagrams, registry calls, entity notifications, disconnects and connects by any
    peers, the next datagram is answered exactly as prescribed in the world of that moment. -/
theorem c01_history (w0 : W) (ops : List Op) (p : Nat) (d : Dg) (hwf : panics d = false) (hNM : nmReadOnly w0)
    (hx : w0.cfg.resultOnResult = true → ¬ resultToUnknown (run w0 ops) d) :
    (processCmd (run w0 ops) p d).2.filterMap kindOf = (expected (run w0 ops) p d).map fun r => (p, r) :=
  Spine.Disp.c01_history w0 ops p d hwf hNM hx

/-! Non-vacuity: a world with node management, a server, a client feature and two connected peers; one datagram
    per classifier with a non-trivial prescribed answer. -/
def exNM : LF := { ent := [0], feat := 0, typ := 9, role := .special, fds := [901, 902, 903], ops := [(901, false)], nm := true }
def exSrv : LF := { ent := [1], feat := 1, typ := 1, role := .server, fds := [5, 6], ops := [(5, true), (6, false)] }
def exCli : LF := { ent := [1], feat := 3, typ := 1, role := .client, fds := [5, 6], ops := [] }
def exPeer : Peer := ⟨[⟨[0], 0, [901, 902], 9, .special⟩, ⟨[1], 1, [5, 6], 1, .client⟩], 3, []⟩
def exW : W :=
  { loc := [exNM, exSrv, exCli], peers := fun _ => exPeer, binds := [(([1], 1), 1, ([1], 1))],
    subs := [(([1], 1), 2, ([1], 1))] }
def exDg (cls : Cls) (dst : Addr) (ack : Bool) (fn : Nat) (ref : Option Nat := none) : Dg :=
  ⟨([1], 1), dst, 40, ref, cls, ack, fn, false⟩

example : nmReadOnly exW := by
  intro lf hlf hnm o ho
  simp only [exW, List.mem_cons, List.not_mem_nil, or_false] at hlf
  rcases hlf with rfl | rfl | rfl
  · simp only [exNM, List.mem_singleton] at ho; subst ho; rfl
  · cases hnm
  · cases hnm

example :
    expected exW 1 (exDg .read ([1], 1) false 5) = [.reply 5] ∧                   -- read of a server feature
    expected exW 1 (exDg .read ([1], 3) false 5) = [.error] ∧                     -- read of a client feature
    expected exW 1 (exDg .read ([0], 0) false 901) = [.reply 901] ∧               -- read of the special feature
    expected exW 1 (exDg .notify ([1], 3) true 5) = [.success] ∧                  -- accepted notify, ack requested
    expected exW 1 (exDg .notify ([1], 3) false 5) = [] ∧                         -- accepted notify, no ack
    expected exW 1 (exDg .reply ([1], 3) true 77 (some 2)) = [.error] ∧           -- rejected reply
    expected exW 1 (exDg .call ([1], 1) true 5) = [.error] ∧                      -- rejected call
    expected exW 1 (exDg .write ([1], 1) true 5) = [.success] ∧                   -- authorised write
    expected exW 2 (exDg .write ([1], 1) true 5) = [.error] ∧                     -- same addresses, other connection
    expected exW 1 (exDg .write ([1], 1) true 6) = [.error] ∧                     -- read-only function
    expected exW 1 (exDg .read ([7], 7) false 5) = [.error] ∧                     -- unknown destination
    expected exW 1 (exDg .result ([1], 3) true 900 (some 2)) = [] := by decide    -- a result is never answered

/-- the model produces them, on the sender's connection, the notification of the accepted write going to the
    subscriber on connection 2 -/
example :
    (processCmd exW 1 (exDg .write ([1], 1) true 5)).2 =
      [(2, .notify 5 ([1], 1) ([1], 1)), (1, .result 40 0 ([1], 1) ([1], 1))] ∧
    (processCmd exW 1 (exDg .read ([1], 1) false 5)).2 = [(1, .reply 40 5 ([1], 1) ([1], 1))] := by decide

end Spine.Props.C01
