import Spine.DispatchData
import Spine.DispatchHdr
import Spine.DispatchTreeThm
/-!
# C01 — every inbound request gets exactly the one correctly addressed response

Property theorems only (lemmas: `Spine/DispatchThm.lean`, `Spine/DispatchHist.lean`). Model: `Spine.Disp`
(`processCmd` = `DeviceLocal.ProcessCmd` + `FeatureLocal/NodeManagement.HandleMessage` + the write gate + the
sender's counter and request cache, for several peers; outputs are tagged with the connection they are written to).
`expected` is the classifier rule table of the statement; `kindOf` keeps replies and results (with their
connection) and drops what the stack sends on its own account (read requests, notifications to subscribers).

Status: the exactness clause is PROVED for the repaired member (`c01_exact`), REFUTED for the code as written
(`c01_exact_refuted`: a result addressed to an unknown feature is answered with an error result) and PROVED for
every member outside that one point (`c01_exact_partial`); addressing, "no response to any other peer", the
node-management calls and the lift over histories are PROVED for every member.
Data: the model carries abstract data values (`W.data`: per local feature and function the identity of the operation
that set it — an accepted remote write or `SetData` / `UpdateData` of the local application); "the reply carries the
function's CURRENT data" is PROVED per step (`c01_reply_current_data`) and over histories (`c01_reply_last_set`:
the value last written or set), together with the frame (`c01_data_frame`: nothing else changes any data).
Header layer: the member `overviewPanics = false` is the repaired `PrintMessageOverview`: reply / result without
reference, result without result data or error number, requests without msgCounter are processed like any other
datagram (the answer to a request without counter carries no reference); for that member the exactness theorems hold
for ALL datagrams (`c01_exact_all`), for the member as written under `wf`. `c01_hdr_agrees` ties this model to C05's
header family `Spine.Hdr.pre` on the shared part.
Device part: the source of a response carries the local device address, except the unknown-destination error, which
echoes the destination's device part as sent (`c01_source_device`).
Node management (second deepening round): what it reports for detailed discovery / use cases / destination list is an
abstract value too (`W.nmData`: the identity of the last LOCAL operation of the application that changed the local
tree / the use-case list — `Spine/DispatchTree.lean`: feature added to an existing entity, function announced on an
existing feature, description changed, use case added / removed, entity added / removed); a read is answered with
exactly one reply carrying the CURRENT value (`c01_nm_reply_current`), over every history that interleaves datagrams,
registry traffic and local operations the value of the LAST local operation that changed it (`c01_nm_reply_last_change`),
nothing else changes it (`c01_nm_frame`), and exactness holds in the world of every moment of such a history
(`c01_history_with_local_changes`). The concrete CONTENT behind a value id is the harness's side: TestDispatch computes
it from the primitives of the public API at the moment of the local operation and compares the reply with it.
Not modelled (monitored by `TestDispatch` only): the device part of the *destination* of a response; the entries of
subscription / binding data replies beyond their number (compared with the public registry and the SPEC registry).
-/
namespace Spine.Props.C01
open Spine.Disp

/-- Exactness, repaired member (`resultOnResult` off), full strength: for every world (any prior state of counters,
    caches, subscriptions and bindings), every peer and every datagram, the replies and results the stack emits are
    exactly those the classifier rules prescribe, in that order, all on the sender's connection — no more, no
    fewer, none to another peer. -/
theorem c01_exact (w : W) (p : Nat) (d : Dg) (hcfg : w.cfg.resultOnResult = false) (hwf : NoCrash w d)
    (hNM : nmReadOnly w) :
    (processCmd w p d).2.filterMap kindOf = (expected w p d).map fun r => (p, r) :=
  Spine.Disp.c01_exact w p d hcfg hwf hNM

/-- Exactness for the member that matches the repaired code (`resultOnResult` and `overviewPanics` off): no
    hypothesis on the datagram at all — also a reply / result without reference, a result without result data, a
    request without msgCounter get exactly the responses of the rule table. -/
theorem c01_exact_all (w : W) (p : Nat) (d : Dg) (hcfg : w.cfg.resultOnResult = false)
    (hpmo : w.cfg.overviewPanics = false) (hNM : nmReadOnly w) :
    (processCmd w p d).2.filterMap kindOf = (expected w p d).map fun r => (p, r) :=
  Spine.Disp.c01_exact w p d hcfg (fun h => by rw [hpmo] at h; cases h) hNM

/-- Exactness, every member of the family (also the code as written), outside the one excluded point: a `result`
    addressed to a local feature that does not exist. -/
theorem c01_exact_partial (w : W) (p : Nat) (d : Dg) (hwf : NoCrash w d) (hNM : nmReadOnly w)
    (hx : w.cfg.resultOnResult = true → ¬ resultToUnknown w d) :
    (processCmd w p d).2.filterMap kindOf = (expected w p d).map fun r => (p, r) :=
  Spine.Disp.c01_exact_partial w p d hwf hNM hx

/-- REFUTED for the code as written (`cfg = {}`): "never any result in answer to a result" — a result addressed to
    an unknown local feature is answered with an error result (`device_local.go`, `ProcessCmd` sends the error
    before it looks at the classifier). Kernel-checked witness `refW`, `refD`. -/
theorem c01_exact_refuted :
    ∃ (w : W) (p : Nat) (d : Dg), w.cfg = {} ∧ wf d = true ∧ nmReadOnly w ∧
      (processCmd w p d).2.filterMap kindOf ≠ (expected w p d).map fun r => (p, r) :=
  Spine.Disp.c01_exact_refuted

/-- the witness, spelled out: the code as written answers, the repaired member does not -/
example : (processCmd refW 1 refD).2 = [(1, Out.result (some 7) 4 ([9], 9) ([0], 0) (some 0))] ∧ expected refW 1 refD = [] ∧
    (processCmd { refW with cfg := Cfg.clean } 1 refD).2 = [] := by decide

/-- Addressing, every member: every reply and result is written to the sender's connection (no response to any
    other peer), references the request's message counter, is addressed to the request's source feature and names
    the addressed local feature as its source. -/
theorem c01_addressing (w : W) (p : Nat) (d : Dg) (o : Nat × Out) (ho : o ∈ (processCmd w p d).2) :
    addressed p d o :=
  Spine.Disp.c01_addressing w p d o ho

/-- Binding / subscription calls at node management, every member: exactly one error when refused, exactly the
    requested acknowledgement when accepted, on the caller's connection. -/
theorem c01_call (w : W) (p : Nat) (ctr : Nat) (ack : Bool) (k : Call) (hc : connected w p = true) :
    (processCall w p ctr ack k).2.filterMap kindOf =
      if callOk w p k then (if ack then [(p, Resp.success)] else []) else [(p, Resp.error)] :=
  Spine.Disp.c01_call w p ctr ack k hc

/-- Histories: after any sequence of datagrams, registry calls, entity notifications, disconnects and connects by any
    peers, the next datagram is answered exactly as prescribed in the world of that moment. -/
theorem c01_history (w0 : W) (ops : List Op) (p : Nat) (d : Dg) (hwf : NoCrash w0 d) (hNM : nmReadOnly w0)
    (hx : w0.cfg.resultOnResult = true → ¬ resultToUnknown (run w0 ops) d) :
    (processCmd (run w0 ops) p d).2.filterMap kindOf = (expected (run w0 ops) p d).map fun r => (p, r) :=
  Spine.Disp.c01_history w0 ops p d hwf hNM hx

/-! Non-vacuity: a world with node management, a server, a client feature and two connected peers; one datagram
    per classifier with a non-trivial prescribed answer. -/
def exNM : LF := { ent := [0], feat := 0, typ := 9, role := .special, fds := [901, 902, 903], ops := [(901, false)], nm := true }
def exSrv : LF := { ent := [1], feat := 1, typ := 1, role := .server, fds := [5, 6], ops := [(5, true), (6, false)] }
def exCli : LF := { ent := [1], feat := 3, typ := 1, role := .client, fds := [5, 6], ops := [] }
def exPeer : Peer := ⟨[⟨[0], 0, [901, 902], 9, .special⟩, ⟨[1], 1, [5, 6], 1, .client⟩], 3, []⟩
def exW : W :=
  { loc := [exNM, exSrv, exCli], peers := fun _ => exPeer, binds := [(([1], 1), 1, ([1], 1))],
    subs := [(([1], 1), 2, ([1], 1))], data := setData (fun _ _ => 0) ([1], 1) 5 33 }
def exDg (cls : Cls) (dst : Addr) (ack : Bool) (fn : Nat) (ref : Option Nat := none) : Dg :=
  { src := ([1], 1), dst := dst, ctr := some 40, ref := ref, cls := cls, ack := ack, fn := fn, val := 77 }

example : nmReadOnly exW := by
  intro lf hlf hnm o ho
  simp only [exW, List.mem_cons, List.not_mem_nil, or_false] at hlf
  rcases hlf with rfl | rfl | rfl
  · simp only [exNM, List.mem_singleton] at ho; subst ho; rfl
  · cases hnm
  · cases hnm

example :
    expected exW 1 (exDg .read ([1], 1) false 5) = [.reply 5 33] ∧                   -- read of a server feature
    expected exW 1 (exDg .read ([1], 3) false 5) = [.error] ∧                     -- read of a client feature
    expected exW 1 (exDg .read ([0], 0) false 901) = [.reply 901 0] ∧               -- read of the special feature
    expected exW 1 (exDg .notify ([1], 3) true 5) = [.success] ∧                  -- accepted notify, ack requested
    expected exW 1 (exDg .notify ([1], 3) false 5) = [] ∧                         -- accepted notify, no ack
    expected exW 1 (exDg .reply ([1], 3) true 77 (some 2)) = [.error] ∧           -- rejected reply
    expected exW 1 (exDg .call ([1], 1) true 5) = [.error] ∧                      -- rejected call
    expected exW 1 (exDg .write ([1], 1) true 5) = [.success] ∧                   -- authorised write
    expected exW 2 (exDg .write ([1], 1) true 5) = [.error] ∧                     -- same addresses, other connection
    expected exW 1 (exDg .write ([1], 1) true 6) = [.error] ∧                     -- read-only function
    expected exW 1 (exDg .read ([7], 7) false 5) = [.error] ∧                     -- unknown destination
    expected exW 1 (exDg .result ([1], 3) true 900 (some 2)) = [] := by decide    -- a result is never answered

/-- the model produces them, on the sender's connection, the notification of the accepted write going to the
    subscriber on connection 2 -/
example :
    (processCmd exW 1 (exDg .write ([1], 1) true 5)).2 =
      [(2, .notify 5 ([1], 1) ([1], 1) 77), (1, .result (some 40) 0 ([1], 1) ([1], 1) (some 0))] ∧
    (processCmd exW 1 (exDg .read ([1], 1) false 5)).2 = [(1, .reply (some 40) 5 ([1], 1) ([1], 1) 33 (some 0))] := by decide

/-! ### the reply carries the function's current data -/

/-- Current data, per step, every member: a read of a function that a server / special (non node-management) feature
    holds is answered with exactly one reply, and it carries the value the world holds for (feature, function) at
    that moment. -/
theorem c01_reply_current_data (w : W) (p : Nat) (d : Dg) (lf : LF) (rf : RF) (hsrc : srcF w p d = some rf)
    (hdst : dstF w d = some lf) (hr : d.cls = .read) (hnm : lf.nm = false) (hrole : lf.role ≠ .client)
    (hf : lf.fds.contains d.fn = true) (hnc : NoCrash w d) :
    (processCmd w p d).2 = [(p, .reply d.ctr d.fn d.dst d.src (w.data d.dst d.fn) (some 0))] :=
  Spine.Disp.c01_reply_current_data w p d lf rf hsrc hdst hr hnm hrole hf hnc

/-- Frame: one operation changes the data exactly as `dataSet` says — an accepted write (gate passed, engine accepts,
    no crash) or a local set changes exactly the addressed value; every other operation (denied writes, reads, replies,
    notifies, calls, registry changes, entity notifications, disconnects, connects) changes no data. -/
theorem c01_data_frame (w : W) (op : Op) : (step w op).1.data = applySet w.data (dataSet w op) :=
  Spine.Disp.data_step w op

/-- Current data over histories: after any history, the reply carries the value of the LAST operation of the history
    that set (feature, function) — an accepted remote write or a `SetData` / `UpdateData` of the local application —
    and the initial value if there was none. -/
theorem c01_reply_last_set (w0 : W) (ops : List Op) (p : Nat) (d : Dg) (lf : LF) (rf : RF)
    (hsrc : srcF (run w0 ops) p d = some rf) (hdst : dstF (run w0 ops) d = some lf) (hr : d.cls = .read)
    (hnm : lf.nm = false) (hrole : lf.role ≠ .client) (hf : lf.fds.contains d.fn = true) (hnc : NoCrash w0 d) :
    (processCmd (run w0 ops) p d).2 =
      [(p, .reply d.ctr d.fn d.dst d.src (lastSet d.dst d.fn (w0.data d.dst d.fn) (dtrace w0 ops)) (some 0))] :=
  Spine.Disp.c01_reply_last_set w0 ops p d lf rf hsrc hdst hr hnm hrole hf hnc

/-- non-vacuity: local set, authorised write by peer 1, denied write by peer 2, then peer 2 reads: the reply carries
    peer 1's value, not the denied one and not the locally set one -/
example :
    let ops : List Op := [.setData ([1], 1) 5 11, .dg 1 { exDg .write ([1], 1) true 5 with val := 22 },
      .dg 2 { exDg .write ([1], 1) true 5 with val := 99 }]
    (processCmd (run exW ops) 2 (exDg .read ([1], 1) false 5)).2 = [(2, .reply (some 40) 5 ([1], 1) ([1], 1) 22 (some 0))] ∧
    dtrace exW ops = [some (([1], 1), 5, 11), some (([1], 1), 5, 22), none] := by decide

/-! ### node management reports the CURRENT local device -/

/-- Current data of the special feature, per step, every member, every world: a read of detailed discovery data (901),
    use-case data (902) or the destination list (903) at node management is answered with exactly one reply, and it
    carries the value node management's data has at that moment. -/
theorem c01_nm_reply_current (w : W) (p : Nat) (d : Dg) (lf : LF) (rf : RF) (hsrc : srcF w p d = some rf)
    (hdst : dstF w d = some lf) (hr : d.cls = .read) (hnm : lf.nm = true)
    (hfn : d.fn = 901 ∨ d.fn = 902 ∨ d.fn = 903) (hnc : NoCrash w d) :
    (processCmd w p d).2 = [(p, .reply d.ctr d.fn d.dst d.src (w.nmData d.fn) (some 0))] :=
  Spine.Disp.c01_nm_reply_current w p d lf rf hsrc hdst hr hnm hfn hnc

/-- Frame: one operation — remote, registry or local — changes node management's data exactly as `nmSets` says: a
    local tree operation sets 901, a use-case operation 902 (a removal while no use-case data exists: nothing), the
    removal of an entity both; every datagram, call, notification, disconnect, connect and data set changes nothing. -/
theorem c01_nm_frame (w : W) (op : TOp) : (tstep w op).1.nmData = applyNm w.nmData (nmSets w op) :=
  Spine.Disp.nmData_tstep w op

/-- Current data over histories with local changes: after ANY history that interleaves datagrams, registry calls,
    discovery notifications, disconnects, connects with local tree / use-case / entity operations of the application,
    the reply to a read of node management's data — by any connected peer, the one that read before or another one —
    carries the value of the LAST local operation that changed it (the initial value if none did): no stale copy. -/
theorem c01_nm_reply_last_change (w0 : W) (ops : List TOp) (p : Nat) (d : Dg) (lf : LF) (rf : RF)
    (hsrc : srcF (trun w0 ops) p d = some rf) (hdst : dstF (trun w0 ops) d = some lf) (hr : d.cls = .read)
    (hnm : lf.nm = true) (hfn : d.fn = 901 ∨ d.fn = 902 ∨ d.fn = 903) (hnc : NoCrash w0 d) :
    (processCmd (trun w0 ops) p d).2 =
      [(p, .reply d.ctr d.fn d.dst d.src (lastNm d.fn (w0.nmData d.fn) (nmTrace w0 ops)) (some 0))] := by
  rw [← nmData_trun]
  exact Spine.Disp.c01_nm_reply_current _ p d lf rf hsrc hdst hr hnm hfn (by intro h; rw [cfg_trun] at h; exact hnc h)

/-- Exactness over histories WITH local changes (the local feature table is no longer constant): after any such
    history the next datagram is answered exactly as the rule table prescribes in the world of that moment — also a
    datagram to a feature the application has just added, a write of a function it has just announced. -/
theorem c01_history_with_local_changes (w0 : W) (ops : List TOp) (p : Nat) (d : Dg) (hwf : NoCrash w0 d)
    (hNM : nmReadOnly w0) (hx : w0.cfg.resultOnResult = true → ¬ resultToUnknown (trun w0 ops) d) :
    (processCmd (trun w0 ops) p d).2.filterMap kindOf = (expected (trun w0 ops) p d).map fun r => (p, r) := by
  apply Spine.Disp.c01_exact_partial _ p d (by intro h; rw [cfg_trun] at h; exact hwf h) (nmReadOnly_trun ops w0 hNM)
  rw [cfg_trun]; exact hx

/-- non-vacuity: peer 1 reads the discovery data (value 0, the initial tree), the application announces function 7
    writable on the existing feature [1]/1 (value 61) and adds a feature [1]/4 (value 62), a use case (value 63); peer 2
    reads 901 and gets 62, 902 and gets 63; the write of function 7 by the bound peer, refused before, is accepted now;
    a read addressed to the new feature is answered; subscribers of node management are notified of the use case -/
def exNewF : LF := { ent := [1], feat := 4, typ := 2, role := .server, fds := [8], ops := [] }
def exTreeW : W := { exW with subs := [(nmAddr, 2, ([0], 0))] }
def exTreeOps : List TOp :=
  [.op (.dg 1 (exDg .read ([0], 0) false 901)), .addFn ([1], 1) 7 true 61, .addFeat exNewF 62, .addUc 63,
   .op (.setData ([1], 1) 5 11)]
example :
    (processCmd (trun exTreeW exTreeOps) 2 (exDg .read ([0], 0) false 901)).2 = [(2, .reply (some 40) 901 ([0], 0) ([1], 1) 62 (some 0))] ∧
    (processCmd (trun exTreeW exTreeOps) 2 (exDg .read ([0], 0) false 902)).2 = [(2, .reply (some 40) 902 ([0], 0) ([1], 1) 63 (some 0))] ∧
    (processCmd exTreeW 1 (exDg .read ([0], 0) false 901)).2 = [(1, .reply (some 40) 901 ([0], 0) ([1], 1) 0 (some 0))] ∧
    nmTrace exTreeW exTreeOps = [(901, 61), (901, 62), (902, 63)] ∧
    (tstep exTreeW (.addUc 63)).2 = [(2, .notify 902 ([0], 0) ([0], 0) 0)] ∧
    (tstep exTreeW (.remUc 64)).2 = [] ∧
    expected exTreeW 1 (exDg .write ([1], 1) true 7) = [.error] ∧
    expected (trun exTreeW exTreeOps) 1 (exDg .read ([1], 4) false 8) = [.reply 8 0] ∧
    expected exTreeW 1 (exDg .read ([1], 4) false 8) = [.error] := by decide

/-! ### device part of the response source -/

/-- Source device, every member: a response names the local device (`some 0`) as the device of its source, except
    the error for an unknown destination, which echoes the device part of the destination as sent; for a
    well-addressed request (destination device = the local device address) it is the local device in every case. -/
theorem c01_source_device (w : W) (p : Nat) (d : Dg) (o : Nat × Out) (ho : o ∈ (processCmd w p d).2)
    (hd : d.dstDev = some 0) :
    match o.2 with
    | .reply _ _ _ _ _ sd => sd = some 0
    | .result _ _ _ _ sd => sd = some 0
    | _ => True := by
  have h := Spine.Disp.c01_addressing w p d o ho
  obtain ⟨q, out⟩ := o
  cases out <;> simp only [addressed] at h ⊢
  · rcases h.2.2.2.2 with h | h
    · exact h
    · rw [h, hd]
  · rcases h.2.2.2.2 with h | h
    · exact h
    · rw [h, hd]

example : (processCmd { refW with cfg := Cfg.clean } 1 { refD with cls := .read, dstDev := none }).2 =
    [(1, .result (some 7) 4 ([9], 9) ([0], 0) none)] := by decide

/-! ### the repaired header layer, and agreement with C05's header family -/

/-- Agreement with `Spine.Hdr.pre` (C05) on the shared part — datagrams with source, destination, classifier, one cmd
    and regular filters: the header family's member `pmo = !overviewPanics`, `noResOnRes = !resultOnResult` (the
    `addr` and `filter` guards are invisible here and free) yields, on the image of the datagram, exactly the outcome
    class `preOf` reads off `processCmd`, panic site included. -/
theorem c01_hdr_agrees (w : W) (p : Nat) (d : Dg) (a f : Bool) :
    Hdr.pre (hdrCfg w.cfg a f) (toRaw w p d) = preOf w p d :=
  Spine.Disp.pre_agrees w p d a f

/-- … and the outcome classes mean what they say for `processCmd`: dropped = nothing written, error result = exactly
    the unknown-destination error on the sender's connection, panic = the panic, proceed = the step reaches the gate
    and the feature. -/
theorem c01_hdr_classes (w : W) (p : Nat) (d : Dg) :
    (preOf w p d = .dropped → (processCmd w p d).2 = []) ∧
    (preOf w p d = .errorResult → (processCmd w p d).2 = [(p, resU d)]) ∧
    (∀ s, preOf w p d = .panic s → (processCmd w p d).2 = [(p, .panic)]) ∧
    (preOf w p d = .proceed → ∃ rf lf, srcF w p d = some rf ∧ dstF w d = some lf ∧ crashes w p lf rf d = false) :=
  ⟨pre_dropped w p d, pre_errorResult w p d, pre_panic w p d, pre_proceed w p d⟩

/-- non-vacuity, and what the repaired member does with the inputs outside C01's quantifier: a reply without
    reference is processed like any reply (acknowledged if requested); a result without result data is not answered;
    a read without msgCounter is answered with a reply that carries no reference; as written all three panic -/
def cleanW : W := { exW with cfg := Cfg.clean }
example :
    (processCmd cleanW 1 (exDg .reply ([1], 3) true 5)).2 = [(1, .result (some 40) 0 ([1], 3) ([1], 1) (some 0))] ∧
    (processCmd cleanW 1 (exDg .result ([1], 3) true 5 (some 2))).2 = [] ∧
    (processCmd cleanW 1 { exDg .read ([1], 1) false 5 with ctr := none }).2 = [(1, .reply none 5 ([1], 1) ([1], 1) 33 (some 0))] ∧
    (processCmd exW 1 (exDg .reply ([1], 3) true 5)).2 = [(1, .panic)] ∧
    (processCmd exW 1 (exDg .result ([1], 3) true 5 (some 2))).2 = [(1, .panic)] ∧
    (processCmd exW 1 { exDg .read ([1], 1) false 5 with ctr := none }).2 = [(1, .panic)] ∧
    preOf exW 1 (exDg .reply ([1], 3) true 5) = .panic "PrintMessageOverview(nil reference)" ∧
    preOf cleanW 1 (exDg .reply ([1], 3) true 5) = .proceed := by decide

end Spine.Props.C01
