import Spine.DiscoveryResolveThm
/-!
# C06 — "the entities and features the API reports (addresses …)": reported addresses and `Entity()` / `FeatureByAddress()`

Model: `Spine/DiscoveryResolve.lean` (`findE` = `DeviceRemote.Entity`, `resolveF` = `DeviceRemote.FeatureByAddress`,
`featOf` = `EntityRemote.FeatureOfAddress`; the device part of the addresses: `Dev`, `devStepG`).
The tree the API reports is a LIST; the statement speaks about it as a map from addresses. These theorems close the
gap for the repaired member (`Cfg.clean`) over ALL histories (replies, partial and full notifications, malformed
entries included) of messages that announce no feature address twice:

* `c06_resolve_invariant`        the list stays a finite map (no entity address twice, every feature carries its
                                  entity's address, no feature number twice in one entity);
* `c06_reported_entity_resolves`  `Entity(a) = e`  ⇔  `e` is in `Entities()` and its address is `a`;
* `c06_reported_feature_resolves` `FeatureByAddress(a, i) = f`  ⇔  `f` is a feature of an entity in `Entities()` and its
                                  address is `(a, i)`;
* `c06_unreported_resolves_to_nothing` an address that is not reported resolves to nothing (entity and feature).

Hypothesis `FeatsDistinct`: without it `FeatureByAddress` still returns A feature with the asked address (the first of
that number), `c06_duplicate_feature_witness` shows the second one is then unreachable — a message outside the
statement's domain (a feature address names one feature).
The device part of the addresses is in the model (`devStepG`) and compared with the real code on every run;
`c06_device_part_announced`: over all histories whose messages announce the device address `dv`, no address carries any
other device part, and every entity other than [0] (and each of its features) carries `dv`.

Second part, the event clause ("exactly one entity-added or entity-removed event … for each entity that actually
appeared or disappeared") for the repaired member where `Props/C06.lean` had it for partial notifications only:
`c06_full_events_head`, `c06_reply_events_head` (every tree), `c06_events_history` (after any history of well-formed
messages, the next well-formed message of any kind).
-/
namespace Spine.Props.C06
open Spine.Disc

/-- all histories: the reported tree stays a finite map -/
theorem c06_resolve_invariant (h : List AnnG) (t : Tree) (hd : ∀ x ∈ h, FeatsDistinct x.msg.feats) (ht : ResInv t) :
    ResInv (treeRunG Cfg.clean t h) :=
  resInv_history h t hd ht

/-- a peer that announces [1] with features 1 and 2, re-announces it with feature 2 only, announces [1,1], lists [0] as
    removed, sends a rejected entry and a full notification -/
def exHistR : List AnnG :=
  [⟨.reply, ⟨[⟨[0], some 0, .none, none⟩, ⟨[1], some 1, .none, some 3⟩],
      [⟨[0], 0, 9, 2, none, []⟩, ⟨[1], 1, 1, 1, none, [(1, 4)]⟩, ⟨[1], 2, 2, 1, some 1, []⟩]⟩⟩,
   ⟨.part, ⟨[⟨[1], some 1, .added, none⟩, ⟨[0], none, .removed, none⟩, ⟨[1, 1], some 2, .added, none⟩],
      [⟨[1], 2, 2, 1, none, []⟩, ⟨[1, 1], 1, 3, 0, none, []⟩]⟩⟩,
   ⟨.part, ⟨[⟨[], some 1, .added, none⟩, ⟨[2], some 1, .added, none⟩], []⟩⟩,
   ⟨.full, ⟨[⟨[0], some 0, .none, none⟩, ⟨[1, 1], some 2, .none, none⟩, ⟨[2], some 1, .none, none⟩], [⟨[2], 1, 1, 1, none, []⟩]⟩⟩]
def tR : Tree := [⟨[0], 0, none, [⟨[0], 0, 9, 2, none, []⟩]⟩]

example : (∀ x ∈ exHistR, FeatsDistinct x.msg.feats) ∧ ResInv tR ∧
    addrs (treeRunG Cfg.clean tR exHistR) = [[0], [1, 1], [2]] ∧
    addrs (treeRunG Cfg.clean tR (exHistR.take 2)) = [[0], [1], [1, 1]] := by decide

/-- `Entity()` after any history is exactly the reported list read as a map: every entity in `Entities()` resolves,
    through its own address, to that very entity, and `Entity(a)` returns nothing else -/
theorem c06_reported_entity_resolves (h : List AnnG) (t : Tree) (hd : ∀ x ∈ h, FeatsDistinct x.msg.feats) (ht : ResInv t)
    (a : List Nat) (e : E) :
    findE (treeRunG Cfg.clean t h) a = some e ↔ e ∈ treeRunG Cfg.clean t h ∧ e.addr = a :=
  findE_iff _ (resInv_history h t hd ht).1 a e

example : ∀ e ∈ treeRunG Cfg.clean tR (exHistR.take 2), findE (treeRunG Cfg.clean tR (exHistR.take 2)) e.addr = some e := by
  decide
/-- a list with one address twice (never produced: `c06_resolve_invariant`) would hide its second entity -/
example : findE [⟨[1], 1, none, []⟩, ⟨[1], 2, none, []⟩] [1] ≠ some ⟨[1], 2, none, []⟩ := by decide

/-- `FeatureByAddress()` after any history is exactly the set of reported features read as a map: every feature of
    every entity in `Entities()` resolves, through its own address, to that very feature, and nothing else is returned -/
theorem c06_reported_feature_resolves (h : List AnnG) (t : Tree) (hd : ∀ x ∈ h, FeatsDistinct x.msg.feats) (ht : ResInv t)
    (a : List Nat) (i : Nat) (f : F) :
    resolveF (treeRunG Cfg.clean t h) a i = some f ↔
      ∃ e ∈ treeRunG Cfg.clean t h, f ∈ e.feats ∧ f.ent = a ∧ f.id = i :=
  resolveF_iff _ (resInv_history h t hd ht) a i f

example : ∀ e ∈ treeRunG Cfg.clean tR (exHistR.take 2), ∀ f ∈ e.feats,
    resolveF (treeRunG Cfg.clean tR (exHistR.take 2)) f.ent f.id = some f := by decide
example : resolveF (treeRunG Cfg.clean tR (exHistR.take 2)) [1] 2 = some ⟨[1], 2, 2, 1, none, []⟩ ∧
    resolveF (treeRunG Cfg.clean tR (exHistR.take 1)) [1] 1 = some ⟨[1], 1, 1, 1, none, [(1, 4)]⟩ := by decide

/-- an address the API does not report resolves to nothing: an entity address that is not in `Entities()`, a feature
    address that no feature of a listed entity carries (after a removal, a re-announcement without the feature, …) -/
theorem c06_unreported_resolves_to_nothing (h : List AnnG) (t : Tree) (hd : ∀ x ∈ h, FeatsDistinct x.msg.feats)
    (ht : ResInv t) (a : List Nat) (i : Nat) :
    (findE (treeRunG Cfg.clean t h) a = none ↔ a ∉ addrs (treeRunG Cfg.clean t h)) ∧
    (resolveF (treeRunG Cfg.clean t h) a i = none ↔
      ¬ ∃ e ∈ treeRunG Cfg.clean t h, ∃ f ∈ e.feats, f.ent = a ∧ f.id = i) :=
  ⟨findE_none_iff _ a, resolveF_none_iff _ (resInv_history h t hd ht) a i⟩

/-- feature [1]/1 is gone after the re-announcement of [1] without it, [1] and its features are gone after the full
    notification, [2] was never announced before the rejected entry -/
example : resolveF (treeRunG Cfg.clean tR (exHistR.take 2)) [1] 1 = none ∧
    findE (treeRunG Cfg.clean tR exHistR) [1] = none ∧ resolveF (treeRunG Cfg.clean tR exHistR) [1] 2 = none ∧
    findE (treeRunG Cfg.clean tR (exHistR.take 3)) [2] = none ∧
    (findE (treeRunG Cfg.clean tR exHistR) [2]).isSome = true := by decide

/-- outside the hypothesis: a message that announces feature [1]/1 twice makes the second one unreachable -/
theorem c06_duplicate_feature_witness :
    let m : MsgG := ⟨[⟨[1], some 1, .added, none⟩], [⟨[1], 1, 1, 1, none, []⟩, ⟨[1], 1, 2, 0, none, []⟩]⟩
    ¬ FeatsDistinct m.feats ∧ ¬ ResInv (treeStepG Cfg.clean .part m tR).1 ∧
    resolveF (treeStepG Cfg.clean .part m tR).1 [1] 1 = some ⟨[1], 1, 1, 1, none, []⟩ := by decide

example : (treeStepG Cfg.clean .part ⟨[⟨[1], some 1, .added, none⟩], [⟨[1], 1, 1, 1, none, []⟩, ⟨[1], 1, 2, 0, none, []⟩]⟩ tR).1
    = tR ++ [⟨[1], 1, none, [⟨[1], 1, 1, 1, none, []⟩, ⟨[1], 1, 2, 0, none, []⟩]⟩] := by decide

/-! ## the device part of the reported addresses -/

/-- all histories of messages (any kind, any shape, malformed entries included) that announce the device address `dv`,
    from a state in which no device part is foreign: `DeviceRemote.Address()`, the device part of every entity address
    and of every feature address is absent or `dv`; every listed entity other than [0], and its features, carry `dv`
    (entity [0] exists before the first reply and carries none until a message lists it) -/
theorem c06_device_part_announced (dv : Nat) (h : List AnnG) (t : Tree) (d : Dev) (hi : DevInv dv t d) :
    DevInv dv (treeRunG Cfg.clean t h) (devRunG Cfg.clean dv h t d) :=
  devInv_history dv h t d hi

/-- the state a connection starts in: tree [0], nothing known about the device -/
theorem c06_device_part_initial (dv : Nat) : DevInv dv tR {} :=
  ⟨Or.inl rfl, fun _ => Or.inl rfl, fun _ => Or.inl rfl, fun a ha hne => by
    simp only [addrs, tR, List.map_cons, List.map_nil, List.mem_cons, List.not_mem_nil, or_false] at ha
    exact absurd ha hne⟩

/-- after the reply and the notifications of `exHistR` everything carries device 7; without the reply (notifications
    only) the device and [0] still carry nothing while [1,1], created by a notification, carries 7 -/
example : let d := devRunG Cfg.clean 7 exHistR tR {}
    d.addr = some 7 ∧ d.ent [0] = some 7 ∧ d.feat [0] = some 7 ∧ d.ent [1, 1] = some 7 ∧ d.feat [2] = some 7 := by decide
example : let d := devRunG Cfg.clean 7 (exHistR.drop 1) tR {}
    d.addr = none ∧ d.ent [0] = none ∧ d.feat [0] = none ∧ d.ent [1, 1] = some 7 ∧ d.feat [1, 1] = some 7 := by decide
/-- a reply that lists [0] without feature 0: the entry is skipped, entity [0] still takes the device part, its kept
    feature 0 gets it from `DeviceLocal.HandleEvent` -/
example : let d := devStepG Cfg.clean .reply (some 7) ⟨[⟨[0], some 0, .none, none⟩], [⟨[0], 1, 1, 1, none, []⟩]⟩ tR {}
    d.ent [0] = some 7 ∧ d.feat [0] = some 7 ∧
    (devRun (replyEntryG Cfg.clean [⟨[0], 1, 1, 1, none, []⟩]) (devReplyEntry Cfg.clean [⟨[0], 1, 1, 1, none, []⟩] (some 7))
      [⟨[0], some 0, .none, none⟩] (tR, []) {}).feat [0] = none := by decide

/-! ## the event clause for full notifications, replies and over histories -/

/-- C06, events, REPAIRED TREE, full notification: exactly one entity-added event for every announced address that was
    unknown, exactly one entity-removed event for every known address no longer announced, no other; none for [0] -/
theorem c06_full_events_head (m : MsgG) (t : Tree) (hw : m.WFfull) (hn : NoEmpty t) :
    (∀ a, a ≠ [0] →
      (notifyFullG Cfg.clean m t).2.1.count (.add a) = (if a ∈ m.ents.map (·.addr) ∧ a ∉ addrs t then 1 else 0) ∧
      (notifyFullG Cfg.clean m t).2.1.count (.rem a) = (if a ∈ addrs t ∧ a ∉ m.ents.map (·.addr) then 1 else 0)) ∧
    (DevInfoOK t → (notifyFullG Cfg.clean m t).2.1.count (.add [0]) = 0 ∧
      (notifyFullG Cfg.clean m t).2.1.count (.rem [0]) = 0) :=
  guard_full_events m t hw hn

def tE : Tree := [⟨[0], 0, none, [⟨[0], 0, 9, 2, none, []⟩]⟩, ⟨[1], 1, none, []⟩]
/-- a full notification that omits [0] and [1] and announces [2] twice: one add for [2], one remove for [1], [0] stays -/
example : (notifyFullG Cfg.clean ⟨[⟨[2], some 1, .none, none⟩, ⟨[2], some 1, .none, none⟩], []⟩ tE).2.1 = [.add [2], .rem [1]] ∧
    NoEmpty tE ∧ DevInfoOK tE := by decide

/-- C06, events, REPAIRED TREE, reply: exactly one entity-added event for every listed address that was unknown, no
    entity-removed event; none for [0] -/
theorem c06_reply_events_head (m : MsgG) (t : Tree) (hw : m.WFreply) :
    (∀ a, a ≠ [0] →
      (replyG Cfg.clean m t).2.count (.add a) = (if a ∈ m.ents.map (·.addr) ∧ a ∉ addrs t then 1 else 0) ∧
      (replyG Cfg.clean m t).2.count (.rem a) = 0) ∧
    (DevInfoOK t → (replyG Cfg.clean m t).2.count (.add [0]) = 0 ∧ (replyG Cfg.clean m t).2.count (.rem [0]) = 0) :=
  guard_reply_events m t hw

example : (replyG Cfg.clean ⟨[⟨[0], some 0, .none, none⟩, ⟨[1], some 1, .none, none⟩, ⟨[2], some 1, .none, none⟩,
    ⟨[2], some 1, .none, some 1⟩], [⟨[0], 0, 9, 2, none, []⟩]⟩ tE).2 = [.add [2]] := by decide

/-- C06, the event clause OVER HISTORIES, repaired tree: after any history of well-formed replies, partial and full
    notifications, the next well-formed message of any kind publishes, for every address but [0], exactly the
    specified entity events (`evSpec`: reply — one added per listed unknown address; partial — one added / removed each
    time an entry makes the address known / unknown; full — one added per announced unknown, one removed per known
    address no longer announced) and none for [0] -/
theorem c06_events_history (h : List AnnG) (t : Tree) (hn : NoEmpty t) (hd : DevInfoOK t) (hw : ∀ x ∈ h, x.WF)
    (x : AnnG) (hx : x.WF) :
    (∀ a, a ≠ [0] →
      (treeStepG Cfg.clean x.kind x.msg (treeRunG Cfg.clean t h)).2.count (.add a)
        = (evSpec a (decide (a ∈ addrs (treeRunG Cfg.clean t h))) x).1 ∧
      (treeStepG Cfg.clean x.kind x.msg (treeRunG Cfg.clean t h)).2.count (.rem a)
        = (evSpec a (decide (a ∈ addrs (treeRunG Cfg.clean t h))) x).2) ∧
    (treeStepG Cfg.clean x.kind x.msg (treeRunG Cfg.clean t h)).2.count (.add [0]) = 0 ∧
    (treeStepG Cfg.clean x.kind x.msg (treeRunG Cfg.clean t h)).2.count (.rem [0]) = 0 :=
  guard_events_history h t hn hd hw x hx

/-- after the reply of `exHistR` ([1] known), a partial notification that removes [1], adds it again and adds [1,1]:
    [1] one removed and one added event, [1,1] one added event -/
def xE : AnnG := ⟨.part, ⟨[⟨[1], none, .removed, none⟩, ⟨[1], some 1, .added, none⟩, ⟨[1, 1], some 2, .added, none⟩], []⟩⟩
example : (treeStepG Cfg.clean xE.kind xE.msg (treeRunG Cfg.clean tR (exHistR.take 1))).2 = [.rem [1], .add [1], .add [1, 1]] ∧
    evSpec [1] (decide ([1] ∈ addrs (treeRunG Cfg.clean tR (exHistR.take 1)))) xE = (1, 1) ∧
    evSpec [1, 1] (decide ([1, 1] ∈ addrs (treeRunG Cfg.clean tR (exHistR.take 1)))) xE = (1, 0) ∧
    NoEmpty tR ∧ DevInfoOK tR := by decide

end Spine.Props.C06
