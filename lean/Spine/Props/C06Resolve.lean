import Spine.DiscoveryResolve
/-!
# C06 — "the entities and features the API reports (addresses …)": reported addresses and `Entity()` / `FeatureByAddress()`

Model: `Spine/DiscoveryResolve.lean` (`findE` = `DeviceRemote.Entity`, `resolveF` = `DeviceRemote.FeatureByAddress`,
`featOf` = `EntityRemote.FeatureOfAddress`; the device part of the addresses: `Dev`, `devStepG`).
The tree the API reports is a LIST; the statement speaks about it as a map from addresses. These theorems close the
gap for the repaired member (`Cfg.clean`) over ALL histories (replies, partial and full notifications, malformed
entries included) of messages that announce no feature address twice:

* `c06_resolve_invariant`        the list stays a finite map (no entity address twice, every feature carries its
                                  entity's address, no feature number twice in one entity);
* `c06_reported_entity_resolves`  `Entity(a) = e`  ⇔  `e` is in `Entities()` and its address is `a`;
* `c06_reported_feature_resolves` `FeatureByAddress(a, i) = f`  ⇔  `f` is a feature of an entity in `Entities()` and its
                                  address is `(a, i)`;
* `c06_unreported_resolves_to_nothing` an address that is not reported resolves to nothing (entity and feature).

Hypothesis `FeatsDistinct`: without it `FeatureByAddress` still returns A feature with the asked address (the first of
that number), `c06_duplicate_feature_witness` shows the second one is then unreachable — a message outside the
statement's domain (a feature address names one feature).
The device part of the addresses is in the model (`devStepG`) and compared with the real code on every run; see
`c06_device_part_*` below for what is proved about it.
-/
namespace Spine.Props.C06
open Spine.Disc

/-- all histories: the reported tree stays a finite map -/
theorem c06_resolve_invariant (h : List AnnG) (t : Tree) (hd : ∀ x ∈ h, FeatsDistinct x.msg.feats) (ht : ResInv t) :
    ResInv (treeRunG Cfg.clean t h) :=
  resInv_history h t hd ht

/-- a peer that announces [1] with features 1 and 2, re-announces it with feature 2 only, announces [1,1], lists [0] as
    removed, sends a rejected entry and a full notification -/
def exHistR : List AnnG :=
  [⟨.reply, ⟨[⟨[0], some 0, .none, none⟩, ⟨[1], some 1, .none, some 3⟩],
      [⟨[0], 0, 9, 2, none, []⟩, ⟨[1], 1, 1, 1, none, [(1, 4)]⟩, ⟨[1], 2, 2, 1, some 1, []⟩]⟩⟩,
   ⟨.part, ⟨[⟨[1], some 1, .added, none⟩, ⟨[0], none, .removed, none⟩, ⟨[1, 1], some 2, .added, none⟩],
      [⟨[1], 2, 2, 1, none, []⟩, ⟨[1, 1], 1, 3, 0, none, []⟩]⟩⟩,
   ⟨.part, ⟨[⟨[], some 1, .added, none⟩, ⟨[2], some 1, .added, none⟩], []⟩⟩,
   ⟨.full, ⟨[⟨[0], some 0, .none, none⟩, ⟨[1, 1], some 2, .none, none⟩, ⟨[2], some 1, .none, none⟩], [⟨[2], 1, 1, 1, none, []⟩]⟩⟩]
def tR : Tree := [⟨[0], 0, none, [⟨[0], 0, 9, 2, none, []⟩]⟩]

example : (∀ x ∈ exHistR, FeatsDistinct x.msg.feats) ∧ ResInv tR ∧
    addrs (treeRunG Cfg.clean tR exHistR) = [[0], [1, 1], [2]] ∧
    addrs (treeRunG Cfg.clean tR (exHistR.take 2)) = [[0], [1], [1, 1]] := by decide

/-- `Entity()` after any history is exactly the reported list read as a map: every entity in `Entities()` resolves,
    through its own address, to that very entity, and `Entity(a)` returns nothing else -/
theorem c06_reported_entity_resolves (h : List AnnG) (t : Tree) (hd : ∀ x ∈ h, FeatsDistinct x.msg.feats) (ht : ResInv t)
    (a : List Nat) (e : E) :
    findE (treeRunG Cfg.clean t h) a = some e ↔ e ∈ treeRunG Cfg.clean t h ∧ e.addr = a :=
  findE_iff _ (resInv_history h t hd ht).1 a e

example : ∀ e ∈ treeRunG Cfg.clean tR (exHistR.take 2), findE (treeRunG Cfg.clean tR (exHistR.take 2)) e.addr = some e := by
  decide
/-- a list with one address twice (never produced: `c06_resolve_invariant`) would hide its second entity -/
example : findE [⟨[1], 1, none, []⟩, ⟨[1], 2, none, []⟩] [1] ≠ some ⟨[1], 2, none, []⟩ := by decide

/-- `FeatureByAddress()` after any history is exactly the set of reported features read as a map: every feature of
    every entity in `Entities()` resolves, through its own address, to that very feature, and nothing else is returned -/
theorem c06_reported_feature_resolves (h : List AnnG) (t : Tree) (hd : ∀ x ∈ h, FeatsDistinct x.msg.feats) (ht : ResInv t)
    (a : List Nat) (i : Nat) (f : F) :
    resolveF (treeRunG Cfg.clean t h) a i = some f ↔
      ∃ e ∈ treeRunG Cfg.clean t h, f ∈ e.feats ∧ f.ent = a ∧ f.id = i :=
  resolveF_iff _ (resInv_history h t hd ht) a i f

example : ∀ e ∈ treeRunG Cfg.clean tR (exHistR.take 2), ∀ f ∈ e.feats,
    resolveF (treeRunG Cfg.clean tR (exHistR.take 2)) f.ent f.id = some f := by decide
example : resolveF (treeRunG Cfg.clean tR (exHistR.take 2)) [1] 2 = some ⟨[1], 2, 2, 1, none, []⟩ ∧
    resolveF (treeRunG Cfg.clean tR (exHistR.take 1)) [1] 1 = some ⟨[1], 1, 1, 1, none, [(1, 4)]⟩ := by decide

/-- an address the API does not report resolves to nothing: an entity address that is not in `Entities()`, a feature
    address that no feature of a listed entity carries (after a removal, a re-announcement without the feature, …) -/
theorem c06_unreported_resolves_to_nothing (h : List AnnG) (t : Tree) (hd : ∀ x ∈ h, FeatsDistinct x.msg.feats)
    (ht : ResInv t) (a : List Nat) (i : Nat) :
    (findE (treeRunG Cfg.clean t h) a = none ↔ a ∉ addrs (treeRunG Cfg.clean t h)) ∧
    (resolveF (treeRunG Cfg.clean t h) a i = none ↔
      ¬ ∃ e ∈ treeRunG Cfg.clean t h, ∃ f ∈ e.feats, f.ent = a ∧ f.id = i) :=
  ⟨findE_none_iff _ a, resolveF_none_iff _ (resInv_history h t hd ht) a i⟩

/-- feature [1]/1 is gone after the re-announcement of [1] without it, [1] and its features are gone after the full
    notification, [2] was never announced before the rejected entry -/
example : resolveF (treeRunG Cfg.clean tR (exHistR.take 2)) [1] 1 = none ∧
    findE (treeRunG Cfg.clean tR exHistR) [1] = none ∧ resolveF (treeRunG Cfg.clean tR exHistR) [1] 2 = none ∧
    findE (treeRunG Cfg.clean tR (exHistR.take 3)) [2] = none ∧
    (findE (treeRunG Cfg.clean tR exHistR) [2]).isSome = true := by decide

/-- outside the hypothesis: a message that announces feature [1]/1 twice makes the second one unreachable -/
theorem c06_duplicate_feature_witness :
    let m : MsgG := ⟨[⟨[1], some 1, .added, none⟩], [⟨[1], 1, 1, 1, none, []⟩, ⟨[1], 1, 2, 0, none, []⟩]⟩
    ¬ FeatsDistinct m.feats ∧ ¬ ResInv (treeStepG Cfg.clean .part m tR).1 ∧
    resolveF (treeStepG Cfg.clean .part m tR).1 [1] 1 = some ⟨[1], 1, 1, 1, none, []⟩ := by decide

example : (treeStepG Cfg.clean .part ⟨[⟨[1], some 1, .added, none⟩], [⟨[1], 1, 1, 1, none, []⟩, ⟨[1], 1, 2, 0, none, []⟩]⟩ tR).1
    = tR ++ [⟨[1], 1, none, [⟨[1], 1, 1, 1, none, []⟩, ⟨[1], 1, 2, 0, none, []⟩]⟩] := by decide

end Spine.Props.C06
