import Spine.DiscoveryCascadeReg
/-!
# C06 — cascade clause, connection with the registry model of C08–C10

Kept apart from `Spine/Props/C06.lean` because it imports `Spine/Registry.lean` (owned by the C08–C10 checks): if that
model is re-shaped only this small module needs adapting. It uses `Reg.Entry`, `Reg.St.subs/.binds/.rem`,
`Reg.Cfg.dropBindsAnyPeer`, `Reg.dropPeer` and nothing else.
-/
namespace Spine.Props.C06
open Spine Spine.Disc

/-- The entity-removal cascade of the C06 model and the peer drop of the registry model (C10) are the same function:
    for every registry state, every member and every peer, dropping the peer leaves exactly the subscriptions and
    bindings that the C06 cascade leaves when each entity the peer announced is removed (same defect flag:
    `Reg.Cfg.dropBindsAnyPeer` = `Disc.Cfg.bindEntityOnly`). So `c06_cascade` and `c10_drop_exact` speak about one
    model of `RemoveSubscriptionsForEntity` / `RemoveBindingsForEntity`. -/
theorem c06_cascade_agrees_with_registry_model (c : Reg.Cfg) (s : Reg.St) (p : Nat) :
    (Reg.dropPeer c s p).subs.map toRE
      = (cascade (cfgOfReg c) (worldOfReg s) p (((s.rem p).map (·.ent)).map Evt.rem)).subs ∧
    (Reg.dropPeer c s p).binds.map toRE
      = (cascade (cfgOfReg c) (worldOfReg s) p (((s.rem p).map (·.ent)).map Evt.rem)).binds :=
  dropPeer_is_cascade c s p

/-- non-vacuity: peer 1 and peer 2 both bound from their entity [1]; dropping peer 1 as written removes both bindings
    in either model -/
def sEx : Reg.St :=
  { loc := [], rem := fun _ => [⟨[1], 1, 1, .client⟩], binds := [⟨1, [1], 1, 1, [1], 1⟩, ⟨2, [1], 2, 2, [1], 1⟩] }
example : (Reg.dropPeer {} sEx 1).binds = [] ∧
    (cascade (cfgOfReg {}) (worldOfReg sEx) 1 [.rem [1]]).binds = [] ∧
    (Reg.dropPeer Reg.Cfg.clean sEx 1).binds.map toRE = [⟨2, [1], 1, [1], 2⟩] := by decide

end Spine.Props.C06
