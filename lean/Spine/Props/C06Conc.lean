import Spine.DiscoveryConc
/-!
# C06 — "… removes that entity's subscriptions, bindings and cached client-side references AND NOTHING ELSE",
for all interleavings of the cascade with the requests of other peers

Property theorems about the event-sourced model `Spine.Disc.Conc` (lemmas in `Spine/DiscoveryConc.lean`). One machine
per list (subscriptions, bindings, the two bookkeeping lists of the local client features); events: the two halves
`snap a` / `write a` of the pass for removed entity `a` of peer `p`, and `add e` / `del e` — a request of somebody else,
answered with `granted` or not. ALL interleavings = all event lists; any number of passes (several removed entities,
several notifications) and of requests. `atomic` says whether a pass is ONE critical section of the list's mutex — a
fact of the source, regenerated and instantiated in `Spine/Props/C06Gen.lean`.
-/
namespace Spine.Props.C06Conc
open Spine Spine.Disc Spine.Disc.Conc

variable {α : Type} [DecidableEq α]

/-- **Cascade clause, all interleavings** (passes that are one critical section): after any event list the list is
    exactly the initial one with the effects of the GRANTED requests applied in the order they were answered, minus
    the entries the passes name — nothing else is removed, nothing a pass names is left. Hypothesis `OkAdds`: no
    request registers an entry naming an entity AFTER the pass for that entity (the entity is no longer in the tree:
    such a request is refused before it reaches the list). -/
theorem c06_cascade_concurrent_exact (keep : List Nat → α → Bool) (grant : List α → α → Bool) (c0 : List α)
    (evs : List (LEv α)) (ho : OkAdds keep [] evs) :
    (lrun true keep grant { cur := c0 } evs).cur
      = (eff (lrun true keep grant { cur := c0 } evs).answers c0).filter
          (fun e => (passes evs).all (fun k => keep k e)) :=
  lrun_atomic_exact keep grant c0 evs ho

/-- peer 2 binds (granted) between the two passes of peer 1's cascade for entities [1] and [2]; peer 1's entries of
    both entities are gone, the entry of its entity [3] and peer 2's old and new entries are there -/
example :
    (lrun true (keepBind Cfg.clean 1) grantBind { cur := [⟨1, [1], 1, [1], 1⟩, ⟨1, [2], 1, [1], 2⟩, ⟨1, [3], 1, [2], 1⟩, ⟨2, [1], 1, [1], 3⟩] }
      [.snap [1], .write [1], .add ⟨2, [1], 2, [1], 1⟩, .snap [2], .write [2]]).cur
      = [⟨1, [3], 1, [2], 1⟩, ⟨2, [1], 1, [1], 3⟩, ⟨2, [1], 2, [1], 1⟩] ∧
    OkAdds (keepBind Cfg.clean 1) [] ([.snap [1], .write [1], .add ⟨2, [1], 2, [1], 1⟩, .snap [2], .write [2]] : List (LEv RE)) := by
  refine ⟨by decide, ?_⟩
  simp [OkAdds, keepBind, Cfg.clean]

/-- nothing a pass names is left, in any interleaving -/
theorem c06_cascade_concurrent_leaves_nothing (keep : List Nat → α → Bool) (grant : List α → α → Bool) (c0 : List α)
    (evs : List (LEv α)) (ho : OkAdds keep [] evs) (e : α)
    (he : e ∈ (lrun true keep grant { cur := c0 } evs).cur) (k : List Nat) (hk : k ∈ passes evs) : keep k e = true :=
  passes_leave_nothing keep grant c0 evs ho e he k hk

/-- **Nothing of another peer is lost.** A binding request of a peer `q ≠ p` that is granted at ANY point of ANY
    interleaving with the cascade passes of peer `p` (before, between, after them; any number of removed entities) is
    registered at the end unless `q` deletes it again. -/
theorem c06_other_peers_binding_survives (p : Nat) (c0 : List RE) (pre post : List (LEv RE)) (e : RE)
    (hq : e.peer ≠ p) (hg : grantBind (lrun true (keepBind Cfg.clean p) grantBind { cur := c0 } pre).cur e = true)
    (hd : ∀ ev ∈ post, ev ≠ .del e) :
    e ∈ (lrun true (keepBind Cfg.clean p) grantBind { cur := c0 } (pre ++ .add e :: post)).cur :=
  granted_add_survives _ _ c0 pre post e hg hd (fun k _ => by simp [keepBind, Cfg.clean, hq])

/-- same for subscriptions -/
theorem c06_other_peers_subscription_survives (p : Nat) (c0 : List RE) (pre post : List (LEv RE)) (e : RE)
    (hq : e.peer ≠ p) (hg : grantSub (lrun true (keepSub p) grantSub { cur := c0 } pre).cur e = true)
    (hd : ∀ ev ∈ post, ev ≠ .del e) :
    e ∈ (lrun true (keepSub p) grantSub { cur := c0 } (pre ++ .add e :: post)).cur :=
  granted_add_survives _ _ c0 pre post e hg hd (fun k _ => by simp [keepSub, hq])

/-- same for the bookkeeping of the local client features (an address of another peer's device remembered by
    `SubscribeToRemote` / `BindToRemote` while the clean-up for peer `p`'s entity runs) -/
theorem c06_other_peers_bookkeeping_survives (p : Nat) (c0 : List CE) (pre post : List (LEv CE)) (e : CE)
    (hq : e.peer ≠ p) (hg : grantCE (lrun true (keepCE p) grantCE { cur := c0 } pre).cur e = true)
    (hd : ∀ ev ∈ post, ev ≠ .del e) :
    e ∈ (lrun true (keepCE p) grantCE { cur := c0 } (pre ++ .add e :: post)).cur :=
  granted_add_survives _ _ c0 pre post e hg hd (fun k _ => by simp [keepCE, hq])

/-- non-vacuity: the request of peer 2 inside peer 1's pass is granted BECAUSE the pass freed the server feature -/
example : grantBind (lrun true (keepBind Cfg.clean 1) grantBind { cur := [⟨1, [1], 1, [1], 1⟩] } [.snap [1]]).cur ⟨2, [1], 1, [1], 1⟩ = true ∧
    grantBind ([⟨1, [1], 1, [1], 1⟩] : List RE) ⟨2, [1], 1, [1], 1⟩ = false := by decide

/-- with passes that are one critical section every interleaving of the halves IS an interleaving of whole passes and
    requests: a sequential order of critical sections (what the harness compares the real code with: message, then the
    request that was started inside its cascade) -/
theorem c06_interleaving_is_sequential (keep : List Nat → α → Bool) (grant : List α → α → Bool) (evs : List (LEv α)) (s : L α) :
    lrun true keep grant s evs
      = lrun true keep grant s (evs.filter fun ev => match ev with | .write _ => false | _ => true) :=
  halves_collapse keep grant evs s

example : (lrun true (keepSub 1) grantSub { cur := [⟨1, [1], 1, [1], 1⟩] } [.snap [1], .add ⟨2, [1], 1, [1], 1⟩, .write [1]]).cur
    = (lrun true (keepSub 1) grantSub { cur := [⟨1, [1], 1, [1], 1⟩] } [.snap [1], .add ⟨2, [1], 1, [1], 1⟩]).cur := by decide

/-- **Refuted for a pass that is NOT one critical section** (snapshot under the lock, filter outside, write-back under
    the lock again): the binding peer 2 obtains between the halves is answered with success and overwritten by the stale
    list — removing peer 1's entity removed peer 2's brand-new binding. -/
theorem c06_split_pass_loses_entry :
    let r := lrun false (keepBind Cfg.clean 1) grantBind { cur := [⟨1, [1], 1, [1], 1⟩] }
      [.snap [1], .add ⟨2, [1], 1, [2], 1⟩, .write [1]]
    r.answers = [(true, ⟨2, [1], 1, [2], 1⟩, true)] ∧ r.cur = [] := by decide

/-- the sequential cascade of `Spine.Disc.dropEntity` (what `c06_cascade_head` is about) is the run of the four passes
    with nothing scheduled in between, for either kind of pass -/
theorem c06_sequential_cascade_is_passes (c : Cfg) (w : World) (p : Nat) (a : List Nat) (f : Bool) :
    (dropEntity c w p a).subs = (lrun f (keepSub p) grantSub { cur := w.subs } [.snap a, .write a]).cur ∧
    (dropEntity c w p a).binds = (lrun f (keepBind c p) grantBind { cur := w.binds } [.snap a, .write a]).cur ∧
    (dropEntity c w p a).csubs = (lrun f (keepCE p) grantCE { cur := w.csubs } [.snap a, .write a]).cur ∧
    (dropEntity c w p a).cbinds = (lrun f (keepCE p) grantCE { cur := w.cbinds } [.snap a, .write a]).cur :=
  dropEntity_is_passes c w p a f

example : (dropEntity Cfg.clean { trees := fun _ => [], binds := [⟨1, [1], 1, [1], 1⟩, ⟨2, [1], 1, [1], 2⟩] } 1 [1]).binds
    = [⟨2, [1], 1, [1], 2⟩] := by decide

end Spine.Props.C06Conc
