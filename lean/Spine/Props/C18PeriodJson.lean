import Spine.Props.C18Json
import Spine.JsonPeriod
import Spine.CmdJsonThm
/-!
# C18, part 6 — the generic JSON round trip COMPOSED with TimePeriodType's own (un)marshaler

Second sentence of the property as ONE theorem: "Encoding any data-model value the stack can hold and decoding
it again yields an equivalent value (absent and empty lists are not distinguished, and a relative end time of
a time period may be re-expressed against the current time)". Until this round the generic theorem
(`c18_decode_encode`) treated `TimePeriodType` as a plain struct and the period theorems (`C18Period`) stood
beside it; that the two compose was an argument. Model and lemmas: `Spine/JsonPeriod.lean`.
-/
namespace Spine.Props.C18
open Spine.Json Spine.Generated Spine.PeriodJson Spine.JsonPeriod

def keyTimePeriodType : Key := 0x54696d65506572696f6454797065                 -- "TimePeriodType"
def keyTimestampIntervalType : Key := 0x54696d657374616d70496e74657276616c54797065   -- "TimestampIntervalType"

/-- The shape `tTP` the period model works on IS the regenerated schema of `TimePeriodType` — and also of
    `TimestampIntervalType`, which has no marshaler of its own: the schema type cannot tell the two apart,
    which is why the composition is proved for every MARKING of period nodes (`Mk`) rather than by type. -/
theorem c18_period_shape_is_schema :
    (schemaTy? keyTimePeriodType).map (Spine.CmdJson.tyBeq tTP) = some true ∧
    (schemaTy? keyTimestampIntervalType).map (Spine.CmdJson.tyBeq tTP) = some true := by decide +kernel

/-- COMPOSITION over the schema: for every type of the data model, every marking of `TimePeriodType` nodes
    that fits the type, every well-typed value, every pair of clock readings and every time-string codec:
    encode (with `MarshalJSON` at the marked nodes) then decode (with `UnmarshalJSON` at the marked nodes) is
    the normal form of the value with every marked period `p` replaced by `rtV c n n' p`. -/
theorem c18_decode_encode_with_periods (c : Codec) (n n' : Int) :
    ∀ p ∈ schema, ∀ m : Mk, mkOk m p.2.2 = true → ∀ v : V, typed p.2.2 v = true →
      decodeM c n' m p.2.2 (encodeM c n m p.2.2 v) = some (mapM (rtV c n n') m (norm p.2.2 v)) :=
  fun p hp m hm v hv => decodeM_encodeM c n n' m p.2.2 v (c18_schema_wf p hp) hm hv

/-- … and what `rtV` does to a period is, class for class, `Spine.PeriodJson.roundtrip` — so the four
    theorems of `C18Period` (`c18_period_identity`, `…_start_unchanged`, `…_relative_reanchored`,
    `…_absolute_kept`) speak about every marked node of the decoded value. -/
theorem c18_period_node_roundtrip (c : Codec) (n n' : Int) (p : V) (h : typed tTP p = true) :
    tpOfV c (rtV c n n' p) = roundtrip n n' (tpOfV c p) := tpOfV_rtV c n n' p h

/-- … and a period with a start time, without an end time or with an unparsable end time comes back as the
    IDENTICAL strings: only end-only periods with a parsable end are ever re-expressed. -/
theorem c18_period_node_identity (c : Codec) (n n' : Int) (p : V) (h : typed tTP p = true)
    (hp : endOnly (tpOfV c p) = false ∨ (tpOfV c p).stop = some .junk) : rtV c n n' p = p :=
  rtV_id c n n' p h hp

/-- Hence: a value none of whose marked periods is end-only with a parsable end is decoded to exactly its
    normal form — the equivalence of the property's second sentence needs the period clause only there.
    (Stated for a value that is a period itself and for the unmarked case; the general statement is
    `c18_decode_encode_with_periods` with `c18_period_node_identity` applied node by node.) -/
theorem c18_decode_encode_no_periods (c : Codec) (n n' : Int) :
    ∀ p ∈ schema, ∀ v : V, typed p.2.2 v = true →
      decodeM c n' .none p.2.2 (encodeM c n .none p.2.2 v) = some (norm p.2.2 v) :=
  fun p hp v hv => decodeM_encodeM_none c n n' p.2.2 v (c18_schema_wf p hp) hv

/-! ### non-vacuity: a codec exists, a marked value is re-anchored, an unmarked twin of the same shape is not -/

def unary (tag : Char) (d : Int) : String :=
  String.ofList (tag :: (if d < 0 then '-' else '+') :: List.replicate d.natAbs 'x')

def clsU (s : String) : TV :=
  match s.toList with
  | 'r' :: '+' :: rest => .rel rest.length
  | 'r' :: '-' :: rest => .rel (-(rest.length : Int))
  | 'a' :: '+' :: rest => .abs rest.length
  | 'a' :: '-' :: rest => .abs (-(rest.length : Int))
  | _ => .junk

theorem clsU_unary_rel (d : Int) : clsU (unary 'r' d) = .rel d := by
  unfold clsU unary
  rw [String.toList_ofList]
  by_cases h : d < 0
  · simp only [h, if_true, List.length_replicate]
    congr 1; omega
  · simp only [h, if_false, List.length_replicate]
    congr 1; omega

theorem clsU_unary_abs (d : Int) : clsU (unary 'a' d) = .abs d := by
  unfold clsU unary
  rw [String.toList_ofList]
  by_cases h : d < 0
  · simp only [h, if_true, List.length_replicate]
    congr 1; omega
  · simp only [h, if_false, List.length_replicate]
    congr 1; omega

/-- a time-string codec satisfying the two laws exists (unary numerals) -/
def unaryCodec : Codec := ⟨clsU, unary 'r', unary 'a', clsU_unary_rel, clsU_unary_abs⟩

/-- a struct holding a `TimePeriodType` (marked) and a `TimestampIntervalType` (same shape, not marked) -/
def exPT : Ty := .struct [(1, true, .ptr tTP), (2, true, .ptr tTP), (3, true, .slice .num)]
def exPM : Mk := .struct [.ptr .custom, .none, .none]
def exPV : V := .strct [.some (.strct [.nil, .some (.str (unary 'r' 3))]),
                        .some (.strct [.nil, .some (.str (unary 'r' 3))]), .list []]

example : wf exPT = true ∧ mkOk exPM exPT = true ∧ typed exPT exPV = true := by decide

/-- the marked end-only period is re-anchored at the receiver's clock (3 s after 10 = 13), the unmarked twin
    and everything else only normalised (the empty list comes back absent) -/
example : decodeM unaryCodec 10 exPM exPT (encodeM unaryCodec 7 exPM exPT exPV) =
    some (.strct [.some (.strct [.nil, .some (.str (unary 'a' 13))]),
                  .some (.strct [.nil, .some (.str (unary 'r' 3))]), .nil]) := by
  rw [decodeM_encodeM unaryCodec 7 10 exPM exPT exPV (by decide) (by decide) (by decide)]
  have h3 : clsU (unary 'r' 3) = .rel 3 := clsU_unary_rel 3
  simp [exPM, exPT, exPV, tTP, mapM, mapMFields, norm, normFields, normList, isEmptyV, rtV, marshalV, unmarshalV,
    unaryCodec, h3, clsU_unary_rel]

end Spine.Props.C18
