import Spine.Num
import Spine.IsRnd
import Spine.Dur
import Spine.TimePeriod
import Spine.C19
import Spine.RndSound
import Spine.C19Exec
import Spine.DurTextThm
import Spine.C19Wide
/-!
# C19 — numeric and temporal conversions are exact within their declared precision

Property theorems only. Models: `Spine.Num` (binary64 as exact integer arithmetic; family indexed by
`Cfg {truncScaled, inexactPower}`: as written both on, repaired both off), `Spine.Rnd.IsRnd` (IEEE-754
round-to-nearest-even as a decidable relation), `Spine.Dur` (`period.NewOf` / `DurationApprox`),
`Spine.TP` (relative end time of a time period). Lemmas: `Spine/C19.lean`, `Spine/FloatL.lean` (the only
files using Mathlib tactics).

Status board (details at each theorem):
* clause (a) "≤ 4 decimals survive `NewScaledNumberType → GetValue`":
  REFUTED for the code as written (`c19_scaled_exact_refuted`, `c19_scaled_float_exact_refuted`);
  PROVED for the repaired member of the executable model, all `d ≤ 4`, all `|k| < 2^50`
  (`c19_scaled_exact`, `c19_scaled_float_exact`), from the lemmas over the rounding relation
  (`c19_round_recovers`, `c19_decimal_unique`, `c19_nearest_recovers`, `c19_getvalue_by_division`,
  `c19_isRnd_unique`, `c19_isRnd_congr`), the soundness of the executable rounding (`c19_rnd_sound`)
  and sign symmetry (`c19_sign_symmetry`); also kernel-checked on a grid (`c19_repaired_exact_grid`).
* clause (b) "below 10^14 within 0.0001": PROVED for the repaired member for every normal double up
  to (2^53 - 1)/10^4 (`c19_scaled_close`); for the code as written REFUTED (`c19_scaled_close_refuted`)
  and PARTIAL (`c19_scaled_close_partial`: holds whenever the decimals count is 4); REFUTED above
  2^53/10^4 for both members (`c19_bound_refuted`) — stays a known finding.
* clause (c) durations: proved below 3277 days (`c19_duration_exact`, `…_signed`), REFUTED from 3277
  days on (`c19_duration_ge_3277_days_refuted`) — stays a known finding (third-party library).
* clause (e) relative end time: proved (`c19_period_le_second`, `c19_period_at_once`,
  `c19_period_json`).
* clause (d) instants: only the glue is modelled, over the layout strings regenerated from the source
  (`Spine/Props/C19Layouts.lean`); calendar arithmetic and `time.Format/Parse` are assumption A-time;
  the harness monitors the round trip on the real code.
-/
namespace Spine.Props.C19
open Spine Spine.Num Spine.Rnd

/-! ## 1. The statement, per member of the family -/

/-- clause (a), representation: the decimal `k * 10^-d` (`d ≤ 4`, `|k| < 2^50`) converts to a pair
    `(number, scale)` with `-4 ≤ scale ≤ 0` that denotes exactly `k * 10^-d`:
    `number * 10^d = k * 10^-scale`. -/
def ScaledExact (cfg : Cfg) : Prop :=
  ∀ (k : Int) (d : Nat), d ≤ 4 → k.natAbs < 2 ^ 50 →
    (newScaled cfg (parseDec k d)).1 * 10 ^ d = k * 10 ^ (-(newScaled cfg (parseDec k d)).2).toNat ∧
    -4 ≤ (newScaled cfg (parseDec k d)).2 ∧ (newScaled cfg (parseDec k d)).2 ≤ 0

/-- clause (a), value: reading the pair back returns the very double that was converted -/
def ScaledFloatExact (cfg : Cfg) : Prop :=
  ∀ (k : Int) (d : Nat), d ≤ 4 → k.natAbs < 2 ^ 50 →
    getValue cfg (newScaled cfg (parseDec k d)).1 (newScaled cfg (parseDec k d)).2 = parseDec k d

/-- REFUTED on the code as written (known finding `trunc-loses-decimal`): 0.29 converts to
    (28, -2). Kernel-checked. -/
theorem c19_scaled_exact_refuted : ¬ ScaledExact .asWritten := by
  intro h
  have := (h 29 2 (by decide) (by decide)).1
  rw [trunc_loses_029] at this
  exact absurd this (by decide)

/-- … whichever way `GetValue` is computed -/
theorem c19_scaled_exact_refuted_trunc (i : Bool) : ¬ ScaledExact ⟨true, i⟩ := by
  intro h
  have := (h 29 2 (by decide) (by decide)).1
  have e : newScaled ⟨true, i⟩ (parseDec 29 2) = (28, -2) := trunc_loses_029
  rw [e] at this
  exact absurd this (by decide)

/-- REFUTED on the code as written (known finding `getvalue-inexact-power`), independently of the
    truncation: -19999.8 converts to the exact pair (-199998, -1) but reads back as
    -19999.800000000003, one unit in the last place off. Kernel-checked. -/
theorem c19_scaled_float_exact_refuted (t : Bool) : ¬ ScaledFloatExact ⟨t, true⟩ := by
  intro h
  have h1 := h (-199998) 1 (by decide) (by decide)
  have e : newScaled ⟨t, true⟩ (parseDec (-199998) 1) = (-199998, -1) := by
    cases t <;> decide +kernel
  rw [e] at h1
  have e2 : ∀ t : Bool, getValue ⟨t, true⟩ (-199998) (-1) ≠ parseDec (-199998) 1 := by decide +kernel
  exact e2 t h1

/-- the two witnesses on the repaired member: 0.29 ↦ (29, -2) ↦ 0.29, -19999.8 ↦ (-199998, -1) ↦ -19999.8 -/
theorem c19_repaired_witnesses :
    newScaled .repaired (parseDec 29 2) = (29, -2) ∧
    getValue .repaired 29 (-2) = parseDec 29 2 ∧
    newScaled .repaired (parseDec (-199998) 1) = (-199998, -1) ∧
    getValue .repaired (-199998) (-1) = parseDec (-199998) 1 := by decide +kernel

/-- both halves of clause (a) on the repaired member, kernel-checked for all `0 ≤ k < 160`,
    `0 ≤ d ≤ 4` (800 decimals; the harness compares 2 * 10^8 with the real code) -/
theorem c19_repaired_exact_grid : ∀ k : Fin 160, ∀ d : Fin 5,
    (newScaled .repaired (parseDec k.val d.val)).1 * 10 ^ d.val =
      (k.val : Int) * 10 ^ (-(newScaled .repaired (parseDec k.val d.val)).2).toNat ∧
    getValue .repaired (newScaled .repaired (parseDec k.val d.val)).1
      (newScaled .repaired (parseDec k.val d.val)).2 = parseDec k.val d.val := by decide +kernel

/-- sign symmetry (all doubles, every member): a value and its negation convert alike — the number
    is negated, the scale is the same, and `GetValue` of the negated number is the negated double. -/
theorem c19_sign_symmetry (cfg : Cfg) (v : Dbl) (number scale : Int) (hn : number ≠ 0) :
    newScaled cfg v.negate = (-(newScaled cfg v).1, (newScaled cfg v).2) ∧
    getValue cfg (-number) scale = (getValue cfg number scale).negate :=
  ⟨newScaled_negate cfg v, getValue_neg cfg number scale hn⟩

/-- non-vacuity: -0.29 on the code as written -/
example : newScaled .asWritten (parseDec 29 2).negate = (-28, -2) := by decide +kernel

/-! ## 2. Clause (a) for the repaired code, over the rounding relation

`IsRnd n d m e` says that `m * 2^e` is the binary64 nearest to `n / d`, ties to even — IEEE-754's
definition of a correctly rounded result. The theorems of this section hold for every
implementation whose parse, product, quotient and int→float conversion are correctly rounded; the
executable `rnd` of `Spine.Num` is tied to the relation by `c19_rnd_sound` (section 3) and, independently,
by the driver, which asserts `IsRnd` on every rounding it performs in every run of the check. -/

/-- the relation is functional: a rational has exactly one nearest double -/
theorem c19_isRnd_unique {n d m m' : Nat} {e e' : Int} (hd : 0 < d) (h : IsRnd n d m e)
    (h' : IsRnd n d m' e') : m = m' ∧ e = e' := isRnd_unique hd h h'

/-- … and it depends on the rational only, not on the fraction denoting it -/
theorem c19_isRnd_congr {n d n' d' m : Nat} {e : Int} (hd : 0 < d) (hd' : 0 < d')
    (hq : n * d' = n' * d) (h : IsRnd n d m e) : IsRnd n' d' m e := isRnd_congr hd hd' hq h

/-- non-vacuity: 0.29 = 29/100 = 290/1000 has the nearest double 0x3FD28F5C28F5C28F -/
example : IsRnd 29 100 5224175567749775 (-54) ∧ IsRnd 290 1000 5224175567749775 (-54) := by
  decide +kernel

/-- number (repaired code): for `0 < j < 2^50` and `T = 10^n`, if `m * 2^-E` is the double nearest to
    `j / T` and `m' * 2^-E'` the double nearest to that double times `T`, then `math.Round` of the
    latter is `j` — the two rounding errors stay below 1/4 + 1/8 of a unit. -/
theorem c19_round_recovers (j T m m' E E' : Nat) (hj : 0 < j) (hjb : j < 2 ^ 50) (hT : 1 ≤ T)
    (h1 : IsRnd j T m (-(E : Int))) (h2 : IsRnd (m * T) (2 ^ E) m' (-(E' : Int))) :
    roundHalfUp m' E' = j := Rnd.c19_round_recovers j T m m' E E' hj hjb hT h1 h2

/-- non-vacuity: 0.29 * 100 is the double 28.999999999999996, and rounds to 29 (truncates to 28) -/
example : IsRnd 29 100 5224175567749775 (-(54 : Nat)) ∧
    IsRnd (5224175567749775 * 100) (2 ^ 54) 8162774324609023 (-(48 : Nat)) ∧
    roundHalfUp 8162774324609023 48 = 29 ∧ 8162774324609023 / 2 ^ 48 = 28 := by decide +kernel

/-- decimals count: whatever decimal `j * 10^-n` with `n ≤ d` digits `FormatFloat` finds for the double
    nearest to `k * 10^-d` (`k < 2^50`), it denotes the same number: doubles are spaced at least four
    times closer than decimals of `d` digits there. -/
theorem c19_decimal_unique {j k S m : Nat} {e : Int} (hS : 0 < S) (hk : k < 2 ^ 50)
    (hj : IsRnd j S m e) (hk' : IsRnd k S m e) : j = k := decimal_unique hS hk hj hk'

/-- … and the search does find `k` at `d` digits: the integer nearest to `v * 10^d` is `k` -/
theorem c19_nearest_recovers (k T m E : Nat) (hk : k < 2 ^ 50) (hT : 1 ≤ T)
    (h : IsRnd k T m (-(E : Int))) : (2 * (m * T) + 2 ^ E) / (2 * 2 ^ E) = k :=
  nearest_recovers k T m E hk hT h

/-- `GetValue` by division (repaired code): the correctly rounded quotient of the exactly represented
    number `j = mj * 2^ej` by the exactly represented power `T = mt * 2^et`, computed from any fraction
    `n' / d'` equal to `j / T`, is the double nearest to `j / T` — the double that was converted. -/
theorem c19_getvalue_by_division {j T n' d' m m'' : Nat} {e e'' : Int} (hT : 0 < T) (hd' : 0 < d')
    (hq : n' * T = j * d') (hv : IsRnd j T m e) (hg : IsRnd n' d' m'' e'') : m'' = m ∧ e'' = e :=
  isRnd_unique hT (isRnd_congr hd' hT hq hg) hv

/-- non-vacuity: -19999.8: 199998 / 10 and 1999980 / 100 have the same nearest double -/
example : IsRnd 199998 10 5497503163298611 (-38) ∧ IsRnd 1999980 100 5497503163298611 (-38) := by
  decide +kernel

/-! ## 3. Clause (a) for the repaired member of the executable model -/

/-- the executable `rnd` of `Spine.Num` (what the driver runs and the harness compares bit for bit with
    Go) returns, for every positive rational, the binary64 nearest to it, ties to even -/
theorem c19_rnd_sound (n d : Nat) (hn : 0 < n) (hd : 0 < d) : IsRnd n d (rnd n d).1 (rnd n d).2 :=
  rnd_isRnd n d hn hd

/-- non-vacuity: a carry into the next binade (2^53 - 1/4 rounds to 2^53 = 2^52 * 2) -/
example : rnd (4 * 2 ^ 53 - 1) 4 = (2 ^ 52, 1) := by decide +kernel

/-- clause (a), representation, PROVED for the repaired member: every decimal `k * 10^-d`, `d ≤ 4`,
    `|k| < 2^50`, converts to a pair that denotes exactly `k * 10^-d` -/
theorem c19_scaled_exact : ScaledExact .repaired := by
  intro k d hd hk
  obtain ⟨h1, h2, h3, _⟩ := repaired_exact_all k d hd hk
  exact ⟨h1, h2, h3⟩

/-- clause (a), value, PROVED for the repaired member: reading the pair back returns the very double
    that was converted, bit for bit -/
theorem c19_scaled_float_exact : ScaledFloatExact .repaired := by
  intro k d hd hk
  exact (repaired_exact_all k d hd hk).2.2.2

/-- non-vacuity: the hypotheses admit the two witnesses of the defects and the largest numerator -/
example : (29 : Int).natAbs < 2 ^ 50 ∧ (-199998 : Int).natAbs < 2 ^ 50 ∧
    (2 ^ 50 - 1 : Int).natAbs < 2 ^ 50 ∧
    newScaled .repaired (parseDec (2 ^ 50 - 1) 4) = (2 ^ 50 - 1, -4) := by decide +kernel

/-- sentence 1 of the property carries no magnitude bound, binary64 forces one: the decimals 2^53 and
    2^53 + 1 (no fractional digit at all) are the SAME double, so no conversion of that double can return
    both; the domain of clause (a) is therefore bounded, at `d = 0` by exactly 2^53 (the largest numerator
    the theorem above admits is 2^50 - 1; between 2^50 and the first pair of decimals that collide the
    clause is neither proved nor refuted — for d = 1..4 a search on the real code from 2^51 to 2^51 + 3*10^7
    found no failing decimal). Kernel-checked. -/
theorem c19_scaled_exact_needs_bound :
    parseDec (2 ^ 53 + 1) 0 = parseDec (2 ^ 53) 0 ∧
    newScaled .repaired (parseDec (2 ^ 53 + 1) 0) = (2 ^ 53, 0) ∧
    newScaled .repaired (parseDec (2 ^ 53 - 1) 0) = (2 ^ 53 - 1, 0) := by decide +kernel

/-- non-vacuity: 2^53 + 1 is not below the bound of `ScaledExact`, 2^50 - 1 is -/
example : ¬ ((2 ^ 53 + 1 : Int).natAbs < 2 ^ 50) ∧ (2 ^ 50 - 1 : Int).natAbs < 2 ^ 50 := by decide


/-- is the decimal `k * 10^-d` converted to a pair that denotes it? (decidable form of `ScaledExact` at one point) -/
def exactAt (cfg : Cfg) (k : Int) (d : Nat) : Bool :=
  (newScaled cfg (parseDec k d)).1 * 10 ^ d == k * 10 ^ (-(newScaled cfg (parseDec k d)).2).toNat

/-- THE LEAST DECIMALS THAT DO NOT SURVIVE, per number of fractional digits (repaired member; found by a directed
    search with the error analysis, kernel-checked here, replayed on the real code on every run — known finding
    `decimal-from-least-failing-on`): the conversion first fails where `v = k * 10^-d` crosses a power of two
    inside `2^51 ≤ k < 2^53`, because there the rounding error of `v`, multiplied by `10^d`, reaches a quarter
    (half) of the spacing of doubles at `k`:
    * d = 1: `562949953421312.3` (`k = 10 * 2^49 + 3`) comes back as `…312.2` (it IS the same double as `…312.2`:
      the first colliding pair);
    * d = 2: `35184372088832.02` (`k = 100 * 2^45 + 2`) comes back as `…832.03`;
    * d = 3: `4398046511104.021` (`k = 1000 * 2^42 + 21`) comes back as `…104.022`;
    * d = 4: `274877906944.0004` (`k = 10^4 * 2^38 + 4`) comes back as `…944.0005`;
    and every decimal from the power of two up to the witness is still exact. Below the power of two
    (`k < 10^d * 2^E`, `E = 49, 45, 42, 38`) the product `v * 10^d` is within 1/4 of `k` (`10^d * ulp(v) / 2 < 1/4`
    for `d = 2, 3, 4`; for `d = 1` within 1/4 with ties resolved to the even `k` below `2^52`, within 1/2 above) —
    an error analysis, not a theorem (the proved bound stays 2^50); the harness searches that region on the real
    code on every run (the first values of every segment between powers of two of `k` and of `v`, and random
    decimals). -/
theorem c19_scaled_exact_least_failures :
    newScaled .repaired (parseDec 5629499534213123 1) = (5629499534213122, -1) ∧
    parseDec 5629499534213123 1 = parseDec 5629499534213122 1 ∧
    newScaled .repaired (parseDec 3518437208883202 2) = (3518437208883203, -2) ∧
    newScaled .repaired (parseDec 4398046511104021 3) = (4398046511104022, -3) ∧
    newScaled .repaired (parseDec 2748779069440004 4) = (2748779069440005, -4) ∧
    (∀ i : Fin 3, exactAt .repaired (10 * 2 ^ 49 + i.val) 1 = true) ∧
    (∀ i : Fin 2, exactAt .repaired (100 * 2 ^ 45 + i.val) 2 = true) ∧
    (∀ i : Fin 21, exactAt .repaired (1000 * 2 ^ 42 + i.val) 3 = true) ∧
    (∀ i : Fin 4, exactAt .repaired (10000 * 2 ^ 38 + i.val) 4 = true) := by decide +kernel

/-- non-vacuity: the witnesses are where the doc comment says, below 2^53, above the proved bound 2^50; `exactAt`
    is false at each of them and true at 0.29 -/
example : (5629499534213123 : Int) = 10 * 2 ^ 49 + 3 ∧ (3518437208883202 : Int) = 100 * 2 ^ 45 + 2 ∧
    (4398046511104021 : Int) = 1000 * 2 ^ 42 + 21 ∧ (2748779069440004 : Int) = 10000 * 2 ^ 38 + 4 ∧
    (5629499534213123 : Int) < 2 ^ 53 ∧ (2 : Int) ^ 50 < 2748779069440004 ∧
    exactAt .repaired 5629499534213123 1 = false ∧ exactAt .repaired 3518437208883202 2 = false ∧
    exactAt .repaired 4398046511104021 3 = false ∧ exactAt .repaired 2748779069440004 4 = false ∧
    exactAt .repaired 29 2 = true ∧ exactAt .asWritten 29 2 = false := by decide +kernel

/-- the arithmetic heart of that error analysis AS A THEOREM over the rounding relation, with NO bound on the
    numerator: if `m * 2^-E` is the double nearest to `j / T` and `m' * 2^-E'` the double nearest to that double times
    `T`, then `math.Round` of the latter is `j` whenever `2^E + T * 2^E' < 2^E * 2^E'` (the error of `v` times `T` plus
    the error of the product stay below one half: `T / 2^E + 1 / 2^E' < 1`). Below the power of two of the witnesses
    the exponents are `E ≥ 8, 11, 15` (d = 2, 3, 4), `E' ≥ 1`, and the condition holds; at the witnesses `E` drops by
    one and it fails. (What stays an argument: that the binade of `v` and of the product give these exponents, and
    the count of decimals; `d = 1` needs the finer analysis of ties.) -/
theorem c19_round_recovers_wide (j T m m' E E' : Nat) (hab : 2 ^ E + T * 2 ^ E' < 2 ^ E * 2 ^ E')
    (h1 : IsRnd j T m (-(E : Int))) (h2 : IsRnd (m * T) (2 ^ E) m' (-(E' : Int))) :
    roundHalfUp m' E' = j := Rnd.c19_round_recovers_wide j T m m' E E' hab h1 h2

/-- non-vacuity: the last decimal below the power of two for d = 2 (`100 * 2^45 - 1`, far above 2^50) satisfies the
    hypotheses with `E = 8`, `E' = 1`; so do the ones for d = 3 (`E = 11`) and d = 4 (`E = 15`); at the witness
    `100 * 2^45 + 2` the exponent is 7 and the condition is false -/
example : (2 : Nat) ^ 50 < 100 * 2 ^ 45 - 1 ∧
    IsRnd (100 * 2 ^ 45 - 1) 100 9007199254740989 (-(8 : Nat)) ∧
    IsRnd (9007199254740989 * 100) (2 ^ 8) 7036874417766398 (-(1 : Nat)) ∧
    2 ^ 8 + 100 * 2 ^ 1 < 2 ^ 8 * 2 ^ 1 ∧ 2 ^ 11 + 1000 * 2 ^ 1 < 2 ^ 11 * 2 ^ 1 ∧ 2 ^ 15 + 10000 * 2 ^ 1 < 2 ^ 15 * 2 ^ 1 ∧
    IsRnd (100 * 2 ^ 45 + 2) 100 4503599627370499 (-(7 : Nat)) ∧ ¬ (2 ^ 7 + 100 * 2 ^ 1 < 2 ^ 7 * 2 ^ 1) := by
  decide +kernel

/-- the witnesses and the member: the first one (a collision of two decimals in one double) is lost by every
    member; the other three are artefacts of `math.Round` on a product that lies exactly half a unit above `k`
    — truncation happens to keep them (and loses 0.29 instead); the sign is immaterial (`c19_sign_symmetry`) -/
theorem c19_scaled_exact_least_failures_members :
    exactAt .asWritten 5629499534213123 1 = false ∧ exactAt .asWritten 3518437208883202 2 = true ∧
    exactAt .asWritten 4398046511104021 3 = true ∧ exactAt .asWritten 2748779069440004 4 = true ∧
    exactAt .repaired (-3518437208883202) 2 = false := by decide +kernel

/-! ## 4. Clause (b): within 0.0001 below 2^53 / 10^4 — and not above -/

/-- clause (b): every normal double `v = ± m * 2^-E` of magnitude at most `(2^53 - 1) / 10^4` (≈ 9.007e11)
    converts to a pair with `|number * 10^scale - v| ≤ 10^-4`; the inequality is multiplied through by
    `2^E * 10^4 * 10^-scale` so that only integers occur. (Values below the normal range convert to
    `(0, 0)`: outside the model, monitored.) -/
def ScaledClose (cfg : Cfg) : Prop :=
  ∀ v : Dbl, 2 ^ 52 ≤ v.m → v.m < 2 ^ 53 →
    v.m * 10 ^ 4 + 2 ^ (-v.e).toNat ≤ 2 ^ 53 * 2 ^ (-v.e).toNat →
    ((newScaled cfg v).1 * 2 ^ (-v.e).toNat * 10 ^ 4 -
        withSign v.neg v.m * 10 ^ (-(newScaled cfg v).2).toNat * 10 ^ 4).natAbs ≤
      2 ^ (-v.e).toNat * 10 ^ (-(newScaled cfg v).2).toNat

/-- PROVED for the repaired member (whatever `GetValue` does): all doubles up to `(2^53 - 1) / 10^4` -/
theorem c19_scaled_close (i : Bool) : ScaledClose ⟨false, i⟩ := by
  intro v h1 h2 hb
  exact close_all ⟨false, i⟩ v h1 h2 hb (Or.inl rfl)

/-- REFUTED for the code as written (same witness as clause (a), known finding `trunc-loses-decimal`):
    0.29 converts to 0.28, which is 0.01 away -/
theorem c19_scaled_close_refuted (i : Bool) : ¬ ScaledClose ⟨true, i⟩ := by
  intro h
  have := h (parseDec 29 2) (by decide +kernel) (by decide +kernel) (by decide +kernel)
  have e : newScaled ⟨true, i⟩ (parseDec 29 2) = (28, -2) := trunc_loses_029
  rw [e] at this
  revert this
  decide +kernel

/-- PARTIAL for the code as written: the clause holds for every double in that range whose shortest
    decimal form has four or more fractional digits (the truncation then costs less than one unit of
    10^-4); it fails only for doubles that are nearest to a decimal with fewer digits. -/
theorem c19_scaled_close_partial (cfg : Cfg) (v : Dbl) (h1 : 2 ^ 52 ≤ v.m) (h2 : v.m < 2 ^ 53)
    (hb : v.m * 10 ^ 4 + 2 ^ (-v.e).toNat ≤ 2 ^ 53 * 2 ^ (-v.e).toNat) (h4 : decimalsCapped v = 4) :
    ((newScaled cfg v).1 * 2 ^ (-v.e).toNat * 10 ^ 4 -
        withSign v.neg v.m * 10 ^ (-(newScaled cfg v).2).toNat * 10 ^ 4).natAbs ≤
      2 ^ (-v.e).toNat * 10 ^ (-(newScaled cfg v).2).toNat :=
  close_all cfg v h1 h2 hb (Or.inr h4)

/-- non-vacuity: 1/3 (0x3FD5555555555555) is in the range, has more than four decimals, and converts to
    3333e-4 under truncation and under rounding; 2/3 converts to 6666e-4 resp. 6667e-4 -/
example : decimalsCapped ⟨false, 6004799503160661, -54⟩ = 4 ∧
    6004799503160661 * 10 ^ 4 + 2 ^ 54 ≤ 2 ^ 53 * 2 ^ 54 ∧
    newScaled .asWritten ⟨false, 6004799503160661, -54⟩ = (3333, -4) ∧
    newScaled .asWritten ⟨false, 6004799503160661, -53⟩ = (6666, -4) ∧
    newScaled .repaired ⟨false, 6004799503160661, -53⟩ = (6667, -4) := by decide +kernel

/-- REFUTED above the threshold for both members (known finding `bound-above-2^53e-4`): the double
    2199023255552.3706 = 4503599627371255 * 2^-11 (< 10^14) converts to 21990232555523708 * 10^-4, which
    is 0.00019 away: `|number - v * 10^4| * 2^11 = 3984 > 2^11`. Kernel-checked. -/
theorem c19_bound_refuted (cfg : Cfg) :
    newScaled cfg ⟨false, 4503599627371255, -11⟩ = (21990232555523708, -4) ∧
    4503599627371255 < 10 ^ 14 * 2 ^ 11 ∧
    21990232555523708 * 2 ^ 11 - 4503599627371255 * 10 ^ 4 > 1 * 2 ^ 11 := by
  refine ⟨?_, by decide, by decide⟩
  rcases cfg with ⟨t, i⟩
  cases t <;> cases i <;> decide +kernel

/-! ## 5. Clause (c): durations -/

/-- every duration that is a whole multiple of 100 ms (`n` units) and shorter than 3277 days survives
    `NewDurationType → GetTimeDuration` exactly (rendering and parsing of the period text:
    assumption A-period) -/
theorem c19_duration_exact (n : Nat) (h : n / Dur.unitsPerHour / 24 < 3277) :
    Dur.approx (Dur.newOf n) = n := Dur.c19_duration_exact n h

/-- … of either sign -/
theorem c19_duration_exact_signed (z : Int) (h : z.natAbs / Dur.unitsPerHour / 24 < 3277) :
    Dur.roundTrip z = z := Dur.c19_duration_exact_signed z h

/-- non-vacuity: 3276 days 23 h 59 min 59.9 s is inside the domain and has all fields non-zero -/
example : (3277 * 864000 - 1) / Dur.unitsPerHour / 24 < 3277 ∧
    Dur.newOf (3277 * 864000 - 1) = ⟨0, 0, 3276, 23, 59, 599⟩ := by decide

/-- REFUTED from 3277 days on (known finding `duration-ge-3277-days`): 3277 days come back as
    3276 d 17 h 53 m 42 s, ten years of 365 days as 87599 h 42 m 54 s -/
theorem c19_duration_ge_3277_days_refuted :
    ¬ (∀ n : Nat, Dur.approx (Dur.newOf n) = n) := by
  intro h
  have := h (3277 * 24 * 36000)
  rw [Dur.duration_3277_days_inexact.2] at this
  exact absurd this (by decide)

/-- the bound of clause (c) is EXACT: every multiple of 100 ms below 3277 days survives, and 3277 days is the
    least one that does not (it comes back 6 h 6 min 18 s short) -/
theorem c19_duration_threshold_exact :
    (∀ n : Nat, n < 3277 * 864000 → Dur.approx (Dur.newOf n) = n) ∧
    Dur.approx (Dur.newOf (3277 * 864000)) = 3277 * 864000 - 219780 := by
  refine ⟨fun n h => Dur.c19_duration_exact n ?_, by decide⟩
  unfold Dur.unitsPerHour; omega

/-- non-vacuity: the last duration below the bound, and the bound in hours, minutes, seconds -/
example : Dur.approx (Dur.newOf (3277 * 864000 - 1)) = 3277 * 864000 - 1 ∧
    219780 = ((6 * 60 + 6) * 60 + 18) * 10 := by decide

/-! ## 5b. Clause (c) at the level of the SPINE text

`Spine.DurText` transcribes the period library byte by byte: `render` (`period64.String`), `parse`
(`period.Parse` with its scanner, the state of the seven designators, the fraction rule, weeks,
`normalise64`, `toPeriod`) and `approxNs` (`DurationApprox`, `int64` wrap-around included); the check
compares all three with the real code on every run (texts written: byte for byte on the dense sweep;
texts read: every written text, a grid of all designator subsets, random well-formed and damaged texts). -/

/-- TEXT LEVEL REFINES FIELD LEVEL, for every duration an `int64` holds (either sign, any fraction of
    100 ms, below and above 3277 days): the text `NewDurationType` writes is accepted by
    `GetTimeDuration` and read as exactly `DurationApprox (NewOf d)` — writing, scanning, the designator
    automaton and the normalisation in between lose nothing. (This was assumption A-period.)
    The hypothesis `monthsOk` is not used by the proof: it marks the domain in which `Spine.Dur.newOf`
    transcribes the library. Outside it (a band of relative width 10^-6 just above whole numbers of years,
    all above 3277 days) the library's signed months field is -1, found by this round's text comparison:
    `c19_duration_text_negative_months`. -/
theorem c19_duration_text_refines_fields (ns : Int) (h : ns.natAbs / 100000000 < DurText.maxUnits)
    (_hm : Dur.monthsOk (ns.natAbs / 100000000) = true) :
    DurText.getTimeDuration (DurText.newDurationType ns) = some (Dur.roundTripNs ns) :=
  DurText.getTimeDuration_newDurationType ns h

/-- non-vacuity: the hypothesis admits the largest and the smallest `int64`; 3276 h are written as hours and
    read as 136 days 12 h (the parser's ripple), with the same duration -/
example : (9223372036854775807 : Int).natAbs / 100000000 < DurText.maxUnits ∧
    (-9223372036854775808 : Int).natAbs / 100000000 < DurText.maxUnits ∧
    DurText.newDurationType (3276 * 3600 * 1000000000) = [80, 84, 51, 50, 55, 54, 72] ∧
    DurText.parse [80, 84, 51, 50, 55, 54, 72] = some ⟨0, 0, 1360, 120, 0, 0, false⟩ := by decide +kernel

/-- clause (c) on the text, FULL for the stated domain: every duration that is a whole multiple of 100 ms
    and shorter than 3277 days, of either sign, is written as a text that is read back as exactly that
    duration (nanoseconds) -/
theorem c19_duration_text_exact (z : Int) (h : z.natAbs / Dur.unitsPerHour / 24 < 3277) :
    DurText.getTimeDuration (DurText.newDurationType (z * 100000000)) = some (z * 100000000) := by
  have hb : (z * 100000000).natAbs / 100000000 = z.natAbs := by omega
  rw [c19_duration_text_refines_fields _ (by rw [hb]; unfold DurText.maxUnits; unfold Dur.unitsPerHour at h; omega)
    (by rw [hb]; simp [Dur.monthsOk, h])]
  have e := Dur.c19_duration_exact z.natAbs h
  unfold Dur.roundTripNs
  rw [hb, e]
  congr 1
  split <;> omega

/-- non-vacuity: -(3276 d 23 h 59 min 59.9 s) is in the domain; its text has every field the domain can
    produce (3276 days are 468 weeks): `-P468WT23H59M59.9S`; one day less is written with days -/
example : ((-(3277 * 864000 - 1) : Int)).natAbs / Dur.unitsPerHour / 24 < 3277 ∧
    DurText.newDurationType (-(3277 * 864000 - 1) * 100000000) =
      [45, 80, 52, 54, 56, 87, 84, 50, 51, 72, 53, 57, 77, 53, 57, 46, 57, 83] ∧
    DurText.newDurationType ((3276 * 864000 - 1) * 100000000) =
      [80, 51, 50, 55, 53, 68, 84, 50, 51, 72, 53, 57, 77, 53, 57, 46, 57, 83] := by decide +kernel

/-- a duration with a fraction of 100 ms loses exactly that fraction (below 3277 days) -/
theorem c19_duration_text_truncates (ns : Int) (h0 : 0 ≤ ns) (h : ns.natAbs / 100000000 / Dur.unitsPerHour / 24 < 3277) :
    DurText.getTimeDuration (DurText.newDurationType ns) = some (ns / 100000000 * 100000000) := by
  rw [c19_duration_text_refines_fields _ (by unfold DurText.maxUnits; unfold Dur.unitsPerHour at h; omega)
    (by simp [Dur.monthsOk, h])]
  have e := Dur.c19_duration_exact (ns.natAbs / 100000000) h
  unfold Dur.roundTripNs
  rw [e, if_neg (by omega)]
  congr 1
  omega

/-- non-vacuity: 1.25 s is written as `PT1.2S` -/
example : DurText.newDurationType 1250000000 = [80, 84, 49, 46, 50, 83] ∧
    DurText.getTimeDuration [80, 84, 49, 46, 50, 83] = some 1200000000 := by decide +kernel

/-- REFUTED from 3277 days on, on the text (known finding `duration-ge-3277-days`): 3277 days are written as
    `P8Y11M20D` and read back as 3276 d 17 h 53 min 42 s; ten years of 365 days are written as `P9Y11M4W` -/
theorem c19_duration_text_ge_3277_days_refuted :
    DurText.newDurationType (3277 * 86400 * 1000000000) = [80, 56, 89, 49, 49, 77, 50, 48, 68] ∧
    DurText.getTimeDuration [80, 56, 89, 49, 49, 77, 50, 48, 68] =
      some ((((3276 * 24 + 17) * 60 + 53) * 60 + 42) * 1000000000) ∧
    DurText.newDurationType (3650 * 86400 * 1000000000) = [80, 57, 89, 49, 49, 77, 52, 87] := by
  decide +kernel

/-- OUTSIDE the model (found by the text comparison of this round, inside the known finding
    `duration-ge-3277-days`): for 8583573421155919265 ns (272 years and a few hours) the library's months
    are `⌊99346/30.4369⌋ - 12·⌊99346/365.2425⌋ = 3263 - 3264 = -1`; it writes `-P-272Y1M-30DT-21H`, which its
    own parser refuses (the model's scanner too: a sign is no designator). `monthsOk` excludes exactly
    these durations. -/
theorem c19_duration_text_negative_months :
    Dur.monthsOk (8583573421155919265 / 100000000) = false ∧
    10000 * (8583573421155919265 / 100000000 / 36000 / 24) / 304369 = 3263 ∧
    12 * (10000 * (8583573421155919265 / 100000000 / 36000 / 24) / 3652425) = 3264 ∧
    DurText.getTimeDuration [45, 80, 45, 50, 55, 50, 89, 49, 77, 45, 51, 48, 68, 84, 45, 50, 49, 72] = none := by
  decide +kernel

/-- non-vacuity of `monthsOk`: 272 years sharp and everything below 3277 days are inside -/
example : Dur.monthsOk (272 * 365 * 864000) = true ∧ Dur.monthsOk (3277 * 864000 - 1) = true ∧
    Dur.monthsOk (3277 * 864000) = true := by decide +kernel

/-- what a peer may send beyond the library's range is NOT refused: a text of more than 292 years is read
    as a meaningless duration (`int64` wrap-around in `DurationApprox`; modelled as written, compared with
    the real code; outside the statement of C19, which is about texts the stack writes) -/
theorem c19_duration_text_wraps : DurText.getTimeDuration [80, 51, 48, 48, 89] = some (-8979658473709551616) := by
  decide +kernel

/-! ## 6. Clause (e): relative end time of a time period -/

/-- a relative end time `d` set at instant `now` is read back at instant `now'` as the remaining
    duration `now + d - now'` to the second (all in integer nanoseconds; two roundings to the second) -/
theorem c19_period_le_second (now d now' : Int) :
    TP.remaining (TP.endOf now d) now' - (now + d - now') ≤ TP.second ∧
    (now + d - now') - TP.remaining (TP.endOf now d) now' ≤ TP.second :=
  TP.c19_period_le_second now d now'

/-- read back at once, a whole-second duration is returned unchanged (unless the clock sits exactly on
    a half second) -/
theorem c19_period_at_once (now d : Int) (hd : d % TP.second = 0) (hh : now % TP.second ≠ 500000000) :
    TP.remaining (TP.endOf now d) now = d := TP.c19_period_at_once now d hd hh

/-- non-vacuity: 2 h set at 1.3 s, read at 1.3 s and at 2.9 s -/
example : TP.remaining (TP.endOf 1300000000 7200000000000) 1300000000 = 7200000000000 ∧
    TP.remaining (TP.endOf 1300000000 7200000000000) 2900000000 = 7198000000000 := by decide

/-- JSON round trip (`MarshalJSON` at `tm`, `UnmarshalJSON` at `tu`, `GetDuration` at `tr`): each of the
    three conversions is off by at most half a second -/
theorem c19_period_json (endT tm tu tr : Int) :
    let D := TP.remaining endT tm
    let E' := TP.endOf tu D
    2 * (D - (endT - tm)) ≤ TP.second ∧ 2 * ((endT - tm) - D) ≤ TP.second ∧
    2 * (E' - (tu + D)) ≤ TP.second ∧ 2 * ((tu + D) - E') ≤ TP.second ∧
    2 * (TP.remaining E' tr - (E' - tr)) ≤ TP.second ∧ 2 * ((E' - tr) - TP.remaining E' tr) ≤ TP.second :=
  TP.c19_period_json endT tm tu tr

/-- decoding a JSON document into a time period is a function of the document (and the clock) only:
    the result does not depend on what the Go value held before — a second decode into the same value
    behaves like a decode into a fresh one (tied to `UnmarshalJSON` by sequences of decodes into one
    value, directly and through a surrounding struct, and by an alias check on copies of the earlier
    value) -/
theorem c19_period_decode_history_independent (p q doc : TP.Period) (now : Int) :
    TP.decode p doc now = TP.decode q doc now := TP.period_decode_history_independent p q doc now

/-- … in particular a document with only a relative end time is read back as the remaining duration
    to the second whatever was decoded before, and no decode leaves a static relative end time behind -/
theorem c19_period_decode_relative (prev : TP.Period) (d now now' : Int) :
    (TP.decode prev ⟨.none, .rel d⟩ now).start = .none ∧
    TP.getDuration (TP.decode prev ⟨.none, .rel d⟩ now) now' = some (TP.remaining (TP.endOf now d) now') ∧
    ∀ doc d', ¬ ((TP.decode prev doc now).start = .none ∧ (TP.decode prev doc now).endT = .rel d') :=
  ⟨rfl, rfl, fun doc d' => TP.decode_no_static_relative_end prev doc now d'⟩

/-- non-vacuity: 90 s decoded at 1.3 s over a value that held a start time; read at 2.9 s -/
example : TP.getDuration (TP.decode ⟨.abs 5, .abs 7⟩ ⟨.none, .rel 90000000000⟩ 1300000000) 2900000000 =
    some 88000000000 := by decide

end Spine.Props.C19
