import Spine.ApprovalExact
import Spine.ApprovalFrame
import Spine.ApprovalRefine
import Spine.ApprovalConn
import Spine.ApprovalWire
import Spine.ApprovalEquiv
import Spine.ApprovalSingle
/-!
# C12 — write approval: unanimous, timely, exactly one outcome per write

Property theorems only (lemmas: `Spine/ApprovalThm.lean`, `ApprovalExact.lean`, `ApprovalFrame.lean`,
`ApprovalSpec.lean`, `ApprovalRefine.lean`).

Model `Spine.Appr` (`Spine/Approval.lean`): the approval machinery of `FeatureLocal` for one peer (the maps of
`feature_local.go` are keyed by the peer's SKI), event-sourced — `arrive w` (addPendingApproval + invocation of
every callback), `lookup op w` / `commit op verdict` (the two critical sections of `ApproveOrDenyWrite`: the pending
lookup under `muxResponseCB`, then tally / `timer.Stop()` / delete / apply-or-reject under `muxWriteReceived`),
`timeoutTake w` / `timeoutSend w` (the two halves of the timer function). All interleavings of any number of
callbacks, pending writes, verdict goroutines and timers = all event lists. `Cfg` is the defect family:
`tallyReset` (the peer's tally map is re-created when the current write has no entry, feature_local.go:235) and
`ignoreStop` (the result of `timer.Stop()` is ignored, feature_local.go:244); `{}` = the code as written,
`Cfg.clean` = both repaired. The harness probes which member the tree under test is.

Status of the clauses of the statement
* "every write gets exactly one of these outcomes … regardless of the order in which approvals, denials and the
  timeout interleave": PROVED for the repaired member over all event lists (`c12_at_most_one_outcome`,
  `c12_exactly_one_outcome`); REFUTED for the code as written by two kernel-checked schedules
  (`c12_at_most_one_outcome_refuted_timeout`, `c12_at_most_one_outcome_refuted_verdicts`); PARTIAL for the code as
  written (`c12_partial`: single callback, or tally repaired, and no verdict between lookup and commit while the
  write's timer is no longer armed ⇒ the run *is* the repaired member's run); second deepening round:
  `c12_partial_one_write_at_a_time` — the code as written with ANY number of callbacks, when a write arrives only
  while no other write is armed (and no stale verdict): same outcomes as the repaired member (a simulation — the
  tally maps differ).
* "applied iff every callback approves before the timeout", "independently of any other pending write":
  REFUTED for the code as written (`c12_applied_iff_unanimous_refuted`: two fully approved writes both time out);
  PROVED for the repaired member over all event lists as a refinement: the model's outcomes of every write are those
  of the per-write automaton `Appr.specStep` — a count of approvals committed while the write waits, applied by the
  approval that completes the count, rejected by the first denial or by the timeout, untouched by anything later
  (`c12_refines`, `c12_applied_iff_unanimous_in_time`, `c12_error_iff_denied_or_timed_out`,
  `c12_applied_only_by_completing_approval`) — and an event about another write never changes a write's state
  (`c12_independent`). "Before the timeout" is the order of events (commit before `timeoutTake`); how that order
  arises from wall-clock time is A-time.
* "presented once to every callback": PROVED for every member over all event lists (`c12_presented_once_each`).
* across connections: see the section "across connections" below — the all-schedule theorems include the event
  `drop` on write instances (`c12_nothing_after_disconnect` is new); the counter-keyed family `Spine.ApprE` carries
  the two defects of the code there (`c12_reused_counter_refuted`, `c12_old_verdict_after_reuse_refuted`) and is
  tied to the instance-keyed model by a PROOF (second deepening round, `Spine/ApprovalEquiv.lean`): for the fully
  repaired member the two models have the same outcomes on every event list, under any injective naming of the
  instances (`c12_counter_keyed_equals_instance_keyed`), hence the all-schedule clauses hold of the model that keys
  its maps as the code does (`c12_at_most_one_outcome_counter_keyed`); the driver's side-by-side run remains.
* real time ("before the approval timeout" as wall-clock time, that `time.AfterFunc` fires after the duration and
  `Stop` reports truthfully): assumption A-time; the harness measures it, the model quantifies over when the timer
  fires.
-/
namespace Spine.Props.C12
open Spine Spine.Appr

/-- "Every write gets exactly one outcome", safety half, repaired member: under every interleaving of arrivals,
    verdict lookups, verdict commits and the two halves of the timeout — any number of callbacks, any number of
    concurrently pending writes — no write ever has two outcomes. -/
theorem c12_at_most_one_outcome (n : Nat) (evs : List Ev) (w : Nat) :
    ((run Cfg.clean n evs).outcomes.filter (·.1 = w)).length ≤ 1 :=
  Appr.c12_at_most_one_outcome n evs w

/-- "Every write gets exactly one outcome", conservation law, repaired member: under every interleaving, a write
    that has arrived has no outcome while its timer is armed or its timeout is in flight, and exactly one as soon
    as neither is the case. (That the timer eventually fires or is stopped is A-time.) -/
theorem c12_exactly_one_outcome (n : Nat) (evs : List Ev) (hnd : ∀ e ∈ evs, e ≠ .drop) (w : Nat)
    (hw : w ∈ (run Cfg.clean n evs).seen) :
    ((run Cfg.clean n evs).outcomes.map (·.1)).count w
      = if w ∈ (run Cfg.clean n evs).armed ∨ w ∈ (run Cfg.clean n evs).fired then 0 else 1 :=
  Appr.c12_exactly_one_outcome n evs hnd w hw

/-- non-vacuity: three writes, two callbacks, verdicts and timeouts interleaved; one applied, one denied, one timed
    out, a late verdict ignored -/
example :
    let s := run Cfg.clean 2 [.arrive 1, .arrive 2, .arrive 3, .lookup 10 1, .lookup 11 2, .commit 10 true,
      .commit 11 false, .lookup 12 1, .timeoutTake 3, .commit 12 true, .timeoutSend 3, .lookup 13 3, .commit 13 true]
    s.outcomes = [(2, .error), (1, .applied), (3, .error)] ∧ s.seen = [3, 2, 1] ∧ s.armed = [] ∧ s.fired = [] := by
  decide

/-- REFUTED for the code as written (finding `verdict-races-timeout-double-outcome`): the timeout fires between a
    verdict's pending lookup and its commit; `timer.Stop()`'s result is ignored, so the write gets the timeout's
    error result *and* is applied. -/
theorem c12_at_most_one_outcome_refuted_timeout :
    ∃ (n : Nat) (evs : List Ev) (w : Nat), ¬ ((run {} n evs).outcomes.filter (·.1 = w)).length ≤ 1 :=
  ⟨1, [.arrive 1, .lookup 10 1, .timeoutTake 1, .timeoutSend 1, .commit 10 true], 1, by decide⟩

/-- the same schedule, outcome list spelled out -/
theorem c12_verdict_races_timeout_witness :
    (run {} 1 [.arrive 1, .lookup 10 1, .timeoutTake 1, .timeoutSend 1, .commit 10 true]).outcomes
      = [(1, .error), (1, .applied)] :=
  Appr.verdict_races_timeout_witness

/-- REFUTED for the code as written (finding `verdict-races-verdict-double-outcome`): two callbacks deny the same
    write concurrently (both are past the pending lookup before either commits): two error results. -/
theorem c12_at_most_one_outcome_refuted_verdicts :
    (run {} 2 [.arrive 1, .lookup 10 1, .lookup 11 1, .commit 10 false, .commit 11 false]).outcomes
      = [(1, .error), (1, .error)] := by decide

/-- both schedules on the repaired member: one outcome each -/
example :
    (run Cfg.clean 1 [.arrive 1, .lookup 10 1, .timeoutTake 1, .timeoutSend 1, .commit 10 true]).outcomes = [(1, .error)] ∧
    (run Cfg.clean 2 [.arrive 1, .lookup 10 1, .lookup 11 1, .commit 10 false, .commit 11 false]).outcomes = [(1, .error)] := by
  decide

/-- REFUTED for the code as written (finding `tally-reset-approved-writes-time-out`): "applied iff every callback
    approves before the timeout, independently of any other pending write" — two pending writes, two callbacks,
    every callback approves both before any timeout: both writes end with the timeout's error. -/
theorem c12_applied_iff_unanimous_refuted :
    (run {} 2 [.arrive 1, .arrive 2,
            .lookup 10 1, .commit 10 true, .lookup 11 2, .commit 11 true,
            .lookup 12 1, .commit 12 true, .lookup 13 2, .commit 13 true,
            .timeoutTake 1, .timeoutSend 1, .timeoutTake 2, .timeoutSend 2]).outcomes
      = [(1, .error), (2, .error)] :=
  Appr.tally_reset_witness

/-- the same 14 events on the member with only the tally repaired: both writes are applied -/
theorem c12_tally_repaired_applies :
    (run { tallyReset := false, ignoreStop := true } 2 [.arrive 1, .arrive 2,
            .lookup 10 1, .commit 10 true, .lookup 11 2, .commit 11 true,
            .lookup 12 1, .commit 12 true, .lookup 13 2, .commit 13 true,
            .timeoutTake 1, .timeoutSend 1, .timeoutTake 2, .timeoutSend 2]).outcomes
      = [(1, .applied), (2, .applied)] := by decide

/-- "Each authorised incoming write is presented once to every callback": for every member of the family and every
    event list, the pair (write, callback index) has been presented exactly once if the write has arrived and the
    callback exists, and never otherwise (message counters being unique per connection — the model's `seen`). -/
theorem c12_presented_once_each (c : Cfg) (n : Nat) (evs : List Ev) (w i : Nat) :
    (run c n evs).presented.count (w, i) = if w ∈ (run c n evs).seen ∧ i < n then 1 else 0 := by
  have h := presInv_run c n evs w i
  rw [nCb_run] at h
  exact h

/-- non-vacuity: two writes, three callbacks -/
example : (run {} 3 [.arrive 5, .lookup 1 5, .arrive 6, .arrive 5]).presented
    = [(5, 0), (5, 1), (5, 2), (6, 0), (6, 1), (6, 2)] := by decide

/-- PARTIAL, code as written: as long as no verdict sits between its pending lookup and its commit while the
    write's timer is no longer armed (`Quiet`: neither the timeout nor another verdict resolves the write inside
    the lookup–commit window), and either a single callback is registered or the tally is repaired, the run of the
    member `c` is the run of the repaired member — so every theorem of the repaired member holds for it.
    Excluded region: two or more callbacks with the tally as written (refuted above). -/
theorem c12_partial (c : Cfg) (n : Nat) (evs : List Ev)
    (hq : Quiet c { nCb := n } evs) (ht : c.tallyReset = false ∨ n ≤ 1) :
    run c n evs = run Cfg.clean n evs :=
  run_cfg_agree c evs { nCb := n } hq ht

/-- instance: the code as written, one callback, quiet schedule: at most one outcome per write -/
theorem c12_partial_at_most_one (evs : List Ev) (hq : Quiet {} { nCb := 1 } evs) (w : Nat) :
    ((run {} 1 evs).outcomes.filter (·.1 = w)).length ≤ 1 := by
  rw [c12_partial {} 1 evs hq (Or.inr (Nat.le_refl 1))]
  exact Appr.c12_at_most_one_outcome 1 evs w

/-- PARTIAL, code as written, the historical member "two or more callbacks, writes pending one at a time": for every
    member `c` of the family (tally map re-created or not, result of Stop() ignored or not), ANY number of callbacks and
    every schedule in which a write arrives only while no other write is armed and no verdict is stale (`ApprS.Single`):
    the outcomes, the presentations, the pending and armed sets are those of the repaired member — only the tally maps
    differ (the map the code throws away holds nothing that is still needed). Excluded region: two writes pending
    together (refuted: `c12_applied_iff_unanimous_refuted`), stale verdicts (refuted: `…_refuted_timeout`). -/
theorem c12_partial_one_write_at_a_time (c : Cfg) (n : Nat) (evs : List Ev) (hs : ApprS.Single c { nCb := n } evs) :
    (run c n evs).outcomes = (run Cfg.clean n evs).outcomes ∧
    (run c n evs).presented = (run Cfg.clean n evs).presented ∧
    (run c n evs).pending = (run Cfg.clean n evs).pending ∧ (run c n evs).armed = (run Cfg.clean n evs).armed := by
  have h := ApprS.rel_run c evs _ _ (ApprS.rel_init n) hs
  exact ⟨h.outcomes, h.presented, h.pending, h.armed⟩

/-- non-vacuity: the code as written, three callbacks, three writes one after the other — approved by all three,
    denied by the second callback, timed out after two approvals; the tally map of the code as written ends different
    from the repaired member's, the outcomes are the same -/
example :
    let evs : List Ev := [.arrive 1, .lookup 10 1, .commit 10 true, .lookup 11 1, .commit 11 true, .lookup 12 1,
      .commit 12 true, .arrive 2, .lookup 13 2, .commit 13 true, .lookup 14 2, .commit 14 false,
      .arrive 3, .lookup 15 3, .commit 15 true, .lookup 16 3, .commit 16 true, .timeoutTake 3, .timeoutSend 3,
      .arrive 4, .lookup 17 4, .commit 17 true]
    ApprS.Single {} { nCb := 3 } evs ∧
    (run {} 3 evs).outcomes = [(1, .applied), (2, .error), (3, .error)] ∧
    (run {} 3 evs).tally = some [(4, 1)] ∧ (run Cfg.clean 3 evs).tally = some [(3, 2), (4, 1)] := by
  refine ⟨?_, by decide, by decide, by decide⟩
  simp [ApprS.Single, NoStale, step, finish, bump]

/-- hence, code as written, any number of callbacks, one write at a time: no write has two outcomes -/
theorem c12_partial_one_write_at_a_time_at_most_one (n : Nat) (evs : List Ev) (hs : ApprS.Single {} { nCb := n } evs)
    (w : Nat) : ((run {} n evs).outcomes.filter (·.1 = w)).length ≤ 1 := by
  rw [(c12_partial_one_write_at_a_time {} n evs hs).1]
  exact Appr.c12_at_most_one_outcome n evs w

example : ApprS.Single {} { nCb := 2 } [.arrive 1, .lookup 10 1, .commit 10 true, .lookup 11 1, .commit 11 true] ∧
    (run {} 2 [.arrive 1, .lookup 10 1, .commit 10 true, .lookup 11 1, .commit 11 true]).outcomes = [(1, .applied)] := by
  refine ⟨?_, by decide⟩
  simp [ApprS.Single, NoStale, step, finish, bump]

/-- non-vacuity of `Quiet`: a sequential history of the code as written with a denial, an approval and a timeout -/
example : Quiet {} { nCb := 1 } [.arrive 1, .arrive 2, .arrive 3, .lookup 10 2, .commit 10 false, .lookup 11 1,
    .commit 11 true, .timeoutTake 3, .timeoutSend 3] := by
  simp [Quiet, NoStale, step, finish]

/-! ### across connections (disconnect, reconnect, reused counters)

The instance-keyed model has the event `drop` (the peer's connection is removed: timers stopped, pending and tally
forgotten); a write is a write INSTANCE, a reused counter is a new instance. The theorems of this file quantify over
all event lists INCLUDING `drop` (`c12_at_most_one_outcome`, `c12_refines`, `c12_applied_iff_unanimous_in_time`,
`c12_applied_only_by_completing_approval`, `c12_independent`, `c12_presented_once_each`; only the conservation law
`c12_exactly_one_outcome` is for lists without `drop` — a write pending at the disconnect gets no outcome).
How the code, whose maps are keyed by the COUNTER, relates to instances is the family `Spine.ApprE`
(`Spine/ApprovalConn.lean`, flags `recheck`, `msgId`): its fully repaired member is run side by side with the
instance-keyed model by the driver on every explored history (any divergence is reported); that equivalence is
validated, not proved. -/

/-- "Nothing after the disconnect": a write that was waiting when its peer's connection was removed never gets an
    outcome — whatever verdicts, timeouts, reconnects and reused counters follow (repaired member, all event lists). -/
theorem c12_nothing_after_disconnect (n : Nat) (evs₁ evs₂ : List Ev) (w : Nat)
    (h : (specRun n evs₁).st w = .gone) : outs (run Cfg.clean n (evs₁ ++ evs₂)) w = [] := by
  have hr := outs_of_R _ _ (run_refines n (evs₁ ++ evs₂)) w
  have hg : (specRun n (evs₁ ++ evs₂)).st w = .gone := by
    simp only [specRun, List.foldl_append]
    exact spec_gone_forever n evs₂ _ w h
  rw [hr, hg]

/-- non-vacuity: write 1 is pending at the disconnect; a verdict that had looked it up commits afterwards, the peer
    comes back and sends instance 2, which is approved by both callbacks: 1 stays without outcome, 2 is applied -/
example :
    (specRun 2 [.arrive 1, .lookup 10 1, .drop]).st 1 = .gone ∧
    (run Cfg.clean 2 ([.arrive 1, .lookup 10 1, .drop] ++ [.commit 10 true, .arrive 2, .lookup 11 2, .commit 11 true,
      .lookup 12 2, .commit 12 true])).outcomes = [(2, .applied)] := by decide

/-- REFUTED for /repo as it was before the re-check repair (finding
    `verdict-racing-disconnect-leaves-approval-for-reused-counter`; counter-keyed model, member `recheck = false`):
    a verdict past its lookup when the connection is removed commits after the clean-up and leaves its approval
    behind; the peer reconnects, reuses counter 5, and ONE further approval applies the write although two callbacks
    are registered. -/
theorem c12_reused_counter_refuted :
    (ApprE.run { recheck := false, msgId := false } 2 [.arrive 5, .lookup 10 (0, 5), .drop, .commit 10 true,
      .arrive 5, .lookup 11 (1, 5), .commit 11 true]).outcomes = [((1, 5), .applied)] :=
  ApprE.stale_tally_after_disconnect_witness

/-- REFUTED for the member with the re-check only (finding
    `verdict-of-earlier-connection-taken-for-reused-counter`): a verdict for the MESSAGE of the earlier connection,
    delivered after the counter is in use again, finds the new write's timer, passes the re-check, stops that timer
    and applies the old message; the new write never gets an outcome. -/
theorem c12_old_verdict_after_reuse_refuted :
    let s := ApprE.run { msgId := false } 1 [.arrive 5, .drop, .arrive 5, .lookup 10 (0, 5), .commit 10 true,
      .timeoutTake (1, 5), .timeoutSend (1, 5)]
    s.outcomes = [((0, 5), .applied)] ∧ s.pending = [] ∧ s.armed = [] :=
  ApprE.old_verdict_after_reuse_witness

/-- both schedules on the fully repaired counter-keyed member (re-check and verdict bound to its message) -/
theorem c12_reconnect_repaired :
    (ApprE.run {} 2 [.arrive 5, .lookup 10 (0, 5), .drop, .commit 10 true,
      .arrive 5, .lookup 11 (1, 5), .commit 11 true]).outcomes = [] ∧
    (ApprE.run {} 1 [.arrive 5, .drop, .arrive 5, .lookup 10 (0, 5), .commit 10 true,
      .timeoutTake (1, 5), .timeoutSend (1, 5)]).outcomes = [((1, 5), .error)] := by decide

/-- EQUIVALENCE of the model that keys its maps as the code does — by the message COUNTER, reused by a peer that
    reconnects — with the instance-keyed model all the all-schedule theorems are about (fully repaired member of
    both): for every number of callbacks, every injective naming `enc` of the write instances (epoch, counter) and
    EVERY event list — arrivals, verdict lookups and commits, the two halves of timeouts, removals of the connection,
    in any order, verdicts and timeouts of earlier connections arriving at any time — the outcomes are the same,
    instance by instance and in the same order. (`trAll` renames the events; an arrival with counter `c` is the arrival
    of instance (number of drops so far, c).) -/
theorem c12_counter_keyed_equals_instance_keyed (enc : ApprE.Inst → Nat) (hinj : Function.Injective enc) (n : Nat)
    (evs : List ApprE.Ev) :
    (run Cfg.clean n (ApprEq.trAll enc { nCb := n } evs)).outcomes =
      (ApprE.run {} n evs).outcomes.map fun x => (enc x.1, x.2) :=
  ApprEq.outcomes_eq hinj n evs

/-- non-vacuity: an injective naming exists, and on a history with a reused counter, a verdict of the earlier
    connection that commits after the reuse, two callbacks and a timeout both sides produce the same two outcomes -/
example : Function.Injective ApprEq.pairEnc ∧
    (let evs : List ApprE.Ev := [.arrive 5, .lookup 10 (0, 5), .drop, .arrive 5, .commit 10 true, .lookup 11 (1, 5),
        .commit 11 true, .arrive 6, .lookup 12 (1, 5), .commit 12 true, .timeoutTake (1, 6), .timeoutSend (1, 6)]
     (ApprE.run {} 2 evs).outcomes = [((1, 5), .applied), ((1, 6), .error)] ∧
     (run Cfg.clean 2 (ApprEq.trAll ApprEq.pairEnc { nCb := 2 } evs)).outcomes =
       [(ApprEq.pairEnc (1, 5), .applied), (ApprEq.pairEnc (1, 6), .error)]) :=
  ⟨ApprEq.pairEnc_injective, by decide⟩

/-- hence "no write ever has two outcomes" for the counter-keyed model itself: under every event list — counters
    reused across any number of connections — no write INSTANCE has two outcomes. -/
theorem c12_at_most_one_outcome_counter_keyed (n : Nat) (evs : List ApprE.Ev) (i : ApprE.Inst) :
    ((ApprE.run {} n evs).outcomes.filter (·.1 = i)).length ≤ 1 := by
  have h := c12_at_most_one_outcome n (ApprEq.trAll ApprEq.pairEnc { nCb := n } evs) (ApprEq.pairEnc i)
  rw [c12_counter_keyed_equals_instance_keyed _ ApprEq.pairEnc_injective, List.filter_map, List.length_map] at h
  have hf : (ApprE.run {} n evs).outcomes.filter ((fun x : Nat × Out => decide (x.1 = ApprEq.pairEnc i)) ∘
      fun x => (ApprEq.pairEnc x.1, x.2)) = (ApprE.run {} n evs).outcomes.filter (·.1 = i) := by
    apply List.filter_congr
    intro x _
    simp only [Function.comp]
    by_cases hx : x.1 = i
    · simp [hx]
    · have : ApprEq.pairEnc x.1 ≠ ApprEq.pairEnc i := fun h' => hx (ApprEq.pairEnc_injective h')
      simp [hx, this]
  rw [hf] at h
  exact h

example : ((ApprE.run {} 1 [.arrive 5, .drop, .arrive 5, .lookup 10 (0, 5), .commit 10 true,
    .timeoutTake (1, 5), .timeoutSend (1, 5), .lookup 11 (1, 5), .commit 11 true]).outcomes.filter
      (·.1 = (1, 5))).length = 1 := by decide

/-! ### refinement: applied ⇔ unanimous in time, independence (repaired member) -/

/-- Every write's outcomes in the repaired member, under every interleaving (any number of callbacks, pending writes,
    verdict goroutines and timers), are exactly those of the per-write automaton of the statement: none while the
    write is absent, waiting or being timed out, and the single outcome it ended with afterwards. -/
theorem c12_refines (n : Nat) (evs : List Ev) (w : Nat) :
    outs (run Cfg.clean n evs) w = match (specRun n evs).st w with
      | .done o => [o]
      | _ => [] :=
  outs_of_R _ _ (run_refines n evs) w

/-- "Applied if and only if every callback approves it before the approval timeout": the write is applied exactly
    when its automaton ended in `done applied` — i.e. (see `c12_applied_only_by_completing_approval` and the
    definition of `Appr.verdictW`) when the approvals committed while it was waiting reached the number of
    callbacks before any denial and before the timeout took it. -/
theorem c12_applied_iff_unanimous_in_time (n : Nat) (evs : List Ev) (w : Nat) :
    (w, Out.applied) ∈ (run Cfg.clean n evs).outcomes ↔ (specRun n evs).st w = .done .applied := by
  rw [mem_outcomes_iff, c12_refines]
  cases h : (specRun n evs).st w with
  | done o => cases o <;> simp
  | absent => simp
  | waiting k => simp
  | gone => simp
  | expiring => simp

/-- "A single denial, or the timeout, yields an error result": the write has an error outcome exactly when its
    automaton ended in `done error`. -/
theorem c12_error_iff_denied_or_timed_out (n : Nat) (evs : List Ev) (w : Nat) :
    (w, Out.error) ∈ (run Cfg.clean n evs).outcomes ↔ (specRun n evs).st w = .done .error := by
  rw [mem_outcomes_iff, c12_refines]
  cases h : (specRun n evs).st w with
  | done o => cases o <;> simp
  | absent => simp
  | waiting k => simp
  | gone => simp
  | expiring => simp

/-- The automaton applies a write only at the commit of an approval whose operation looked the write up while it was
    waiting and which completes the count: with `n > 1` callbacks it is the approval after `n − 1` counted ones
    (`k + 1 ≥ n`), with one callback the first. Nothing else — no denial, no timeout, no event of another write —
    produces `applied`. -/
theorem c12_applied_only_by_completing_approval (n : Nat) (sp : Sp) (e : Ev) (w : Nat)
    (h : (specStep n sp e).st w = .done .applied) :
    sp.st w = .done .applied ∨
    ∃ op x k, e = .commit op true ∧ sp.lookups.find? (·.1 = op) = some (x, w) ∧ sp.st w = .waiting k ∧
      ¬ (n > 1 ∧ k + 1 < n) :=
  spec_applied_inv n sp e w h

/-- "Independently of any other write pending at the same time": an event that is not about write `w` (it names
    another write, or it is the commit of a verdict whose operation looked up another write) leaves `w`'s state in
    the automaton — hence, by `c12_refines`, its outcome in the repaired member — untouched. -/
theorem c12_independent (n : Nat) (sp : Sp) (e : Ev) (w : Nat) (h : ¬ concerns sp w e) :
    (specStep n sp e).st w = sp.st w :=
  spec_frame n sp e w h

/-- non-vacuity: the 14-event schedule that defeats the code as written, on the automaton: both writes applied;
    and a schedule with a denial, a timeout and a verdict that commits after the timeout -/
example :
    (specRun 2 [.arrive 1, .arrive 2, .lookup 10 1, .commit 10 true, .lookup 11 2, .commit 11 true,
      .lookup 12 1, .commit 12 true, .lookup 13 2, .commit 13 true]).st 1 = .done .applied ∧
    (specRun 2 [.arrive 1, .arrive 2, .lookup 10 1, .commit 10 true, .lookup 11 2, .commit 11 true,
      .lookup 12 1, .commit 12 true, .lookup 13 2, .commit 13 true]).st 2 = .done .applied ∧
    (specRun 2 [.arrive 1, .arrive 2, .arrive 3, .lookup 10 1, .commit 10 false, .lookup 11 2, .timeoutTake 2,
      .commit 11 true, .timeoutSend 2, .lookup 12 3, .commit 12 true]).st 1 = .done .error ∧
    (specRun 2 [.arrive 1, .arrive 2, .arrive 3, .lookup 10 1, .commit 10 false, .lookup 11 2, .timeoutTake 2,
      .commit 11 true, .timeoutSend 2, .lookup 12 3, .commit 12 true]).st 2 = .done .error ∧
    (specRun 2 [.arrive 1, .arrive 2, .arrive 3, .lookup 10 1, .commit 10 false, .lookup 11 2, .timeoutTake 2,
      .commit 11 true, .timeoutSend 2, .lookup 12 3, .commit 12 true]).st 3 = .waiting 1 := by
  decide

/-! ### acknowledgement, data, connection; any number of peers (`Spine/ApprovalWire.lean`)

The effects of an outcome — result datagrams (`ApprW.wireOf`: connection, msgCounterReference, success / error) and
the change of the feature's data (`ApprW.dataOf`: the writes applied, in order) — are functions of the outcome list
and of the write's own attributes (`ApprW.Attr`: ackRequest, the connection it came in on), as in `processWrite` and
the two error paths of feature_local.go. The driver prints them, the harness compares them per step with the result
datagrams on every connection's writer. `attr` is arbitrary in every theorem. -/

/-- "applied (and acknowledged if requested)": a success result for write `w` is on the wire exactly when `w` was
    applied — unanimously approved in time, see `c12_applied_iff_unanimous_in_time` — AND its header asked for an
    acknowledgement, and then on the connection the write came in on (repaired member, all event lists). -/
theorem c12_ack_iff_requested (attr : Nat → ApprW.Attr) (n : Nat) (evs : List Ev) (c w : Nat) :
    (c, w, ApprW.Res.success) ∈ ApprW.wireOf attr (run Cfg.clean n evs) ↔
      (specRun n evs).st w = .done .applied ∧ (attr w).ack = true ∧ c = (attr w).conn := by
  rw [ApprW.mem_wireOf, c12_applied_iff_unanimous_in_time]
  constructor
  · rintro ⟨hc, ⟨_, h, ha⟩ | ⟨hr, _⟩⟩
    · exact ⟨h, ha, hc⟩
    · cases hr
  · rintro ⟨h, ha, hc⟩; exact ⟨hc, Or.inl ⟨rfl, h, ha⟩⟩

/-- "a single denial, or the timeout, yields an error result": an error result for `w` is on the wire exactly when
    `w` was denied or timed out, whether or not an acknowledgement was requested, on the writer's connection. -/
theorem c12_error_result_iff (attr : Nat → ApprW.Attr) (n : Nat) (evs : List Ev) (c w : Nat) :
    (c, w, ApprW.Res.error) ∈ ApprW.wireOf attr (run Cfg.clean n evs) ↔
      (specRun n evs).st w = .done .error ∧ c = (attr w).conn := by
  rw [ApprW.mem_wireOf, c12_error_iff_denied_or_timed_out]
  constructor
  · rintro ⟨hc, ⟨hr, _⟩ | ⟨_, h⟩⟩
    · cases hr
    · exact ⟨h, hc⟩
  · rintro ⟨h, hc⟩; exact ⟨hc, Or.inr ⟨rfl, h⟩⟩

/-- results only on the writer's connection, and at most one result per write: every member of the family for the
    connection, the repaired member for the count -/
theorem c12_results_only_on_writers_connection (c : Cfg) (attr : Nat → ApprW.Attr) (n : Nat) (evs : List Ev) :
    ∀ r ∈ ApprW.wireOf attr (run c n evs), r.1 = (attr r.2.1).conn := by
  rintro ⟨cn, w, k⟩ hr
  exact ((ApprW.mem_wireOf attr _ cn w k).mp hr).1

theorem c12_at_most_one_result (attr : Nat → ApprW.Attr) (n : Nat) (evs : List Ev) (w : Nat) :
    ((ApprW.wireOf attr (run Cfg.clean n evs)).filter (·.2.1 = w)).length ≤ 1 := by
  rw [ApprW.wireOf, ApprW.filter_flatMap_results]
  exact Nat.le_trans (ApprW.flatMap_length_le _ _ (ApprW.results_length attr)) (c12_at_most_one_outcome n evs w)

/-- non-vacuity: three writes on two connections; 1 (ack requested) applied → success on connection 7; 2 (no ack)
    applied → nothing; 3 (ack requested) denied → error on connection 8; the data saw 1 then 2 -/
example :
    let attr : Nat → ApprW.Attr := fun w => { ack := w != 2, conn := if w = 3 then 8 else 7 }
    let s := run Cfg.clean 1 [.arrive 1, .arrive 2, .arrive 3, .lookup 10 1, .commit 10 true, .lookup 11 2,
      .commit 11 true, .lookup 12 3, .commit 12 false]
    ApprW.wireOf attr s = [(7, 1, .success), (8, 3, .error)] ∧ ApprW.dataOf s = [1, 2] := by decide

/-- "leaves the data unchanged": the data is changed by exactly the writes that were applied … -/
theorem c12_data_is_the_applied_writes (n : Nat) (evs : List Ev) (w : Nat) :
    w ∈ ApprW.dataOf (run Cfg.clean n evs) ↔ (specRun n evs).st w = .done .applied := by
  rw [ApprW.mem_dataOf, c12_applied_iff_unanimous_in_time]

/-- … and only at the commit of an approval: a denial, a timeout (either half), an arrival, a lookup, the removal of
    the connection leave the data as it was (every member of the family, every state). -/
theorem c12_data_unchanged_unless_approval_commits (c : Cfg) (s : St) (e : Ev)
    (h : ApprW.dataOf (step c s e) ≠ ApprW.dataOf s) : ∃ op, e = .commit op true :=
  ApprW.data_changes_only_at_approval c s e h

/-- non-vacuity: a denial and a timeout produce their error outcomes and leave the data alone -/
example :
    let s := run Cfg.clean 2 [.arrive 1, .arrive 2, .lookup 10 1, .commit 10 true, .lookup 11 1]
    ApprW.dataOf (step Cfg.clean s (.commit 11 true)) = [1] ∧ ApprW.dataOf s = [] ∧
    ApprW.dataOf (step Cfg.clean s (.commit 11 false)) = [] ∧
    (step Cfg.clean s (.commit 11 false)).outcomes = [(1, .error)] ∧
    ApprW.dataOf (step Cfg.clean (step Cfg.clean s (.timeoutTake 2)) (.timeoutSend 2)) = [] := by decide

/-- "independently of any other write pending … from another peer", any number of peers: under every interleaving of
    the events of all peers, the approval state of peer `p` — pending writes, timers, tallies, outcomes — is the one
    its own events alone produce; every theorem of this file therefore holds per peer in the world of all peers. -/
theorem c12_independent_of_other_peers (n : Nat) (evs : List (Nat × Ev)) (p : Nat) :
    ApprW.wrun n evs p = run Cfg.clean n (ApprW.proj p evs) :=
  ApprW.wrun_proj n evs p

/-- instance: applied iff unanimous in time, in the world of all peers -/
theorem c12_world_applied_iff (n : Nat) (evs : List (Nat × Ev)) (p w : Nat) :
    (w, Out.applied) ∈ (ApprW.wrun n evs p).outcomes ↔ (specRun n (ApprW.proj p evs)).st w = .done .applied := by
  rw [c12_independent_of_other_peers, c12_applied_iff_unanimous_in_time]

/-- non-vacuity: two peers use the same counters; peer 0's write 1 is approved twice, peer 1's write 1 once and
    then times out, interleaved -/
example :
    let evs : List (Nat × Ev) := [(0, .arrive 1), (1, .arrive 1), (0, .lookup 10 1), (1, .lookup 10 1),
      (1, .commit 10 true), (0, .commit 10 true), (1, .timeoutTake 1), (0, .lookup 11 1), (1, .timeoutSend 1),
      (0, .commit 11 true)]
    (ApprW.wrun 2 evs 0).outcomes = [(1, .applied)] ∧ (ApprW.wrun 2 evs 1).outcomes = [(1, .error)] ∧
    (ApprW.proj 0 evs).length = 5 ∧ (run Cfg.clean 2 (ApprW.proj 1 evs)).outcomes = [(1, .error)] := by decide

/-- "… from the same peer", over whole segments: any sequence of events none of which is about `w` — arrivals,
    verdicts and timeouts of any number of other writes — leaves `w` where it was (`c12_independent` iterated). -/
theorem c12_independent_segment (n w : Nat) (es : List Ev) (sp : Sp) (h : ApprW.NotAbout n w sp es) :
    (es.foldl (specStep n) sp).st w = sp.st w :=
  ApprW.spec_frame_segment n w es sp h

/-- non-vacuity: while write 1 waits with one approval, writes 2 and 3 arrive, are approved, denied, time out -/
example :
    let sp := specRun 2 [.arrive 1, .lookup 10 1, .commit 10 true]
    let es : List Ev := [.arrive 2, .arrive 3, .lookup 11 2, .commit 11 true, .lookup 12 3, .commit 12 false,
      .lookup 13 2, .commit 13 true, .timeoutTake 3, .timeoutSend 3]
    sp.st 1 = .waiting 1 ∧ (es.foldl (specStep 2) sp).st 1 = .waiting 1 ∧ (es.foldl (specStep 2) sp).st 2 = .done .applied := by
  decide

end Spine.Props.C12
