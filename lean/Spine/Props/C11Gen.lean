import Spine.SnapFacts
import Spine.Generated.SnapFacts
/-!
# C11 — theorems over the facts regenerated from the tree under test (`go/snapfacts`, SSA)

Clause 1 of the property ("a data set obtained from a feature never changes afterwards … including updates applied
concurrently with the snapshot being read") has two static faces that a sequential differential run cannot see:

* the copy made by `FunctionData.DataCopy` (and through it `FeatureLocal/FeatureRemote.DataCopy`, `ReplyCmdType`,
  `NotifyOrWriteCmdType`) must be made INSIDE the critical section of the mutex under which `UpdateData` runs the
  in-place `UpdateList` — otherwise a snapshot can mix two states (seeded class C11-r4-2);
* the helper functions of package `model` outside the update engine (the use-case helpers of
  `model/nodemanagement_additions.go`, `usecaseinformation_additions.go`, every other `*_additions.go`) must write
  only through slices they allocated themselves — a receiver that is a one-level `DataCopy` shares its backing arrays
  with every copy handed out earlier (seeded class C11-r4-1: `list[:0]` filtering in place).

Every theorem here is re-checked on every run over the regenerated table; none mentions an unexported identifier.
-/
namespace Spine.Props.C11Gen
open Spine.SnapFacts Spine.Generated

/-- the analysis saw the store: there are rows, and every static access to the stored-pointer field anywhere in the
    module lies on a path the walk followed from an exported method -/
theorem c11_store_accesses_covered :
    storeAccesses ≠ [] ∧ storeFieldSitesCovered = storeFieldSites ∧ 0 < storeFieldSites := by decide

/-- STORE DISCIPLINE: there is ONE mutex under which every load of the stored pointer and every read through it
    happens (at least read-locked), under which everything that may write — the assignment of the pointer and the
    in-place `UpdateList` call on the stored value — happens locked, and the stored pointer never leaves the store -/
theorem c11_store_disciplined :
    (guardOf storeAccesses).any (fun m => disciplinedBy m storeAccesses) = true := by decide

/-- the copy of `DataCopy` (exported API name) is made inside the critical section, and so are the copies made on the
    paths of the command builders (`ReplyCmdType`, `NotifyOrWriteCmdType`: payloads of replies and notifications) -/
theorem c11_copy_inside_critical_section :
    copyLockedAt "DataCopy" storeAccesses = true ∧
      (storeAccesses.filter fun a => a.kind == "pointee-read").all (fun a => copyLockedAt a.root storeAccesses) = true := by
  decide

/-- the in-place update runs under the same mutex: every row that may write through the stored pointer is locked by
    the guard, and there is such a row on the path of `UpdateData` -/
theorem c11_inplace_update_inside_critical_section :
    (guardOf storeAccesses).any (fun m =>
      storeAccesses.any fun a => a.root == "UpdateData" && a.kind == "pointee-call" && a.level m == 2) = true := by decide

/-- hence (model `Spine.SnapConc`, every schedule of the reader against any number of in-place updaters): whatever
    `DataCopy` has copied is, word for word, the store as it was when the reader took the mutex — one of the states
    the store went through. The member is selected by the regenerated fact, not by hand. -/
theorem c11_source_snapshot_is_one_state (mem : List Nat) (evs : List Spine.SnapConc.Ev) (s : Spine.SnapConc.St)
    (hr : Spine.SnapConc.run ⟨copyLockedAt "DataCopy" storeAccesses⟩ (Spine.SnapConc.init mem) evs = some s) :
    (∀ p ∈ s.buf, (s.snap[p.1]?).getD 0 = p.2) ∧ (s.snap = [] ∨ s.snap ∈ s.quies) := by
  have h : copyLockedAt "DataCopy" storeAccesses = true := c11_copy_inside_critical_section.1
  rw [h] at hr
  exact Spine.SnapConc.snapshot_is_one_state mem evs s hr

/-- non-vacuity: a schedule with an update in flight before and after the copy -/
example : (Spine.SnapConc.run ⟨copyLockedAt "DataCopy" storeAccesses⟩ (Spine.SnapConc.init [0, 0])
    [.wAcq 0, .wWrite 0 0 7, .wWrite 0 1 7, .wRel 0, .rAcq, .rCopy 0, .rCopy 1, .rRel, .wAcq 1, .wWrite 1 0 9]).map
      (fun s => (s.copied 0, s.copied 1, s.mem)) = some (some 7, some 7, [9, 7]) := by decide

/-- SLICE OWNERSHIP: no function of package `model` outside the update engine writes through a slice it did not
    allocate (element assignment, field of an element, mutating method on an element, copy, in-place slices.* /
    sort.*, append into spare capacity) -/
theorem c11_helpers_write_only_own_slices : foreignHelperWrites sliceWrites = [] := by decide

/-- non-vacuity: the helpers DO write through slices (clones, fresh lists): the analysis classified these as owned -/
theorem c11_helpers_write_somewhere :
    5 ≤ ((sliceWrites.filter fun w => !w.engine && w.owned).map (·.sites)).sum ∧ 0 < modelHelpers := by decide

end Spine.Props.C11Gen
