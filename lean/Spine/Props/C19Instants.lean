import Spine.TimeTextThm
import Spine.Generated.TimeLayouts
/-!
# C19, clause S3b — instants with whole seconds survive the conversion to their SPINE text and back

Theorems about the byte-level model `Spine.TimeText` (`lex` = `time.nextStdChunk`, `format` = `Time.AppendFormat`,
`parse` = `time.parse`, the proleptic Gregorian calendar, the loop of `GetTime`, `NewDateTimeTypeFromTime`), over
the layout strings REGENERATED from the source of the tree under test on every run (translator generator
`timelayouts`: `dateTimeFormatRaw`, `dateTimeParseRaw`, `dateParseRaw`, `timeParseRaw`, the flags "a
`Round(time.Second)` / a `UTC()` is on the way to `Format`"). The model is compared with the real code on every
run: texts written byte for byte on a dense and a strided sweep of the years 0000–9999 (digest), the three getters
on random well-formed and damaged texts, package `time` itself on a family of layouts.

The theorems are guarded by "the layouts could be recovered" (a refactoring that hides the strings makes them
vacuous; the dynamic facts of `Props/C19Layouts` and the monitor remain); a layout that IS found and does not
belong to the family `2006-01-02T15:04:05` + optional `.999…` + (literal bytes | zone element), or a list of
layouts none of which accepts the text written, breaks the obligation.
-/
namespace Spine.Props.C19Instants
open Spine.Generated.TimeLayouts Spine.TimeText

/-- the formatting layout found in the source, as elements -/
def fmtElems : List Elem := lex (dateTimeFormatRaw.headD [])

/-- the layouts `(*DateTimeType).GetTime` tries, as elements -/
def dtElems : List (List Elem) := dateTimeParseRaw.map lex

/-- could everything the theorems need be recovered from the source? -/
def known : Bool := astParseKnown && astFormatKnown && dateTimeRoundsToSecond && dateTimeConvertsToUTC

/-- CLAUSE S3b, FULL STRENGTH on the text-level model: for every instant (Unix seconds `sec`, nanoseconds `ns`,
    presented in any zone `off`) whose rounding to the second lies in the years 0000–9999,
    `NewDateTimeTypeFromTime` writes a text that `GetTime` reads back as exactly the instant rounded to the
    second, in UTC — in particular an instant with whole seconds (`ns = 0`) survives exactly. Layouts: the ones
    in the source of the tree under test. -/
theorem c19_instant_text_exact :
    known = false ∨
    ∀ (sec : Int) (ns : Nat) (off : Int), minSec ≤ roundSec sec ns → roundSec sec ns ≤ maxSec →
      ∃ t, newDateTimeTypeFromTime fmtElems true true sec ns off = some t ∧
        getTime dtElems t = some ⟨roundSec sec ns, 0, 0⟩ := by
  first
  | exact Or.inl (by decide)
  | exact Or.inr (fun sec ns off h0 h1 =>
      written_is_read fmtElems (by decide +kernel) dtElems (by decide +kernel) (by decide +kernel) sec ns off h0 h1)

/-- … for whole seconds: the very instant -/
theorem c19_instant_text_whole_second :
    known = false ∨
    ∀ (sec : Int) (off : Int), minSec ≤ sec → sec ≤ maxSec →
      ∃ t, newDateTimeTypeFromTime fmtElems true true sec 0 off = some t ∧ getTime dtElems t = some ⟨sec, 0, 0⟩ := by
  rcases c19_instant_text_exact with h | h
  · exact Or.inl h
  · exact Or.inr (fun sec off h0 h1 => h sec 0 off h0 h1)

/-- non-vacuity (where the layouts were recovered — the evidence of every run says whether: translator note
    "known true"; on the current tree they are): 2024-02-29T23:59:59.5+05:30 is written as
    `2024-02-29T18:30:00Z` (rounded up, converted to UTC) and read back as that second; the first and the last
    second of the domain -/
example : known = false ∨ (
    newDateTimeTypeFromTime fmtElems true true 1709231399 500000000 19800 =
      some [50, 48, 50, 52, 45, 48, 50, 45, 50, 57, 84, 49, 56, 58, 51, 48, 58, 48, 48, 90] ∧
    getTime dtElems [50, 48, 50, 52, 45, 48, 50, 45, 50, 57, 84, 49, 56, 58, 51, 48, 58, 48, 48, 90] = some ⟨1709231400, 0, 0⟩ ∧
    newDateTimeTypeFromTime fmtElems true true minSec 0 0 =
      some [48, 48, 48, 48, 45, 48, 49, 45, 48, 49, 84, 48, 48, 58, 48, 48, 58, 48, 48, 90] ∧
    newDateTimeTypeFromTime fmtElems true true maxSec 0 0 =
      some [57, 57, 57, 57, 45, 49, 50, 45, 51, 49, 84, 50, 51, 58, 53, 57, 58, 53, 57, 90]) := by
  first
  | exact Or.inl (by decide)
  | exact Or.inr (by decide +kernel)

/-- the domain of S3b is EXACT at its upper end: the first second of the year 10000 is written with five digits
    (`10000-01-01T00:00:00Z`), which no layout reads back (the four-digit year takes `1000`, the next byte is
    not `-`); below the year 0000 `time.Format` writes a sign (outside the model; the harness monitors the years
    0–9999, SPINE's xs:dateTime has no year 0) -/
theorem c19_instant_text_year_10000_refuted :
    known = false ∨
    (newDateTimeTypeFromTime fmtElems true true (maxSec + 1) 0 0 =
        some [49, 48, 48, 48, 48, 45, 48, 49, 45, 48, 49, 84, 48, 48, 58, 48, 48, 58, 48, 48, 90] ∧
     getTime dtElems [49, 48, 48, 48, 48, 45, 48, 49, 45, 48, 49, 84, 48, 48, 58, 48, 48, 58, 48, 48, 90] = none) := by
  first
  | exact Or.inl (by decide)
  | exact Or.inr (by decide +kernel)

/-- `(*DateType).GetTime` (layouts of the source): the plain form `YYYY-MM-DD` and the form with `Z` of EVERY date of
    the years 0000–9999 are read as midnight UTC of that date (`sec` is any instant of the day, `w` its wall clock) -/
theorem c19_date_text_read :
    astParseKnown = false ∨
    ∀ (sec : Int), minSec ≤ sec → sec ≤ maxSec → ∃ w, wallOf sec 0 0 = some w ∧
      getTime (dateParseRaw.map lex) (dateText w []) = some ⟨sec - ((w.hour * 3600 + w.minute * 60 + w.second : Nat) : Int), 0, 0⟩ ∧
      getTime (dateParseRaw.map lex) (dateText w [90]) = some ⟨sec - ((w.hour * 3600 + w.minute * 60 + w.second : Nat) : Int), 0, 0⟩ := by
  first
  | exact Or.inl (by decide)
  | exact Or.inr (fun sec h0 h1 => by
      obtain ⟨w, hw, h⟩ := date_is_read (dateParseRaw.map lex) [] (Or.inl rfl) (by decide +kernel) (by decide +kernel) sec h0 h1
      obtain ⟨w', hw', h'⟩ := date_is_read (dateParseRaw.map lex) [90] (Or.inr rfl) (by decide +kernel) (by decide +kernel) sec h0 h1
      rw [hw] at hw'
      cases hw'
      exact ⟨w, hw, h, h'⟩)

/-- `(*TimeType).GetTime` (layouts of the source): the plain form `hh:mm:ss` and the form with `Z` of EVERY time of
    day are read as that time on 1 January of the year 0, UTC -/
theorem c19_time_of_day_text_read :
    astParseKnown = false ∨
    ∀ (h mi s : Nat), h < 24 → mi < 60 → s < 60 →
      getTime (timeParseRaw.map lex) (timeText h mi s []) = some ⟨minSec + ((h * 3600 + mi * 60 + s : Nat) : Int), 0, 0⟩ ∧
      getTime (timeParseRaw.map lex) (timeText h mi s [90]) = some ⟨minSec + ((h * 3600 + mi * 60 + s : Nat) : Int), 0, 0⟩ := by
  first
  | exact Or.inl (by decide)
  | exact Or.inr (fun h mi s hh hmi hs =>
      ⟨tod_is_read (timeParseRaw.map lex) [] (Or.inl rfl) (by decide +kernel) (by decide +kernel) h mi s hh hmi hs,
       tod_is_read (timeParseRaw.map lex) [90] (Or.inr rfl) (by decide +kernel) (by decide +kernel) h mi s hh hmi hs⟩)

/-- non-vacuity: 2001-10-26 (any second of it) and 13:20:00 -/
example : (wallOf 1004100000 0 0).map (fun w => dateText w [90]) = some [50, 48, 48, 49, 45, 49, 48, 45, 50, 54, 90] ∧
    timeText 13 20 0 [] = [49, 51, 58, 50, 48, 58, 48, 48] ∧ minSec + ((13 * 3600 + 20 * 60 + 0 : Nat) : Int) = -62167171200 := by
  decide +kernel

/-- what a peer may send, on the layouts of the source (kernel-evaluated witnesses): a fraction is read although
    the layout tried has none; a one-digit hour is accepted; 29 February only in a leap year; second 60 and hour
    24 are refused; a numeric zone is refused by `DateTimeType`; `DateType` reads the plain and the `Z` form as
    midnight UTC; `TimeType` reads `hh:mm:ss` as that time on 1 January of the year 0 and applies a numeric zone
    — but `+07:00`, which the layout lists name, is not a zone element of package `time` and is read as UTC
    (observation outside the statement, `timeMisreads` of the dynamic facts) -/
theorem c19_getters_on_peer_texts :
    astParseKnown = false ∨
    (getTime dtElems [50, 48, 50, 52, 45, 48, 57, 45, 50, 54, 84, 49, 50, 58, 48, 48, 58, 48, 48, 46, 50, 53] = some ⟨1727352000, 250000000, 0⟩ ∧
     getTime dtElems [50, 48, 50, 52, 45, 48, 57, 45, 50, 54, 84, 55, 58, 48, 52, 58, 48, 53] = some ⟨1727334245, 0, 0⟩ ∧
     getTime dtElems [50, 48, 50, 52, 45, 48, 50, 45, 50, 57, 84, 49, 50, 58, 48, 48, 58, 48, 48, 90] = some ⟨1709208000, 0, 0⟩ ∧
     getTime dtElems [50, 48, 50, 51, 45, 48, 50, 45, 50, 57, 84, 49, 50, 58, 48, 48, 58, 48, 48, 90] = none ∧
     getTime dtElems [50, 48, 50, 52, 45, 48, 57, 45, 50, 54, 84, 49, 50, 58, 48, 48, 58, 54, 48, 90] = none ∧
     getTime dtElems [50, 48, 50, 52, 45, 48, 57, 45, 50, 54, 84, 50, 52, 58, 48, 48, 58, 48, 48, 90] = none ∧
     getTime dtElems [50, 48, 50, 52, 45, 48, 57, 45, 50, 54, 84, 49, 50, 58, 48, 48, 58, 48, 48, 43, 48, 50, 58, 48, 48] = none ∧
     getTime (dateParseRaw.map lex) [50, 48, 48, 49, 45, 49, 48, 45, 50, 54] = some ⟨1004054400, 0, 0⟩ ∧
     getTime (dateParseRaw.map lex) [50, 48, 48, 49, 45, 49, 48, 45, 50, 54, 90] = some ⟨1004054400, 0, 0⟩ ∧
     getTime (timeParseRaw.map lex) [49, 51, 58, 50, 48, 58, 48, 48] = some ⟨-62167171200, 0, 0⟩ ∧
     getTime (timeParseRaw.map lex) [49, 51, 58, 50, 48, 58, 48, 48, 45, 48, 53, 58, 51, 48] = some ⟨-62167151400, 0, -19800⟩ ∧
     getTime (timeParseRaw.map lex) [49, 51, 58, 50, 48, 58, 48, 48, 43, 48, 55, 58, 48, 48] = some ⟨-62167171200, 0, 0⟩) := by
  first
  | exact Or.inl (by decide)
  | exact Or.inr (by decide +kernel)

/-- the guards are booleans computed by the generator; whether they hold on the tree under test is reported in the
    evidence of the run (translator note), not asserted here: a refactoring the static search cannot follow must make
    these theorems vacuous, not break them -/
example : (known = true ∨ known = false) ∧ (astParseKnown = true ∨ astParseKnown = false) := by decide

end Spine.Props.C19Instants
