import Spine.CallbacksThm
/-!
# C14 — response and result callbacks fire exactly once for the right message

Property theorems only (model `Spine.CB` in `Spine/Callbacks.lean`, lemmas in `Spine/CallbacksThm.lean`).

The model is event-sourced: every event is one critical section under `muxResponseCB` (a registration; the
response-callback section of an inbound reply or result; the result-callback section of an inbound result), so "all
histories, including registrations concurrent with arrivals" = all event lists. It is a family of two members:
`b = true` is the code as written (node management, feature 0, routes replies to its own handlers and never triggers
the response callbacks), `b = false` the repair of DESIGN appendix C. An invocation records the registration, the
arrival, and the data and originating remote feature the arrival carried.

Status. Proved for every member and every history: at most once; only for an accepted arrival of the own feature and
counter, after the registration, with that arrival's data and origin; duplicate registration refused; the whole
second sentence (result callbacks). "Is invoked" (the existence half of *exactly* once): proved at full strength for the
repaired member (`c14_exactly_once`), REFUTED for the code as written (`c14_exactly_once_refuted`, known finding
`nm-reply-skips-response-callbacks`), proved for the code as written outside node-management replies
(`c14_exactly_once_partial`).

Not covered by the model (monitored on the real code only): that the Go values handed to the callback are the decoded
payload and the `FeatureRemoteInterface` of the sender — the model carries them as opaque numbers from the arrival to
the invocation. Identity of a callback is its code pointer (two closures of one function literal are "the same
callback"), as in `AddResponseCallback`.
-/
namespace Spine.Props.C14
open Spine Spine.CB

/-- First sentence, "at most once": no registration is invoked twice — every member, every history. -/
theorem c14_at_most_once (b : Bool) (evs : List Ev) (r : Nat) :
    ((run b evs).fired.map (·.reg)).count r ≤ 1 :=
  CB.c14_at_most_once b evs r

/-- non-vacuity: two replies and a result to one counter invoke the registration once -/
example : ((run true [.register 1 5 7, .arrive 100 1 5 true true 1 1, .arrive 101 1 5 true true 2 1,
    .arrive 102 1 5 false true 3 1]).fired.map (·.reg)).count 0 = 1 := by decide

/-- First sentence at full strength, repaired member: a callback registered (not refused) on feature `f` for counter
    `c` is invoked exactly once, by the first accepted reply or result for `f` referencing `c`, with the received
    data `d` and the originating remote feature `src` — whatever precedes, intervenes and follows. -/
theorem c14_exactly_once (pre mid post : List Ev) (f c cb a d src : Nat) (reply : Bool)
    (hnew : ¬ (run false pre).regs.any (isDup f c cb) = true)
    (hmid : ∀ e ∈ mid, ∀ a' reply' d' src', e ≠ Ev.arrive a' f c reply' true d' src') :
    let evs := pre ++ [Ev.register f c cb] ++ mid ++ Ev.arrive a f c reply true d src :: post
    ⟨(run false pre).next, a, d, src⟩ ∈ (run false evs).fired ∧
    ((run false evs).fired.map (·.reg)).count (run false pre).next = 1 :=
  CB.exactly_once false pre mid post f c cb a d src reply hnew hmid (by simp [Delivers])

/-- non-vacuity (repaired member): node management, a use-case request's counter, another registration and a foreign
    reply in between -/
example : (run false ([.register 1 1 7] ++ [Ev.register 0 1 7] ++ [.register 0 1 8, .arrive 99 1 1 true true 4 4] ++
    Ev.arrive 100 0 1 true true 55 9 :: [.arrive 101 0 1 true true 56 9])).fired
    = [⟨0, 99, 4, 4⟩, ⟨1, 100, 55, 9⟩, ⟨2, 100, 55, 9⟩] := by decide

/-- REFUTED for the code as written (known finding `nm-reply-skips-response-callbacks`): the statement of
    `c14_exactly_once` fails for member `true` — a callback registered on node management for counter 1 is not
    invoked by the accepted reply referencing 1. -/
theorem c14_exactly_once_refuted :
    ¬ (∀ (pre mid post : List Ev) (f c cb a d src : Nat) (reply : Bool),
        ¬ (run true pre).regs.any (isDup f c cb) = true →
        (∀ e ∈ mid, ∀ a' reply' d' src', e ≠ Ev.arrive a' f c reply' true d' src') →
        ⟨(run true pre).next, a, d, src⟩ ∈
          (run true (pre ++ [Ev.register f c cb] ++ mid ++ Ev.arrive a f c reply true d src :: post)).fired) := by
  intro h
  have := h [] [] [] 0 1 7 100 55 9 true (by decide) (by simp)
  revert this
  decide

/-- What does hold for the code as written (and for every member): exactly once for every arrival the feature
    delivers — every feature other than node management, and results on node management. -/
theorem c14_exactly_once_partial (b : Bool) (pre mid post : List Ev) (f c cb a d src : Nat) (reply : Bool)
    (hnew : ¬ (run b pre).regs.any (isDup f c cb) = true)
    (hmid : ∀ e ∈ mid, ∀ a' reply' d' src', e ≠ Ev.arrive a' f c reply' true d' src')
    (hregion : f ≠ 0 ∨ reply = false) :
    let evs := pre ++ [Ev.register f c cb] ++ mid ++ Ev.arrive a f c reply true d src :: post
    ⟨(run b pre).next, a, d, src⟩ ∈ (run b evs).fired ∧
    ((run b evs).fired.map (·.reg)).count (run b pre).next = 1 :=
  CB.exactly_once b pre mid post f c cb a d src reply hnew hmid
    (by unfold Delivers; rintro ⟨-, h1, h2⟩; rcases hregion with h | h <;> simp_all)

/-- non-vacuity (as written): an ordinary feature, and a result on node management -/
example : (run true [.register 1 5 7, .arrive 100 1 5 true true 3 2, .register 0 5 7,
    .arrive 101 0 5 false true 4 9]).fired = [⟨0, 100, 3, 2⟩, ⟨1, 101, 4, 9⟩] := by decide

/-- "… with the received data and the originating remote feature … and never for another reference or another
    feature": every invocation `x` (any member, any history) is caused by an *accepted* arrival number `x.arr` in the
    history that is addressed to feature `f` with reference `c`, carries exactly the data `x.data` and the origin
    `x.src`, and is preceded by a registration for that same `f` and `c`. -/
theorem c14_only_for_own_message (b : Bool) (evs : List Ev) :
    ∀ x ∈ (run b evs).fired, ∃ f c cb reply pre post,
      evs = pre ++ Ev.arrive x.arr f c reply true x.data x.src :: post ∧ Ev.register f c cb ∈ pre ∧
      Delivers b f reply :=
  CB.c14_only_for_own_message b evs

/-- non-vacuity: wrong reference, wrong feature, rejected reply, then the right reply -/
example : (run true [.register 1 5 7, .arrive 100 1 6 true true 1 1, .arrive 101 2 5 true true 2 2,
    .arrive 102 1 5 true false 3 3, .arrive 103 1 5 true true 4 4]).fired = [⟨0, 103, 4, 4⟩] := by decide

/-- "Registering the same callback twice for one counter is refused": while a registration of function `cb` for
    counter `c` on feature `f` is waiting, registering it again changes nothing (the call returns the error). -/
theorem c14_duplicate_refused (b : Bool) (s : St) (f c cb : Nat)
    (h : ∃ r ∈ s.regs, r.feat = f ∧ r.ctr = c ∧ r.cb = cb) : step b s (.register f c cb) = s :=
  CB.c14_duplicate_refused b s f c cb h

/-- non-vacuity: the second registration is refused, a different function and a different counter are not -/
example : ((run true [.register 1 5 7, .register 1 5 7, .register 1 5 8, .register 1 6 7]).regs.map (·.id)) = [0, 1, 2] := by
  decide

/-- Second sentence, "each result callback registered on a feature is invoked … for every result message that
    feature receives which references a request": a result callback registered on `f` is invoked by every later
    result section of `f`, with the result's data and origin — every member, every history. -/
theorem c14_result_every_result (b : Bool) (pre mid post : List Ev) (f cb a d src : Nat) :
    ⟨(run b pre).next, a, d, src⟩ ∈
      (run b (pre ++ [Ev.registerResult f cb] ++ mid ++ Ev.resultCbs a f d src :: post)).resFired := by
  have h := CB.result_registered b pre f cb
  exact CB.c14_result_fires b (pre ++ [Ev.registerResult f cb]) mid post ⟨(run b pre).next, f, 0, cb⟩ a d src h

/-- Second sentence, "invoked *once*": for distinct result messages (pairwise distinct arrival numbers) no result
    callback is invoked twice for one result. -/
theorem c14_result_at_most_once (b : Bool) (evs : List Ev) (hnd : (resArrivals evs).Nodup) (r a : Nat) :
    ((run b evs).resFired.map fun x => (x.reg, x.arr)).count (r, a) ≤ 1 :=
  CB.c14_result_at_most_once b evs hnd r a

/-- Second sentence, both halves: exactly one invocation per (result callback, later result of its feature). -/
theorem c14_result_exactly_once (b : Bool) (pre mid post : List Ev) (f cb a d src : Nat)
    (hnd : (resArrivals (pre ++ [Ev.registerResult f cb] ++ mid ++ Ev.resultCbs a f d src :: post)).Nodup) :
    ((run b (pre ++ [Ev.registerResult f cb] ++ mid ++ Ev.resultCbs a f d src :: post)).resFired.map
      fun x => (x.reg, x.arr)).count ((run b pre).next, a) = 1 := by
  have hle := c14_result_at_most_once b _ hnd (run b pre).next a
  have hmem := c14_result_every_result b pre mid post f cb a d src
  have hpos : 0 < ((run b (pre ++ [Ev.registerResult f cb] ++ mid ++ Ev.resultCbs a f d src :: post)).resFired.map
      fun x => (x.reg, x.arr)).count ((run b pre).next, a) :=
    List.count_pos_iff.mpr (List.mem_map.mpr ⟨_, hmem, rfl⟩)
  omega

/-- Result callbacks are invoked by nothing but results of their own feature that arrive after the registration
    (never by a reply, never by a result for another feature), and carry that result's data and origin. -/
theorem c14_result_only_for_result (b : Bool) (evs : List Ev) :
    ∀ x ∈ (run b evs).resFired, ∃ f cb pre post,
      evs = pre ++ Ev.resultCbs x.arr f x.data x.src :: post ∧ Ev.registerResult f cb ∈ pre :=
  CB.c14_result_only_for_result b evs

/-- non-vacuity of the four result theorems: two result callbacks on feature 1 (one registered late), one on
    feature 2; a reply and two results for feature 1 -/
example : (run true [.registerResult 1 7, .registerResult 2 7, .arrive 100 1 5 true true 1 1,
    .arrive 101 1 5 false true 2 1, .resultCbs 101 1 2 1, .registerResult 1 8,
    .arrive 102 1 6 false true 3 1, .resultCbs 102 1 3 1]).resFired
    = [⟨0, 101, 2, 1⟩, ⟨0, 102, 3, 1⟩, ⟨2, 102, 3, 1⟩] := by decide

/-! ### what "the right message" means here: (feature, counter), not the peer

Counters are drawn per connection, the registry is keyed by (feature, counter): which registrations an arrival
consumes does not depend on where it comes from. The statement identifies the message the same way ("registered on a
local feature for a message counter … a reply or a result referencing that counter arrives for that feature … never
for another reference or another feature"), so the following is within its letter; it is recorded because an
application that sends the same counter to two peers gets the callback meant for one invoked by the other
(decision and reasons: props/C14.py, level_note). -/

/-- which registrations an arrival invokes, and which stay, is a function of (feature, reference, kind, accepted)
    only — the data and the originating remote feature are handed over, never looked at -/
theorem c14_selection_ignores_origin (b : Bool) (s : St) (a f ref : Nat) (reply acc : Bool) (d₁ s₁ d₂ s₂ : Nat) :
    (step b s (.arrive a f ref reply acc d₁ s₁)).regs = (step b s (.arrive a f ref reply acc d₂ s₂)).regs ∧
    (step b s (.arrive a f ref reply acc d₁ s₁)).fired.map (·.reg) =
      (step b s (.arrive a f ref reply acc d₂ s₂)).fired.map (·.reg) := by
  simp only [step]
  split
  · exact ⟨rfl, rfl⟩
  · refine ⟨rfl, ?_⟩
    simp only [List.map_append, List.map_map]
    congr 1

/-- the cross-peer schedule: the application asks peer A (origin 1) and peer B (origin 2), both requests carry
    counter 4, it registers one callback per request; B's reply arrives first and invokes BOTH (each exactly once,
    with B's data and B as origin), A's reply then invokes nothing -/
theorem c14_cross_peer_consumption_witness :
    (run false [.register 1 4 7, .register 1 4 8, .arrive 100 1 4 true true 22 2, .arrive 101 1 4 true true 11 1]).fired
      = [⟨0, 100, 22, 2⟩, ⟨1, 100, 22, 2⟩] := by decide

/-! ### the waiting list neither leaks nor interferes

A processed arrival removes exactly the registrations of its own key: none for that key stays behind (the map entry
is deleted, `processResponseMsgCallbacks`), the registrations waiting for any other (feature, counter) are the same
list afterwards, and over a whole history every identifier ever handed out is accounted for — it waits, it was
invoked, or it is a result callback. So a registration never disappears without having been invoked. -/

/-- an arrival that is processed leaves no registration waiting for its key -/
theorem c14_delivery_clears_key (b : Bool) (s : St) (a f ref d src : Nat) (reply : Bool)
    (hproc : ¬ (b = true ∧ f = 0 ∧ reply = true)) :
    ∀ r ∈ (step b s (.arrive a f ref reply true d src)).regs, isFor f ref r = false := by
  intro r hr
  simp only [step] at hr
  split at hr
  · rename_i hc
    exfalso; apply hproc
    simp only [Bool.not_true, Bool.false_or, Bool.and_eq_true, decide_eq_true_eq] at hc
    exact ⟨hc.1.1, hc.1.2, hc.2⟩
  · have := (List.mem_filter.mp hr).2
    simpa using this

/-- … and touches no registration of another key: what waits for another (feature, counter) is the same list -/
theorem c14_arrival_frames_other_keys (b : Bool) (s : St) (a f ref d src : Nat) (reply acc : Bool) (f' ref' : Nat)
    (hk : ¬ (f' = f ∧ ref' = ref)) :
    (step b s (.arrive a f ref reply acc d src)).regs.filter (isFor f' ref') = s.regs.filter (isFor f' ref') := by
  simp only [step]
  split
  · rfl
  · rw [List.filter_filter]
    apply List.filter_congr
    intro r _
    simp only [isFor]
    by_cases h1 : r.feat = f' <;> by_cases h2 : r.ctr = ref' <;> simp [h1, h2]
    subst h1; subst h2
    by_cases hf : r.feat = f
    · right; intro hr; exact hk ⟨hf, hr⟩
    · left; exact hf

/-- conservation: every identifier handed out so far belongs to a waiting registration, an invoked one or a result
    callback — nothing is dropped without being invoked -/
theorem c14_conservation (b : Bool) (evs : List Ev) :
    (run b evs).regs.length + (run b evs).fired.length + (run b evs).resRegs.length = (run b evs).next := by
  induction evs using snoc_induction with
  | nil => rfl
  | snoc l e ih =>
    rw [run_snoc]
    generalize run b l = s at ih ⊢
    cases e with
    | register f c cb =>
      simp only [step]; split
      · exact ih
      · simp only [List.length_append, List.length_cons, List.length_nil]; omega
    | registerResult f cb => simp only [step, List.length_append, List.length_cons, List.length_nil]; omega
    | resultCbs a f d src => simpa only [step] using ih
    | arrive a f ref reply acc d src =>
      simp only [step]; split
      · exact ih
      · simp only [List.length_append, List.length_map]
        have := length_filter_add (isFor f ref) s.regs
        omega

/-- the hypotheses are met and the conclusions are not empty: two keys wait, one is delivered -/
example : (run false [.register 1 5 7, .register 1 6 7, .registerResult 1 9, .arrive 100 1 5 true true 3 2]).regs.map (·.ctr) = [6]
    ∧ (run false [.register 1 5 7, .register 1 6 7, .registerResult 1 9, .arrive 100 1 5 true true 3 2]).next = 3 := by decide

end Spine.Props.C14
