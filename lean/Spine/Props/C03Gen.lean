import Spine.OpsInfo
import Spine.Generated.OpsInfo
/-!
# C03 — "the written function is ANNOUNCED as writable": facts regenerated from the tree under test on every run

The write gate of `ProcessCmd` asks `Operations()[fn].Write()`; what a peer is TOLD is `Operations.Information()`
inside `FeatureLocal.Information()` inside the detailed discovery reply. The property speaks about the announcement.
The translator (generator `opsinfo`, go/cmd/translate/gen_opsinfo.go) RUNS the real functions: `Information()` over all
sixteen flag combinations of an `Operations` object, and the chain `AddFunctionType(fn, read, write)` →
`Information()` / `Operations()` on a real feature for every read / write combination of a function with and one
without partial-write support. These theorems are re-checked over the regenerated tables by every `./check C03`:
a tree in which a WRITE-ONLY function is announced without its write element (or a function is announced writable
while the gate refuses it) breaks the obligation named here. (The dynamic face — a write judged by the announcement —
is TestDispatch's monitor.)
-/
namespace Spine.Props.C03Gen
open Spine Spine.OpsInfo

def possOf (r : Bool × Bool × Bool × Bool × Option Bool × Option Bool) : Poss := ⟨r.2.2.2.2.1, r.2.2.2.2.2⟩
def opsOf (r : Bool × Bool × Bool × Bool × Option Bool × Option Bool) : Ops := ⟨r.1, r.2.1, r.2.2.1, r.2.2.2.1⟩

/-- the transcription `OpsInfo.info` IS `Operations.Information()` of the tree under test, on every one of the sixteen
    flag combinations (the table lists all of them) -/
theorem c03_information_is_model :
    (Generated.OpsInfo.ops.all fun r => info (opsOf r) == possOf r) = true ∧
    (Generated.OpsInfo.ops.map opsOf) = allOps := by decide

/-- … hence, for the code as regenerated: an `Operations` object is announced as writable iff `Write()` is true —
    whatever its read flags; a write-only function is announced writable, a function without write permission never -/
theorem c03_announced_writable_iff_write_flag :
    (Generated.OpsInfo.ops.all fun r => annWritable (possOf r) == r.2.2.1) = true := by decide

/-- the chain on a real feature: after `AddFunctionType(fn, read, write)` the function is listed in the feature's
    discovery information, `Operations()[fn]` exists, and the gate's flag (`.Write()`) equals the announced one
    (write element present) — for read-write, read-only, WRITE-ONLY and no-operation announcements, with and without
    partial-write support; the partial tag is announced iff the gate's object says `WritePartial()` -/
theorem c03_gate_flag_is_announced_flag :
    (Generated.OpsInfo.feat.all fun r =>
      r.2.2.2.1 && r.2.2.2.2.2.2.1 &&                                   -- listed, operations object present
      (r.2.2.2.2.2.2.2.1 == r.2.2.2.2.2.1.isSome) &&                    -- gate Write() = write element announced
      (r.2.2.2.2.2.2.2.1 == r.2.1) &&                                   -- … = the write flag given to AddFunctionType
      (r.2.2.2.2.1.isSome == r.1) &&                                    -- read element announced = the read flag
      (r.2.2.2.2.2.2.2.2 == (r.2.2.2.2.2.1 == some true))) = true ∧     -- WritePartial() = partial tag announced
    Generated.OpsInfo.feat.length = 8 := by decide

/-- non-vacuity: the table has the write-only rows, announced writable, and the no-write rows, not announced writable -/
example : (Generated.OpsInfo.feat.filter fun r => !r.1 && r.2.1).length = 2 ∧
    (Generated.OpsInfo.feat.filter fun r => !r.1 && r.2.1 && r.2.2.2.2.2.1.isSome).length = 2 ∧
    (Generated.OpsInfo.feat.filter fun r => !r.2.1 && r.2.2.2.2.2.1.isSome).length = 0 ∧
    (Generated.OpsInfo.feat.filter fun r => r.2.2.2.2.2.1 == some true).length = 2 := by decide

end Spine.Props.C03Gen
