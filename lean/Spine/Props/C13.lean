import Spine.SenderThm
import Spine.Counter
import Spine.SenderLru
import Spine.SenderSpec
import Spine.SenderEvThm
import Spine.SenderLruExact
/-!
# C13 — outbound message identity and request de-duplication

Property theorems only (helper lemmas live in `Spine/SenderThm.lean`, `Spine/Counter.lean`).
Model: `Spine.Snd` (sequential sender: counter, unanswered-request cache with eviction of the
lowest counter beyond `limit`, notify LRU of the third-party library, `get` promotes) and
`Spine.Ctr` (event-sourced counter: `take` = atomic fetch-add, `emit` = write).
-/
namespace Spine.Props.C13
open Spine

/-- Every datagram written to a connection carries a counter no other datagram carries,
    under every interleaving of any number of concurrent senders. -/
theorem c13_unique (evs : List Ctr.Ev) : (evs.foldl Ctr.step {}).wire.Nodup :=
  Ctr.c13_unique evs

/-- Counters strictly increase in issue order whenever calls do not overlap. -/
theorem c13_monotone_nonoverlap (s : Ctr.St) (h : Ctr.Inv s) (op : Nat) :
    ∀ c ∈ s.wire, c < (Ctr.step s (.take op)).msgNum :=
  Ctr.c13_monotone_nonoverlap s h op

/-- non-vacuity: a reachable state with datagrams on the wire satisfies the invariant -/
example : Ctr.Inv ([Ctr.Ev.take 1, .take 2, .emit 2, .emit 1].foldl Ctr.step {}) ∧
    ([Ctr.Ev.take 1, .take 2, .emit 2, .emit 1].foldl Ctr.step {}).wire = [2, 1] := by
  refine ⟨?_, by decide⟩
  unfold Ctr.Inv; decide

/-- The memory of unanswered requests stays bounded (≤ limit + 1 entries), holds at most one
    entry per request and only issued counters — for every history of operations. -/
theorem c13_cache_bounded (ops : List Snd.Op) : Snd.Inv (ops.foldl Snd.step {}) :=
  Snd.history_inv ops

/-- A request is withheld as a duplicate only if an identical request is unanswered, and then
    the earlier counter is returned. -/
theorem c13_withheld_only_if (s : Snd.St) (h c : Nat) (hw : Snd.request s h = (s, c, false)) :
    (c, h) ∈ s.req :=
  Snd.withheld_only_if s h c hw

/-- A different request is never withheld. -/
theorem c13_distinct_never_withheld (s : Snd.St) (h : Nat) (hn : h ∉ s.req.map (·.2)) :
    (Snd.request s h).2.2 = true :=
  Snd.distinct_never_withheld s h hn

/-- A response referencing the counter of an unanswered request re-enables sending. -/
theorem c13_response_reenables (s : Snd.St) (c h : Nat) (hi : Snd.Inv s) (hm : (c, h) ∈ s.req) :
    (Snd.request (Snd.response s c) h).2.2 = true :=
  Snd.response_reenables s c h hi hm

/-- non-vacuity of the three statements above: a history with a withheld request -/
def exSt : Snd.St := [Snd.Op.request 7, .request 8].foldl Snd.step {}
example : (Snd.request exSt 7).2 = (1, false) ∧ (1, 7) ∈ exSt.req ∧ 9 ∉ exSt.req.map (·.2) := by decide

/-- MODEL ⊨ SPEC for the de-duplication clauses as one statement over histories: the SPEC is the
    executable monitor `Snd.Spec.run` (the same predicate the Go harness evaluates on the real
    Sender's trace): a request may be withheld only if an identical request was written and not
    answered since, and then exactly that request's counter is returned. From the initial state
    every history of the model passes it. -/
theorem c13_model_satisfies_spec (ops : List Snd.Op) :
    (Snd.Spec.run [] (Snd.observations {} ops)).isSome :=
  Snd.model_satisfies_spec ops {} [] (by intro c h hm; simp at hm)

/-- non-vacuity: the monitor does reject a wrong withholding (so passing it means something) -/
example : Snd.Spec.run [] [.req 7 1 true, .resp 1, .req 7 1 false] = none := by decide
example : (Snd.Spec.run [] [.req 7 1 true, .req 7 1 false, .resp 1, .req 7 2 true]).isSome := by decide

/-- REFUTED on the code as written (known finding `lru-promotion`): "the datagram of any of the
    last 100 notifications can be retrieved by its counter" — after 100 notifications a lookup of
    the oldest promotes it and the next notification evicts the second oldest. -/
theorem c13_last100_refuted :
    let s := ((List.replicate 100 Snd.Op.notify) ++ [Snd.Op.get 1, Snd.Op.notify]).foldl Snd.step {}
    (Snd.get s 2).2 = false ∧ 2 + 100 > s.msgNum :=
  Snd.last100_refuted

/-- PARTIAL (the region where the last-100 clause holds): in every history without lookups — a
    lookup is what promotes an old entry — each of the most recent 100 notifications is retrievable
    by its counter. `Snd.notified {} ops` lists the notification counters, most recent first. -/
theorem c13_last100_partial (ops : List Snd.Op) (hg : ∀ op ∈ ops, Snd.isGet op = false) (c : Nat)
    (hc : c ∈ (Snd.notified {} ops).take 100) : (Snd.get (ops.foldl Snd.step {}) c).2 = true := by
  have h := Snd.lru_eq_recent ops {} hg (by simp) (by decide)
  have hm : c ∈ (ops.foldl Snd.step {}).lru := by
    rw [h]; simpa using hc
  unfold Snd.get
  simp [hm]

/-- non-vacuity: 150 notifications, the 100 most recent counters are 150 … 51 -/
example : (Snd.notified {} (List.replicate 150 Snd.Op.notify)).take 100 = (List.range' 51 100).reverse := by
  decide +kernel

/-- "Notify stores the datagram before sending": in EVERY state (whatever lookups happened before) the
    notification just produced is retrievable by its counter — this is what a peer's immediate answer, handled
    while `Notify` is still inside the connection's write, relies on — and that lookup leaves the cache as it
    is when the counter is fresh (the newest entry is already the most recently used one). -/
theorem c13_notify_retrievable_at_once (s : Snd.St) :
    (Snd.get (Snd.notify s).1 (Snd.notify s).2).2 = true ∧
    (s.msgNum + 1 ∉ s.lru → (Snd.get (Snd.notify s).1 (Snd.notify s).2).1 = (Snd.notify s).1) := by
  constructor
  · simp [Snd.get, Snd.notify]
  · intro hf
    have hd : s.msgNum + 1 ∉ s.lru.dropLast := fun h => hf (List.dropLast_subset _ h)
    simp only [Snd.get, Snd.notify]
    split
    · simp only [List.contains_cons, BEq.rfl, Bool.true_or, if_true, List.filter_cons, ne_eq, not_true_eq_false,
        decide_false, Bool.false_eq_true, if_false]
      rw [List.filter_eq_self.mpr]
      intro a ha
      have : a ≠ s.msgNum + 1 := fun e => hd (e ▸ ha)
      exact decide_eq_true this
    · simp only [List.contains_cons, BEq.rfl, Bool.true_or, if_true, List.filter_cons, ne_eq, not_true_eq_false,
        decide_false, Bool.false_eq_true, if_false]
      rw [List.filter_eq_self.mpr]
      intro a ha
      have : a ≠ s.msgNum + 1 := fun e => hf (e ▸ ha)
      exact decide_eq_true this

/-- non-vacuity: after 100 notifications and a promoting lookup the next notification is still retrievable at once -/
example : (Snd.get (Snd.notify (((List.replicate 100 Snd.Op.notify) ++ [Snd.Op.get 1]).foldl Snd.step {})).1 101).2 = true := by
  decide +kernel

/-! ## Request de-duplication against the reader goroutine (event-sourced model `Spine.SndEv`)

`Request` is one critical section only with respect to other callers of `Request`; the response path takes the cache
lock, not `muxRequestSend`, so a response can be processed between "the request is on the connection" and "the
request is remembered" (regenerated facts `responsePathSkipsRequestMutex`, `writeOutsideCacheLock`,
`requestRemembersAfterWrite` / `…BeforeWrite` in `Spine.Props.C13Gen`). `SndEv` splits `Request` there; all
interleavings of any number of callers of `Request` with the reader goroutine = all event lists. The family flag is
`insertFirst` (`false` = code as written, `true` = repaired: remember before the write). -/

/-- "The memory of unanswered requests stays bounded" and holds one entry per request — under EVERY interleaving of
    concurrent `Request` callers with responses, in both members of the family. -/
theorem c13_cache_bounded_all_interleavings (insertFirst : Bool) (evs : List SndEv.Ev) :
    Snd.Inv (SndEv.run insertFirst {} evs).base :=
  (SndEv.run_inv insertFirst evs {} (SndEv.init_inv insertFirst)).base

/-- non-vacuity: a response overtakes the insertion, a second caller waits for the mutex, 25 distinct requests:
    the memory holds 21 entries, the hashes are distinct -/
example : ((SndEv.run false {} ([.reqBegin 1 7, .reqBegin 2 7, .plain (.response 1), .reqEnd 1, .reqBegin 2 7] ++
    SndEv.expand ((List.range 25).map (fun i => Snd.Op.request (100 + i))))).base.req.length = 21) := by decide +kernel

/-- "A request is withheld as a duplicate only while an identical request is unanswered, in which case the earlier
    counter is returned; a response referencing that counter re-enables sending" — REPAIRED member, under EVERY
    interleaving of `Request` callers and the reader goroutine: the observations (requests written / withheld with
    their counters, responses, in event order) pass the SPEC monitor `Snd.Spec.run`, which knows written and answered
    requests only. -/
theorem c13_dedup_sound_all_interleavings (evs : List SndEv.Ev) :
    (Snd.Spec.run [] (SndEv.observations true {} evs)).isSome :=
  SndEv.run_coupled true evs {} [] (SndEv.init_coupled true) (by intro h; cases h)

/-- REFUTED on the code as written (known finding `answer-overtakes-insert`): the response to request 1 is processed
    after the datagram is on the connection and before `Request` has remembered it; the insertion then records an
    answered request as unanswered, and the identical request 2 is withheld with counter 1 — the monitor rejects. The
    same schedule passes in the repaired member. -/
theorem c13_answer_overtakes_insert_refuted :
    Snd.Spec.run [] (SndEv.observations false {}
      [.reqBegin 1 7, .plain (.response 1), .reqEnd 1, .reqBegin 2 7]) = none ∧
    (SndEv.run false {} [.reqBegin 1 7, .plain (.response 1), .reqEnd 1]).base.req = [(1, 7)] ∧
    (Snd.Spec.run [] (SndEv.observations true {}
      [.reqBegin 1 7, .plain (.response 1), .reqEnd 1, .reqBegin 2 7])).isSome ∧
    (SndEv.run true {} [.reqBegin 1 7, .plain (.response 1), .reqEnd 1]).base.req = [] := by decide

/-- PARTIAL, code as written (the region where the de-duplication clauses hold): every interleaving in which no
    response references the counter of the request that is in flight at that moment (between its write and its
    insertion) — responses to any other counter may arrive there. -/
theorem c13_dedup_sound_partial (evs : List SndEv.Ev) (hcalm : SndEv.calm false {} evs = true) :
    (Snd.Spec.run [] (SndEv.observations false {} evs)).isSome :=
  SndEv.run_coupled false evs {} [] (SndEv.init_coupled false) (fun _ => hcalm)

/-- non-vacuity: a calm history of the member as written with a response to ANOTHER counter inside the window, a
    waiting second caller and a legitimate withholding; and the witness above is not calm -/
example : SndEv.calm false {} [.reqBegin 1 7, .reqEnd 1, .reqBegin 2 8, .reqBegin 3 7, .plain (.response 1), .reqEnd 2,
      .reqBegin 3 7, .reqEnd 3, .reqBegin 4 8] = true ∧
    SndEv.observations false {} [.reqBegin 1 7, .reqEnd 1, .reqBegin 2 8, .reqBegin 3 7, .plain (.response 1), .reqEnd 2,
      .reqBegin 3 7, .reqEnd 3, .reqBegin 4 8] = [.req 7 1 true, .req 8 2 true, .resp 1, .req 7 3 true, .req 8 2 false] ∧
    SndEv.calm false {} [.reqBegin 1 7, .plain (.response 1), .reqEnd 1, .reqBegin 2 7] = false := by decide

/-- Cross-model agreement: the sequential model `Spine.Snd` (the one the op-by-op correspondence drives) is the
    non-overlapping fragment of the event-sourced model, in BOTH members — a history in which every `Request` runs to
    its end before the next operation yields the same state; so the repair does not change sequential behaviour. -/
theorem c13_event_model_refines_sequential (insertFirst : Bool) (ops : List Snd.Op) :
    SndEv.run insertFirst {} (SndEv.expand ops) = { base := ops.foldl Snd.step {}, held := none } :=
  SndEv.seq_refines insertFirst ops {}

/-- non-vacuity: a sequential history with a withheld request and an answered one -/
example : (SndEv.run false {} (SndEv.expand [.request 7, .request 7, .response 1, .request 7, .notify])).base.req = [(2, 7)] ∧
    (SndEv.run false {} (SndEv.expand [.request 7, .request 7, .response 1, .request 7, .notify])).base.msgNum = 3 := by decide

/-! ## The last-100 clause: exactly what the LRU retains -/

/-- EXACT characterisation (every history, lookups included): the notify cache holds precisely the 100 most recently
    TOUCHED distinct counters — a notification touches its counter, a lookup that hits touches the counter looked up.
    So a notification is retrievable iff fewer than 100 distinct counters were touched after its most recent touch. -/
theorem c13_lru_exact (ops : List Snd.Op) (c : Nat) :
    (Snd.get (ops.foldl Snd.step {}) c).2 = true ↔ c ∈ (Snd.dedup (Snd.touches {} ops)).take 100 :=
  Snd.retrievable_iff ops c

/-- PARTIAL, as wide as the library allows: in EVERY history, with g the number of lookups that hit, each of the
    most recent (100 − g) notifications is retrievable (g = 0: `c13_last100_partial`). The bound is tight: in the
    witness of `c13_last100_refuted` g = 1, the 99 most recent notifications are retrievable and the 100th is not. -/
theorem c13_last100_partial_wide (ops : List Snd.Op) (c : Nat)
    (hc : c ∈ (Snd.notified {} ops).take (100 - Snd.hits {} ops)) :
    (Snd.get (ops.foldl Snd.step {}) c).2 = true :=
  Snd.last100_partial_wide ops c hc

/-- non-vacuity and tightness on the witness history -/
example : Snd.hits {} Snd.exHist = 1 ∧
    (Snd.notified {} Snd.exHist).take (100 - Snd.hits {} Snd.exHist) = (List.range 99).map (101 - ·) ∧
    (Snd.notified {} Snd.exHist)[99]? = some 2 ∧ (Snd.get (Snd.exHist.foldl Snd.step {}) 2).2 = false := by
  decide +kernel

end Spine.Props.C13
