import Spine.DiscoveryConc
import Spine.Generated.Managers
import Spine.Generated.Cascade
/-!
# C06 — the cascade clause for all interleavings, FROM the critical-section facts of the current source (tie b1)

`Spine/Props/C06Conc.lean` proves "exactly the removed entity's entries are gone, nothing of another peer is lost" for
every interleaving of the cascade with other peers' requests — for passes that are ONE critical section, and refutes it
for a pass that takes a snapshot, releases the lock and writes the filtered snapshot back. Which of the two the code is
is a fact of the source text: re-extracted from `/repo`'s current tree on every run by the translator generators
`managers` (the two managers: all four per-entity / per-device remove functions, the four request operations) and
`cascade` (the bookkeeping lists of `FeatureLocal`: the two clean-ups, the application's adds and removes; the handler
of entity removals). Here the model is instantiated with THOSE facts: the theorems below are about
`lrun <fact read from the source> …`, so a pass that stops being one region breaks them.
-/
namespace Spine.Props.C06Gen
open Spine Spine.Disc Spine.Disc.Conc

/-- is the pass over the subscription entries one exclusive region — read from the source -/
def subsAtomic : Bool := Generated.Managers.removeSubscriptionsForEntityOneRegion
/-- … over the binding entries -/
def bindsAtomic : Bool := Generated.Managers.removeBindingsForEntityOneRegion
/-- … over each bookkeeping list of a local feature -/
def cacheAtomic : Bool := Generated.Cascade.cleanEntityCachesOneRegion

/-- the three per-entity passes of the cascade are one exclusive region each (read – filter – events – write-back under
    one acquisition of the list's mutex, the list touched nowhere without it), and the bookkeeping pass covers every
    bookkeeping list of the feature -/
theorem c06gen_passes_are_one_region :
    subsAtomic = true ∧ bindsAtomic = true ∧ cacheAtomic = true ∧
    Generated.Cascade.cleanEntityCachesCoversAllLists = true ∧ Generated.Cascade.bookkeepingLists ≥ 1 := by decide

/-- the operations of OTHER connections and of the application on the same lists are one exclusive region each
    (check and append, filter and write-back): the `add` / `del` events of the model -/
theorem c06gen_requests_are_one_region :
    Generated.Managers.addSubscriptionOneRegion = true ∧ Generated.Managers.addBindingOneRegion = true ∧
    Generated.Managers.removeSubscriptionOneRegion = true ∧ Generated.Managers.removeBindingOneRegion = true ∧
    Generated.Cascade.bookkeepingAddsOneRegion = true ∧ Generated.Cascade.bookkeepingRemovesOneRegion = true := by decide

/-- the per-device functions (disconnect of ANOTHER peer while the cascade runs) touch the lists only through the same
    kind of pass -/
theorem c06gen_device_passes :
    Generated.Managers.forDeviceDelegates = true ∧ Generated.Cascade.cleanDeviceCachesOneRegion = true ∧
    Generated.Cascade.deviceCleanDelegates = true := by decide

/-- every function that removes an announced entity runs all three clean-ups for it: the cascade of the model
    (`Spine.Disc.dropEntity`: subscriptions, bindings, both bookkeeping lists) is what the handler calls -/
theorem c06gen_removal_runs_all_cleanups :
    Generated.Cascade.removalRunsAllCleanups = true ∧ Generated.Cascade.removalHandlers ≥ 1 := by decide

/-- **Nothing of another peer is lost — for the passes as the source has them.** A binding request of a peer `q ≠ p`
    granted at any point of any interleaving with the cascade passes of peer `p` is registered at the end unless `q`
    deletes it again. -/
theorem c06gen_other_peers_binding_survives (p : Nat) (c0 : List RE) (pre post : List (LEv RE)) (e : RE)
    (hq : e.peer ≠ p) (hg : grantBind (lrun bindsAtomic (keepBind Cfg.clean p) grantBind { cur := c0 } pre).cur e = true)
    (hd : ∀ ev ∈ post, ev ≠ .del e) :
    e ∈ (lrun bindsAtomic (keepBind Cfg.clean p) grantBind { cur := c0 } (pre ++ .add e :: post)).cur := by
  have h : bindsAtomic = true := by decide
  rw [h] at hg ⊢
  exact granted_add_survives _ _ c0 pre post e hg hd (fun k _ => by simp [keepBind, Cfg.clean, hq])

theorem c06gen_other_peers_subscription_survives (p : Nat) (c0 : List RE) (pre post : List (LEv RE)) (e : RE)
    (hq : e.peer ≠ p) (hg : grantSub (lrun subsAtomic (keepSub p) grantSub { cur := c0 } pre).cur e = true)
    (hd : ∀ ev ∈ post, ev ≠ .del e) :
    e ∈ (lrun subsAtomic (keepSub p) grantSub { cur := c0 } (pre ++ .add e :: post)).cur := by
  have h : subsAtomic = true := by decide
  rw [h] at hg ⊢
  exact granted_add_survives _ _ c0 pre post e hg hd (fun k _ => by simp [keepSub, hq])

theorem c06gen_other_peers_bookkeeping_survives (p : Nat) (c0 : List CE) (pre post : List (LEv CE)) (e : CE)
    (hq : e.peer ≠ p) (hg : grantCE (lrun cacheAtomic (keepCE p) grantCE { cur := c0 } pre).cur e = true)
    (hd : ∀ ev ∈ post, ev ≠ .del e) :
    e ∈ (lrun cacheAtomic (keepCE p) grantCE { cur := c0 } (pre ++ .add e :: post)).cur := by
  have h : cacheAtomic = true := by decide
  rw [h] at hg ⊢
  exact granted_add_survives _ _ c0 pre post e hg hd (fun k _ => by simp [keepCE, hq])

/-- **Exactly the removed entities' entries are gone — for the passes as the source has them**, all interleavings -/
theorem c06gen_cascade_concurrent_exact (p : Nat) (c0 : List RE) (evs : List (LEv RE))
    (ho : OkAdds (keepBind Cfg.clean p) [] evs) :
    (lrun bindsAtomic (keepBind Cfg.clean p) grantBind { cur := c0 } evs).cur
      = (eff (lrun bindsAtomic (keepBind Cfg.clean p) grantBind { cur := c0 } evs).answers c0).filter
          (fun e => (passes evs).all (fun k => keepBind Cfg.clean p k e)) := by
  have h : bindsAtomic = true := by decide
  rw [h]
  exact lrun_atomic_exact _ _ c0 evs ho

/-- non-vacuity: the same statement about a source whose pass is NOT one region is false (peer 2's binding, granted
    between snapshot and write-back, is gone) -/
example : ¬ (⟨2, [1], 1, [2], 1⟩ : RE) ∈ (lrun (!bindsAtomic) (keepBind Cfg.clean 1) grantBind { cur := [⟨1, [1], 1, [1], 1⟩] }
    ([.snap [1]] ++ .add ⟨2, [1], 1, [2], 1⟩ :: [.write [1]])).cur := by decide

example : (⟨2, [1], 1, [2], 1⟩ : RE) ∈ (lrun bindsAtomic (keepBind Cfg.clean 1) grantBind { cur := [⟨1, [1], 1, [1], 1⟩] }
    ([.snap [1]] ++ .add ⟨2, [1], 1, [2], 1⟩ :: [.write [1]])).cur := by decide

end Spine.Props.C06Gen
