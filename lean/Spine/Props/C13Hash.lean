import Spine.SenderKeyThm
import Spine.Generated.SenderHash
/-!
# C13 — which parts of a request flow into its de-duplication identity: regenerated from the source on every run

`Spine.SndK` models `Sender.hashForMessage` as a function of the request key (destination device, entity path, feature;
the command list). That the REAL function looks at all of it is a fact about the source text: the generator `hashflow`
(go/hashflow, go/packages + go/ssa of the tree under test) walks from `Sender.Request` through every helper to the
places where the request cache (the map field keyed by — or holding — the message counter) is written and compared,
and computes by an interprocedural backward data-flow over SSA which access paths of `Request`'s parameters reach the
identity stored there and the identity looked up: the whole `[]model.CmdType` slice (not `cmd[0]`, not a prefix, not
its length only), and device, entity path and feature of the destination (through `FeatureAddressType.String()` in
package model, or a hand-written rendering). Helpers extracted or inlined, unexported renames, hashing in a loop, a
hasher object instead of `Sum256`, a `strings.Builder` instead of `Sprintf`, a cache keyed by the hash leave the facts
unchanged. A change that drops a component flips its fact, and the obligation below no longer checks.
-/
namespace Spine.Props.C13Hash
open Spine Spine.SndK

/-- the coverage of the tree under test, as regenerated -/
def cov : Coverage :=
  ⟨Generated.SenderHash.identityCoversDevice, Generated.SenderHash.identityCoversEntity,
   Generated.SenderHash.identityCoversFeature, Generated.SenderHash.identityCoversWholeCmdList⟩

/-- The identity `Request` stores and looks up covers the destination's device, entity path and feature and the
    ENTIRE command slice: the model's abstraction "hash = injective function of the whole key" is the abstraction of
    this tree (with A-hash: SHA-256 and the rendering injective). -/
theorem c13gen_identity_covers_whole_request : cov = Coverage.full := by decide

/-- every field of `model.FeatureAddressType` is covered (a field added to the address type later is noticed) -/
theorem c13gen_identity_covers_all_destination_fields : Generated.SenderHash.identityCoversAllDestFields = true := by
  decide

/-- the identity compared in the lookup is the identity stored (same data flow from the same parameters), and both
    sites exist -/
theorem c13gen_lookup_uses_stored_identity :
    Generated.SenderHash.lookupUsesStoredIdentity = true ∧ 0 < Generated.SenderHash.storeSites ∧
    0 < Generated.SenderHash.lookupSites := by decide

/-- hence, for the coverage of THIS tree, the keyed model satisfies the key-level SPEC on every history ("withheld
    only while a request with the same destination and the same command list is unanswered; a different request is
    never withheld") — whereas for any smaller coverage it is refuted (`C13Key.c13_partial_identity_refuted`). -/
theorem c13gen_identity_sound (ops : List OpK) :
    (SpecK.run [] (observationsK (hashWith cov) {} ops)).isSome := by
  have h : hashWith cov = Key.hash := by
    funext k
    rw [hashWith, c13gen_identity_covers_whole_request, Key.proj_full]
  rw [h]
  exact keyed_satisfies_spec Key.hash Key.hash_inj ops

/-- non-vacuity: with this tree's coverage the seeded-class history (same first command, different tail; different
    length) is sent request by request -/
example : observationsK (hashWith cov) {} [.request ⟨⟨1, [1], 1⟩, [1, 2]⟩, .request ⟨⟨1, [1], 1⟩, [1, 3]⟩,
      .request ⟨⟨1, [1], 1⟩, [1]⟩, .request ⟨⟨1, [1], 1⟩, [1, 2]⟩] =
    [.req ⟨⟨1, [1], 1⟩, [1, 2]⟩ 1 true, .req ⟨⟨1, [1], 1⟩, [1, 3]⟩ 2 true, .req ⟨⟨1, [1], 1⟩, [1]⟩ 3 true,
     .req ⟨⟨1, [1], 1⟩, [1, 2]⟩ 1 false] := by decide

end Spine.Props.C13Hash
