import Spine.DiscoveryAgree
/-!
# C06 — agreement of the tree model with the other models' copies of "what a discovery message does"

Kept apart from `Spine/Props/C06.lean` because it imports `Spine/Dispatch.lean`, `Spine/Teardown.lean`,
`Spine/Registry.lean` and `Spine/RobEv.lean` (owned by other checks, read-only here): if one of them is re-shaped only
this module and `Spine/DiscoveryAgree.lean` need adapting. The C06 side is the member of the repaired tree
(`Cfg.clean`: `notifyG`, `notifyFullG`, `replyG`, `World.stepG`).

Abstractions: `absR` (tree ↦ (entity, feature ids), the event layer's tree), `AgreeD` (same feature numbers at every
entity address as the dispatch world's flat feature list), `toRED` / `toRE` / `toBook` (registry entries and client-side
bookkeeping), `toRobEv` (events ↦ (kind, entity)).

Domain boundaries found while proving (each confirmed against the real code with the C06 harness, see the examples):
* `Disp.entRem p [0]`, `Reg.dropEntity … [0]`, `Td.dropEntity … [0]` remove the device-information entity; the repaired
  code skips the entry (711ee79). The C06 model is right; the guard sits in the teardown *driver* only, the dispatch
  generator never sends it. Hence `e ≠ [0]` in the theorems below.
* a known entity WITHOUT features (re-announced with an empty feature list): the dispatch world, the registry and
  teardown do not see it as an entity (`entsOf` / `hasEnt` / `(rem p).map ent` go through features). A full notification
  that lists it makes `Disp.applyFull` ADD it with `fresh` features (the code leaves it untouched), and its removal is a
  no-op there although the code runs the cascade (stale registry entries of the entity go). The C06 model is right.
  Hence `Featured` / `hknown` in the theorems below.
-/
namespace Spine.Props.C06
open Spine Spine.Disc

/-! ## the C05 event layer -/

/-- `c06_event_layer_agrees`: for every tree and every message the C06 model can express — entries about [0], with
    empty address, without entity type, without state change included — the events `RobEv` publishes for a partial
    notification, a full notification and a reply are the events of the C06 model, read as (kind, entity); the trees
    after a partial notification agree through `absR`; a reply with a rejected entry publishes nothing in both. -/
theorem c06_event_layer_agrees (m : MsgG) (t : Tree) (src : List Nat × Nat) :
    Rob.notifyPartialEvents (absR t) (toPayload m) = (notifyG Cfg.clean m t).2.1.map toRobEv ∧
    (Rob.notifyAll (toPayload m).feats (toPayload m).ents (absR t, [])).1 = absR (notifyG Cfg.clean m t).1 ∧
    Rob.notifyFullEvents (absR t) (toPayload m) = (notifyFullG Cfg.clean m t).2.1.map toRobEv ∧
    Rob.replyEvents false (absR t) src (toPayload m) =
      (if (runG (replyEntryG Cfg.clean m.feats) m.ents (t, [])).2
       then ⟨.deviceAdd, true, none, some src, false⟩ :: (replyG Cfg.clean m t).2.map toRobEv else []) := by
  refine ⟨(robEv_partial_agrees m t).1, (robEv_partial_agrees m t).2, robEv_full_agrees m t, ?_⟩
  rw [robEv_reply_agrees, replyG_onlyAdds]

def tA : Tree := [⟨[0], 0, none, [⟨[0], 0, 9, 2, none, []⟩]⟩, ⟨[1], 1, none, [⟨[1], 1, 1, 0, none, []⟩]⟩,
  ⟨[2], 1, none, [⟨[2], 1, 1, 1, none, []⟩]⟩]
/-- [1] removed, [0] listed as removed, an entry that is rejected, [2] never reached -/
def mA : MsgG := ⟨[⟨[1], none, .removed, none⟩, ⟨[0], none, .removed, none⟩, ⟨[1, 1], some 2, .added, none⟩,
  ⟨[], some 1, .added, none⟩, ⟨[2], none, .removed, none⟩], [⟨[1, 1], 1, 4, 1, none, []⟩]⟩
example : Rob.notifyPartialEvents (absR tA) (toPayload mA) = [Rob.entityRemove [1], Rob.entityAdd [1, 1]] ∧
    (notifyG Cfg.clean mA tA).2.1 = [.rem [1], .add [1, 1]] := by decide
example : Rob.notifyFullEvents (absR tA) (toPayload ⟨[⟨[2], some 1, .none, none⟩, ⟨[1, 2], some 1, .none, none⟩], []⟩)
    = [Rob.entityAdd [1, 2], Rob.entityRemove [1]] := by decide

/-! ## the dispatch world -/

/-- `c06_dispatch_full_agrees`: for a well-formed full notification (whether or not it lists [0]) the dispatch op
    `full` and `notifyFullG` end with the same feature numbers at every entity address, the same subscriptions and the
    same bindings — provided the two states agree before (`AgreeD`, registries through `toRED`), every known entity
    carries a feature (the dispatch world's domain) and the features the dispatch world adds for a new entity
    (`w.fresh`) are the ones the message announces. The op is `Disp.step w (.full …)` itself: its projections are
    `applyFull`'s on both of its paths. -/
theorem c06_dispatch_full_agrees (w : Disp.W) (p : Nat) (m : MsgG) (W : World) (ctr : Nat) (ack : Bool)
    (hc : Disp.connected w p = true) (hcfg : w.cfg.entRemovalAnyPeer = false)
    (hsub : W.subs = w.subs.map toRED) (hbind : W.binds = w.binds.map toRED)
    (hw : m.WFfull) (hn : NoEmpty (W.trees p)) (hd : DevInfoOK (W.trees p))
    (hA : AgreeD (W.trees p) (w.peers p).feats) (hF : Featured (W.trees p))
    (hfr : FreshAgrees m w.fresh.feats (W.trees p)) :
    let w' := (Disp.step w (.full p (keepOf m) ctr ack)).1
    let r := W.stepG Cfg.clean p .full m
    AgreeD (r.1.trees p) (w'.peers p).feats ∧ r.1.subs = w'.subs.map toRED ∧ r.1.binds = w'.binds.map toRED := by
  obtain ⟨hp1, hp2, hp3⟩ := dispatch_step_full_proj w p (keepOf m) ctr ack hc
  obtain ⟨hr1, hr2⟩ := dispatch_full_registries w p m W hcfg hsub hbind hw hn hd hA hF
  simp only
  rw [hp1 p, hp2, hp3]
  refine ⟨?_, hr1, hr2⟩
  have : (W.stepG Cfg.clean p .full m).1.trees p = (notifyFullG Cfg.clean m (W.trees p)).1 := by
    simp only [World.stepG]
    rw [cascade_trees]
    simp [setTree]
    rfl
  rw [this]
  exact dispatch_full_tree w p m (W.trees p) hw hn (storedNM_known hd) hA hF hfr

/-- the exclusion of `Disp.full`, explicit and decidable: `dispFullExcluded m` ⇔ the notification omits [0] or is not
    well formed; on its complement (`c06_dispatch_full_agrees` needs only `WFfull`, so on "omits [0]" as well) the two
    models agree, and the C06 model is total on the rest: a malformed notification is processed up to the rejected
    entry (`c06_rejected_entry_stops`), keeps [0] (`c06_device_information_kept`) and runs the exact cascade
    (`c06_cascade_head`). -/
theorem c06_dispatch_full_domain (m : MsgG) :
    (dispFullExcluded m = false ↔ ([0] ∈ keepOf m ∧ m.WFfull)) ∧
    (dispFullExcluded m = true ↔ ([0] ∉ keepOf m ∨ ¬ m.WFfull)) :=
  ⟨dispFull_domain m, dispFull_excluded_cases m⟩

/-- a dispatch world and a C06 world in agreement: peer 1 announces [0] (feature 0), [1] (feature 1), [2] (feature 1) -/
def wD : Disp.W :=
  { loc := [], binds := [(([1], 1), 1, ([1], 1)), (([1], 2), 1, ([2], 1))], subs := [(([1], 1), 1, ([2], 1))],
    cfg := Disp.Cfg.clean,
    peers := fun _ => ⟨[{ ent := [0], feat := 0, fds := [] }, { ent := [1], feat := 1, fds := [] }, { ent := [2], feat := 1, fds := [] }], 0, []⟩,
    fresh := ⟨[{ ent := [0], feat := 0, fds := [] }, { ent := [1], feat := 1, fds := [] }, { ent := [2], feat := 1, fds := [] }, { ent := [1, 1], feat := 1, fds := [] }, { ent := [1, 1], feat := 2, fds := [] }], 0, []⟩ }
def WD : World :=
  { trees := fun _ => tA, subs := wD.subs.map toRED, binds := wD.binds.map toRED }
/-- lists [0], [1] and the new [1,1]; omits [2] -/
def mD : MsgG := ⟨[⟨[0], some 0, .none, none⟩, ⟨[1], some 1, .none, none⟩, ⟨[1, 1], some 2, .none, none⟩],
  [⟨[1, 1], 1, 4, 1, none, []⟩, ⟨[1, 1], 2, 4, 0, none, []⟩]⟩

/-- non-vacuity: every hypothesis of `c06_dispatch_full_agrees` holds for (`wD`, `WD`, `mD`) … -/
example : Disp.connected wD 1 = true ∧ wD.cfg.entRemovalAnyPeer = false ∧ mD.WFfull ∧ NoEmpty (WD.trees 1) ∧
    DevInfoOK (WD.trees 1) ∧ AgreeD (WD.trees 1) (wD.peers 1).feats ∧ Featured (WD.trees 1) ∧
    FreshAgrees mD wD.fresh.feats (WD.trees 1) ∧ dispFullExcluded mD = false := by
  refine ⟨by decide, by decide, ?_, by decide, by decide, agreeD_of_check _ _ (by decide), by decide,
    freshAgrees_of_check _ _ _ (by decide), by decide⟩
  exact ((dispFull_domain mD).mp (by decide)).2
/-- … and the step does something: [2] goes with its subscription and binding, [1,1] comes with two features -/
example : ((Disp.step wD (.full 1 (keepOf mD) 7 true)).1.peers 1).feats.map (fun f => (f.ent, f.feat))
      = [([0], 0), ([1], 1), ([1, 1], 1), ([1, 1], 2)] ∧
    (Disp.step wD (.full 1 (keepOf mD) 7 true)).1.subs = [] ∧
    (WD.stepG Cfg.clean 1 .full mD).1.subs = [] ∧
    (WD.stepG Cfg.clean 1 .full mD).1.binds = [⟨1, [1], 1, [1], 1⟩] ∧
    absR ((WD.stepG Cfg.clean 1 .full mD).1.trees 1) = [([0], [0]), ([1], [1]), ([1, 1], [1, 2])] := by decide

/-- partial notifications of one entity: dispatch `entRem` and `entAdd` (e ≠ [0]) -/
theorem c06_dispatch_entity_agrees (w : Disp.W) (p : Nat) (e : List Nat) (W : World) (ctr : Nat) (ack : Bool)
    (hc : Disp.connected w p = true) (he : e ≠ []) (h0 : e ≠ [0]) (hcfg : w.cfg.entRemovalAnyPeer = false)
    (hsub : W.subs = w.subs.map toRED) (hbind : W.binds = w.binds.map toRED)
    (hA : AgreeD (W.trees p) (w.peers p).feats) (hF : Featured (W.trees p)) :
    (let w' := (Disp.step w (.entRem p e ctr ack)).1
     let r := W.stepG Cfg.clean p .part (remMsg e)
     AgreeD (r.1.trees p) (w'.peers p).feats ∧ r.1.subs = w'.subs.map toRED ∧ r.1.binds = w'.binds.map toRED) ∧
    (∀ (ty : Nat) (d : Option Nat) (feats : List F),
      (∀ i, i ∈ (feats.filter (·.ent = e)).map (·.id) ↔ i ∈ dispAt w.fresh.feats e) →
      let w' := (Disp.step w (.entAdd p e ctr ack)).1
      let r := W.stepG Cfg.clean p .part (addMsg e ty d feats)
      AgreeD (r.1.trees p) (w'.peers p).feats ∧ r.1.subs = w'.subs.map toRED ∧ r.1.binds = w'.binds.map toRED) := by
  constructor
  · obtain ⟨h1, h2, h3⟩ := dispatch_entRem_proj w p e ctr ack hc h0
    obtain ⟨g1, g2, g3⟩ := dispatch_entRem_agrees w p e W he h0 hcfg hsub hbind hA hF
    simp only at h1 h2 h3 g1 g2 g3 ⊢
    rw [h1, h2, h3]
    exact ⟨g1, g2, g3⟩
  · intro ty d feats hfr
    obtain ⟨h1, h2, h3⟩ := dispatch_entAdd_proj w p e ctr ack hc
    obtain ⟨g1, g2, g3⟩ := dispatch_entAdd_agrees w p e ty d feats W he h0 hsub hbind hA hfr
    simp only at g1 g2 g3 ⊢
    rw [h1, h2, h3]
    exact ⟨g1, g2, g3⟩

example : ((Disp.step wD (.entRem 1 [2] 7 true)).1.peers 1).feats.map (fun f => (f.ent, f.feat)) = [([0], 0), ([1], 1)] ∧
    absR ((WD.stepG Cfg.clean 1 .part (remMsg [2])).1.trees 1) = [([0], [0]), ([1], [1])] ∧
    (WD.stepG Cfg.clean 1 .part (remMsg [2])).1.binds = (Disp.step wD (.entRem 1 [2] 7 true)).1.binds.map toRED := by
  decide

/-! ## registry and teardown -/

/-- `c06_teardown_agrees`: `Td.dropEntity` of a connected peer (and with it `Reg.dropEntity`), for an announced entity
    other than [0], leaves exactly the subscriptions, bindings and client-side bookkeeping that the C06 step for the
    partial notification "entity removed" leaves. -/
theorem c06_teardown_agrees (s : Td.St) (p : Nat) (ent : List Nat) (W : World) (he : ent ≠ []) (h0 : ent ≠ [0])
    (halive : s.alive.contains p = true)
    (hsub : W.subs = s.reg.subs.map toRE) (hbind : W.binds = s.reg.binds.map toRE)
    (hcs : W.csubs.map toBook = s.csubs) (hcb : W.cbinds.map toBook = s.cbinds)
    (hknown : (findE (W.trees p) ent).isSome = ((s.reg.rem p).map (·.ent)).contains ent) :
    let s' := Td.dropEntity Td.Cfg.clean s p ent
    let r := W.stepG Cfg.clean p .part (remMsg ent)
    r.1.subs = s'.reg.subs.map toRE ∧ r.1.binds = s'.reg.binds.map toRE ∧
    r.1.csubs.map toBook = s'.csubs ∧ r.1.cbinds.map toBook = s'.cbinds :=
  teardown_dropEntity_agrees s p ent W he h0 halive hsub hbind hcs hcb hknown

def sT : Td.St :=
  { reg := { loc := [], rem := fun _ => [⟨[0], 0, 9, .special⟩, ⟨[1], 1, 1, .client⟩, ⟨[2], 1, 1, .client⟩],
             subs := [⟨1, [1], 1, 1, [1], 1⟩, ⟨2, [1], 1, 2, [1], 1⟩], binds := [⟨1, [1], 1, 1, [1], 1⟩, ⟨2, [1], 2, 2, [1], 1⟩] },
    alive := [1, 2], csubs := [⟨1, [1], 4⟩, ⟨2, [1], 4⟩], cbinds := [⟨1, [1], 4⟩] }
def WT : World :=
  { trees := fun _ => tA, subs := sT.reg.subs.map toRE, binds := sT.reg.binds.map toRE,
    csubs := [⟨[1], 5, 1, [1], 4⟩, ⟨[1], 5, 2, [1], 4⟩], cbinds := [⟨[1], 5, 1, [1], 4⟩] }
example : sT.alive.contains 1 = true ∧ WT.csubs.map toBook = sT.csubs ∧ WT.cbinds.map toBook = sT.cbinds ∧
    (findE (WT.trees 1) [1]).isSome = ((sT.reg.rem 1).map (·.ent)).contains [1] ∧
    (Td.dropEntity Td.Cfg.clean sT 1 [1]).reg.subs.map toRE = [⟨2, [1], 1, [1], 1⟩] ∧
    (WT.stepG Cfg.clean 1 .part (remMsg [1])).1.subs = [⟨2, [1], 1, [1], 1⟩] ∧
    (WT.stepG Cfg.clean 1 .part (remMsg [1])).1.csubs.map toBook = [⟨2, [1], 4⟩] := by decide

/-! ## where the other models leave the code's behaviour (the C06 model was run against the real code on each) -/

/-- DISAGREEMENT 1 (input: partial notification of peer 1 listing [0] as removed = op `entRem 1 [0]` /
    `Reg.dropEntity … [0]`): the registry model removes the device-information entity, the repaired code and the C06
    model keep it. The dispatch world agrees with the code since `Disp.processEntRem` skips a removal entry for [0]
    (`Disp.remGo`; first conjunct, formerly `= false`: the peer stays `connected`). -/
theorem c06_agree_boundary_devInfo :
    Disp.connected (Disp.step wD (.entRem 1 [0] 7 true)).1 1 = true ∧
    ((Reg.dropEntity Reg.Cfg.clean sT.reg 1 [0]).rem 1).map (·.ent) = [[1], [2]] ∧
    addrs ((WD.stepG Cfg.clean 1 .part (remMsg [0])).1.trees 1) = [[0], [1], [2]] := by decide

/-- a tree in which [1] is known without features (re-announced with an empty feature list) while a subscription of
    its former feature is still registered -/
def tFeatureless : Tree := [⟨[0], 0, none, [⟨[0], 0, 9, 2, none, []⟩]⟩, ⟨[1], 1, none, []⟩]
def wD' : Disp.W := { wD with peers := fun _ => ⟨[{ ent := [0], feat := 0, fds := [] }], 0, []⟩, subs := [(([1], 1), 1, ([1], 1))], binds := [] }
def WD' : World := { trees := fun _ => tFeatureless, subs := wD'.subs.map toRED }

/-- DISAGREEMENT 2 (input: reply [0],[1 with feature 1]; subscription from [1]/1; partial `[1] added` without features;
    then (a) full notification listing [0],[1] with a feature for [1], or (b) partial `[1] removed`):
    (a) the dispatch world ADDS [1] with the `fresh` feature, the code and the C06 model leave the featureless [1]
    untouched; (b) the dispatch world (and `Reg.dropEntity`) do nothing, the code and the C06 model remove [1] and
    its stale subscription. Outside the documented domain "every announced entity carries a feature". -/
theorem c06_agree_boundary_featureless :
    ((Disp.step wD' (.full 1 [[0], [1]] 7 true)).1.peers 1).feats.map (fun f => (f.ent, f.feat)) = [([0], 0), ([1], 1)] ∧
    absR (notifyFullG Cfg.clean ⟨[⟨[0], some 0, .none, none⟩, ⟨[1], some 1, .none, none⟩], [⟨[1], 1, 1, 0, none, []⟩]⟩
      tFeatureless).1 = [([0], [0]), ([1], [])] ∧
    (Disp.step wD' (.entRem 1 [1] 7 true)).1.subs = wD'.subs ∧
    (WD'.stepG Cfg.clean 1 .part (remMsg [1])).1.subs = [] := by decide

end Spine.Props.C06
