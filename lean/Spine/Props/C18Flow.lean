import Spine.CmdThm
import Spine.CmdFlowTypes
import Spine.Generated.CmdFlow
/-!
# C18 — the hand-written builders of `Spine.Cmd` against the REGENERATED static face of the code

`Spine.Cmd.readCmd` / `replyCmd` / `notifyOrWriteCmd` / `filtersFor` / `deleteFilters` / `partialFilters` /
`withFilters` / `filterEmptyPartial` / `createCmd` are a hand transcription of spine/function_data_cmd.go. Here
they are tied to the source by theorem: `go/cmdflow` regenerates on every run, by an abstract interpretation of
the SSA of the tree under test, the may-flow facts of the real builders (`Spine.Generated.CmdFlow`: which entry
parameter reaches which `SetDataForFunction` with which tag constant on which kind of filter, by value or by
address; what reaches the payload; which `Function` value and which filter list is stored under which guard;
the order of the two appends; the parameters that are nil-tested), and this module derives THE SAME FACTS FROM
THE MODEL BY EXECUTION: the model builders are run (`buildCall`) on all 22 presence patterns (`Call.all`) for a
probe function that has a selectors and an elements type, with distinct tokens per argument (`Spine.Cmd.tok`),
and the facts are read off the resulting `Cmd Nat` values. Each theorem says: derived = regenerated.

A change of the code that alters a fact (a swapped tag constant, an argument in the wrong position, another
`Function` value, the partial filter appended first, `&deleteSelector`) changes the regenerated table and the
theorem no longer checks; a change of the model does the same from the other side. Anything the analysis cannot
resolve is listed in `cmdFlowUnknown`, which must be empty.

The by-address flag: the family member the check runs with is probed at run time; `/repo` HEAD is the repaired
member (`clean`). `c18_flow_filter` is stated for a tree that hands values over, `c18_flow_filter_byref` for a
tree that hands addresses over (`asWritten`: every delete call panics, the other facts are unchanged).
-/
namespace Spine.Props.C18
open Spine.Generated Spine.Cmd Spine.CmdFlow

/-! ## the probe -/

/-- a function for which every call shape is applicable and no tag row fails -/
def flowProbeOk (f : FnRow) : Bool :=
  applicable f .readSelEl && applicable f .delSelPartSelDelEl && !selFailing f && !elFailing f

/-- the probe function: the first such row of the regenerated function table (a decidable search) -/
def flowProbe? : Option FnRow := functions.find? flowProbeOk

def callBuilder : Call → Nat
  | .read .. => 0
  | .reply .. => 1
  | .now .. => 2

/-- Which entry parameter (position in the API signature) a token of `Spine.Cmd.tok` stands for in
    `buildCall`: `sel` (2) is `partialSelector` of a read, `deleteSelector` of a notify/write when one is
    given and `partialSelector` otherwise; `sel2` (4) is the partial selector next to a delete selector;
    `el` (3) is `elements` of a read and `deleteElements` of a notify/write. -/
def paramOfTok : Call → Nat → Option Nat
  | .read _ _, 2 => some 0
  | .read _ _, 3 => some 1
  | .now d _ _ _, 2 => some (if d then 0 else 1)
  | .now _ _ _ _, 4 => some 1
  | .now _ _ _ _, 3 => some 3
  | _, _ => none

def runCall (cfg : Cfg) (fn : FnRow) (c : Call) : Except Panic (Cmd Nat) := buildCall cfg fn c tok

def okCmds (cfg : Cfg) (fn : FnRow) : List (Call × Cmd Nat) :=
  Call.all.filterMap fun c => match runCall cfg fn c with | .ok cmd => some (c, cmd) | .error _ => none

/-! ## F-filter -/

def filterKind (f : Filter Nat) : Nat :=
  if f.delete && !f.part then 1 else if f.part && !f.delete then 2 else 0

def flowsOfFilter (fn : FnRow) (c : Call) (f : Filter Nat) : List FilterFlow :=
  f.set.map fun p =>
    match filterRow? p.1, paramOfTok c p.2 with
    | some r, some k => ⟨callBuilder c, filterKind f, r.typ, k, false, r.fct == fn.key⟩
    | _, _ => ⟨callBuilder c, 0, 0, 99, false, false⟩      -- no such row is ever regenerated

/-- the filter flows of the model: every token found in a field of a filter of a built command -/
def modelFilterFlows (cfg : Cfg) (fn : FnRow) : List FilterFlow :=
  (okCmds cfg fn).flatMap fun cc => cc.2.filter.flatMap (flowsOfFilter fn cc.1)

def filterFlowsAgree (cfg : Cfg) (rows : List FilterFlow) : Bool :=
  match flowProbe? with
  | some fn => sameSet (modelFilterFlows cfg fn) rows
  | none => false

/-- the analysis resolved everything, and found exactly one entry point per builder shape -/
theorem c18_flow_resolved : cmdFlowUnknown = [] ∧ cmdFlowEntries.map (·.1) = [0, 1, 2] := by decide +kernel

/-- F-filter ("with the same selectors and elements", builders): on a tree that hands the values over, the
    parameters that reach `FilterType.SetDataForFunction` — with which tag constant (selector / elements), on
    the delete or the partial filter, for the receiver's function — are exactly the tokens the model builders
    put into selector / elements fields of delete / partial filters, over all 22 calls. -/
theorem c18_flow_filter : cmdFlowByRef = false → filterFlowsAgree clean cmdFilterFlows = true := by
  decide +kernel

/-- non-vacuity: a probe exists and the model has flows into both kinds of filter and both tags -/
example : ∃ fn, flowProbe? = some fn ∧
    (∃ r ∈ modelFilterFlows clean fn, r.kind = 1 ∧ r.tag = 2) ∧ (∃ r ∈ modelFilterFlows clean fn, r.kind = 2 ∧ r.tag = 1) := by
  decide +kernel

/-- the flag is the table's: some row is by address -/
theorem c18_flow_byref_flag : cmdFlowByRef = cmdFilterFlows.any (·.byRef) := by decide +kernel

/-- the argument at position k of a call is given and looked at -/
def argGiven : Call → Nat → Bool
  | .read s _, 0 => s
  | .read _ e, 1 => e
  | .now d _ false _, 0 => d
  | .now _ p false _, 1 => p
  | .now _ _ false e, 3 => e
  | _, _ => false

def byRefAgree (rows : List FilterFlow) : Bool :=
  rows.all (fun r => r.byRef == (r.kind == 1)) &&
  filterFlowsAgree asWritten ((rows.filter fun r => !r.byRef)) &&
  filterFlowsAgree clean (rows.map fun r => { r with byRef := false }) &&
  match flowProbe? with
  | some fn => Call.all.all fun c =>
      (match runCall asWritten fn c with | .error .deleteByRef => true | _ => false) ==
      rows.any fun r => r.byRef && r.builder == callBuilder c && argGiven c r.param
  | none => false

/-- F-filter on a tree with the historical defect (`&deleteSelector` / `&deleteElements`): the rows handed over
    by address are exactly the rows of the delete filter, the member `asWritten` panics (`deleteByRef`)
    exactly on the calls that give such an argument, its other flows are the remaining rows, and up to the
    flag the rows are those of the repaired member. -/
theorem c18_flow_filter_byref : cmdFlowByRef = true → byRefAgree cmdFilterFlows = true := by
  decide +kernel

/-- non-vacuity of the by-address statement: the table of the tree as it was written satisfies it -/
example : byRefAgree [⟨0, 2, 1, 0, false, true⟩, ⟨0, 2, 2, 1, false, true⟩, ⟨2, 1, 1, 0, true, true⟩,
    ⟨2, 1, 2, 3, true, true⟩, ⟨2, 2, 1, 1, false, true⟩] = true := by decide +kernel

/-! ## F-data -/

def originOfTok (t : Nat) : Origin :=
  if t == tok.empty then .nil else if t == tok.data then .stored else .param 99

def modelDataFlows (fn : FnRow) : List DataFlow :=
  (okCmds clean fn).flatMap fun cc => cc.2.data.map fun p =>
    ⟨callBuilder cc.1, originOfTok p.2, (match cmdRow? p.1 with | some r => r.fct == fn.key | none => false)⟩

/-- a builder that hands over the stored data copy hands over nil when nothing is stored (`DataCopy`); the
    model's `data` token stands for both ("the copy of the stored data, or `new(T)`") -/
def dataRowsNormal (rows : List DataFlow) : List DataFlow :=
  rows.filter fun r => !(r.origin == .nil && rows.any fun s => s.builder == r.builder && s.origin == .stored)

def dataFlowsAgree (rows : List DataFlow) : Bool :=
  match flowProbe? with
  | some fn => sameSet (modelDataFlows fn) (dataRowsNormal rows)
  | none => false

/-- F-data ("the same payload type … payload"): what reaches `CmdType.SetDataForFunction` is, per builder,
    what the model builds the payload from — the empty value (`nil`) for a read, the stored data copy for a
    reply and a notify/write, never a parameter — for the receiver's function. -/
theorem c18_flow_data : dataFlowsAgree cmdDataFlows = true := by decide +kernel

example : ∃ r ∈ cmdDataFlows, r.origin = .stored := by decide +kernel

/-! ## F-fn -/

/-- the bool parameter of a call that is true -/
def callBool : Call → Option Nat
  | .reply true => some 0
  | .now _ _ true _ => some 2
  | _ => none

/-- the situation a call is in: its bool parameter is set / filters were built / neither -/
def guardOfCall (c : Call) (cmd : Cmd Nat) : Guard :=
  match callBool c with
  | some k => .boolParam k
  | none => if cmd.filter.isEmpty then .none else .lenFilters

def fnValOf (fn : FnRow) (k : Nat) : FnVal := if k == 0 then .empty else if k == fn.key then .fnType else .other

def modelFnStores (fn : FnRow) : List FnStore :=
  (okCmds clean fn).filterMap fun cc => cc.2.function.map fun k => ⟨callBuilder cc.1, guardOfCall cc.1 cc.2, fnValOf fn k⟩

def modelFilterStoreKeys (fn : FnRow) : List (Nat × Guard) :=
  ((okCmds clean fn).filter fun cc => !cc.2.filter.isEmpty).map fun cc => (callBuilder cc.1, guardOfCall cc.1 cc.2)

/-- per builder and situation: the union of what the stored filter lists hold -/
def modelFilterStores (fn : FnRow) : List FilterStore :=
  (modelFilterStoreKeys fn).map fun bg =>
    let cs := (okCmds clean fn).filter fun cc => callBuilder cc.1 == bg.1 && guardOfCall cc.1 cc.2 == bg.2
    ⟨bg.1, bg.2, cs.any (fun cc => cc.2.filter.any (·.delete)), cs.any (fun cc => cc.2.filter.any (·.part)),
      cs.any (fun cc => cc.2.filter.any fun f => !f.set.isEmpty)⟩

/-- `Function` and `Filter` are written together, and exactly in the situations with a guard -/
def modelGuardsExact (fn : FnRow) : Bool :=
  (okCmds clean fn).all fun cc =>
    cc.2.function.isSome == (guardOfCall cc.1 cc.2 != .none) && cc.2.function.isSome == !cc.2.filter.isEmpty

def fnStoresAgree (fs : List FnStore) (gs : List FilterStore) : Bool :=
  match flowProbe? with
  | some fn => sameSet (modelFnStores fn) fs && sameSet (modelFilterStores fn) gs && modelGuardsExact fn &&
      sameSet (fs.map fun r => (r.builder, r.guard)) (gs.map fun r => (r.builder, r.guard))
  | none => false

/-- F-fn ("recognised as that same function … partial and delete filters"): every store to `Function` in the
    code — value "" or the receiver's function type, under `len(filters) > 0` or under the bool parameter — is a
    `function` value the model produces in that situation and vice versa; the filter list stored next to it
    holds delete / partial filters with / without data exactly as the model's does; and both fields are written
    under the same guards. -/
theorem c18_flow_fn : fnStoresAgree cmdFnStores cmdFilterStores = true := by decide +kernel

example : (∃ r ∈ cmdFnStores, r.val = .empty) ∧ (∃ r ∈ cmdFnStores, r.val = .fnType) ∧
    (∃ r ∈ cmdFilterStores, r.hasDelete = true) ∧ (∃ r ∈ cmdFilterStores, r.hasData = false) := by decide +kernel

/-! ## F-order -/

/-- calls that build a delete and a partial filter: is every delete filter in front of every partial one -/
def modelAppendOrder (fn : FnRow) : List (Nat × Bool) :=
  (okCmds clean fn).filterMap fun cc =>
    let ks := cc.2.filter.map filterKind
    if ks.contains 1 && ks.contains 2 then
      some (callBuilder cc.1, (ks.filter (· == 1)) ++ (ks.filter (· != 1)) == ks)
    else none

def orderAgree (rows : List (Nat × Bool)) : Bool :=
  match flowProbe? with
  | some fn => sameSet (modelAppendOrder fn) rows
  | none => false

/-- F-order: where a builder can produce both filters, the code appends the delete filter before the partial
    filter, which is the order of the model's list (`filters ++ d ++ p`). -/
theorem c18_flow_order : orderAgree cmdAppendOrder = true := by decide +kernel

example : ∃ r ∈ cmdAppendOrder, r.2 = true := by decide +kernel

/-! ## F-nil -/

/-- the call with the selectors / elements argument at position k given instead of absent (or vice versa) -/
def toggleArg : Call → Nat → Option Call
  | .read s e, 0 => some (.read (!s) e)
  | .read s e, 1 => some (.read s (!e))
  | .now d p w e, 0 => some (.now (!d) p w e)
  | .now d p w e, 1 => some (.now d (!p) w e)
  | .now d p w e, 3 => some (.now d p w (!e))
  | _, _ => none

/-- (builder, k): the presence of argument k makes a difference to some command the model builds -/
def modelNilTests (fn : FnRow) : List (Nat × Nat) :=
  ([0, 1, 2].flatMap fun b => [0, 1, 2, 3].map fun k => (b, k)).filter fun bk =>
    Call.all.any fun c => callBuilder c == bk.1 &&
      match toggleArg c bk.2 with
      | some c' => decide (runCall clean fn c ≠ runCall clean fn c')
      | none => false

def nilTestsAgree (rows : List (Nat × Nat)) : Bool :=
  match flowProbe? with
  | some fn => sameSet (modelNilTests fn) rows
  | none => false

/-- F-nil ("with or without selectors and elements"): the parameters the code tests with `util.IsNil` are
    exactly the arguments whose presence the model's builders depend on. -/
theorem c18_flow_nil : nilTestsAgree cmdNilTests = true := by decide +kernel

example : 0 < cmdNilTests.length := by decide +kernel

end Spine.Props.C18
