import Spine.EventsHist
import Spine.EventsLock
import Spine.EventsConn
import Spine.EventsLive
/-!
# C15 — the event bus delivers every state change once, core first, without deadlock

Property theorems only. Model `Spine.Bus` (`Spine/Events.lean`): `subscribe` (de-duplicating), `unsubscribe`, and
`Publish` split at its lock boundaries into `snapshot` (copy of the handler list under `mu`), `handle` (under
`muHandle`: the core handlers run synchronously, one goroutine is spawned per application handler), `ret`, and one
`appRun` per spawned goroutine. Publications may overlap, (un)subscriptions may come from inside handlers: all
histories and all schedules = all event lists. `Spine/EventsLock.lean` adds the two locks for the re-entrancy clause
and refines the lock-free model. Handlers are pairs (level, identity), level 0 = core.

Status: every clause is proved, for all event lists. Nothing is refuted — the property is expected to hold on the
code as written. Outside the quantifier of the property and of these theorems (DESIGN §8 C15): a CORE handler that
publishes blocks for ever (`core_publish_blocks_witness` shows the blocked `acquire`; the only core handler of the
stack does not publish — assumption A-writer); a handler of an uncomparable value type makes the second `Subscribe`
panic (handlers are modelled as comparable identities).
-/
namespace Spine.Props.C15
open Spine Spine.Bus

/-- "Every published event reaches each handler subscribed at publication time exactly once": in every history —
    publications overlapping or not — a handler is delivered a publication at most once, and exactly as often as it
    is owed (once if it is in the publication's snapshot, else never) as soon as the publication has been handled and
    its application goroutines have run. -/
theorem c15_exactly_once (evs : List Ev) (p : Nat) (h : H) :
    (run evs).delivered.count (p, h) ≤ 1 ∧
    ((run evs).pending.count (p, h) = 0 → waiting (run evs) p h = 0 →
      (run evs).delivered.count (p, h) = owed (run evs) p h) :=
  Bus.c15_exactly_once evs p h

/-- "… subscribed at publication time": the snapshot of a new publication is the handler list of that moment. -/
theorem c15_snapshot_is_subscribers (s : St) (p : Nat) (hfresh : findPub s p = none) :
    findPub (step s (.snapshot p)) p = some ⟨p, s.handlers, 0⟩ := by
  have := findPub_append_new s ⟨p, s.handlers, 0⟩ p hfresh
  have hst : step s (.snapshot p) = { s with pubs := s.pubs ++ [⟨p, s.handlers, 0⟩] } := by
    simp only [step]; rw [hfresh]; simp
  rw [hst]
  show (s.pubs ++ [(⟨p, s.handlers, 0⟩ : Pub)]).find? (fun x : Pub => decide (x.id = p)) = _
  rw [this]; simp

/-- non-vacuity: a handler subscribed twice, one unsubscribed before and one subscribed after the snapshot -/
example : (run [.subscribe (1, 7), .subscribe (1, 7), .subscribe (1, 8), .unsubscribe (1, 8), .subscribe (0, 1),
    .snapshot 1, .subscribe (1, 9), .handle 1, .ret 1, .appRun 1 (1, 7)]).delivered = [(1, (0, 1)), (1, (1, 7))] := by
  decide

/-- "The stack's internal handlers have finished … before any application handler of that event runs": in every
    history the deliveries of one publication are ordered core before application. -/
theorem c15_core_before_application (evs : List Ev) : (run evs).delivered.Pairwise Ordered :=
  Bus.c15_core_before_application evs

/-- "The stack's internal handlers have finished before publication returns": in every history, once a publication
    has been handled (phase 1) — a fortiori once it has returned (phase 2) — every core handler of its snapshot has
    been served exactly once; -/
theorem c15_core_done_before_return (evs : List Ev) (p : Nat) (q : Pub) (hq : findPub (run evs) p = some q)
    (hph : q.phase ≠ 0) (h : H) (hh : h ∈ q.snap) (hcore : h.1 = 0) :
    (run evs).delivered.count (p, h) = 1 :=
  Bus.core_done_when_handled evs p q hq hph h hh hcore

/-- … and the returning step itself delivers nothing. -/
theorem c15_return_delivers_nothing (s : St) (p : Nat) : (step s (.ret p)).delivered = s.delivered :=
  Bus.ret_delivers_nothing s p

/-- "… while application handlers run asynchronously": the publishing goroutine (`handle`) delivers to core handlers
    only; an application handler is served by its own `appRun` event, which may come at any later point. -/
theorem c15_application_asynchronous (s : St) (p : Nat) :
    ∀ x ∈ (step s (.handle p)).delivered, x ∈ s.delivered ∨ x.2.1 = 0 := by
  intro x hx
  simp only [step] at hx
  split at hx
  · split at hx
    · rcases List.mem_append.mp hx with hx | hx
      · exact Or.inl hx
      · obtain ⟨h, hh, rfl⟩ := List.mem_map.mp hx
        exact Or.inr (by simpa using (List.mem_filter.mp hh).2)
    · exact Or.inl hx
  · exact Or.inl hx

/-- non-vacuity: two overlapping publications, the second handled first; core (0,1) before application (1,2) -/
example : (run [.subscribe (0, 1), .subscribe (1, 2), .snapshot 1, .snapshot 2, .handle 2, .appRun 2 (1, 2), .handle 1,
    .ret 2, .ret 1, .appRun 1 (1, 2)]).delivered = [(2, (0, 1)), (2, (1, 2)), (1, (0, 1)), (1, (1, 2))] := by decide

/-- "A handler receives nothing that is published after its unsubscription returned": a publication that starts
    (takes its snapshot) after `unsubscribe h`, with no `subscribe h` in between, never delivers to `h` — whatever
    else happens before, in between and afterwards. -/
theorem c15_nothing_after_unsubscribe (pre mid post : List Ev) (p : Nat) (h : H)
    (hfresh : findPub (run (pre ++ Ev.unsubscribe h :: mid)) p = none)
    (hmid : Ev.subscribe h ∉ mid) :
    (run (pre ++ Ev.unsubscribe h :: mid ++ Ev.snapshot p :: post)).delivered.count (p, h) = 0 := by
  have hn : h ∉ (run (pre ++ Ev.unsubscribe h :: mid)).handlers := by
    rw [Bus.run_append, List.foldl_cons]
    exact Bus.not_mem_handlers mid h _ (Bus.c15_unsubscribed_not_in_snapshot _ h) hmid
  have := Bus.not_subscribed_not_delivered (pre ++ Ev.unsubscribe h :: mid) post p h hfresh hn
  simpa [List.append_assoc] using this

/-- non-vacuity: publication 1 is in flight when (1,7) unsubscribes and still reaches it; publication 2 does not -/
example : (run ([.subscribe (1, 7), .snapshot 1] ++ Ev.unsubscribe (1, 7) :: [.handle 1, .ret 1] ++
    Ev.snapshot 2 :: [.handle 2, .ret 2, .appRun 1 (1, 7), .appRun 2 (1, 7)])).delivered = [(1, (1, 7))] := by decide

/-- "Subscribing twice has no additional effect." -/
theorem c15_double_subscribe_noop (s : St) (h : H) :
    step (step s (.subscribe h)) (.subscribe h) = step s (.subscribe h) :=
  Bus.c15_double_subscribe_noop s h

/-- "Handlers may subscribe, unsubscribe or call back into the stack while handling an event without blocking it"
    (re-entrancy), on the model with both locks, in every reachable state — in particular while an application
    handler of a publication runs and that very publication still holds `muHandle`:
    (1) `subscribe`, `unsubscribe`, the snapshot section of a nested `Publish` and the start of a spawned handler
        wait for no lock;
    (2) the second section of a nested `Publish` (`acquire`) waits for `muHandle` only, and whoever holds it gives it
        up by its own next two events, both enabled, none of them an event of a handler;
    (3) the lock-aware model refines the lock-free one, so all theorems above hold for its reachable states. -/
theorem c15_reentrant_ok (evs : List LEv) (h : H) (p : Nat) :
    let s := lrun evs
    (Enabled s (.subscribe h) ∧ Enabled s (.unsubscribe h) ∧ Enabled s (.snapshot p) ∧ Enabled s (.appRun p h)) ∧
    (Enabled s (.acquire p) ∨ ∃ q, s.holder = some q ∧ Enabled s (.deliver q) ∧
        Enabled (lstep s (.deliver q)) (.release q) ∧
        Enabled (lstep (lstep s (.deliver q)) (.release q)) (.acquire p)) ∧
    s.bus = run s.trace := by
  intro s
  refine ⟨⟨trivial, trivial, trivial, trivial⟩, ?_, lrun_refines evs⟩
  cases hh : s.holder with
  | none => exact Or.inl hh
  | some q =>
    obtain ⟨h1, h2, h3⟩ := holder_releases s q (lrun_inv evs) hh
    exact Or.inr ⟨q, rfl, h1, h2, h3⟩

/-- non-vacuity: application handler (1,7) of publication 1 runs while publication 1 still holds `muHandle`; it
    unsubscribes and re-subscribes itself and publishes (2): the nested `acquire` waits, publication 1 returns, the
    nested publication is handled and reaches the handler again -/
example :
    let s := lrun [.subscribe (1, 7), .snapshot 1, .acquire 1, .deliver 1, .appRun 1 (1, 7), .unsubscribe (1, 7),
      .subscribe (1, 7), .snapshot 2]
    s.holder = some 1 ∧ ¬ Enabled s (.acquire 2) ∧
    (lrun [.subscribe (1, 7), .snapshot 1, .acquire 1, .deliver 1, .appRun 1 (1, 7), .unsubscribe (1, 7),
      .subscribe (1, 7), .snapshot 2, .acquire 2, .release 1, .acquire 2, .deliver 2, .release 2,
      .appRun 2 (1, 7)]).bus.delivered = [(1, (1, 7)), (2, (1, 7))] := by decide

/-- Outside the quantifier (recorded, not generated by the harness): a CORE handler runs inside `deliver`, on the
    goroutine that holds `muHandle`. If it publishes, its `acquire` is not enabled, and the events that would free the
    lock (`release 1`) come later in the program order of the very goroutine that is blocked: a self-deadlock. -/
theorem core_publish_blocks_witness :
    let s := lrun [.subscribe (0, 1), .snapshot 1, .acquire 1, .snapshot 2]
    s.holder = some 1 ∧ ¬ Enabled s (.acquire 2) := by decide

/-- "Application handlers run asynchronously … without blocking": `Publish` never waits for an application handler.
    In every reachable state in which `muHandle` is free, a new publication runs through all its sections, each
    enabled when its turn comes, and returns — without any `appRun` event, whatever application handlers of earlier
    publications are still pending. (If `muHandle` is held, its holder releases it by its own two events:
    `c15_reentrant_ok`.) -/
theorem c15_publish_never_waits_for_application_handlers (evs : List LEv) (p : Nat)
    (hfree : (lrun evs).holder = none) (hnew : findPub (lrun evs).bus p = none) :
    let s := lrun evs
    let s1 := lstep s (.snapshot p)
    let s2 := lstep s1 (.acquire p)
    let s3 := lstep s2 (.deliver p)
    let s4 := lstep s3 (.release p)
    Enabled s (.snapshot p) ∧ Enabled s1 (.acquire p) ∧ Enabled s2 (.deliver p) ∧ Enabled s3 (.release p) ∧
    phaseOf s4 p = some 2 ∧ s4.holder = none :=
  publish_completes_without_appRun (lrun evs) p hfree hnew

/-- non-vacuity: application handler (1,7) of publication 1 is spawned and has not run; publication 2 goes through -/
example :
    let evs : List LEv := [.subscribe (1, 7), .snapshot 1, .acquire 1, .deliver 1, .release 1]
    (lrun evs).bus.pending = [(1, (1, 7))] ∧ (lrun evs).holder = none ∧ findPub (lrun evs).bus 2 = none ∧
    phaseOf (lrun (evs ++ [.snapshot 2, .acquire 2, .deliver 2, .release 2])) 2 = some 2 := by decide

/-- What the regenerated fact `publishBlocksOnlyOnTheTwoMutexes` excludes. In the member where the dispatch section
    waits for the application handlers of earlier publications (a WaitGroup), an application handler that is still
    inside HandleEvent stalls every later publication, and if it publishes itself the bus is dead: handler (1,7) of
    publication 1 is unfinished (pending); publication 2 holds `muHandle` and waits for it; the handler's own nested
    publication 3 waits for `muHandle`; the handler finishes (`appRun 1 (1,7)`) only after its nested Publish returns.
    The code as written delivers publication 2 at once. -/
theorem wait_member_deadlock_witness :
    let s := lrun [.subscribe (1, 7), .snapshot 1, .acquire 1, .deliver 1, .release 1, .snapshot 2, .acquire 2, .snapshot 3]
    (s.holder = some 2 ∧ s.bus.pending = [(1, (1, 7))] ∧ ¬ WEnabled s (.deliver 2) ∧ ¬ WEnabled s (.acquire 3)) ∧
    Enabled s (.deliver 2) := by decide

/-- Mechanism "the local device registers itself as core handler while peers are connected": in every history of
    connections and disconnections, while a peer is connected the local device is a core-level handler — so
    `c15_core_done_before_return` and `c15_core_before_application` apply to it for every event of a connected peer. -/
theorem c15_internal_handler_while_connected (evs : List Conn.Ev) :
    (Conn.run false evs).peers ≠ [] → (Conn.run false evs).subscribed = true :=
  Conn.subscribed_while_connected evs

/-- What the regenerated fact `coreSubscribedOnEverySetup` excludes: with the subscription made only once (a Once that
    is never reset), after "connect, disconnect all, connect again" a peer is connected and the local device is not a
    core handler; as written it is. -/
theorem once_member_witness :
    let evs : List Conn.Ev := [.connect 1, .disconnect 1, .connect 2]
    ((Conn.run true evs).peers = [2] ∧ (Conn.run true evs).subscribed = false) ∧ (Conn.run false evs).subscribed = true := by
  decide

/-- What the regenerated fact `muReleasedBeforeMuHandle` (`Spine/Props/C15Gen.lean`) excludes. In the member where
    `Publish` keeps `mu` until it has `muHandle` (lock hand-over), two publishers at once and a core handler that
    (un)subscribes deadlock the bus: publication 1 holds `muHandle` and its core handler (0,1) is running (inside
    `deliver 1`, before `release 1`); publication 2 has taken its snapshot, holds `mu` and waits for `muHandle`. Now the
    handler's `subscribe` / `unsubscribe` waits for `mu`, publication 2's `acquire` waits for `muHandle`, and
    `release 1` comes after the handler's call in the program order of the blocked goroutine. In the same schedule the
    code as written lets the handler proceed (`c15_reentrant_ok`). -/
theorem handover_deadlock_witness :
    let evs : List LEv := [.subscribe (0, 1), .snapshot 1, .acquire 1, .snapshot 2, .deliver 1]
    let s := hrun evs
    (s.l.holder = some 1 ∧ s.muHolder = some 2 ∧ phaseOf s.l 1 = some 1 ∧
      ¬ HEnabled s (.unsubscribe (0, 1)) ∧ ¬ HEnabled s (.subscribe (1, 5)) ∧ ¬ HEnabled s (.acquire 2)) ∧
    (Enabled (lrun evs) (.unsubscribe (0, 1)) ∧ Enabled (lrun evs) (.subscribe (1, 5))) := by decide

/-! ## Completion: no reachable state of the lock model is a deadlock (`Spine/EventsLive.lean`) -/

/-- "… application handlers run asynchronously … without blocking it": from EVERY reachable state of the model with
    both locks — any history of subscriptions, publications from any number of goroutines, handlers that (un)subscribed
    or published from inside HandleEvent, some publication holding `muHandle`, others queued, application handlers
    pending — there is a continuation made of steps of the publishing goroutines only (`acquire`, `deliver`,
    `release`), each ENABLED (waiting for no lock) when it is taken, after which every started `Publish` has returned
    and `muHandle` is free. No application handler has to run, no handler or subscriber has to do anything. -/
theorem c15_all_publications_return (evs : List LEv) : ∃ fin : List LEv,
    (∀ e ∈ fin, isPublisherStep e = true) ∧ EnabledAll (lrun evs) fin ∧
    (∀ q ∈ (lrun (evs ++ fin)).bus.pubs, q.phase = 2) ∧ (lrun (evs ++ fin)).holder = none :=
  Bus.all_publications_return evs

/-- "Every published event REACHES each handler subscribed at publication time exactly once", the liveness half:
    from every reachable state there is a continuation of publisher steps and of steps of the spawned handler
    goroutines (`appRun`), each enabled when taken, after which every publication has returned, no delivery is pending
    and every (publication, handler) pair has been delivered exactly as often as it is owed (once iff the handler was
    in the publication's snapshot). With `c15_exactly_once` (never more than owed, in every state): exactly once. -/
theorem c15_everything_owed_is_delivered (evs : List LEv) : ∃ fin : List LEv,
    (∀ e ∈ fin, isPublisherStep e = true ∨ isAppRun e = true) ∧ EnabledAll (lrun evs) fin ∧
    (lrun (evs ++ fin)).bus.pending = [] ∧ (∀ q ∈ (lrun (evs ++ fin)).bus.pubs, q.phase = 2) ∧
    ∀ p h, (lrun (evs ++ fin)).bus.delivered.count (p, h) = owed (lrun (evs ++ fin)).bus p h :=
  Bus.everything_owed_is_delivered evs

/-- the step behind both: whenever some publication has not returned, some publishing goroutine has an enabled step
    that strictly decreases the measure `unfinished` (in every state satisfying the invariant `GInv`, which every
    reachable state does: `Bus.ginv_lrun`) -/
theorem c15_progress (evs : List LEv) (hex : ∃ q ∈ (lrun evs).bus.pubs, q.phase ≠ 2) :
    ∃ e, isPublisherStep e = true ∧ Enabled (lrun evs) e ∧ unfinished (lstep (lrun evs) e) < unfinished (lrun evs) :=
  Bus.progress (lrun evs) (Bus.ginv_lrun evs) hex

/-- non-vacuity: publication 0 has returned with its application handler still pending, publication 1 holds `muHandle`
    (core handlers not yet run), publication 2 is queued: `acquire 2` is NOT enabled, the continuation of five publisher
    steps is, and afterwards all three have returned without a single `appRun`; three more steps deliver the rest -/
example : (lrun exEvs).holder = some 1 ∧ ¬ EnabledAll (lrun exEvs) [.acquire 2] ∧
    EnabledAll (lrun exEvs) exFin3 ∧ (lrun (exEvs ++ exFin3)).bus.pubs.map (·.phase) = [2, 2, 2] ∧
    (lrun (exEvs ++ exFin3)).bus.pending = [(0, (1, 7)), (1, (1, 7)), (2, (1, 7))] ∧
    EnabledAll (lrun exEvs) exFin4 ∧ (lrun (exEvs ++ exFin4)).bus.pending = [] ∧
    (lrun (exEvs ++ exFin4)).bus.delivered.count (2, (1, 7)) = 1 := by decide

end Spine.Props.C15
