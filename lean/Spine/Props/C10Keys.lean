import Spine.TeardownKeys
import Spine.TeardownKeysAgree
import Spine.TeardownKeysAgreeEnt
import Spine.TeardownKeysInterleave
/-!
# C10 — the all-and-only clauses as a FRAME theorem over identity keys, the removal events, the resolution

Model `Spine.TdK` (`Spine/TeardownKeys.lean`): registry entries keyed by (connection = SKI, device address, entity
address, feature), the client-side bookkeeping keyed by (device address, entity, feature), `DeviceLocal.remoteDevices`
as a list of (SKI, device address, entities); the clean-up functions are PARAMETRIC in which components they compare
(`TdK.Facts`). Every theorem here is stated for an arbitrary `F : Facts` with `F.ok` (each registry clean-up names the
peer — by connection or by device address — and the entity; the bookkeeping clean-ups compare the device address);
`Spine/Props/C10Gen.lean` instantiates them with the facts REGENERATED from the tree under test
(`Generated.Cleanup`, derived by calling the real functions).

Clauses of the property covered here (they were "monitored only" before): "a removal event is published for each
registry entry and for the device" (`c10k_device_events`, `c10k_entity_events`), "the device can no longer be resolved
by SKI or address" and the others still are (`c10k_unresolvable`, `c10k_others_resolve`), "all and only … disappear" /
"every other peer, including peers that use identical entity and feature numbers, keeps all of its state" over
(connection, entity) keys (`c10k_device_exact`, `c10k_entity_exact`, `c10k_others_keep`). `Inv` is the invariant of
the world; it holds along every history (`c10k_reachable`). What the comparisons must provide is sharp:
`c10k_entity_only_refuted` (the pinned commit's `RemoveBindingsForEntity`) and `c10k_shared_address_refuted` (the
assumption "distinct connections announce distinct device addresses" cannot be dropped for the code as it is).
-/
namespace Spine.Props.C10Keys
open Spine Spine.TdK

/-! example world: two connections with IDENTICAL entity and feature numbering, both subscribed and bound from [1]/1 -/
def conns0 : List Conn := [⟨1, 101, [[0], [1], [1, 1]]⟩, ⟨2, 102, [[0], [1], [1, 1]]⟩]
def w0 : St := run Facts.head { conns := conns0 }
  [.entry false 1 1 [1] 1 [1] 1, .entry false 2 2 [1] 1 [1] 1, .entry true 1 1 [1] 1 [1] 1, .entry true 2 2 [1] 1 [2] 1,
   .entry false 3 1 [1, 1] 1 [1] 1, .book false ⟨101, [1], 3⟩, .book false ⟨102, [1], 3⟩, .book true ⟨102, [1], 3⟩]

theorem inv_conns0 : Inv { conns := conns0 } := by
  refine ⟨?_, ?_, ?_, ?_⟩
  · intro a ha b hb h; simp [conns0] at ha hb; rcases ha with rfl | rfl <;> rcases hb with rfl | rfl <;> simp_all
  · intro a ha b hb h; simp [conns0] at ha hb; rcases ha with rfl | rfl <;> rcases hb with rfl | rfl <;> simp_all
  · intro e he; simp at he
  · intro e he; simp at he

/-! ## clause: all and only what refers to the removed device disappears; everybody else keeps everything -/

/-- After the connection `k` is removed, the subscriptions, the bindings, the bookkeeping of the local client features and
    the map of connected devices are exactly the previous ones minus what refers to that device — whatever each clean-up
    compares, as long as it names the peer and the entity (`F.ok`). -/
theorem c10k_device_exact (F : Facts) (hF : F.ok = true) (s : St) (hs : Inv s) (k : Nat) (c : Conn) (hk : forSki s k = some c) :
    (drop F s k).1.subs = s.subs.filter (fun e => e.cl.ski != k) ∧
    (drop F s k).1.binds = s.binds.filter (fun e => e.cl.ski != k) ∧
    (drop F s k).1.csubs = s.csubs.filter (fun b => b.dev != c.dev) ∧
    (drop F s k).1.cbinds = s.cbinds.filter (fun b => b.dev != c.dev) ∧
    (drop F s k).1.conns = s.conns.filter (fun x => x.ski != k) :=
  drop_exact F hF s hs k c hk

/-- Frame: every entry of every other connection `q` — with whatever entity and feature numbers, identical to those of the
    removed peer or not — is still there, in the same order. -/
theorem c10k_others_keep (F : Facts) (hF : F.ok = true) (s : St) (hs : Inv s) (k : Nat) (c : Conn) (hk : forSki s k = some c)
    (q : Nat) (hq : q ≠ k) :
    (drop F s k).1.subs.filter (fun e => e.cl.ski == q) = s.subs.filter (fun e => e.cl.ski == q) ∧
    (drop F s k).1.binds.filter (fun e => e.cl.ski == q) = s.binds.filter (fun e => e.cl.ski == q) := by
  have h := drop_exact F hF s hs k c hk
  rw [h.1, h.2.1, List.filter_filter, List.filter_filter]
  constructor <;> (apply filter_congr_mem; intro e _; by_cases he : e.cl.ski = q <;> simp [he, hq])

/-- non-vacuity: connection 1 removed; connection 2's subscription and binding from the same [1]/1 and its bookkeeping survive -/
example : Inv w0 ∧ Facts.head.ok = true ∧
    ((drop Facts.head w0 1).1.subs.map fun e => (e.id, e.cl.ski, e.cl.ent, e.cFeat)) = [(2, 2, [1], 1)] ∧
    ((drop Facts.head w0 1).1.binds.map fun e => (e.id, e.cl.ski, e.cl.ent, e.cFeat)) = [(2, 2, [1], 1)] ∧
    (drop Facts.head w0 1).1.csubs = [⟨102, [1], 3⟩] ∧ (drop Facts.head w0 1).1.cbinds = [⟨102, [1], 3⟩] ∧
    (drop Facts.head w0 1).1.conns.map (·.ski) = [2] := by
  refine ⟨?_, by decide, by decide, by decide, by decide, by decide, by decide⟩
  exact c10k_w0_inv
where
  c10k_w0_inv : Inv w0 := by
    refine ⟨inv_conns0.isMap, inv_conns0.devInj, ?_, ?_⟩ <;> decide

/-- Removal of entity `ent` (not [0]) of connection `k`: exactly the entries and the bookkeeping of (that device, that
    entity) go. -/
theorem c10k_entity_exact (F : Facts) (hF : F.ok = true) (s : St) (hs : Inv s) (k : Nat) (c : Conn) (hk : forSki s k = some c)
    (ent : List Nat) (h0 : ent ≠ [0]) (hent : c.ents.contains ent = true) :
    (dropEntity F s k ent).1.subs = s.subs.filter (fun e => !(e.cl.ski == k && e.cl.ent == ent)) ∧
    (dropEntity F s k ent).1.binds = s.binds.filter (fun e => !(e.cl.ski == k && e.cl.ent == ent)) ∧
    (dropEntity F s k ent).1.csubs = s.csubs.filter (fun b => !(b.dev == c.dev && b.ent == ent)) ∧
    (dropEntity F s k ent).1.cbinds = s.cbinds.filter (fun b => !(b.dev == c.dev && b.ent == ent)) :=
  let h := dropEntity_exact F hF s hs k c hk ent h0 hent
  ⟨h.1, h.2.1, h.2.2.1, h.2.2.2.1⟩

/-- non-vacuity: entity [1] of connection 1 removed — its sub-entity [1,1] keeps its subscription, connection 2 everything -/
example : ((dropEntity Facts.head w0 1 [1]).1.subs.map fun e => (e.id, e.cl.ski, e.cl.ent)) = [(2, 2, [1]), (3, 1, [1, 1])] ∧
    ((dropEntity Facts.head w0 1 [1]).1.binds.map fun e => (e.id, e.cl.ski)) = [(2, 2)] ∧
    (dropEntity Facts.head w0 1 [1]).1.csubs = [⟨102, [1], 3⟩] := by decide

/-! ## clause: a removal event for each registry entry and for the device -/

/-- The events published by RemoveRemoteDeviceConnection are, as a multiset (application handlers run concurrently),
    exactly: one subscription-removed event per subscription of that connection, one binding-removed event per binding of
    that connection, none for any other entry, and one device-removed event. -/
theorem c10k_device_events (F : Facts) (hF : F.ok = true) (s : St) (hs : Inv s) (k : Nat) (c : Conn) (hk : forSki s k = some c) :
    (drop F s k).2.Perm
      ((s.subs.filter (fun e => e.cl.ski == k)).map Ev.subRemoved ++ (s.binds.filter (fun e => e.cl.ski == k)).map Ev.bindRemoved ++
        [Ev.deviceRemoved k]) :=
  drop_events F hF s hs k c hk

/-- The events of an entity removal: the entity-removed event, then one event per registry entry of (that connection, that
    entity), in registry order; none for any other entry. -/
theorem c10k_entity_events (F : Facts) (hF : F.ok = true) (s : St) (hs : Inv s) (k : Nat) (c : Conn) (hk : forSki s k = some c)
    (ent : List Nat) (h0 : ent ≠ [0]) (hent : c.ents.contains ent = true) :
    (dropEntity F s k ent).2 = [Ev.entityRemoved k ent] ++
      (s.subs.filter (fun e => e.cl.ski == k && e.cl.ent == ent)).map Ev.subRemoved ++
      (s.binds.filter (fun e => e.cl.ski == k && e.cl.ent == ent)).map Ev.bindRemoved :=
  (dropEntity_exact F hF s hs k c hk ent h0 hent).2.2.2.2

/-- a removal entry about [0], about an entity the device does not have, or of an unknown connection publishes nothing
    and changes nothing -/
theorem c10k_entity_zero_silent (F : Facts) (s : St) (k : Nat) : dropEntity F s k [0] = (s, []) := dropEntity_zero F s k

/-- non-vacuity: the teardown of connection 1 publishes its two subscriptions (from [1] and [1,1]), its binding, the device -/
example : ((drop Facts.head w0 1).2.map fun
      | .subRemoved e => (1, e.id, e.cl.ski) | .bindRemoved e => (2, e.id, e.cl.ski) | .deviceRemoved k => (3, 0, k) | .entityRemoved k _ => (4, 0, k))
    = [(1, 1, 1), (1, 3, 1), (2, 1, 1), (3, 0, 1)] := by decide

/-! ## clause: the device can no longer be resolved by SKI or address; every other device still is -/

/-- Every member: after the removal the SKI resolves to nothing; with distinct device addresses, so does the address. -/
theorem c10k_unresolvable (F : Facts) (s : St) (k : Nat) (c : Conn) (hk : forSki s k = some c) (hinj : DevInj s.conns) :
    forSki (drop F s k).1 k = none ∧ forAddress (drop F s k).1 c.dev = none :=
  ⟨forSki_drop_self F s k, forAddress_drop_self F s k c hk hinj⟩

/-- Every member: every other SKI and every other device address resolve to exactly the same device as before. -/
theorem c10k_others_resolve (F : Facts) (s : St) (k : Nat) (c : Conn) (hk : forSki s k = some c) (hmap : IsMap s.conns) :
    (∀ q, q ≠ k → forSki (drop F s k).1 q = forSki s q) ∧ (∀ d, d ≠ c.dev → forAddress (drop F s k).1 d = forAddress s d) :=
  ⟨fun q hq => forSki_drop_other F s k q hq, fun d hd => forAddress_drop_other F s k c hk hmap d hd⟩

example : forSki (drop Facts.head w0 1).1 1 = none ∧ forAddress (drop Facts.head w0 1).1 101 = none ∧
    (forSki (drop Facts.head w0 1).1 2).map (·.dev) = some 102 ∧ (forAddress (drop Facts.head w0 1).1 102).map (·.ski) = some 2 := by decide

/-! ## the hypothesis `Inv` holds in every state the stack reaches -/

/-- Along every history of connections (each announcing a device address no connected device has — the assumption),
    granted subscription / binding requests, client-side requests, teardowns and entity removals, starting from the empty
    world, the invariant `Inv` of the theorems above holds. -/
theorem c10k_reachable (F : Facts) (hF : F.ok = true) (ops : List Op) (hok : okRun F { conns := [] } ops = true) :
    Inv (run F { conns := [] } ops) :=
  inv_run F hF ops _ inv_empty hok

/-- non-vacuity: a history with two connections of identical numbering, entries, a teardown and a re-connection is admissible -/
example : okRun Facts.head { conns := [] }
    [.connect ⟨1, 101, [[0], [1]]⟩, .connect ⟨2, 102, [[0], [1]]⟩, .entry false 1 1 [1] 1 [1] 1, .entry true 1 2 [1] 1 [1] 1,
     .drop 1, .connect ⟨1, 101, [[0], [1]]⟩, .dropEnt 2 [1]] = true := by decide

/-! ## agreement with the one-number model of `Spine.Props.C10` -/

/-- Cross-model agreement: `Spine.Reg` (a peer is ONE number; the model of `C10.c10_drop_exact`, `C08`, `C09`) is the
    abstraction peer := connection of this model. In every state of the invariant and for every choice of comparisons that
    names peer and entity, the device teardown over keys projects to `Reg.removePeer` of the repaired member, and the
    abstraction of such a state satisfies `Reg.Sane` — the hypothesis of the `C10` theorems. -/
theorem c10k_agrees_with_registry_model (F : Facts) (hF : F.ok = true) (s : St) (hs : Inv s) (k : Nat) (c : Conn) (hk : forSki s k = some c) :
    Reg.Sane (abs s) ∧
    (abs (drop F s k).1).subs = (Reg.removePeer Reg.Cfg.clean (abs s) k).subs ∧
    (abs (drop F s k).1).binds = (Reg.removePeer Reg.Cfg.clean (abs s) k).binds :=
  ⟨abs_sane s hs, drop_agrees_reg F hF s hs k c hk⟩

/-- non-vacuity: the abstraction of the example world has both peers' entries; the pinned comparisons do NOT project to the
    repaired registry model (they are its `dropBindsAnyPeer` member) -/
example : ((abs w0).subs.map fun e => (e.peer, e.cEnt, e.cFeat)) = [(1, [1], 1), (2, [1], 1), (1, [1, 1], 1)] ∧
    (abs (drop Facts.pinned w0 1).1).binds ≠ (Reg.removePeer Reg.Cfg.clean (abs w0) 1).binds ∧
    (abs (drop Facts.pinned w0 1).1).binds = (Reg.removePeer {} (abs w0) 1).binds := by decide

/-- Cross-model agreement, ENTITY removal (the device half is the theorem above): in every state of the invariant, for
    every choice of comparisons that names peer and entity, and for EVERY connection and entity address ([0], unknown
    entities, unknown connections included), one removal entry of the key model projects to `Reg.removeEntity` of the
    repaired one-number model — subscriptions, bindings, and the known entities of every peer. -/
theorem c10k_entity_agrees_with_registry_model (F : Facts) (hF : F.ok = true) (s : St) (hs : Inv s) (k : Nat) (ent : List Nat) :
    (abs (dropEntity F s k ent).1).subs = (Reg.removeEntity Reg.Cfg.clean (abs s) k ent).subs ∧
    (abs (dropEntity F s k ent).1).binds = (Reg.removeEntity Reg.Cfg.clean (abs s) k ent).binds ∧
    (∀ q, (abs (dropEntity F s k ent).1).bare q = (Reg.removeEntity Reg.Cfg.clean (abs s) k ent).bare q) :=
  dropEntity_agrees_reg F hF s hs k ent

/-- non-vacuity: the removal of [1] of connection 1 in the example world takes one subscription and one binding on both
    sides and leaves [0], [1,1] known; the pinned comparisons do NOT project to the repaired registry model -/
example : ((Reg.removeEntity Reg.Cfg.clean (abs w0) 1 [1]).subs.map fun e => (e.peer, e.cEnt)) = [(2, [1]), (1, [1, 1])] ∧
    ((Reg.removeEntity Reg.Cfg.clean (abs w0) 1 [1]).binds.map fun e => (e.peer, e.cEnt)) = [(2, [1])] ∧
    (Reg.removeEntity Reg.Cfg.clean (abs w0) 1 [1]).bare 1 = [[0], [1, 1]] ∧
    (abs (dropEntity Facts.head w0 1 [1]).1).bare 1 = [[0], [1, 1]] ∧
    (abs (dropEntity Facts.pinned w0 1 [1]).1).binds ≠ (Reg.removeEntity Reg.Cfg.clean (abs w0) 1 [1]).binds := by decide

/-! ## the connection removed WHILE its own entity-removed notification is processed -/

/-- The removal entry about entity `ent` of connection `k` (steps: the entity leaves the device object's list; the
    subscription pass, the binding pass, the bookkeeping clean-up for that entity) and the teardown of the SAME connection
    (steps: the per-device subscription passes and binding passes — which walk the device object's CURRENT entity list, so
    they no longer visit an entity that has already left it —, the delete from the map of connected devices, the bookkeeping
    clean-up for the device) executed in ANY order — every interleaving of the two sequences, indeed every permutation of the
    eight steps — end in the state of the sequential teardown: everything that refers to the device is gone, nothing else.
    For every `Facts` with `Facts.ok` and every state of the invariant. -/
theorem c10k_entity_pass_device_teardown_commute (F : Facts) (hF : F.ok = true) (s : St) (hs : Inv s) (k : Nat) (c : Conn)
    (hk : forSki s k = some c) (ent : List Nat) (h0 : ent ≠ [0]) (hent : c.ents.contains ent = true)
    (l : List MStep) (hnd : l.Nodup) (hall : ∀ a, a ∈ l) :
    mrun F c ent l s = (drop F (dropEntity F s k ent).1 k).1 ∧
    (drop F (dropEntity F s k ent).1 k).1.subs = s.subs.filter (fun e => e.cl.ski != k) ∧
    (drop F (dropEntity F s k ent).1 k).1.binds = s.binds.filter (fun e => e.cl.ski != k) := by
  refine ⟨interleaving_ends_sequential F hF s hs k c hk ent h0 hent l hnd hall, ?_, ?_⟩
  · have h0' : (ent == [0]) = false := by simpa using h0
    have exE := dropEntity_exact F hF s hs k c hk ent h0 hent
    have exD := drop_exact F hF _ (inv_dropEntity F hF s hs k ent) k _ (forSki_dropEntity_self F s k c hk ent h0' hent)
    rw [exD.1, exE.1, List.filter_filter]
    apply filter_congr_mem; intro e _; by_cases he : e.cl.ski = k <;> simp [he]
  · have h0' : (ent == [0]) = false := by simpa using h0
    have exE := dropEntity_exact F hF s hs k c hk ent h0 hent
    have exD := drop_exact F hF _ (inv_dropEntity F hF s hs k ent) k _ (forSki_dropEntity_self F s k c hk ent h0' hent)
    rw [exD.2.1, exE.2.1, List.filter_filter]
    apply filter_congr_mem; intro e _; by_cases he : e.cl.ski = k <;> simp [he]

/-- the interleaving "entity unlisted, then the whole device teardown, then the entity's clean-up" -/
def sched0 : List MStep := [.unlist, .subsD, .bindsD, .mapDel, .cachesD, .subsE, .bindsE, .cachesE]

/-- non-vacuity: the schedule is admissible; in the example world (connection 1 subscribed and bound from [1], subscribed
    from [1,1]; connection 2 with identical numbering) it leaves exactly connection 2's entries, bookkeeping and connection —
    the device passes, run after [1] left the list, removed only the subscription from [1,1]: the rest went with the entity's
    unconditional passes -/
example : sched0.Nodup ∧ (∀ a, a ∈ sched0) ∧
    ((mrun Facts.head ⟨1, 101, [[0], [1], [1, 1]]⟩ [1] sched0 w0).subs.map fun e => (e.id, e.cl.ski)) = [(2, 2)] ∧
    ((mrun Facts.head ⟨1, 101, [[0], [1], [1, 1]]⟩ [1] sched0 w0).binds.map fun e => (e.id, e.cl.ski)) = [(2, 2)] ∧
    (mrun Facts.head ⟨1, 101, [[0], [1], [1, 1]]⟩ [1] sched0 w0).csubs = [⟨102, [1], 3⟩] ∧
    ((mrun Facts.head ⟨1, 101, [[0], [1], [1, 1]]⟩ [1] (sched0.take 5) w0).subs.map fun e => (e.id, e.cl.ski)) = [(1, 1), (2, 2)] := by
  refine ⟨by decide, ?_, by decide, by decide, by decide, by decide⟩
  intro a; cases a <;> decide

/-- REFUTED for a removal branch that returns early once the device has left the map of connected devices ("the connection
    was closed meanwhile, RemoveRemoteDevice already removed everything"): in the same interleaving the subscription and the
    binding of connection 1 from the removed entity [1] STAY — registered for a device that no longer exists, the bound
    server feature blocked for everybody else. The entity's passes must be unconditional. -/
theorem c10k_guarded_entity_pass_refuted :
    ((mrunG Facts.head ⟨1, 101, [[0], [1], [1, 1]]⟩ [1] sched0 w0).subs.map fun e => (e.id, e.cl.ski)) = [(1, 1), (2, 2)] ∧
    ((mrunG Facts.head ⟨1, 101, [[0], [1], [1, 1]]⟩ [1] sched0 w0).binds.map fun e => (e.id, e.cl.ski)) = [(1, 1), (2, 2)] ∧
    (forSki (mrunG Facts.head ⟨1, 101, [[0], [1], [1, 1]]⟩ [1] sched0 w0) 1).isNone = true := by decide

/-! ## what the comparisons must provide -/

/-- REFUTED for the comparisons of the pinned commit (`RemoveBindingsForEntity` compared the entity address only,
    `Facts.pinned`; known finding `teardown-removes-other-peers-binding`, repaired): removing connection 1 deletes the
    binding of connection 2, which uses the same entity number. -/
theorem c10k_entity_only_refuted :
    Facts.pinned.ok = false ∧ (drop Facts.pinned w0 1).1.binds = [] ∧
    (w0.binds.filter (fun e => e.cl.ski == 2)).length = 1 := by decide

/-- REFUTED without the assumption "distinct connections announce distinct device addresses", for the comparisons of
    HEAD: `RemoveSubscriptionsForEntity` and the bookkeeping clean-ups compare the device ADDRESS, so when connection 3
    announces the address of connection 1, removing connection 1 deletes connection 3's subscription and the bookkeeping
    for it — while connection 3 stays connected and now resolves by that address. -/
theorem c10k_shared_address_refuted :
    let s := run Facts.head { conns := [⟨1, 101, [[0], [1]]⟩, ⟨3, 101, [[0], [1]]⟩] }
      [.entry false 1 1 [1] 1 [1] 1, .entry false 2 3 [1] 1 [1] 1, .entry true 1 3 [1] 1 [1] 1]
    (s.subs.map fun e => e.cl.ski) = [1, 3] ∧ (drop Facts.head s 1).1.subs = [] ∧
    ((drop Facts.head s 1).1.binds.map fun e => e.cl.ski) = [3] ∧
    (forSki (drop Facts.head s 1).1 3).isSome = true ∧ (forAddress (drop Facts.head s 1).1 101).map (·.ski) = some 3 := by decide

end Spine.Props.C10Keys
