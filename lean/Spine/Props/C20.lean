import Spine.UseCaseConc
import Spine.UseCaseLock
import Spine.UseCaseFrame
/-!
# C20 — the use-case registry reflects exactly what the application declared

Property theorems only. Models (all in namespace `Spine.UC`):
* `Spine/UseCase.lean` — the node-management use-case data as a list of information elements; `add` / `has` /
  `setAvail` / `remove` / `removeAll` transcribed from `model/nodemanagement_additions.go`,
  `usecaseinformation_additions.go` with the wildcard rules of `useCaseInformationIndex`; the read path
  (`handleUseCaseMsg`, `readReply` = wire encoding of the stored data, `decode`, `peerReads`).
* `Spine/UseCaseLock.lean` — the member WITH THE LOCK: each of the four `EntityLocal` operations is
  `useCaseMux.Lock(); DataCopy; modify; SetData; (deferred) Unlock`, events `acquire`, `copy`, `store`, `release`.
  **This is the member the current tree is** (since `fix:` 45f2bf6; regenerated fact `Spine.Props.C20Gen`).
* `Spine/UseCaseConc.lean` — the member WITHOUT a lock, events `copy`, `store`: "the code as written" below always
  means the pinned commit a1767d0, where the cycles were unlocked; plus `atomic` events (a cycle nothing overlaps).
  Kept because the harness probes the tree and must still tell the truth if the lock is removed again.
* `Spine/UseCaseHeap.lean` — executable aliasing-exact variant of the unlocked member (DataCopy copies only the slice
  header); with the lock its overlapping-cycle behaviour is unreachable through the public API (`c20_concurrent_locked`:
  every schedule is sequential), it only serves the correspondence run on an unlocked tree.
Lemmas: `Spine/UseCaseThm.lean`.

SPEC: a plain map `(entity, actor, name) ↦ Support` (`UC.Spec`; a `Support` carries name, version, availability,
scenarios and document sub-revision), changed by `UC.specStep` — add overwrites the key, remove deletes the key,
set-availability changes the flag of a present key, remove-all deletes every key of the entity.

Precondition made explicit (`Op.ok`): actor and use-case name are non-empty. The empty string is a wildcard in the
lookup of the real code and the API does not reject it; such calls are outside the statement (the harness records
them as observations and compares them with the model only).

Status: every clause PROVED for the current tree's member — sequential clauses for all histories, isolation, read =
registry through the modelled read path, and the concurrent clause as ONE theorem over all schedules of the locked
cycles (`c20_concurrent_locked`). For the pinned commit's unlocked member the concurrent clause is REFUTED by a
kernel-checked witness (`c20_concurrent_refuted`; finding `usecase-lost-update`, recorded as fixed) and PROVED for
non-overlapping schedules (`c20_concurrent_partial`).
Deepening round (audit table: `design/audit-C20.md`): isolation as a frame theorem over whole histories and over every
schedule of the locked cycles (`c20_frame_history`, `c20_frame_concurrent`), no store of a lock holder is lost
(`c20_no_store_lost`), the wire encoding is injective and self-delimiting (`c20_wire_injective`); regenerated wiring
of the four operations in `Spine.Props.C20Gen` (`c20_operations_apply_their_helper`, `c20_has_is_read_only`).
-/
namespace Spine.Props.C20
open Spine Spine.UC

/-- Clause 1 (sequential, all histories): after any sequence of add / remove / set-availability / remove-all
    operations over any entities, actors and names, the registry answers — per (entity, actor, name), with the
    version, scenarios, sub-revision and availability last given — exactly like the specification map obtained by
    applying the same operations to the empty map; and the representation invariant holds (at most one information
    element per (entity, actor), at most one support per name). -/
theorem c20_refines (ops : List Op) (hok : ∀ op ∈ ops, op.ok) :
    Inv (ops.foldl apply []) ∧ lookup (ops.foldl apply []) = ops.foldl specStep (fun _ _ _ => none) :=
  UC.c20_refines ops hok

/-- non-vacuity: a history with re-add (overwrite), set-availability, removal of the last use case of an actor and
    remove-all; the map is non-trivial afterwards -/
def exOps : List Op :=
  [.add [1] 1 ⟨1, 0, true, [1], 0⟩, .add [2] 1 ⟨1, 0, true, [], 0⟩, .add [1] 1 ⟨1, 2, false, [2, 3], 1⟩,
   .add [1] 2 ⟨3, 0, true, [], 0⟩, .setAvail [1] 1 1 true, .remove [1] 2 3, .removeAll [2], .remove [1] 1 9]

theorem exOps_ok : ∀ op ∈ exOps, op.ok := by
  intro op hop
  simp only [exOps, List.mem_cons, List.not_mem_nil, or_false] at hop
  rcases hop with rfl | rfl | rfl | rfl | rfl | rfl | rfl | rfl <;> simp [Op.ok]

example : lookup (exOps.foldl apply []) [1] 1 1 = some ⟨1, 2, true, [2, 3], 1⟩ ∧
    lookup (exOps.foldl apply []) [1] 2 3 = none ∧ lookup (exOps.foldl apply []) [2] 1 1 = none := by decide

/-- Clause 1, "is reported as supported exactly if it was added and not removed since":
    `HasUseCaseSupport` is the domain test of that map. -/
theorem c20_has (ops : List Op) (hok : ∀ op ∈ ops, op.ok) (e : List Nat) (a n : Nat) (ha : a ≠ 0) (hn : n ≠ 0) :
    has (ops.foldl apply []) e a n = ((ops.foldl specStep (fun _ _ _ => none)) e a n).isSome :=
  UC.c20_has ops hok e a n ha hn

example : has (exOps.foldl apply []) [1] 1 1 = true ∧ has (exOps.foldl apply []) [1] 2 3 = false := by decide

/-- the entity an operation is issued on -/
def opEnt : Op → List Nat
  | .add e _ _ => e
  | .remove e _ _ => e
  | .setAvail e _ _ _ => e
  | .removeAll e => e

/-- Clause 2 (isolation): an operation on one entity never affects another entity's use cases — in any state
    satisfying the invariant (hence in every reachable state, by `c20_refines`). -/
theorem c20_isolation (r : Reg) (hi : Inv r) (op : Op) (hok : op.ok) (e' : List Nat) (hne : e' ≠ opEnt op)
    (a' n' : Nat) : lookup (apply r op) e' a' n' = lookup r e' a' n' := by
  rw [(step_refines r hi op hok).2]
  cases op <;> simp only [specStep, opEnt] at * <;> simp [hne]

example : Inv (exOps.foldl apply []) ∧ lookup (exOps.foldl apply []) [1] 1 1 ≠ none ∧
    lookup (apply (exOps.foldl apply []) (.removeAll [2])) [1] 1 1 = lookup (exOps.foldl apply []) [1] 1 1 :=
  ⟨(UC.c20_refines exOps exOps_ok).1, by decide, by decide⟩

/-- Clause 3 (sequential part): the use-case data a peer reads from node management equals that registry.
    The read path is modelled: a `read` carrying use-case data is routed by node management to
    `processReadUseCaseData`, which replies with the wire encoding of the stored function data; the peer decodes the
    payload (`peerReads`). The decoded payload answers exactly like the specification map; and node management sends
    use-case data back for no classifier other than `read`. (That the real JSON datagram decodes to the stored data
    is compared by the harness on every read; `encoding/json` itself is assumption A-json.) -/
theorem c20_read_equals_registry (ops : List Op) (hok : ∀ op ∈ ops, op.ok) :
    (peerReads (ops.foldl apply [])).map lookup = some (ops.foldl specStep (fun _ _ _ => none)) ∧
    ∀ c, (handleUseCaseMsg (ops.foldl apply []) c).isSome ↔ c = .read := by
  refine ⟨by rw [peerReads_eq, Option.map_some, (UC.c20_refines ops hok).2], ?_⟩
  intro c; cases c <;> simp [handleUseCaseMsg]

/-- the encoding is not trivial: the payload of the example registry, and it decodes back -/
example : readReply (exOps.foldl apply []) = [1, 1, 1, 1, 1, 1, 2, 1, 1, 2, 2, 3] ∧
    decode [1, 1, 1, 1, 1, 1, 2, 1, 1, 2, 2, 3] = some (exOps.foldl apply []) ∧
    decode [1, 1, 1, 1, 1, 1, 2, 1, 1, 2, 2] = none := by decide

/-- Clause 3, THE CONCURRENT CLAUSE FOR THE CURRENT TREE (cycles under `useCaseMux`), as one statement: for EVERY
    interleaving of the `acquire` / `copy` / `store` / `release` events of any number of operations issued from any
    goroutines on any entities (events of an operation that is not at that program point are no-ops, so every event
    list is a schedule), there is a sequentialisation — the operations whose stores took effect, in the order of the
    lock holds in which they took effect (`doneBy` carries the serial number of the lock hold, non-decreasing) —
    such that the registry is the sequential run of it, what a peer reads through node management at that moment
    decodes to a registry answering exactly like the SPEC map of that sequentialisation, and `HasUseCaseSupport`
    is its domain test. Every prefix of a schedule is a schedule, so this holds at every moment of the schedule. -/
theorem c20_concurrent_locked (evs : List LEv) (hok : ∀ k o, LEv.store k o ∈ evs → o.ok) :
    let s := lrun evs
    let σ := s.seq.foldl specStep (fun _ _ _ => none)
    (s.doneBy.map (·.1)).Pairwise (· ≤ ·) ∧
    (∀ o ∈ s.seq, ∃ k, LEv.store k o ∈ evs) ∧
    s.reg = s.seq.foldl apply [] ∧
    (peerReads s.reg).map lookup = some σ ∧
    ∀ e a n, a ≠ 0 → n ≠ 0 → has s.reg e a n = (σ e a n).isSome := by
  intro s σ
  have hseq : ∀ o ∈ s.seq, o.ok := fun o ho => by
    obtain ⟨k, hk⟩ := seq_sub evs o ho
    exact hok k o hk
  obtain ⟨hreg, hord⟩ := locked_is_sequential evs
  refine ⟨hord, seq_sub evs, hreg, ?_, ?_⟩
  · rw [peerReads_eq, Option.map_some, hreg, (UC.c20_refines s.seq hseq).2]
  · intro e a n ha hn
    rw [hreg]
    exact UC.c20_has s.seq hseq e a n ha hn

/-- non-vacuity: the lost-update schedule of the unlocked code, attempted under the lock — the second operation cannot
    copy while the first holds the lock, both additions take effect, in lock order -/
example :
    (lrun [.acquire 1, .copy 1, .acquire 2, .copy 2, .store 1 (.add [1] 1 ⟨1, 0, true, [], 0⟩),
           .store 2 (.add [2] 1 ⟨1, 0, true, [], 0⟩), .release 1, .acquire 2, .copy 2,
           .store 2 (.add [2] 1 ⟨1, 0, true, [], 0⟩), .release 2]).doneBy
      = [(1, .add [1] 1 ⟨1, 0, true, [], 0⟩), (2, .add [2] 1 ⟨1, 0, true, [], 0⟩)] := by decide

/-- … and a complete cycle that nothing overlaps has exactly the effect of the operation (the events are not vacuous) -/
theorem c20_locked_cycle_effect (s : LSt) (h : LInv s) (hfree : s.holder = none) (k : Nat) (o : Op) :
    ([LEv.acquire k, .copy k, .store k o, .release k].foldl lstep s).reg = apply s.reg o ∧
    ([LEv.acquire k, .copy k, .store k o, .release k].foldl lstep s).holder = none :=
  cycle_effect s h hfree k o

/-- The same clause for cycles that are single events (`atomic`; used by the harness on a serialised tree, where a
    cycle cannot be split): the registry — and what a peer reads — is the specification map folded over the order in
    which the operations took effect. -/
theorem c20_concurrent (evs : List CEv) (ops : List Op) (h : atomicOps evs = some ops) (hok : ∀ op ∈ ops, op.ok) :
    (peerReads (crun evs).reg).map lookup = some (ops.foldl specStep (fun _ _ _ => none)) := by
  rw [peerReads_eq, Option.map_some, UC.c20_concurrent evs ops h hok]

example : atomicOps [.atomic (.add [1] 1 ⟨1, 0, true, [], 0⟩), .atomic (.add [2] 1 ⟨1, 0, true, [], 0⟩)] = some lostOps ∧
    lookup (crun [.atomic (.add [1] 1 ⟨1, 0, true, [], 0⟩), .atomic (.add [2] 1 ⟨1, 0, true, [], 0⟩)]).reg [1] 1 1
      = some ⟨1, 0, true, [], 0⟩ := ⟨rfl, by decide⟩

/-- UNLOCKED member (the pinned commit), PARTIAL: for every schedule in which no two read-modify-write cycles
    overlap (each copy directly followed by its store) the registry is the specification map folded over the
    operations. The excluded region is exactly "some cycle starts between another cycle's copy and store". -/
theorem c20_concurrent_partial (evs : List CEv) (ops : List Op) (h : calmOps none evs = some ops)
    (hok : ∀ op ∈ ops, op.ok) :
    (peerReads (crun evs).reg).map lookup = some (ops.foldl specStep (fun _ _ _ => none)) := by
  rw [peerReads_eq, Option.map_some, UC.c20_concurrent_partial evs ops h hok]

example : calmOps none [.copy 1, .store 1 (.add [1] 1 ⟨1, 0, true, [], 0⟩), .copy 2, .store 2 (.add [2] 1 ⟨1, 0, true, [], 0⟩)]
    = some lostOps := rfl

/-- UNLOCKED member (the pinned commit), REFUTED (finding `usecase-lost-update`, repaired by 45f2bf6): the
    full-strength statement — for every well-formed schedule of copy/store events the registry is the specification
    map folded over the operations in store order — fails on copy₁ copy₂ store₁ store₂ with two additions on the
    different entities [1] and [2]: entity [1]'s use case is lost. -/
theorem c20_concurrent_refuted :
    ¬ (∀ (evs : List CEv) (ops : List Op), storeOrder [] evs = some ops → (∀ op ∈ ops, op.ok) →
        lookup (crun evs).reg = ops.foldl specStep (fun _ _ _ => none)) :=
  UC.c20_concurrent_refuted

/-- the witness itself, as a concrete evaluation (the harness replays it through the yield hook on every run and
    reports it if the tree under test loses the update) -/
theorem c20_lost_update_witness :
    lookup (crun [.copy 1, .copy 2, .store 1 (.add [1] 1 ⟨1, 0, true, [], 0⟩),
                  .store 2 (.add [2] 1 ⟨1, 0, true, [], 0⟩)]).reg [1] 1 1 = none :=
  UC.lost_update_witness

/-! ## Added in the deepening round: frame over histories and schedules, no lost store, the wire -/

/-- Clause 2 as a FRAME THEOREM over whole histories (before: one step, `c20_isolation`): after ANY history of add /
    remove / set-availability / remove-all operations on any entities, what the registry answers about entity e' —
    for every actor and name — is exactly what it answers after the sub-history of the operations issued ON e'
    (`onEnt`), i.e. as if the operations on all other entities had never happened, wherever they stand in the
    history; remove-all of another entity included. -/
theorem c20_frame_history (ops : List Op) (hok : ∀ op ∈ ops, op.ok) (e' : List Nat) :
    lookup (ops.foldl apply []) e' = lookup ((onEnt e' ops).foldl apply []) e' ∧
    (ops.foldl specStep (fun _ _ _ => none)) e' = ((onEnt e' ops).foldl specStep (fun _ _ _ => none)) e' :=
  ⟨frame_history ops hok e', spec_frame e' ops _ _ rfl⟩

/-- non-vacuity: in the example history entity [1] keeps exactly what its own five operations give it, although
    operations on [2] (an add and a remove-all) are interleaved -/
example : onEnt [1] exOps = [.add [1] 1 ⟨1, 0, true, [1], 0⟩, .add [1] 1 ⟨1, 2, false, [2, 3], 1⟩,
      .add [1] 2 ⟨3, 0, true, [], 0⟩, .setAvail [1] 1 1 true, .remove [1] 2 3, .remove [1] 1 9] ∧
    lookup ((onEnt [1] exOps).foldl apply []) [1] 1 1 = some ⟨1, 2, true, [2, 3], 1⟩ ∧
    (onEnt [2] exOps).length = 2 := by decide

/-- The frame under CONCURRENCY (current tree's member): for EVERY schedule of the locked cycles of any number of
    goroutines, what the registry — and hence what a peer reads and what HasUseCaseSupport says — answers about
    entity e' is determined by the operations on e' among those that took effect, in lock order: cycles on other
    entities, however interleaved, never show. -/
theorem c20_frame_concurrent (evs : List LEv) (hok : ∀ k o, LEv.store k o ∈ evs → o.ok) (e' : List Nat) :
    lookup (lrun evs).reg e' = lookup ((onEnt e' (lrun evs).seq).foldl apply []) e' ∧
    (peerReads (lrun evs).reg).map (fun r => lookup r e') =
      some (((onEnt e' (lrun evs).seq).foldl specStep (fun _ _ _ => none)) e') := by
  have hseq : ∀ o ∈ (lrun evs).seq, o.ok := fun o ho => by
    obtain ⟨k, hk⟩ := seq_sub evs o ho
    exact hok k o hk
  have hreg := (locked_is_sequential evs).1
  refine ⟨by rw [hreg]; exact frame_history _ hseq e', ?_⟩
  rw [peerReads_eq, Option.map_some, hreg, (UC.c20_refines _ hseq).2]
  exact congrArg some (spec_frame e' _ _ _ rfl)

example : onEnt [1] (lrun [.acquire 1, .copy 1, .acquire 2, .store 1 (.add [1] 1 ⟨1, 0, true, [], 0⟩), .release 1,
      .acquire 2, .copy 2, .store 2 (.removeAll [2]), .release 2]).seq = [.add [1] 1 ⟨1, 0, true, [], 0⟩] := by decide

/-- NO STORE IS LOST (current tree's member; the converse direction of `c20_concurrent_locked`, which says that
    everything in the sequentialisation was stored): in every state any schedule can reach, a store by the operation
    that holds the lock and has copied has exactly the operation's effect on the CURRENT registry — never on a stale
    copy — and enters the sequentialisation; and a copy by the lock holder puts it into that position. -/
theorem c20_no_store_lost (evs : List LEv) (k : Nat) (o : Op) (hh : (lrun evs).holder = some k) :
    let s := lstep (lrun evs) (.copy k)
    (lstep s (.store k o)).reg = apply (lrun evs).reg o ∧
    (lstep s (.store k o)).seq = (lrun evs).seq ++ [o] := by
  intro s
  have hi : LInv s := linv_step _ (linv_run evs) _
  obtain ⟨h1, h2⟩ := copy_ready (lrun evs) k hh
  obtain ⟨e1, e2⟩ := store_effect s hi k o h1 h2
  have hr : s.reg = (lrun evs).reg := by simp [s, lstep, hh]
  have hd : s.doneBy = (lrun evs).doneBy := by simp [s, lstep, hh]
  refine ⟨by rw [e1, hr], ?_⟩
  simp only [LSt.seq, e2, hd, List.map_append, List.map_cons, List.map_nil]

example : (lrun [.acquire 1, .copy 1, .store 1 (.add [1] 1 ⟨1, 0, true, [], 0⟩), .release 1, .acquire 2]).holder = some 2 := by
  decide

/-- The wire of the read path (a length-prefixed token list standing for the JSON reply): the encoding of the stored
    data is INJECTIVE — two registries with the same payload are the same registry, so nothing the registry holds is
    lost or merged on the wire — and SELF-DELIMITING: a payload followed by anything else is not a payload. (The
    real JSON text is compared with the stored data by the harness on every read; `encoding/json` is A-json.) -/
theorem c20_wire_injective (r r' : Reg) :
    (encode r = encode r' → r = r') ∧ (∀ w, decode (encode r ++ w) = if w = [] then some r else none) :=
  ⟨encode_injective r r', decode_encode_append r⟩

example : encode [⟨[1], 1, [⟨1, 2, true, [2, 3], 1⟩]⟩] ≠ encode [⟨[1], 1, [⟨1, 2, true, [2], 1⟩]⟩] ∧
    decode (encode (exOps.foldl apply []) ++ [0]) = none := by decide

end Spine.Props.C20
