import Spine.UseCaseConc
/-!
# C20 — the use-case registry reflects exactly what the application declared

Property theorems only. Model: `Spine.UC` (`Spine/UseCase.lean`: the node-management use-case data as a list of
information elements, `add` / `has` / `setAvail` / `remove` / `removeAll` transcribed from
`model/nodemanagement_additions.go`, `usecaseinformation_additions.go` with the wildcard rules of
`useCaseInformationIndex`; `Spine/UseCaseConc.lean`: the four `EntityLocal` operations as events `copy`, `store`
(code as written: DataCopy … SetData without a lock of their own) and `atomic` (repaired: one mutex around the
read-modify-write). Lemmas: `Spine/UseCaseThm.lean`.

SPEC: a plain map `(entity, actor, name) ↦ Support` (`UC.Spec`; a `Support` carries name, version, availability,
scenarios and document sub-revision), changed by `UC.specStep` — add overwrites the key, remove deletes the key,
set-availability changes the flag of a present key, remove-all deletes every key of the entity.

Precondition made explicit (`Op.ok`): actor and use-case name are non-empty. The empty string is a wildcard in the
lookup of the real code and the API does not reject it; such calls are outside the statement (the harness records
them as observations and compares them with the model only).

Status: every sequential clause PROVED for all histories; isolation PROVED; read = registry PROVED (the reply is the
stored data); concurrent clause REFUTED for the code as written (kernel-checked witness, known finding
`usecase-lost-update`), PROVED for non-overlapping schedules (`_partial`) and for the repaired member (all schedules).
-/
namespace Spine.Props.C20
open Spine Spine.UC

/-- Clause 1 (sequential, all histories): after any sequence of add / remove / set-availability / remove-all
    operations over any entities, actors and names, the registry answers — per (entity, actor, name), with the
    version, scenarios, sub-revision and availability last given — exactly like the specification map obtained by
    applying the same operations to the empty map; and the representation invariant holds (at most one information
    element per (entity, actor), at most one support per name). -/
theorem c20_refines (ops : List Op) (hok : ∀ op ∈ ops, op.ok) :
    Inv (ops.foldl apply []) ∧ lookup (ops.foldl apply []) = ops.foldl specStep (fun _ _ _ => none) :=
  UC.c20_refines ops hok

/-- non-vacuity: a history with re-add (overwrite), set-availability, removal of the last use case of an actor and
    remove-all; the map is non-trivial afterwards -/
def exOps : List Op :=
  [.add [1] 1 ⟨1, 0, true, [1], 0⟩, .add [2] 1 ⟨1, 0, true, [], 0⟩, .add [1] 1 ⟨1, 2, false, [2, 3], 1⟩,
   .add [1] 2 ⟨3, 0, true, [], 0⟩, .setAvail [1] 1 1 true, .remove [1] 2 3, .removeAll [2], .remove [1] 1 9]
example : (∀ op ∈ exOps, op.ok) ∧
    lookup (exOps.foldl apply []) [1] 1 1 = some ⟨1, 2, true, [2, 3], 1⟩ ∧
    lookup (exOps.foldl apply []) [1] 2 3 = none ∧ lookup (exOps.foldl apply []) [2] 1 1 = none := by
  refine ⟨?_, by decide, by decide, by decide⟩
  intro op hop
  simp only [exOps, List.mem_cons, List.not_mem_nil, or_false] at hop
  rcases hop with rfl | rfl | rfl | rfl | rfl | rfl | rfl | rfl <;> simp [Op.ok]

/-- Clause 1, "is reported as supported exactly if it was added and not removed since":
    `HasUseCaseSupport` is the domain test of that map. -/
theorem c20_has (ops : List Op) (hok : ∀ op ∈ ops, op.ok) (e : List Nat) (a n : Nat) (ha : a ≠ 0) (hn : n ≠ 0) :
    has (ops.foldl apply []) e a n = ((ops.foldl specStep (fun _ _ _ => none)) e a n).isSome :=
  UC.c20_has ops hok e a n ha hn

example : has (exOps.foldl apply []) [1] 1 1 = true ∧ has (exOps.foldl apply []) [1] 2 3 = false := by decide

/-- the entity an operation is issued on -/
def opEnt : Op → List Nat
  | .add e _ _ => e
  | .remove e _ _ => e
  | .setAvail e _ _ _ => e
  | .removeAll e => e

/-- Clause 2 (isolation): an operation on one entity never affects another entity's use cases — in any state
    satisfying the invariant (hence in every reachable state, by `c20_refines`). -/
theorem c20_isolation (r : Reg) (hi : Inv r) (op : Op) (hok : op.ok) (e' : List Nat) (hne : e' ≠ opEnt op)
    (a' n' : Nat) : lookup (apply r op) e' a' n' = lookup r e' a' n' := by
  rw [(step_refines r hi op hok).2]
  cases op <;> simp only [specStep, opEnt] at * <;> simp [hne]

example : Inv (exOps.foldl apply []) ∧ lookup (exOps.foldl apply []) [1] 1 1 ≠ none ∧
    lookup (apply (exOps.foldl apply []) (.removeAll [2])) [1] 1 1 = lookup (exOps.foldl apply []) [1] 1 1 :=
  ⟨(UC.c20_refines exOps (by
      intro op hop
      simp only [exOps, List.mem_cons, List.not_mem_nil, or_false] at hop
      rcases hop with rfl | rfl | rfl | rfl | rfl | rfl | rfl | rfl <;> simp [Op.ok])).1, by decide, by decide⟩

/-- Clause 3 (sequential part): the use-case data a peer reads from node management equals that registry. In the
    model the reply is the stored data (`readReply`), so the statement is the refinement theorem read through the
    reply; that the real reply datagram equals the stored data is what the harness compares on every read. -/
theorem c20_read_equals_registry (ops : List Op) (hok : ∀ op ∈ ops, op.ok) :
    lookup (readReply (ops.foldl apply [])) = ops.foldl specStep (fun _ _ _ => none) :=
  (UC.c20_refines ops hok).2

example : lookup (readReply (exOps.foldl apply [])) [1] 1 1 = some ⟨1, 2, true, [2, 3], 1⟩ := by decide

/-- Clause 3 (concurrent part), REPAIRED member (one mutex around each read-modify-write, events `atomic`):
    under every schedule the registry — and therefore what a peer reads — is the specification map folded over the
    order in which the serialised operations took effect. -/
theorem c20_concurrent (evs : List CEv) (ops : List Op) (h : atomicOps evs = some ops) (hok : ∀ op ∈ ops, op.ok) :
    lookup (readReply (crun evs).reg) = ops.foldl specStep (fun _ _ _ => none) :=
  UC.c20_concurrent evs ops h hok

example : atomicOps [.atomic (.add [1] 1 ⟨1, 0, true, [], 0⟩), .atomic (.add [2] 1 ⟨1, 0, true, [], 0⟩)] = some lostOps ∧
    lookup (crun [.atomic (.add [1] 1 ⟨1, 0, true, [], 0⟩), .atomic (.add [2] 1 ⟨1, 0, true, [], 0⟩)]).reg [1] 1 1
      = some ⟨1, 0, true, [], 0⟩ := ⟨rfl, by decide⟩

/-- Clause 3 (concurrent part), code AS WRITTEN, PARTIAL: for every schedule in which no two read-modify-write
    cycles overlap (each copy directly followed by its store) the registry is the specification map folded over the
    operations. The excluded region is exactly "some cycle starts between another cycle's copy and store". -/
theorem c20_concurrent_partial (evs : List CEv) (ops : List Op) (h : calmOps none evs = some ops)
    (hok : ∀ op ∈ ops, op.ok) :
    lookup (readReply (crun evs).reg) = ops.foldl specStep (fun _ _ _ => none) :=
  UC.c20_concurrent_partial evs ops h hok

example : calmOps none [.copy 1, .store 1 (.add [1] 1 ⟨1, 0, true, [], 0⟩), .copy 2, .store 2 (.add [2] 1 ⟨1, 0, true, [], 0⟩)]
    = some lostOps := rfl

/-- Clause 3 (concurrent part), code AS WRITTEN, REFUTED (known finding `usecase-lost-update`): the full-strength
    statement — for every well-formed schedule of copy/store events the registry is the specification map folded
    over the operations in store order — fails on copy₁ copy₂ store₁ store₂ with two additions on the different
    entities [1] and [2]: entity [1]'s use case is lost. -/
theorem c20_concurrent_refuted :
    ¬ (∀ (evs : List CEv) (ops : List Op), storeOrder [] evs = some ops → (∀ op ∈ ops, op.ok) →
        lookup (crun evs).reg = ops.foldl specStep (fun _ _ _ => none)) :=
  UC.c20_concurrent_refuted

/-- the witness itself, as a concrete evaluation (replayed on the real code through the yield hook on every run) -/
theorem c20_lost_update_witness :
    lookup (crun [.copy 1, .copy 2, .store 1 (.add [1] 1 ⟨1, 0, true, [], 0⟩),
                  .store 2 (.add [2] 1 ⟨1, 0, true, [], 0⟩)]).reg [1] 1 1 = none :=
  UC.lost_update_witness

end Spine.Props.C20
