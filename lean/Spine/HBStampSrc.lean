import Spine.HBPace
import Spine.HBStamp
/-! C16, "carrying … a current timestamp" — WHERE the reading that is formatted into the data of a refresh comes from.

    The goroutine's loop is paced by one ticker (`Spine.HBP`, pacing `ticker`): its channel holds ONE tick, whose VALUE is
    the instant at which that tick was due; later ticks are dropped while the loop is busy (`SetData` notifies every
    subscriber synchronously: a back-pressured connection holds the refresh up). Two sources for the reading:

    * `clock`: the clock is read (`time.Now()`) INSIDE the refresh, after the tick was received — the reading is the
      instant the refresh begins.
    * `tick`: the value received from the ticker's channel (or, no better, a reading taken before the tick was received /
      before the loop) — the reading is the instant the tick was DUE. After a refresh that was held up for longer than a
      period the next refresh begins at once, with the tick that became due during the hold-up: its reading is stale by
      (hold-up − period) or more.

    Times in milliseconds since the goroutine started (`HBP.begins`); `r k` = how long refresh number k takes. -/
namespace Spine.HBS

inductive Src
  | clock
  | tick
  deriving DecidableEq, Repr

/-- the source as the translator reports it (`Generated.Heartbeat.stampSource`) -/
def srcOf : Nat → Option Src
  | 0 => some .clock
  | 1 => some .tick
  | _ => none

/-- the instant at which the tick that refresh number k receives was due (one ticker created before the loop) -/
def tickDue (d : Nat) (r : Nat → Nat) : Nat → Nat
  | 0 => d
  | k + 1 => (HBP.begins .ticker d r k / d + 1) * d

/-- the reading that is formatted into the data of refresh number k -/
def reading (s : Src) (d : Nat) (r : Nat → Nat) (k : Nat) : Nat :=
  match s with
  | .clock => HBP.begins .ticker d r k
  | .tick => tickDue d r k

/-- a tick is never received before it is due -/
theorem tickDue_le_begins (d : Nat) (r : Nat → Nat) (k : Nat) : tickDue d r k ≤ HBP.begins .ticker d r k := by
  cases k with
  | zero => simp [tickDue, HBP.begins]
  | succ k =>
    simp only [tickDue, HBP.begins]
    split <;> omega

/-- the clock read inside the refresh: the text denotes the instant the refresh begins up to the resolution of the text,
    however long the earlier refreshes were held up, in every local zone -/
theorem clock_current (d : Nat) (r : Nat → Nat) (k : Nat) (zone : Int) :
    denoted {} (reading .clock d r k : Nat) zone - (HBP.begins .ticker d r k : Nat) ≤ 500 ∧
    (HBP.begins .ticker d r k : Nat) - denoted {} (reading .clock d r k : Nat) zone ≤ 500 := by
  simp only [reading]
  exact current _ zone

/-- the tick's value: after a refresh that took a period plus s, the next refresh begins at least s after its tick was
    due -/
theorem tick_stale (d : Nat) (r : Nat → Nat) (k s : Nat) (hr : d + s ≤ r k) :
    tickDue d r (k + 1) + s ≤ HBP.begins .ticker d r (k + 1) := by
  simp only [tickDue, HBP.begins]
  have h1 : HBP.begins .ticker d r k / d * d ≤ HBP.begins .ticker d r k := Nat.div_mul_le_self _ _
  have h2 : (HBP.begins .ticker d r k / d + 1) * d = HBP.begins .ticker d r k / d * d + d := by
    rw [Nat.add_mul, Nat.one_mul]
  rw [h2]
  split <;> omega

/-- hence with the tick's value the timestamp of the refresh that follows a hold-up of a period plus more than a second
    is NOT current: it denotes an instant more than half a second (the resolution) before the refresh began -/
theorem tick_not_current (d : Nat) (r : Nat → Nat) (k s : Nat) (hr : d + s ≤ r k) (hs : 1000 < s)
    (zone : Int) :
    500 < ((HBP.begins .ticker d r (k + 1) : Nat) : Int) - denoted {} (reading .tick d r (k + 1) : Nat) zone := by
  have h := tick_stale d r k s hr
  have c := current (tickDue d r (k + 1) : Nat) zone
  simp only [reading]
  omega

/-- why nothing is visible on an undisturbed heartbeat: as long as no refresh takes longer than the period the tick is
    received the moment it is due — both sources give the same reading -/
theorem tick_is_clock_when_prompt (d : Nat) (hd : 0 < d) (r : Nat → Nat) (hr : ∀ k, r k ≤ d) (k : Nat) :
    reading .tick d r k = reading .clock d r k := by
  simp only [reading]
  rw [HBP.ticker_on_grid d hd r hr]
  cases k with
  | zero => simp [tickDue]
  | succ k =>
    simp only [tickDue]
    rw [HBP.ticker_on_grid d hd r hr, Nat.mul_div_cancel _ hd]

end Spine.HBS
