import Mathlib.Tactic.Linarith
import Mathlib.Tactic.Positivity
import Mathlib.Tactic.NormNum
import Mathlib.Tactic.Ring

/-! Calibration: the two-rounding error bound for `Round(v * 10^n)` stated over the rounding relation.
    a = 2^E and b = 2^E' are the (positive) scale factors of the two results. -/
namespace Spine.FloatL

theorem two_roundings (j T m m' a b : ℤ)
    (hj : 0 < j) (hjb : j < 2 ^ 50) (hT : 1 ≤ T)
    (ha : 0 < a) (hb : 0 < b)
    (hm : 2 ^ 52 ≤ m) (hm' : 2 ^ 52 ≤ m')
    (h1 : 2 * |m * T - j * a| ≤ T)
    (h2 : 2 * |m' * a - m * T * b| ≤ a) :
    2 * |m' - j * b| < b := by
  -- work with the doubled, division-free forms
  have h1a : 2 * (m * T - j * a) ≤ T := by
    have := le_abs_self (m * T - j * a); linarith
  have h1b : -T ≤ 2 * (m * T - j * a) := by
    have := neg_abs_le (m * T - j * a); linarith
  have h2a : 2 * (m' * a - m * T * b) ≤ a := by
    have := le_abs_self (m' * a - m * T * b); linarith
  have h2b : -a ≤ 2 * (m' * a - m * T * b) := by
    have := neg_abs_le (m' * a - m * T * b); linarith
  -- a > 4 T
  have hmT : 2 ^ 52 * T ≤ m * T := by nlinarith
  have haT : 4 * T < a := by
    -- 2 j a ≥ 2 m T - T ≥ (2^53 - 1) T and 2 j ≤ 2^51 - 2
    have hja : (2 ^ 53 - 1) * T ≤ 2 * (j * a) := by linarith
    have hj2 : 2 * (j * a) ≤ (2 ^ 51 - 2) * a := by nlinarith
    by_contra hcon
    have hcon' : a ≤ 4 * T := by linarith
    have : (2 ^ 51 - 2) * a ≤ (2 ^ 51 - 2) * (4 * T) := by nlinarith
    linarith
  -- b ≥ 4
  have hb4 : 4 ≤ b := by
    by_contra hcon
    have hb3 : b ≤ 3 := by omega
    -- 2^53 a ≤ 2 m' a ≤ 2 m T b + a ≤ (2 j a + T) b + a
    have hm'a : 2 ^ 52 * a ≤ m' * a := by nlinarith
    have hmTb : 2 * (m * T * b) ≤ (2 * (j * a) + T) * b := by nlinarith
    have hjab : 2 * (j * a) ≤ (2 ^ 51 - 2) * a := by nlinarith
    have hlhs : 2 ^ 53 * a ≤ (2 * (j * a) + T) * b + a := by linarith
    have hrhs : (2 * (j * a) + T) * b ≤ ((2 ^ 51 - 2) * a + T) * 3 := by nlinarith
    nlinarith
  -- combine: 2 a |m' - j b| ≤ a + T b < a b
  have key : 2 * (a * |m' - j * b|) < a * b := by
    have habs : a * |m' - j * b| = |m' * a - j * a * b| := by
      rw [← abs_of_pos ha, ← abs_mul, abs_of_pos ha]; ring_nf
    rw [habs]
    have htri : 2 * |m' * a - j * a * b| ≤ a + T * b := by
      rw [show m' * a - j * a * b = (m' * a - m * T * b) + (m * T - j * a) * b from by ring]
      have := abs_add_le (m' * a - m * T * b) ((m * T - j * a) * b)
      have hb' : |(m * T - j * a) * b| = |m * T - j * a| * b := by
        rw [abs_mul, abs_of_pos hb]
      have : 2 * (|m * T - j * a| * b) ≤ T * b := by nlinarith
      linarith
    have : a + T * b < a * b := by nlinarith
    linarith
  nlinarith

end Spine.FloatL
