import Spine.Update
/-! `spine.FunctionData.UpdateData` (spine/function_data.go:55-80) over the engine model: without any filter and
    persisting, the data is replaced by what was received (the "full update"); otherwise the per-type
    `UpdateList` wrapper (`updateStore`). Sharing of backing arrays is the business of `Spine.Heap` (C11). -/
namespace Spine

/-- `fpNil` / `fdNil`: the filter pointers handed in are nil. (A partial filter without selector and elements
    is not nil — the fast path is not taken — but `FilterType.Data()` fails on it, so the engine sees `none`.)
    Result: the stored list afterwards and the success flag. -/
def updateData (sh : Shape) (remote persist fpNil fdNil : Bool) (store nw : List Item) (fp fd : Option Filter) :
    Outcome (List Item × Bool) :=
  if fpNil && fdNil && persist then .ok (nw, true) else
  match updateStore sh remote persist store nw fp fd with
  | .panic s => .panic s
  | .ok (st, _, ok) => .ok (st, ok)

end Spine
