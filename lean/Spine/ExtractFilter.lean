/-!
# `Cmd.ExtractFilter` as a function of the filter LIST (C04: glue between the datagram and `UpdateData`)

`model/commandframe_additions.go: ExtractFilter` walks `cmd.Filter` and keeps a pointer to the (last) entry whose
`cmdControl` carries `partial`, and to the (last) entry that carries no `partial` but `delete`; entries without
`cmdControl`, or with neither, are skipped. An entry that carries both counts as partial. What `UpdateData` gets as
`filterPartial` / `filterDelete` is the result. The payload `α` of an entry is whatever the filter carries (selector,
elements).

`extractFilter_perm`: on lists with at most one entry of each kind the result does not depend on the order of the
list — in particular not on whether the partial filter stands before or after the delete filter, nor on where
foreign entries stand.
-/
namespace Spine

inductive FEntry (α : Type)
  | part (a : α)
  | del (a : α)
  | other
deriving Repr, DecidableEq

variable {α : Type}

def extractStep : Option α × Option α → FEntry α → Option α × Option α
  | (_, d), .part a => (some a, d)
  | (p, _), .del a => (p, some a)
  | s, .other => s

/-- (filterPartial, filterDelete) -/
def extractFilter (l : List (FEntry α)) : Option α × Option α := l.foldl extractStep (none, none)

def partials (l : List (FEntry α)) : List α := l.filterMap fun | .part a => some a | _ => none
def deletes (l : List (FEntry α)) : List α := l.filterMap fun | .del a => some a | _ => none

/-- at most one partial and at most one delete entry -/
def AtMostOneEach (l : List (FEntry α)) : Prop := (partials l).length ≤ 1 ∧ (deletes l).length ≤ 1

theorem fold_fst_noPartial : ∀ (l : List (FEntry α)) (p d : Option α), partials l = [] →
    (l.foldl extractStep (p, d)).1 = p
  | [], _, _, _ => rfl
  | .part a :: xs, p, d, h => by simp [partials] at h
  | .del a :: xs, p, d, h => fold_fst_noPartial xs p (some a) (by simpa [partials] using h)
  | .other :: xs, p, d, h => fold_fst_noPartial xs p d (by simpa [partials] using h)

theorem fold_snd_noDelete : ∀ (l : List (FEntry α)) (p d : Option α), deletes l = [] →
    (l.foldl extractStep (p, d)).2 = d
  | [], _, _, _ => rfl
  | .del a :: xs, p, d, h => by simp [deletes] at h
  | .part a :: xs, p, d, h => fold_snd_noDelete xs (some a) d (by simpa [deletes] using h)
  | .other :: xs, p, d, h => fold_snd_noDelete xs p d (by simpa [deletes] using h)

/-- with at most one partial entry the extracted partial filter is that entry (or what was there before) -/
theorem fold_fst : ∀ (l : List (FEntry α)) (p d : Option α), (partials l).length ≤ 1 →
    (l.foldl extractStep (p, d)).1 = ((partials l).head?).or p
  | [], _, _, _ => by simp [partials]
  | .part a :: xs, p, d, h => by
    have hx : partials xs = [] := by
      have : (partials xs).length = 0 := by simp [partials] at h ⊢; omega
      exact List.length_eq_zero_iff.mp this
    show (xs.foldl extractStep (some a, d)).1 = _
    rw [fold_fst_noPartial xs (some a) d hx]
    simp [partials]
  | .del a :: xs, p, d, h => by
    have h' : (partials xs).length ≤ 1 := by simpa [partials] using h
    show (xs.foldl extractStep (p, some a)).1 = _
    rw [fold_fst xs p (some a) h']
    simp [partials]
  | .other :: xs, p, d, h => by
    have h' : (partials xs).length ≤ 1 := by simpa [partials] using h
    show (xs.foldl extractStep (p, d)).1 = _
    rw [fold_fst xs p d h']
    simp [partials]

theorem fold_snd : ∀ (l : List (FEntry α)) (p d : Option α), (deletes l).length ≤ 1 →
    (l.foldl extractStep (p, d)).2 = ((deletes l).head?).or d
  | [], _, _, _ => by simp [deletes]
  | .del a :: xs, p, d, h => by
    have hx : deletes xs = [] := by
      have : (deletes xs).length = 0 := by simp [deletes] at h ⊢; omega
      exact List.length_eq_zero_iff.mp this
    show (xs.foldl extractStep (p, some a)).2 = _
    rw [fold_snd_noDelete xs p (some a) hx]
    simp [deletes]
  | .part a :: xs, p, d, h => by
    have h' : (deletes xs).length ≤ 1 := by simpa [deletes] using h
    show (xs.foldl extractStep (some a, d)).2 = _
    rw [fold_snd xs (some a) d h']
    simp [deletes]
  | .other :: xs, p, d, h => by
    have h' : (deletes xs).length ≤ 1 := by simpa [deletes] using h
    show (xs.foldl extractStep (p, d)).2 = _
    rw [fold_snd xs p d h']
    simp [deletes]

/-- on lists with at most one entry of each kind: the partial filter and the delete filter, wherever they stand -/
theorem extractFilter_eq (l : List (FEntry α)) (h : AtMostOneEach l) :
    extractFilter l = ((partials l).head?, (deletes l).head?) := by
  unfold extractFilter
  apply Prod.ext
  · rw [fold_fst l none none h.1]; simp
  · rw [fold_snd l none none h.2]; simp

theorem head?_perm_short {β : Type} {a b : List β} (hp : a.Perm b) (hl : a.length ≤ 1) : a.head? = b.head? := by
  have hlen := hp.length_eq
  cases a with
  | nil =>
    cases b with
    | nil => rfl
    | cons y ys => simp at hlen
  | cons x xs =>
    cases xs with
    | cons x' xs' => simp at hl
    | nil =>
      cases b with
      | nil => simp at hlen
      | cons y ys =>
        cases ys with
        | cons y' ys' => simp at hlen
        | nil =>
          have : x ∈ [y] := hp.subset List.mem_cons_self
          simp only [List.mem_cons, List.not_mem_nil, or_false] at this
          simp [this]

/-- the extraction is invariant under every permutation of a filter list with at most one partial and at most one
    delete entry -/
theorem extractFilter_perm (l l' : List (FEntry α)) (h : AtMostOneEach l) (hp : l.Perm l') :
    extractFilter l = extractFilter l' := by
  have hpp : (partials l).Perm (partials l') := hp.filterMap _
  have hpd : (deletes l).Perm (deletes l') := hp.filterMap _
  have h' : AtMostOneEach l' := ⟨by rw [← hpp.length_eq]; exact h.1, by rw [← hpd.length_eq]; exact h.2⟩
  rw [extractFilter_eq l h, extractFilter_eq l' h', head?_perm_short hpp h.1, head?_perm_short hpd h.2]

end Spine
