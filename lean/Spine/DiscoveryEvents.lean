import Spine.DiscoveryFixed
/-! C06, repaired member: exactly one entity-added event for each entity that appeared and exactly one entity-removed
    event for each entity that disappeared, none otherwise. -/
namespace Spine.Disc

theorem count_add_addOne (m : Msg) (acc : Tree × List Evt) (ei : EI) (a : List Nat) :
    (addOne m acc ei).2.count (.add a) = acc.2.count (.add a) + (if a = ei.addr ∧ a ∉ addrs acc.1 then 1 else 0) := by
  obtain ⟨t, evs⟩ := acc
  simp only [addOne]
  split
  · rename_i e he
    have hin : ei.addr ∈ addrs t := (findE_isSome_iff t ei.addr).mp (by rw [he]; rfl)
    have : ¬ (a = ei.addr ∧ a ∉ addrs t) := by rintro ⟨rfl, h⟩; exact h hin
    simp [this]
  · rename_i hn
    have hnot : ei.addr ∉ addrs t := (findE_none_iff t ei.addr).mp hn
    simp only [List.count_append, List.count_cons, List.count_nil]
    by_cases ha : a = ei.addr
    · subst ha; simp [hnot]
    · have : ¬ (Evt.add ei.addr == Evt.add a) = true := by simp; exact fun h => ha h.symm
      simp [ha, this]

theorem count_rem_addOne (m : Msg) (acc : Tree × List Evt) (ei : EI) (a : List Nat) :
    (addOne m acc ei).2.count (.rem a) = acc.2.count (.rem a) := by
  obtain ⟨t, evs⟩ := acc
  simp only [addOne]
  split <;> simp [List.count_append]

theorem count_rem_remOne (acc : Tree × List Evt) (ei : EI) (a : List Nat) :
    (remOne acc ei).2.count (.rem a) = acc.2.count (.rem a) + (if a = ei.addr ∧ a ∈ addrs acc.1 then 1 else 0) := by
  obtain ⟨t, evs⟩ := acc
  simp only [remOne]
  split
  · rename_i e he
    have hin : ei.addr ∈ addrs t := (findE_isSome_iff t ei.addr).mp (by rw [he]; rfl)
    simp only [List.count_append, List.count_cons, List.count_nil]
    by_cases ha : a = ei.addr
    · subst ha; simp [hin]
    · have : ¬ (Evt.rem ei.addr == Evt.rem a) = true := by simp; exact fun h => ha h.symm
      simp [ha, this]
  · rename_i hn
    have hnot : ei.addr ∉ addrs t := (findE_none_iff t ei.addr).mp hn
    have : ¬ (a = ei.addr ∧ a ∈ addrs t) := by rintro ⟨rfl, h⟩; exact hnot h
    simp [this]

theorem count_add_remOne (acc : Tree × List Evt) (ei : EI) (a : List Nat) :
    (remOne acc ei).2.count (.add a) = acc.2.count (.add a) := by
  obtain ⟨t, evs⟩ := acc
  simp only [remOne]
  split <;> simp [List.count_append]

/-- entries that are all `added`: one add event for each listed address that was unknown, no remove event -/
theorem count_fold_added (m : Msg) : ∀ (l : List EI) (acc : Tree × List Evt) (a : List Nat),
    (∀ ei ∈ l, ei.chg = .added) →
    (l.foldl (stepFixed m) acc).2.count (.add a)
        = acc.2.count (.add a) + (if a ∈ l.map (·.addr) ∧ a ∉ addrs acc.1 then 1 else 0) ∧
    (l.foldl (stepFixed m) acc).2.count (.rem a) = acc.2.count (.rem a)
  | [], acc, a, _ => by simp
  | ei :: l, acc, a, h => by
    have h1 : ei.chg = .added := h ei (List.mem_cons_self ..)
    have ih := count_fold_added m l (stepFixed m acc ei) a (fun x hx => h x (List.mem_cons_of_mem _ hx))
    rw [List.foldl_cons]
    refine ⟨?_, ?_⟩
    · rw [ih.1]
      simp only [stepFixed, h1, count_add_addOne, mem_addOne, List.map_cons, List.mem_cons]
      by_cases ha : a = ei.addr <;> by_cases ht : a ∈ addrs acc.1 <;> by_cases hl : a ∈ l.map (·.addr) <;>
        simp [ha, ht, hl] <;> simp_all
    · rw [ih.2]
      simp only [stepFixed, h1, count_rem_addOne]

/-- entries that are all `removed`: one remove event for each listed address that was known, no add event -/
theorem count_fold_removed (m : Msg) : ∀ (l : List EI) (acc : Tree × List Evt) (a : List Nat),
    (∀ ei ∈ l, ei.chg = .removed) →
    (l.foldl (stepFixed m) acc).2.count (.rem a)
        = acc.2.count (.rem a) + (if a ∈ l.map (·.addr) ∧ a ∈ addrs acc.1 then 1 else 0) ∧
    (l.foldl (stepFixed m) acc).2.count (.add a) = acc.2.count (.add a)
  | [], acc, a, _ => by simp
  | ei :: l, acc, a, h => by
    have h1 : ei.chg = .removed := h ei (List.mem_cons_self ..)
    have ih := count_fold_removed m l (stepFixed m acc ei) a (fun x hx => h x (List.mem_cons_of_mem _ hx))
    rw [List.foldl_cons]
    refine ⟨?_, ?_⟩
    · rw [ih.1]
      simp only [stepFixed, h1, count_rem_remOne, mem_remOne, List.map_cons, List.mem_cons]
      by_cases ha : a = ei.addr <;> by_cases ht : a ∈ addrs acc.1 <;> by_cases hl : a ∈ l.map (·.addr) <;>
        simp [ha, ht, hl] <;> simp_all
    · rw [ih.2]
      simp only [stepFixed, h1, count_add_remOne]

theorem ite_congr_prop {p q : Prop} [Decidable p] [Decidable q] (h : p ↔ q) :
    (if p then 1 else 0 : Nat) = if q then 1 else 0 := by
  by_cases hp : p
  · simp [hp, h.mp hp]
  · have hq : ¬ q := fun hq => hp (h.mpr hq)
    simp [hp, hq]

theorem notifyFullFixed_evs (m : Msg) (t : Tree) :
    (notifyFullFixed m t).2.1 = ((fullDiff m t).ents.foldl (stepFixed (fullDiff m t)) (t, [])).2 := by
  unfold notifyFullFixed notifyPartialFixed
  split
  · rename_i he
    have : (fullDiff m t).ents = [] := by simpa using he
    rw [this]; rfl
  · rw [fullDiff_no_none]
    simp

/-- C06 (repaired), events of a full notification: exactly one entity-added event for every announced address that
    was unknown, exactly one entity-removed event for every known address that is no longer announced, no other -/
theorem c06_full_events (m : Msg) (t : Tree) (a : List Nat) :
    (notifyFullFixed m t).2.1.count (.add a) = (if a ∈ m.ents.map (·.addr) ∧ a ∉ addrs t then 1 else 0) ∧
    (notifyFullFixed m t).2.1.count (.rem a) = (if a ∈ addrs t ∧ a ∉ m.ents.map (·.addr) then 1 else 0) := by
  rw [notifyFullFixed_evs]
  have hsplit : (fullDiff m t).ents =
      ((m.ents.filter fun ei => (findE t ei.addr).isNone).map fun ei => { ei with chg := Chg.added }) ++
      ((t.filter fun e => !((m.ents.filter fun ei => (findE t ei.addr).isSome).map (·.addr)).contains e.addr).map
        fun e => ({ addr := e.addr, typ := e.typ, chg := .removed, desc := none } : EI)) := rfl
  rw [hsplit, List.foldl_append]
  have hA := count_fold_added (fullDiff m t)
    ((m.ents.filter fun ei => (findE t ei.addr).isNone).map fun ei => { ei with chg := Chg.added }) (t, []) a
    (by intro ei h; obtain ⟨e, _, rfl⟩ := List.mem_map.mp h; rfl)
  have hR := count_fold_removed (fullDiff m t)
    ((t.filter fun e => !((m.ents.filter fun ei => (findE t ei.addr).isSome).map (·.addr)).contains e.addr).map
        fun e => ({ addr := e.addr, typ := e.typ, chg := .removed, desc := none } : EI))
    (((m.ents.filter fun ei => (findE t ei.addr).isNone).map fun ei => { ei with chg := Chg.added }).foldl
      (stepFixed (fullDiff m t)) (t, [])) a
    (by intro ei h; obtain ⟨e, _, rfl⟩ := List.mem_map.mp h; rfl)
  have hT := mem_fold_added (fullDiff m t)
    ((m.ents.filter fun ei => (findE t ei.addr).isNone).map fun ei => { ei with chg := Chg.added }) (t, []) a
    (by intro ei h; obtain ⟨e, _, rfl⟩ := List.mem_map.mp h; rfl)
  refine ⟨?_, ?_⟩
  · rw [hR.2, hA.1]
    simp only [List.count_nil, Nat.zero_add]
    apply ite_congr_prop
    simp only [List.map_map, List.mem_map, List.mem_filter, Function.comp,
      Option.isNone_iff_eq_none, findE_none_iff]
    constructor
    · rintro ⟨⟨ei, ⟨hei, _⟩, rfl⟩, hn⟩; exact ⟨⟨ei, hei, rfl⟩, hn⟩
    · rintro ⟨⟨ei, hei, rfl⟩, hn⟩; exact ⟨⟨ei, ⟨hei, hn⟩, rfl⟩, hn⟩
  · rw [hR.1, hA.2]
    simp only [List.count_nil, Nat.zero_add]
    apply ite_congr_prop
    rw [hT]
    simp only [List.map_map, List.mem_map, List.mem_filter, Function.comp,
      Option.isNone_iff_eq_none, findE_none_iff, List.contains_eq_mem, findE_isSome_iff, Bool.not_eq_true',
      decide_eq_false_iff_not]
    constructor
    · rintro ⟨⟨e, ⟨he, hne⟩, rfl⟩, _⟩
      have hin : e.addr ∈ addrs t := List.mem_map.mpr ⟨e, he, rfl⟩
      refine ⟨hin, ?_⟩
      rintro ⟨ei, hei, heq⟩
      exact hne ⟨ei, ⟨hei, heq ▸ hin⟩, heq⟩
    · rintro ⟨hin, hnm⟩
      obtain ⟨e, he, rfl⟩ := List.mem_map.mp hin
      refine ⟨⟨e, ⟨he, ?_⟩, rfl⟩, Or.inl hin⟩
      rintro ⟨ei, ⟨hei, _⟩, heq⟩
      exact hnm ⟨ei, hei, heq⟩

/-- non-vacuity: [1] disappears, [2] appears, [0] stays -/
example : (notifyFullFixed ⟨[⟨[0], 1, .none, none⟩, ⟨[2], 3, .none, none⟩], []⟩ [⟨[0], 1, none, []⟩, ⟨[1], 2, none, []⟩]).2.1
    = [.add [2], .rem [1]] := by decide

end Spine.Disc
