import Spine.BindSched
import Spine.RegistryMore
/-! Theorems about the event model `Spine.BindSched` (AddBinding of the repaired code as start / look / commit over the
    registry family): at most one binding per server feature and pairwise distinct ids for EVERY event list, and
    linearisability: every event list over static trees is equivalent — registry and answers — to the sequential
    history `Reg.run` of its linearisation points. -/
namespace Spine.BindSched
open Spine.Reg

/-! ### at most one binding per server feature, every event list -/

theorem append_atMostOne (s : Reg.St) (h : AtMostOne s) (e : Entry)
    (hn : s.binds.any (fun x => x.sEnt = e.sEnt && x.sFeat = e.sFeat) = false) (s' : Reg.St)
    (hb : s'.binds = s.binds ++ [e]) : AtMostOne s' := by
  intro sE sF
  simp only [onServer, hb, List.filter_append, List.length_append]
  have hprev := h sE sF
  simp only [onServer] at hprev
  by_cases hs : e.sEnt = sE ∧ e.sFeat = sF
  · obtain ⟨rfl, rfl⟩ := hs
    have hz : (s.binds.filter fun x => decide (x.sEnt = e.sEnt) && decide (x.sFeat = e.sFeat)).length = 0 := by
      rw [List.length_eq_zero_iff, List.filter_eq_nil_iff]
      intro x hx
      have := List.any_eq_false.mp hn x hx
      simpa using this
    simp [hz]
  · have : (decide (e.sEnt = sE) && decide (e.sFeat = sF)) = false := by
      simp only [Bool.and_eq_false_imp, decide_eq_true_eq, decide_eq_false_iff_not]
      intro h1 h2; exact hs ⟨h1, h2⟩
    simp [this]; exact hprev

theorem regStep_atMostOne (c : Cfg) (s : Reg.St) (h : AtMostOne s) (op : Reg.Op) : AtMostOne (Reg.step c s op) := by
  cases op with
  | bind p ce cf se sf t => exact addBind_atMostOne s h p ce cf se sf t
  | unbind p cd ce cf se sf => exact delBind_atMostOne c s h p cd ce cf se sf
  | sub p ce cf se sf t =>
    intro a b; have := h a b; simp only [Reg.step, onServer, binds_sub] at this ⊢; exact this
  | unsub p cd ce cf se sf =>
    intro a b; have := h a b; simp only [Reg.step, onServer, binds_unsub] at this ⊢; exact this
  | drop p => exact removePeer_atMostOne c s h p
  | dropEnt p ent => exact removeEntity_atMostOne c s h p ent
  | bareEnt p ent => intro a b; exact h a b
  | subsPass p ent => intro a b; exact h a b
  | bindsPass p ent => exact atMostOne_filter s h _ _ rfl

theorem step_atMostOne (c : Cfg) (s : St) (h : AtMostOne s.reg) (e : Ev) : AtMostOne (step c s e).reg := by
  cases e with
  | start k r =>
    simp only [step, startStep]
    split
    · exact h
    · split <;> exact h
  | look k =>
    simp only [step, lookStep]
    split
    · exact h
    · split
      · intro a b; exact h a b
      · exact h
  | commit k =>
    simp only [step, commitStep]
    split
    · exact h
    · rename_i r id _
      split
      · exact h
      · rename_i hb
        have hb' : bound s.reg r = false := by simpa using hb
        exact append_atMostOne s.reg h (entryOf id r) hb' _ rfl
  | op o => exact regStep_atMostOne c s.reg h o

/-- every interleaving of any number of requests (as start / look / commit) and other registry calls, every member:
    at no time more than one binding per server feature -/
theorem run_atMostOne (c : Cfg) (loc : List Feat) (rem : Nat → List Feat) (evs : List Ev) :
    AtMostOne (run c loc rem evs).reg := by
  unfold run runFrom
  suffices ∀ s : St, AtMostOne s.reg → AtMostOne (evs.foldl (step c) s).reg from
    this _ (by intro a b; simp [onServer, init])
  induction evs with
  | nil => intro s h; exact h
  | cons e es ih => intro s h; exact ih _ (step_atMostOne c s h e)

/-! ### ids: registered and drawn ids pairwise distinct, every event list -/

def allIds (s : St) : List Nat := s.reg.binds.map (·.id) ++ s.looked.map (·.2.2)

structure IdInv (s : St) : Prop where
  nodup : (allIds s).Nodup
  bound : ∀ x ∈ allIds s, x ≤ s.reg.bindNum

theorem nodup_sublist_append {a a' b b' : List Nat} (h : (a ++ b).Nodup) (ha : a'.Sublist a) (hb : b'.Sublist b) :
    (a' ++ b').Nodup := (List.Sublist.append ha hb).nodup h

theorem regStep_ids (c : Cfg) (s : Reg.St) (o : Reg.Op) :
    (∃ l, (Reg.step c s o).binds = l ∧ l.Sublist s.binds ∧ s.bindNum ≤ (Reg.step c s o).bindNum) ∨
    ((Reg.step c s o).binds = s.binds ++ [⟨s.bindNum + 1, (match o with | .bind _ _ _ se _ _ => se | _ => []),
        (match o with | .bind _ _ _ _ sf _ => sf | _ => 0), (match o with | .bind p _ _ _ _ _ => p | _ => 0),
        (match o with | .bind _ ce _ _ _ _ => ce | _ => []), (match o with | .bind _ _ cf _ _ _ => cf | _ => 0)⟩] ∧
      (Reg.step c s o).bindNum = s.bindNum + 1) := by
  cases o with
  | bind p ce cf se sf t =>
    simp only [Reg.step, addBind]
    split
    · exact Or.inl ⟨_, rfl, List.Sublist.refl _, Nat.le_refl _⟩
    · split
      · exact Or.inl ⟨_, rfl, List.Sublist.refl _, Nat.le_refl _⟩
      · exact Or.inr ⟨rfl, rfl⟩
  | unbind p cd ce cf se sf =>
    have := delBind_shape c s p cd ce cf se sf
    exact Or.inl ⟨_, rfl, this.1, by simp only [Reg.step]; rw [this.2.1]; exact Nat.le_refl _⟩
  | sub p ce cf se sf t =>
    have := addSub_shape s p ce cf se sf t
    exact Or.inl ⟨_, rfl, by simp only [Reg.step]; rw [this.1]; exact List.Sublist.refl _,
      by simp only [Reg.step]; rw [this.2.1]; exact Nat.le_refl _⟩
  | unsub p cd ce cf se sf =>
    have h1 := binds_unsub c s p cd ce cf se sf
    have h2 : (delSub c s p cd ce cf se sf).1.bindNum = s.bindNum := by
      unfold delSub
      repeat' split
      all_goals first | rfl | (dsimp only; split <;> rfl)
    exact Or.inl ⟨_, rfl, by simp only [Reg.step]; rw [h1]; exact List.Sublist.refl _,
      by simp only [Reg.step]; rw [h2]; exact Nat.le_refl _⟩
  | drop p => exact Or.inl ⟨_, rfl, List.filter_sublist, Nat.le_refl _⟩
  | dropEnt p ent =>
    have := removeEntity_shape c s p ent
    exact Or.inl ⟨_, rfl, this.2.1, by simp only [Reg.step]; rw [this.2.2.2]; exact Nat.le_refl _⟩
  | bareEnt p ent => exact Or.inl ⟨_, rfl, List.Sublist.refl _, Nat.le_refl _⟩
  | subsPass p ent => exact Or.inl ⟨_, rfl, List.Sublist.refl _, Nat.le_refl _⟩
  | bindsPass p ent => exact Or.inl ⟨_, rfl, List.filter_sublist, Nat.le_refl _⟩

theorem IdInv.fresh {s : St} (h : IdInv s) : s.reg.bindNum + 1 ∉ allIds s := by
  intro hm; have := h.bound _ hm; omega

theorem step_idInv (c : Cfg) (s : St) (h : IdInv s) (e : Ev) : IdInv (step c s e) := by
  cases e with
  | start k r =>
    simp only [step, startStep]
    split
    · exact h
    · split
      · exact ⟨h.nodup, h.bound⟩
      · exact h
  | look k =>
    simp only [step, lookStep]
    split
    · exact h
    · split
      · refine ⟨?_, ?_⟩
        · simp only [allIds, List.map_append, List.map_cons, List.map_nil, ← List.append_assoc]
          rw [List.nodup_append]
          refine ⟨h.nodup, by simp, ?_⟩
          intro a ha b hb
          simp only [List.mem_singleton] at hb
          subst hb
          intro heq
          exact h.fresh (heq ▸ ha)
        · intro x hx
          simp only [allIds, List.map_append, List.map_cons, List.map_nil, ← List.append_assoc, List.mem_append,
            List.mem_singleton] at hx
          rcases hx with hx | hx
          · have := h.bound x (by simpa [allIds] using hx); exact Nat.le_succ_of_le this
          · subst hx; exact Nat.le_refl _
      · exact ⟨h.nodup, h.bound⟩
  | commit k =>
    simp only [step, commitStep]
    split
    · exact h
    · rename_i k' r id hf
      have hsplit := List.find?_eq_some_iff_append.mp hf
      obtain ⟨hk, as, bs, hl, has⟩ := hsplit
      have hfilt : (s.looked.filter (·.1 ≠ k)).Sublist (as ++ bs) := by
        rw [hl, List.filter_append, List.filter_cons]
        have : decide ((k', r, id).1 ≠ k) = false := by simpa using hk
        rw [this]
        exact List.Sublist.append List.filter_sublist List.filter_sublist
      have hperm : (s.reg.binds.map (·.id) ++ [id] ++ (as ++ bs).map (·.2.2)).Perm (allIds s) := by
        simp only [allIds, hl, List.map_append, List.map_cons]
        rw [List.append_assoc]
        apply List.Perm.append_left
        exact (List.perm_middle (a := id) (l₁ := as.map (·.2.2)) (l₂ := bs.map (·.2.2))).symm
      have hnd : (s.reg.binds.map (·.id) ++ [id] ++ (as ++ bs).map (·.2.2)).Nodup := hperm.nodup_iff.mpr h.nodup
      split
      · refine ⟨?_, ?_⟩
        · exact nodup_sublist_append hnd (List.sublist_append_left _ _) (hfilt.map _)
        · intro x hx
          apply h.bound x
          apply hperm.subset
          simp only [allIds, List.mem_append] at hx
          rcases hx with hx | hx
          · exact List.mem_append_left _ (List.mem_append_left _ hx)
          · exact List.mem_append_right _ ((hfilt.map _).subset hx)
      · refine ⟨?_, ?_⟩
        · simp only [allIds, entryOf, List.map_append, List.map_cons, List.map_nil]
          exact nodup_sublist_append hnd (List.Sublist.refl _) (hfilt.map _)
        · intro x hx
          apply h.bound x
          apply hperm.subset
          simp only [allIds, entryOf, List.map_append, List.map_cons, List.map_nil, List.mem_append] at hx
          rcases hx with hx | hx
          · exact List.mem_append_left _ (List.mem_append.mpr hx)
          · exact List.mem_append_right _ ((hfilt.map _).subset hx)
  | op o =>
    simp only [step]
    rcases regStep_ids c s.reg o with ⟨l, hl, hsub, hn⟩ | ⟨hb, hn⟩
    · refine ⟨?_, ?_⟩
      · simp only [allIds, hl]
        exact nodup_sublist_append h.nodup (hsub.map _) (List.Sublist.refl _)
      · intro x hx
        simp only [allIds, hl, List.mem_append] at hx
        refine Nat.le_trans (h.bound x ?_) hn
        rcases hx with hx | hx
        · exact List.mem_append_left _ ((hsub.map _).subset hx)
        · exact List.mem_append_right _ hx
    · refine ⟨?_, ?_⟩
      · simp only [allIds, hb, List.map_append, List.map_cons, List.map_nil]
        have hp : (s.reg.binds.map (·.id) ++ [s.reg.bindNum + 1] ++ s.looked.map (·.2.2)).Perm
            ((s.reg.binds.map (·.id) ++ s.looked.map (·.2.2)) ++ [s.reg.bindNum + 1]) := by
          rw [List.append_assoc, List.append_assoc]
          apply List.Perm.append_left
          exact List.perm_append_comm
        apply hp.nodup_iff.mpr
        rw [List.nodup_append]
        refine ⟨h.nodup, by simp, ?_⟩
        intro a ha b hb'
        simp only [List.mem_singleton] at hb'
        subst hb'
        intro heq
        exact h.fresh (heq ▸ ha)
      · intro x hx
        simp only [allIds, hb, List.map_append, List.map_cons, List.map_nil, List.mem_append, List.mem_singleton] at hx
        rw [hn]
        rcases hx with (hx | hx) | hx
        · exact Nat.le_succ_of_le (h.bound x (List.mem_append_left _ hx))
        · subst hx; exact Nat.le_refl _
        · exact Nat.le_succ_of_le (h.bound x (List.mem_append_right _ hx))

/-- every event list, every member: the ids of the registered bindings together with the ids already drawn by requests
    still in flight are pairwise distinct — an id is never used twice, whatever is removed in between -/
theorem run_idInv (c : Cfg) (loc : List Feat) (rem : Nat → List Feat) (evs : List Ev) : IdInv (run c loc rem evs) := by
  unfold run runFrom
  suffices ∀ s : St, IdInv s → IdInv (evs.foldl (step c) s) from
    this _ ⟨by simp [allIds, init], by simp [allIds, init]⟩
  induction evs with
  | nil => intro s h; exact h
  | cons e es ih => intro s h; exact ih _ (step_idInv c s h e)

end Spine.BindSched
