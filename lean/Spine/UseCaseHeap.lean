import Spine.UseCaseThm
/-! The EntityLocal use-case operations of the code AS WRITTEN with Go's slice aliasing made explicit.

    `FunctionData.DataCopy` copies the `NodeManagementUseCaseDataType` struct, i.e. only the slice *header* of
    `UseCaseInformation`; the backing arrays (of information elements, and per element of supports) stay shared
    between the stored data and every outstanding copy. `AddUseCaseSupport` on an existing (entity, actor) element
    and `SetAvailability` write into those shared arrays, `append` writes into spare capacity when there is some,
    `RemoveUseCaseSupport` / `RemoveUseCaseDataForAddress` build fresh arrays. Under overlapping read-modify-write
    cycles this decides which updates survive, so the schedule-exact member of the family is this small heap model
    (arrays, headers with length and capacity, `append` doubling the capacity from 1 — Go's growth rule for these
    element sizes). The value-copy events of `UseCaseConc.lean` agree with it on every schedule without overlap and
    on the lost-update witness; no theorem other than the witness is stated about overlapping schedules.

    Executable model only (driver + kernel-checked witness). -/
namespace Spine.UCH
open Spine.UC

structure Hdr where
  arr : Nat := 0
  len : Nat := 0
  cap : Nat := 0
deriving DecidableEq, Repr

structure Cell where
  ent : List Nat
  actor : Nat
  sup : Hdr
deriving DecidableEq, Repr

structure St where
  outer : List (List Cell) := []        -- backing arrays of information elements
  inner : List (List Support) := []     -- backing arrays of supports
  stored : Option Hdr := none           -- none: the function data was never set
  copies : List (Nat × Hdr) := []       -- operation ↦ the header it copied

def grow (c : Nat) : Nat := if c = 0 then 1 else 2 * c

def writeAt {α} (l : List α) (i : Nat) (x : α) : List α := if i < l.length then l.set i x else l ++ [x]

def setArr {α} (arrs : List (List α)) (a : Nat) (f : List α → List α) : List (List α) :=
  arrs.mapIdx fun i l => if i = a then f l else l

def sups (s : St) (h : Hdr) : List Support := (s.inner.getD h.arr []).take h.len
def cells (s : St) (h : Hdr) : List Cell := (s.outer.getD h.arr []).take h.len
def info (s : St) (c : Cell) : Info := ⟨c.ent, c.actor, sups s c.sup⟩
def view (s : St) (h : Hdr) : Reg := (cells s h).map (info s)
def reg (s : St) : Reg := view s (s.stored.getD {})

/-- `append(slice, x)` on a support slice -/
def appendInner (s : St) (h : Hdr) (x : Support) : St × Hdr :=
  if h.len < h.cap then
    ({ s with inner := setArr s.inner h.arr fun l => writeAt l h.len x }, { h with len := h.len + 1 })
  else
    ({ s with inner := s.inner ++ [sups s h ++ [x]] }, ⟨s.inner.length, h.len + 1, grow h.cap⟩)

/-- `append(slice, cell)` on the information slice -/
def appendOuter (s : St) (h : Hdr) (c : Cell) : St × Hdr :=
  if h.len < h.cap then
    ({ s with outer := setArr s.outer h.arr fun l => writeAt l h.len c }, { h with len := h.len + 1 })
  else
    ({ s with outer := s.outer ++ [cells s h ++ [c]] }, ⟨s.outer.length, h.len + 1, grow h.cap⟩)

def freshInner (s : St) (xs : List Support) : St × Hdr :=
  xs.foldl (fun (p : St × Hdr) x => appendInner p.1 p.2 x) (s, {})

def freshOuter (s : St) (cs : List Cell) : St × Hdr :=
  cs.foldl (fun (p : St × Hdr) c => appendOuter p.1 p.2 c) (s, {})

def findIdx (s : St) (h : Hdr) (ent : List Nat) (actor name : Nat) : Option Nat :=
  (view s h).findIdx? (hit ent actor name)

def addH (s : St) (h : Hdr) (ent : List Nat) (actor : Nat) (x : Support) : St × Hdr :=
  match findIdx s h ent actor 0 with
  | some i =>
    match (cells s h)[i]? with
    | none => (s, h)
    | some c =>
      match (sups s c.sup).findIdx? (·.name = x.name) with
      | some j => ({ s with inner := setArr s.inner c.sup.arr fun l => l.set j x }, h)
      | none =>
        let (s1, h1) := appendInner s c.sup x
        ({ s1 with outer := setArr s1.outer h.arr fun l => l.set i { c with sup := h1 } }, h)
  | none =>
    let (s1, h1) := appendInner s {} x
    appendOuter s1 h ⟨ent, actor, h1⟩

def setAvailH (s : St) (h : Hdr) (ent : List Nat) (actor name : Nat) (a : Bool) : St × Hdr :=
  match findIdx s h ent actor name with
  | none => (s, h)
  | some i =>
    match (cells s h)[i]? with
    | none => (s, h)
    | some c =>
      match (sups s c.sup).findIdx? (·.name = name) with
      | none => (s, h)
      | some j => ({ s with inner := setArr s.inner c.sup.arr fun l => l.modify j fun y => { y with avail := a } }, h)

def removeH (s : St) (h : Hdr) (ent : List Nat) (actor name : Nat) : St × Hdr :=
  match findIdx s h ent actor name with
  | none => (s, h)
  | some i =>
    let step := fun (p : St × Hdr) (ic : Nat × Cell) =>
      if ic.1 ≠ i then appendOuter p.1 p.2 ic.2
      else
        let keep := (sups p.1 ic.2.sup).filter (·.name ≠ name)
        if keep.isEmpty then p
        else
          let (s1, h1) := freshInner p.1 keep
          appendOuter s1 p.2 { ic.2 with sup := h1 }
    ((cells s h).zipIdx.map (fun (c, k) => (k, c))).foldl step (s, {})

def removeAllH (s : St) (h : Hdr) (ent : List Nat) : St × Hdr :=
  freshOuter s ((cells s h).filter (·.ent ≠ ent))

def applyH (s : St) (h : Hdr) : Op → St × Hdr
  | .add e a x => addH s h e a x
  | .remove e a n => removeH s h e a n
  | .setAvail e a n b => setAvailH s h e a n b
  | .removeAll e => removeAllH s h e

inductive Ev
  | copy (op : Nat)
  | store (op : Nat) (o : Op)
  | atomic (o : Op)

def step (s : St) : Ev → St
  | .copy op => { s with copies := (op, s.stored.getD {}) :: s.copies }
  | .store op o =>
    match s.copies.find? (·.1 = op) with
    | none => s
    | some (_, h) =>
      let (s1, h1) := applyH s h o
      { s1 with stored := some h1, copies := s1.copies.filter (·.1 ≠ op) }
  | .atomic o =>
    let (s1, h1) := applyH s (s.stored.getD {}) o
    { s1 with stored := some h1 }

def run (evs : List Ev) : St := evs.foldl step {}

/-- the lost-update witness holds in the aliasing-exact member as well -/
theorem lost_update_witness_heap :
    lookup (reg (run [.copy 1, .copy 2,
                      .store 1 (.add [1] 1 ⟨1, 0, true, [], 0⟩),
                      .store 2 (.add [2] 1 ⟨1, 0, true, [], 0⟩)])) [1] 1 1 = none := by decide

/-- … whereas two overlapping operations that only write in place (set-availability on existing use cases of two
    entities) both survive — the value-copy reading would lose one; this is why the member exists -/
theorem inplace_survives_heap :
    let pre : List Ev := [.atomic (.add [1] 1 ⟨1, 0, true, [], 0⟩), .atomic (.add [2] 1 ⟨1, 0, true, [], 0⟩)]
    let s := run (pre ++ [.copy 1, .copy 2, .store 1 (.setAvail [1] 1 1 false), .store 2 (.setAvail [2] 1 1 false)])
    (lookup (reg s) [1] 1 1).map (·.avail) = some false ∧ (lookup (reg s) [2] 1 1).map (·.avail) = some false := by
  decide

end Spine.UCH
