import Spine.UseCaseConc
/-! C20, the member with the lock (`useCaseMux` around each of the four read-modify-write cycles): the cycles as
    events `acquire`, `copy`, `store`, `release`, and the theorem that every schedule is a sequential history in lock
    order. Plus the round trip of the read path's wire encoding. -/
namespace Spine.UC

/-! ### wire round trip -/

theorem decNats_enc (l : List Nat) (w : Wire) : decNats (encNats l ++ w) = some (l, w) := by
  simp [decNats, encNats]

theorem decMany_enc {α : Type} (p : Wire → Option (α × Wire)) (enc : α → Wire)
    (h : ∀ x w, p (enc x ++ w) = some (x, w)) (xs : List α) (w : Wire) :
    decMany p xs.length (xs.flatMap enc ++ w) = some (xs, w) := by
  induction xs with
  | nil => simp [decMany]
  | cons x xs ih =>
    simp only [List.length_cons, List.flatMap_cons, List.append_assoc, decMany, h, ih]

theorem decSup_enc (s : Support) (w : Wire) : decSup (encSup s ++ w) = some (s, w) := by
  cases s with
  | mk name version avail scen sub =>
    simp only [encSup, List.cons_append, List.nil_append, decSup, decNats_enc]
    cases avail <;> simp

theorem decInfo_enc (i : Info) (w : Wire) : decInfo (encInfo i ++ w) = some (i, w) := by
  cases i with
  | mk ent actor sup =>
    simp only [encInfo, List.append_assoc, decInfo, decNats_enc, List.cons_append,
      decMany_enc decSup encSup decSup_enc]

/-- decoding the encoding of a registry gives back exactly that registry -/
theorem decode_encode (r : Reg) : decode (encode r) = some r := by
  have := decMany_enc decInfo encInfo decInfo_enc r []
  simp only [List.append_nil] at this
  simp [decode, encode, this]

/-- the read path: a peer that reads obtains exactly the stored registry -/
theorem peerReads_eq (r : Reg) : peerReads r = some r := by
  simp [peerReads, handleUseCaseMsg, readReply, decode_encode]

/-! ### the locked cycles as events -/

structure LSt where
  reg : Reg := []
  holder : Option Nat := none          -- the operation holding useCaseMux
  nacq : Nat := 0                      -- number of lock acquisitions so far
  copies : List (Nat × Reg) := []      -- operation ↦ the copy it works on
  doneBy : List (Nat × Op) := []       -- ghost: (serial number of the lock hold, operation) of every store that took effect

inductive LEv
  | acquire (k : Nat)                  -- useCaseMux.Lock() returns for operation k
  | copy (k : Nat)                     -- DataCopy
  | store (k : Nat) (o : Op)           -- modify the copy and SetData
  | release (k : Nat)                  -- deferred useCaseMux.Unlock()

/-- an event of an operation that is not at that program point (does not hold the lock, the lock is taken, nothing
    copied) is a no-op -/
def lstep (s : LSt) : LEv → LSt
  | .acquire k => if s.holder = none then { s with holder := some k, nacq := s.nacq + 1 } else s
  | .copy k => if s.holder = some k then { s with copies := (k, s.reg) :: s.copies } else s
  | .store k o =>
    if s.holder = some k then
      match s.copies.find? (·.1 = k) with
      | none => s
      | some (_, r) =>
        { s with reg := apply r o, copies := s.copies.filter (·.1 ≠ k), doneBy := s.doneBy ++ [(s.nacq, o)] }
    else s
  | .release k => if s.holder = some k then { s with holder := none, copies := s.copies.filter (·.1 ≠ k) } else s

def lrun (evs : List LEv) : LSt := evs.foldl lstep {}

/-- the sequentialisation: the operations in the order their stores took effect -/
def LSt.seq (s : LSt) : List Op := s.doneBy.map (·.2)

def LInv (s : LSt) : Prop :=
  (∀ c ∈ s.copies, s.holder = some c.1 ∧ c.2 = s.reg) ∧
  s.reg = s.seq.foldl apply [] ∧
  (∀ d ∈ s.doneBy, d.1 ≤ s.nacq) ∧
  (s.doneBy.map (·.1)).Pairwise (· ≤ ·)

theorem linv_step (s : LSt) (h : LInv s) (e : LEv) : LInv (lstep s e) := by
  obtain ⟨h1, h2, h3, h4⟩ := h
  cases e with
  | acquire k =>
    simp only [lstep]
    split
    · rename_i hn
      refine ⟨?_, h2, fun d hd => Nat.le_succ_of_le (h3 d hd), h4⟩
      intro c hc
      have := (h1 c hc).1
      rw [hn] at this; cases this
    · exact ⟨h1, h2, h3, h4⟩
  | copy k =>
    simp only [lstep]
    split
    · rename_i hk
      refine ⟨?_, h2, h3, h4⟩
      intro c hc
      rcases List.mem_cons.mp hc with rfl | hc
      · exact ⟨hk, rfl⟩
      · exact h1 c hc
    · exact ⟨h1, h2, h3, h4⟩
  | store k o =>
    simp only [lstep]
    split
    · rename_i hk
      split
      · exact ⟨h1, h2, h3, h4⟩
      · rename_i k' r hf
        have hmem := List.mem_of_find?_eq_some hf
        have hr : r = s.reg := (h1 _ hmem).2
        refine ⟨?_, ?_, ?_, ?_⟩
        · intro c hc
          obtain ⟨hc1, hc2⟩ := List.mem_filter.mp hc
          have := (h1 c hc1).1
          rw [hk] at this
          simp only [Option.some.injEq] at this
          simp [this] at hc2
        · simp only [LSt.seq, List.map_append, List.map_cons, List.map_nil, List.foldl_append, List.foldl_cons,
            List.foldl_nil]
          rw [hr, h2]; rfl
        · intro d hd
          rcases List.mem_append.mp hd with hd | hd
          · exact h3 d hd
          · simp only [List.mem_singleton] at hd; subst hd; exact Nat.le_refl _
        · simp only [List.map_append, List.map_cons, List.map_nil]
          rw [List.pairwise_append]
          refine ⟨h4, by simp, ?_⟩
          intro a ha b hb
          simp only [List.mem_singleton] at hb; subst hb
          obtain ⟨d, hd, rfl⟩ := List.mem_map.mp ha
          exact h3 d hd
    · exact ⟨h1, h2, h3, h4⟩
  | release k =>
    simp only [lstep]
    split
    · rename_i hk
      refine ⟨?_, h2, h3, h4⟩
      intro c hc
      obtain ⟨hc1, hc2⟩ := List.mem_filter.mp hc
      have := (h1 c hc1).1
      rw [hk] at this
      simp only [Option.some.injEq] at this
      simp [this] at hc2
    · exact ⟨h1, h2, h3, h4⟩

theorem linv_run (evs : List LEv) : LInv (lrun evs) := by
  unfold lrun
  suffices ∀ s, LInv s → LInv (evs.foldl lstep s) from
    this {} ⟨by intro c hc; simp at hc, rfl, by intro d hd; simp at hd, by simp⟩
  induction evs with
  | nil => intro s h; exact h
  | cons e es ih => intro s h; exact ih _ (linv_step s h e)

theorem seq_sub_aux (evs : List LEv) : ∀ (pre : List LEv) (s : LSt), (∀ o ∈ s.seq, ∃ k, LEv.store k o ∈ pre) →
    ∀ o ∈ (evs.foldl lstep s).seq, ∃ k, LEv.store k o ∈ pre ++ evs := by
  induction evs with
  | nil => intro pre s h o ho; simpa using h o ho
  | cons e es ih =>
    intro pre s h o ho
    have := ih (pre ++ [e]) (lstep s e) ?_ o (by simpa using ho)
    · simpa [List.append_assoc] using this
    · intro o' ho'
      cases e with
      | acquire k =>
        simp only [lstep] at ho'
        split at ho' <;> (obtain ⟨k', hk'⟩ := h o' ho'; exact ⟨k', List.mem_append_left _ hk'⟩)
      | copy k =>
        simp only [lstep] at ho'
        split at ho' <;> (obtain ⟨k', hk'⟩ := h o' ho'; exact ⟨k', List.mem_append_left _ hk'⟩)
      | release k =>
        simp only [lstep] at ho'
        split at ho' <;> (obtain ⟨k', hk'⟩ := h o' ho'; exact ⟨k', List.mem_append_left _ hk'⟩)
      | store k o2 =>
        simp only [lstep] at ho'
        split at ho'
        · split at ho'
          · obtain ⟨k', hk'⟩ := h o' ho'; exact ⟨k', List.mem_append_left _ hk'⟩
          · simp only [LSt.seq, List.map_append, List.map_cons, List.map_nil, List.mem_append,
              List.mem_singleton] at ho'
            rcases ho' with ho' | rfl
            · obtain ⟨k', hk'⟩ := h o' (by simpa [LSt.seq] using ho'); exact ⟨k', List.mem_append_left _ hk'⟩
            · exact ⟨k, by simp⟩
        · obtain ⟨k', hk'⟩ := h o' ho'; exact ⟨k', List.mem_append_left _ hk'⟩

/-- every operation of the sequentialisation is the operation of some store event of the schedule -/
theorem seq_sub (evs : List LEv) : ∀ o ∈ (lrun evs).seq, ∃ k, LEv.store k o ∈ evs := by
  intro o ho
  have := seq_sub_aux evs [] {} (by intro o ho; simp [LSt.seq] at ho) o ho
  simpa using this

/-- every schedule of the locked cycles is a sequential history in lock order: the registry is the sequential
    application of the operations whose stores took effect, in that order, and that order follows the lock holds -/
theorem locked_is_sequential (evs : List LEv) :
    (lrun evs).reg = (lrun evs).seq.foldl apply [] ∧ ((lrun evs).doneBy.map (·.1)).Pairwise (· ≤ ·) :=
  ⟨(linv_run evs).2.1, (linv_run evs).2.2.2⟩

/-- a complete, non-overlapped cycle has exactly the sequential effect (the events are not vacuous) -/
theorem cycle_effect (s : LSt) (h : LInv s) (hfree : s.holder = none) (k : Nat) (o : Op) :
    ([LEv.acquire k, .copy k, .store k o, .release k].foldl lstep s).reg = apply s.reg o ∧
    ([LEv.acquire k, .copy k, .store k o, .release k].foldl lstep s).holder = none := by
  have hc : s.copies = [] := by
    cases hcs : s.copies with
    | nil => rfl
    | cons c cs =>
      have := (h.1 c (by rw [hcs]; exact List.mem_cons_self)).1
      rw [hfree] at this; cases this
  simp [lstep, hfree, hc]

end Spine.UC
