import Spine.Dispatch
/-! Local tree operations under `Spine.Disp` (C01 clause "one reply carrying the addressed function's CURRENT data"
    for the NODE-MANAGEMENT functions; C03 "announced writable at the moment the write is processed").

    The data node management replies with is computed from the local device: detailed discovery (901) from the tree
    of entities / features / announced functions / descriptions, use-case data (902) from the use-case list, the
    destination list (903) from the device description. As for the data of ordinary features the model names a value
    by the operation that produced it: `W.nmData fn` is the value id of the LAST local operation that changed what
    function `fn` has to report. The local operations of the application are the constructors of `TOp` next to the
    remote / registry operations `Op` of `Spine/Dispatch.lean`:

    * `addFeat`  `EntityLocal.GetOrAddFeature` on an EXISTING entity (no notification is sent)
    * `addFn`    `FeatureLocal.AddFunctionType` on an existing server / special feature (no notification); the write
                 flag becomes part of what the write gate reads (`LF.ops`)
    * `descr`    `Feature.SetDescriptionString`
    * `addUc` / `remUc`  `EntityLocal.AddUseCaseSupport` / `RemoveUseCaseSupport`: node management's use-case data is set
                 (`SetData`), its subscribers are notified; a removal while no use-case data exists does nothing
    * `addEnt` / `remEnt`  `DeviceLocal.AddEntity` / `RemoveEntity`: the features (dis)appear as destinations, node
                 management's subscribers get the partial discovery notification (and, on removal, first the use-case
                 notification of `RemoveAllUseCaseSupports` when use-case data exists)

    The code keeps NO copy of the discovery reply: `processReadDetailedDiscoveryData` renders the tree on every read.
    A reply served from a cache that some of these operations forget to invalidate is exactly a reply that does not
    carry `W.nmData 901`. -/
namespace Spine.Disp

/-- node management's data for function `fn` now has value id `v` -/
def nmSet (w : W) (fn v : Nat) : W := { w with nmData := fun f => if f = fn then v else w.nmData f }

/-- notifications node management fans out to ITS subscribers (payload contents not modelled: value 0) -/
def nmNotifs (w : W) (fn : Nat) : List (Nat × Out) := notifsAt w nmAddr fn 0

def addFnLF (a : Addr) (fn : Nat) (wr : Bool) (lf : LF) : LF :=
  if lf.ent = a.1 && lf.feat = a.2 && !lf.nm && lf.role ≠ .client && !(lf.ops.any fun o => o.1 = fn)
  then { lf with ops := lf.ops ++ [(fn, wr)] } else lf

inductive TOp
  | op (o : Op)
  | addFeat (lf : LF) (v : Nat)
  | addFn (a : Addr) (fn : Nat) (wr : Bool) (v : Nat)
  | descr (a : Addr) (v : Nat)
  | addUc (v : Nat)
  | remUc (v : Nat)
  | addEnt (lfs : List LF) (v : Nat)
  | remEnt (e : List Nat) (vu v : Nat)
deriving Repr

/-- use-case data set: new value, subscribers of node management notified -/
def ucSet (w : W) (v : Nat) : W × List (Nat × Out) :=
  (bump (nmSet w 902 v) (nmNotifs w 902), nmNotifs w 902)

def addFeatW (w : W) (lf : LF) (v : Nat) : W :=
  nmSet (if lf.nm || (locF w (lf.ent, lf.feat)).isSome then w else { w with loc := w.loc ++ [lf] }) 901 v

def addFnW (w : W) (a : Addr) (fn : Nat) (wr : Bool) (v : Nat) : W :=
  nmSet { w with loc := w.loc.map (addFnLF a fn wr) } 901 v

def addEntW (w : W) (lfs : List LF) (v : Nat) : W × List (Nat × Out) :=
  (bump (nmSet { w with loc := w.loc ++ lfs.filter fun lf => !lf.nm && (locF w (lf.ent, lf.feat)).isNone } 901 v) (nmNotifs w 901),
   nmNotifs w 901)

def remEntW (w : W) (e : List Nat) (vu v : Nat) : W × List (Nat × Out) :=
  let r1 := if w.nmData 902 = 0 then (w, []) else ucSet w vu
  -- the entity object is gone, and with it the data its features held (an entity attached later under the same
  -- address is a fresh object); registry entries naming its features stay
  let w2 : W := { r1.1 with loc := r1.1.loc.filter fun lf => lf.nm || lf.ent ≠ e
                            data := fun a fn => if a.1 = e then 0 else r1.1.data a fn }
  (bump (nmSet w2 901 v) (nmNotifs w 901), r1.2 ++ nmNotifs w 901)

def tstep (w : W) : TOp → W × List (Nat × Out)
  | .op o => step w o
  | .addFeat lf v => (addFeatW w lf v, [])
  | .addFn a fn wr v => (addFnW w a fn wr v, [])
  | .descr _ v => (nmSet w 901 v, [])
  | .addUc v => ucSet w v
  | .remUc v => if w.nmData 902 = 0 then (w, []) else ucSet w v
  | .addEnt lfs v => addEntW w lfs v
  | .remEnt e vu v => remEntW w e vu v

def trun (w : W) (ops : List TOp) : W := ops.foldl (fun w o => (tstep w o).1) w

/-- which node-management value an operation sets: (function, value id) pairs in the order they are set -/
def nmSets (w : W) : TOp → List (Nat × Nat)
  | .op _ => []
  | .addFeat _ v => [(901, v)]
  | .addFn _ _ _ v => [(901, v)]
  | .descr _ v => [(901, v)]
  | .addUc v => [(902, v)]
  | .remUc v => if w.nmData 902 = 0 then [] else [(902, v)]
  | .addEnt _ v => [(901, v)]
  | .remEnt _ vu v => (if w.nmData 902 = 0 then [] else [(902, vu)]) ++ [(901, v)]

def applyNm (f : Nat → Nat) (sets : List (Nat × Nat)) : Nat → Nat :=
  sets.foldl (fun g s => fun fn => if fn = s.1 then s.2 else g fn) f

/-- the (function, value) sets of a whole history, in order -/
def nmTrace : W → List TOp → List (Nat × Nat)
  | _, [] => []
  | w, o :: ops => nmSets w o ++ nmTrace (tstep w o).1 ops

/-- SPEC: the value of `fn` after a sequence of sets = that of the LAST set of `fn`, the initial one if there is none -/
def lastNm (fn init : Nat) (sets : List (Nat × Nat)) : Nat :=
  sets.foldl (fun cur s => if s.1 = fn then s.2 else cur) init

end Spine.Disp
