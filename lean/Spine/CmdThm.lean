import Spine.Cmd
/-! Lemmas about `Spine.Cmd` that hold for every table (hand-written, independent of the regenerated
    tables' content). -/
namespace Spine.Cmd
open Spine.Generated

variable {α : Type}

/-- The defect flag `deleteByRef` is consulted only when a delete selector or delete elements is given:
    for the shapes without a delete filter both members of the family build the same command. -/
theorem build_cfg_indep (fn : FnRow) (sh : Shape) (a : Args α) (h : sh.usesDelete = false) :
    build asWritten fn sh a = build clean fn sh a := by
  cases sh <;> first | rfl | (simp [Shape.usesDelete] at h)

theorem roundtrip_cfg_indep (fn : FnRow) (sh : Shape) (a : Args α) (h : sh.usesDelete = false) :
    roundtrip asWritten fn sh a = roundtrip clean fn sh a := by
  unfold roundtrip
  rw [build_cfg_indep fn sh a h]

/-- an argument with its nil form forgotten -/
def ArgForm.forget : ArgForm α → ArgForm α
  | .typedNil _ => .untypedNil
  | a => a

/-- The builders do not distinguish a nil pointer of a concrete type from the untyped nil: in every
    argument position both mean "no selectors / no elements". -/
theorem builder_nil_forms_agree (cfg : Cfg) (fn : FnRow) (x : α) (a b c : ArgForm α) (pws : Bool) :
    readCmdAny cfg fn x a b = readCmdAny cfg fn x a.forget b.forget ∧
    notifyOrWriteCmdAny cfg fn x a b pws c = notifyOrWriteCmdAny cfg fn x a.forget b.forget pws c.forget := by
  cases a <;> cases b <;> cases c <;> exact ⟨rfl, rfl⟩

end Spine.Cmd
