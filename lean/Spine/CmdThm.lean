import Spine.Cmd
/-! Lemmas about `Spine.Cmd` that hold for every table (hand-written, independent of the regenerated
    tables' content). -/
namespace Spine.Cmd
open Spine.Generated

variable {α : Type}

/-- The defect flag `deleteByRef` is consulted only when a delete selector or delete elements is given:
    for the shapes without a delete filter both members of the family build the same command. -/
theorem build_cfg_indep (fn : FnRow) (sh : Shape) (a : Args α) (h : sh.usesDelete = false) :
    build asWritten fn sh a = build clean fn sh a := by
  cases sh <;> first | rfl | (simp [Shape.usesDelete] at h)

theorem roundtrip_cfg_indep (fn : FnRow) (sh : Shape) (a : Args α) (h : sh.usesDelete = false) :
    roundtrip asWritten fn sh a = roundtrip clean fn sh a := by
  unfold roundtrip
  rw [build_cfg_indep fn sh a h]

/-- an argument with its nil form forgotten -/
def ArgForm.forget : ArgForm α → ArgForm α
  | .typedNil _ => .untypedNil
  | a => a

/-- The builders do not distinguish a nil pointer of a concrete type from the untyped nil: in every
    argument position both mean "no selectors / no elements". -/
theorem builder_nil_forms_agree (cfg : Cfg) (fn : FnRow) (x : α) (a b c : ArgForm α) (pws : Bool) :
    readCmdAny cfg fn x a b = readCmdAny cfg fn x a.forget b.forget ∧
    notifyOrWriteCmdAny cfg fn x a b pws c = notifyOrWriteCmdAny cfg fn x a.forget b.forget pws c.forget := by
  cases a <;> cases b <;> cases c <;> exact ⟨rfl, rfl⟩

end Spine.Cmd

namespace Spine.Cmd
open Spine.Generated
variable {α : Type}

/-! ## every way of calling the three builders

`ReadCmdType(partialSelector, elements)`, `ReplyCmdType(partial)` and
`NotifyOrWriteCmdType(deleteSelector, partialSelector, partialWithoutSelector, deleteElements)` can be
called with each selectors / elements argument present or absent: 4 + 2 + 16 = 22 presence patterns.
`Call` enumerates them, `buildCall` is the builder call itself, and `buildCall_eq_shape` shows that each
is the build of one of the 15 shapes of `Shape.all` — so the shape theorems speak about every call. -/

inductive Call
  | read (sel el : Bool)
  | reply (part : Bool)
  | now (delSel partSel pws delEl : Bool)     -- NotifyOrWriteCmdType
deriving Repr, DecidableEq

def bools : List Bool := [false, true]
def Call.all : List Call :=
  (bools.flatMap fun s => bools.map fun e => Call.read s e) ++ bools.map Call.reply ++
  (bools.flatMap fun a => bools.flatMap fun b => bools.flatMap fun c => bools.map fun d => Call.now a b c d)

/-- the shape a call is an instance of; with `partialWithoutSelector` the builder returns before it looks
    at the other arguments (function_data_cmd.go, early return) -/
def Call.shape : Call → Shape
  | .read false false => .read
  | .read true false => .readSel
  | .read false true => .readEl
  | .read true true => .readSelEl
  | .reply false => .reply
  | .reply true => .replyPartial
  | .now _ _ true _ => .part
  | .now false false false false => .full
  | .now false true false false => .partSel
  | .now true false false false => .delSel
  | .now false false false true => .delEl
  | .now true true false false => .delSelPartSel
  | .now false true false true => .partSelDelEl
  | .now true false false true => .delSelDelEl
  | .now true true false true => .delSelPartSelDelEl

/-- an argument is ignored by the call: only with `partialWithoutSelector` -/
def Call.ignoresArgs : Call → Bool
  | .now d p true e => d || p || e
  | _ => false

def optIf (b : Bool) (x : Option (Typed α)) : Option (Typed α) := if b then x else none

/-- the builder call itself: each selectors / elements argument given (`true`) or nil. The partial
    selector is `a.sel2` when a delete selector (`a.sel`) is given as well, `a.sel` otherwise — the
    naming of `Args`. -/
def buildCall (cfg : Cfg) (fn : FnRow) (c : Call) (a : Args α) : Except Panic (Cmd α) :=
  let sel : Option (Typed α) := (selTy? fn).map (⟨·, a.sel⟩)
  let sel2 : Option (Typed α) := (selTy? fn).map (⟨·, a.sel2⟩)
  let el : Option (Typed α) := (elTy? fn).map (⟨·, a.el⟩)
  match c with
  | .read s e => readCmd cfg fn a.empty (optIf s sel) (optIf e el)
  | .reply p => replyCmd fn a.data p
  | .now d p pws e =>
    notifyOrWriteCmd cfg fn a.data (optIf d sel) (optIf p (if d then sel2 else sel)) pws (optIf e el)

/-- `NotifyOrWriteCmdType` with `partialWithoutSelector` ignores its selectors and elements. -/
theorem notifyOrWriteCmd_pws (cfg : Cfg) (fn : FnRow) (data : α) (d p e : Option (Typed α)) :
    notifyOrWriteCmd cfg fn data d p true e = notifyOrWriteCmd cfg fn data none none true none := by
  unfold notifyOrWriteCmd
  cases createCmd fn.key ⟨fn.payloadKey, data⟩ <;> rfl

/-- Every call of the three builders builds what its shape builds. -/
theorem buildCall_eq_shape (cfg : Cfg) (fn : FnRow) (c : Call) (a : Args α) :
    buildCall cfg fn c a = build cfg fn c.shape a := by
  cases c with
  | read s e => cases s <;> cases e <;> rfl
  | reply p => cases p <;> rfl
  | now d p pws e =>
    cases pws with
    | true =>
      simp only [buildCall, Call.shape, build]
      exact notifyOrWriteCmd_pws ..
    | false => cases d <;> cases p <;> cases e <;> rfl

theorem Call.shape_mem_all (c : Call) : c.shape ∈ Shape.all := by
  cases c with
  | read s e => cases s <;> cases e <;> decide
  | reply p => cases p <;> decide
  | now d p pws e => cases d <;> cases p <;> cases pws <;> cases e <;> decide

theorem Call.mem_all (c : Call) : c ∈ Call.all := by
  cases c with
  | read s e => cases s <;> cases e <;> decide
  | reply p => cases p <;> decide
  | now d p pws e => cases d <;> cases p <;> cases pws <;> cases e <;> decide

/-- every shape is reached by a call that ignores nothing -/
theorem Shape.all_reached : ∀ sh ∈ Shape.all, ∃ c : Call, c.shape = sh ∧ c.ignoresArgs = false := by
  intro sh hsh
  cases sh
  · exact ⟨.read false false, rfl, rfl⟩
  · exact ⟨.read true false, rfl, rfl⟩
  · exact ⟨.read false true, rfl, rfl⟩
  · exact ⟨.reply false, rfl, rfl⟩
  · exact ⟨.now false false false false, rfl, rfl⟩
  · exact ⟨.now false false true false, rfl, rfl⟩
  · exact ⟨.now false true false false, rfl, rfl⟩
  · exact ⟨.now true false false false, rfl, rfl⟩
  · exact ⟨.now false false false true, rfl, rfl⟩
  · exact ⟨.read true true, rfl, rfl⟩
  · exact ⟨.reply true, rfl, rfl⟩
  · exact ⟨.now true true false false, rfl, rfl⟩
  · exact ⟨.now false true false true, rfl, rfl⟩
  · exact ⟨.now true false false true, rfl, rfl⟩
  · exact ⟨.now true true false true, rfl, rfl⟩

/-- call, encode, decode, recognise -/
def roundtripCall (cfg : Cfg) (fn : FnRow) (c : Call) (a : Args α) : Except Panic (Option (Recognised α)) :=
  match buildCall cfg fn c a with
  | .error e => .error e
  | .ok cmd =>
    match decodeCmd (encodeCmd cmd) with
    | none => .ok none
    | some c' => recognise c'

theorem roundtripCall_eq_shape (cfg : Cfg) (fn : FnRow) (c : Call) (a : Args α) :
    roundtripCall cfg fn c a = roundtrip cfg fn c.shape a := by
  unfold roundtripCall roundtrip
  rw [buildCall_eq_shape]
  cases build cfg fn c.shape a with
  | error e => rfl
  | ok cmd =>
    dsimp only
    cases decodeCmd (encodeCmd cmd) <;> rfl

end Spine.Cmd
