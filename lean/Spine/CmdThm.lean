import Spine.Cmd
/-! Lemmas about `Spine.Cmd` that hold for every table (hand-written, independent of the regenerated
    tables' content). -/
namespace Spine.Cmd
open Spine.Generated

variable {α : Type}

/-- The defect flag `deleteByRef` is consulted only when a delete selector or delete elements is given:
    for the shapes without a delete filter both members of the family build the same command. -/
theorem build_cfg_indep (fn : FnRow) (sh : Shape) (a : Args α) (h : sh.usesDelete = false) :
    build asWritten fn sh a = build clean fn sh a := by
  cases sh <;> first | rfl | (simp [Shape.usesDelete] at h)

theorem roundtrip_cfg_indep (fn : FnRow) (sh : Shape) (a : Args α) (h : sh.usesDelete = false) :
    roundtrip asWritten fn sh a = roundtrip clean fn sh a := by
  unfold roundtrip
  rw [build_cfg_indep fn sh a h]

end Spine.Cmd
