import Spine.DiscoveryFull
import Spine.DiscoveryCascade
import Spine.DiscoveryWritten
/-! C06 over histories: any sequence of replies, partial and full notifications, by induction over the list of
    messages; and the cascade over the world (registries, client-side bookkeeping, the other peers' trees). -/
namespace Spine.Disc

structure Ann where
  kind : Kind
  msg : Msg

/-- a message the statement speaks about: a partial notification has entries and every entry carries a state change
    (replies and full notifications need nothing: their entries carry no state change by construction) -/
def Ann.WF (x : Ann) : Prop :=
  x.kind = .part → (x.msg.ents ≠ [] ∧ x.msg.ents.any (·.chg = .none) = false)

/-- SPEC of one announcement, one address at a time -/
def specAnn (a : List Nat) (cur : Option E) (x : Ann) : Option E :=
  match x.kind with
  | .reply => x.msg.ents.foldl (fun c ei => specEntity x.msg a c { ei with chg := .added }) cur
  | .part => x.msg.ents.foldl (specEntity x.msg a) cur
  | .full => specFull x.msg a cur

def treeRun (c : Cfg) (t : Tree) (h : List Ann) : Tree := h.foldl (fun t x => (treeStep c x.kind x.msg t).1) t

/-- one message of the repaired member is one step of the specification -/
theorem c06_step (x : Ann) (hw : x.WF) (t : Tree) (a : List Nat) :
    findE (treeStep Cfg.clean x.kind x.msg t).1 a = specAnn a (findE t a) x := by
  unfold treeStep specAnn
  cases hk : x.kind with
  | reply => exact c06_tree_reply x.msg t a
  | part =>
    obtain ⟨hne, hall⟩ := hw hk
    simp only [Cfg.clean, Bool.false_eq_true, if_false]
    exact c06_tree_notification x.msg t a hne hall
  | full =>
    simp only [Cfg.clean, Bool.false_eq_true, if_false]
    exact c06_full_tree x.msg t a

/-- C06 (repaired) over histories: after any sequence of replies, partial and full notifications the entity the tree
    holds at any address — type, description, features with types, roles, descriptions, operations — is the one obtained
    by applying the announcements in order to what the tree held there before -/
theorem c06_history : ∀ (h : List Ann) (t : Tree) (a : List Nat), (∀ x ∈ h, x.WF) →
    findE (treeRun Cfg.clean t h) a = h.foldl (specAnn a) (findE t a)
  | [], _, _, _ => rfl
  | x :: h, t, a, hw => by
    unfold treeRun
    rw [List.foldl_cons, List.foldl_cons]
    have := c06_history h (treeStep Cfg.clean x.kind x.msg t).1 a (fun y hy => hw y (List.mem_cons_of_mem _ hy))
    unfold treeRun at this
    rw [this, c06_step x (hw x (List.mem_cons_self ..)) t a]

theorem nodup_notifyFull (m : Msg) (t : Tree) (h : (addrs t).Nodup) : (addrs (notifyFull m t).1).Nodup :=
  nodup_notifyPartial _ t h

theorem nodup_notifyFullFixed (m : Msg) (t : Tree) (h : (addrs t).Nodup) : (addrs (notifyFullFixed m t).1).Nodup :=
  nodup_notifyPartialFixed _ t h

theorem nodup_treeStep (c : Cfg) (k : Kind) (m : Msg) (t : Tree) (h : (addrs t).Nodup) :
    (addrs (treeStep c k m t).1).Nodup := by
  cases k with
  | reply => exact nodup_addAll m t h
  | part =>
    simp only [treeStep]
    split
    · exact nodup_notifyPartial m t h
    · exact nodup_notifyPartialFixed m t h
  | full =>
    simp only [treeStep]
    split
    · exact nodup_notifyFull m t h
    · exact nodup_notifyFullFixed m t h

/-- both members, all histories, no well-formedness needed: no entity address is ever listed twice, so the entity list is
    a finite map and the per-address statements describe the whole tree -/
theorem c06_history_nodup (c : Cfg) : ∀ (h : List Ann) (t : Tree), (addrs t).Nodup → (addrs (treeRun c t h)).Nodup
  | [], _, hn => hn
  | x :: h, t, hn => by
    unfold treeRun
    rw [List.foldl_cons]
    exact c06_history_nodup c h _ (nodup_treeStep c x.kind x.msg t hn)

/-! ### the world: registries, client-side bookkeeping, other peers -/

theorem step_subs (c : Cfg) (w : World) (p : Nat) (k : Kind) (m : Msg) :
    (w.step c p k m).1.subs = w.subs.filter fun e => !(e.peer = p && (removed (w.step c p k m).2).contains e.cEnt) := by
  simp only [World.step]
  rw [cascade_subs]
  rfl

theorem step_binds (c : Cfg) (w : World) (p : Nat) (k : Kind) (m : Msg) :
    (w.step c p k m).1.binds
      = w.binds.filter fun e => !((c.bindEntityOnly || e.peer = p) && (removed (w.step c p k m).2).contains e.cEnt) := by
  simp only [World.step]
  rw [cascade_binds]
  rfl

theorem step_csubs (c : Cfg) (w : World) (p : Nat) (k : Kind) (m : Msg) :
    (w.step c p k m).1.csubs = w.csubs.filter fun e => !(e.peer = p && (removed (w.step c p k m).2).contains e.rEnt) := by
  simp only [World.step]
  rw [cascade_csubs]
  rfl

theorem step_cbinds (c : Cfg) (w : World) (p : Nat) (k : Kind) (m : Msg) :
    (w.step c p k m).1.cbinds = w.cbinds.filter fun e => !(e.peer = p && (removed (w.step c p k m).2).contains e.rEnt) := by
  simp only [World.step]
  rw [cascade_cbinds]
  rfl

/-- a message of peer `p` leaves the tree of every other peer untouched (both members) -/
theorem step_other_trees (c : Cfg) (w : World) (p q : Nat) (hq : q ≠ p) (k : Kind) (m : Msg) :
    (w.step c p k m).1.trees q = w.trees q := by
  simp only [World.step]
  rw [cascade_trees]
  simp [setTree, hq]

theorem step_own_tree (c : Cfg) (w : World) (p : Nat) (k : Kind) (m : Msg) :
    (w.step c p k m).1.trees p = (treeStep c k m (w.trees p)).1 := by
  simp only [World.step]
  rw [cascade_trees]
  simp [setTree]

/-! ### the member as written over histories: the region where it agrees with the specification -/

/-- a message on which the handler as written is right (address level): a reply, or a non-empty partial notification
    whose entries share one state change. Full notifications are excluded: their diff is in general a mixed
    notification. -/
def Ann.Uniform (x : Ann) : Prop :=
  x.kind ≠ .full ∧ (x.kind = .part → x.msg.ents ≠ [] ∧
    ((∀ ei ∈ x.msg.ents, ei.chg = .added) ∨ (∀ ei ∈ x.msg.ents, ei.chg = .removed)))

/-- SPEC of one announcement, known / unknown only -/
def specKnown (a : List Nat) (b : Bool) (x : Ann) : Bool :=
  match x.kind with
  | .reply => b || decide (a ∈ x.msg.ents.map (·.addr))
  | .part => x.msg.ents.foldl (applyTo a) b
  | .full => decide (a ∈ x.msg.ents.map (·.addr))

theorem written_step_uniform (x : Ann) (hu : x.Uniform) (t : Tree) (a : List Nat) :
    decide (a ∈ addrs (treeStep {} x.kind x.msg t).1) = specKnown a (decide (a ∈ addrs t)) x := by
  unfold treeStep specKnown
  cases hk : x.kind with
  | reply =>
    simp only [reply]
    by_cases h1 : a ∈ addrs t <;> by_cases h2 : a ∈ x.msg.ents.map (·.addr) <;> simp [mem_addAll, h1, h2]
  | part =>
    obtain ⟨hne, hsame⟩ := hu.2 hk
    simp only [if_true]
    cases hsame with
    | inl h => exact written_all_added x.msg t a hne h
    | inr h => exact written_all_removed x.msg t a hne h
  | full => exact absurd hk hu.1

/-- C06 (partial, code as written) over histories: as long as every message is a reply or a notification whose entries
    share one state change, the set of known addresses is the one the announcements demand -/
theorem c06_history_written : ∀ (h : List Ann) (t : Tree) (a : List Nat), (∀ x ∈ h, x.Uniform) →
    decide (a ∈ addrs (treeRun {} t h)) = h.foldl (specKnown a) (decide (a ∈ addrs t))
  | [], _, _, _ => rfl
  | x :: h, t, a, hu => by
    unfold treeRun
    rw [List.foldl_cons, List.foldl_cons]
    have := c06_history_written h (treeStep {} x.kind x.msg t).1 a (fun y hy => hu y (List.mem_cons_of_mem _ hy))
    unfold treeRun at this
    rw [this, written_step_uniform x (hu x (List.mem_cons_self ..)) t a]

end Spine.Disc
