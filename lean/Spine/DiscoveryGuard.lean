import Spine.DiscoveryHistory
/-! C06, the member of the repaired tree (HEAD): per-entry handling (437adab) plus
    * the device-information guard of the removal loop (711ee79): a `removed` entry about entity [0] is skipped, the
      entries after it are processed;
    * the re-announcement guard (6fceef1): an `added` entry (or a reply entry) about [0] whose feature list lacks
      feature 0 is ignored while the stored [0] has feature 0; other entries of the message are processed;
    * rejection instead of panic (ee6520e, aaa2de7): an entry with an empty entity address, an `added` / reply entry about
      an unknown entity without `entityType`, a notification entry without state change make the handler return an error
      AT THAT ENTRY — the entries before it are applied (tree, events, cascade), the entries after it are not; in a
      reply no entity event at all is published then (`AddEntityAndFeatures` returns `nil, err`);
    * malformed feature elements (no description / address / feature number / type / role) and `supportedFunction`
      elements without function are skipped (d6e3a1a, 8f63d7d) — this happens when the wire message is unmarshalled
      (`MsgG.ofWire`), independently of the tree.
    Messages are `MsgG`: entity elements `EW` may lack the entity type and may carry the empty address. -/
namespace Spine.Disc

/-- an entity element as it arrives: the entity type may be absent, the address may be empty -/
structure EW where
  addr : List Nat
  typ : Option Nat
  chg : Chg
  desc : Option Nat
deriving DecidableEq, Repr

def EW.toEI (e : EW) : EI := ⟨e.addr, e.typ.getD 0, e.chg, e.desc⟩

/-- a feature element as it arrives: every part of the description may be absent -/
structure FW where
  ent : Option (List Nat)
  id : Option Nat
  typ : Option Nat
  role : Option Nat
  desc : Option Nat
  fns : List (Option Nat × Option Nat)      -- supportedFunction: (function?, possibleOperations?)
deriving DecidableEq, Repr

/-- unmarshalFeature of the repaired tree: `none` = the element is skipped -/
def unmarshalW (f : FW) : Option F :=
  match f.ent, f.id, f.typ, f.role with
  | some e, some i, some t, some r =>
    some ⟨e, i, t, r, f.desc, setOps (f.fns.filterMap fun x => x.1.map fun fn => (fn, x.2))⟩
  | _, _, _, _ => none

structure MsgG where
  ents : List EW
  feats : List F
deriving Repr

structure WireG where
  ents : List EW
  feats : List FW
deriving Repr

def MsgG.ofWire (w : WireG) : MsgG := ⟨w.ents, w.feats.filterMap unmarshalW⟩

def MsgG.toMsg (m : MsgG) : Msg := ⟨m.ents.map EW.toEI, m.feats⟩

/-- hasNodeManagement: a feature with number 0 -/
def hasNM (fs : List F) : Bool := fs.any (·.id = 0)

def storedNM (t : Tree) : Bool :=
  match findE t [0] with
  | some e => hasNM e.feats
  | none => false

/-- is the `added` / reply entry about [0] ignored? -/
def refreshSkipped (c : Cfg) (feats : List F) (t : Tree) (ei : EI) : Bool :=
  !c.refreshUnguarded && ei.addr = [0] && storedNM t && !hasNM (feats.filter (·.ent = [0]))

/-- is the `removed` entry skipped? -/
def removalSkipped (c : Cfg) (ei : EI) : Bool := !c.removesDevInfo && ei.addr = [0]

def addOneG (c : Cfg) (feats : List F) (acc : Tree × List Evt) (ei : EI) : Tree × List Evt :=
  if refreshSkipped c feats acc.1 ei then acc else addOne ⟨[], feats⟩ acc ei

def remOneG (c : Cfg) (acc : Tree × List Evt) (ei : EI) : Tree × List Evt :=
  if removalSkipped c ei then acc else remOne acc ei

/-- CheckEntityInformation + the entity-type check of AddEntityAndFeatures -/
def addRejected (t : Tree) (e : EW) : Bool := e.addr = [] || ((findE t e.addr).isNone && e.typ.isNone)

/-- one notification entry; `none` = the handler returns an error here -/
def entryG (c : Cfg) (feats : List F) (acc : Tree × List Evt) (e : EW) : Option (Tree × List Evt) :=
  match e.chg with
  | .none => none
  | .added => if addRejected acc.1 e then none else some (addOneG c feats acc e.toEI)
  | .removed => if e.addr = [] then none else some (remOneG c acc e.toEI)

/-- one reply entry (the state change is not looked at) -/
def replyEntryG (c : Cfg) (feats : List F) (acc : Tree × List Evt) (e : EW) : Option (Tree × List Evt) :=
  if addRejected acc.1 e then none else some (addOneG c feats acc e.toEI)

/-- a loop that stops at the first entry its body rejects; second component: ran to the end -/
def runG (body : Tree × List Evt → EW → Option (Tree × List Evt)) : List EW → Tree × List Evt → (Tree × List Evt) × Bool
  | [], acc => (acc, true)
  | e :: l, acc =>
    match body acc e with
    | none => (acc, false)
    | some acc' => runG body l acc'

def notifyG (c : Cfg) (m : MsgG) (t : Tree) : Tree × List Evt × Bool :=
  if m.ents.isEmpty then (t, [], false) else
  ((runG (entryG c m.feats) m.ents (t, [])).1.1, (runG (entryG c m.feats) m.ents (t, [])).1.2,
    (runG (entryG c m.feats) m.ents (t, [])).2)

/-- the reply handler: on an error the tree keeps what was applied, no entity event is published -/
def replyG (c : Cfg) (m : MsgG) (t : Tree) : Tree × List Evt :=
  ((runG (replyEntryG c m.feats) m.ents (t, [])).1.1,
    if (runG (replyEntryG c m.feats) m.ents (t, [])).2 then (runG (replyEntryG c m.feats) m.ents (t, [])).1.2 else [])

/-- provideDetailedDiscoveryDiffForFullNotify on wire entries -/
def fullDiffG (m : MsgG) (t : Tree) : MsgG :=
  { ents := ((m.ents.filter fun e => (findE t e.addr).isNone).map fun e => { e with chg := Chg.added }) ++
      ((t.filter fun x => !((m.ents.filter fun e => (findE t e.addr).isSome).map (·.addr)).contains x.addr).map
        fun x => ({ addr := x.addr, typ := some x.typ, chg := .removed, desc := none } : EW)),
    feats := m.feats.filter fun f => ((m.ents.filter fun e => (findE t e.addr).isNone).map (·.addr)).contains f.ent }

def notifyFullG (c : Cfg) (m : MsgG) (t : Tree) : Tree × List Evt × Bool := notifyG c (fullDiffG m t) t

/-- the tree part of one discovery message for every member of the family. With `wholeMessage` (pinned handler) the
    message must be well formed and must not touch [0] beyond listing it unchanged: there the pinned code panics or
    wedges (C05) and the model says nothing. -/
def treeStepG (c : Cfg) (k : Kind) (m : MsgG) (t : Tree) : Tree × List Evt :=
  if c.wholeMessage then treeStep c k m.toMsg t else
  match k with
  | .reply => replyG c m t
  | .part => ((notifyG c m t).1, (notifyG c m t).2.1)
  | .full => ((notifyFullG c m t).1, (notifyFullG c m t).2.1)

def World.stepG (c : Cfg) (w : World) (p : Nat) (k : Kind) (m : MsgG) : World × List Evt :=
  (cascade c (setTree w p (treeStepG c k m (w.trees p)).1) p (treeStepG c k m (w.trees p)).2,
    (treeStepG c k m (w.trees p)).2)

/-! ### the device-information entity is kept: every message, well formed or not -/

/-- the peer can be answered: [0] is known and has feature 0 -/
def DevInfoOK (t : Tree) : Prop := storedNM t = true

instance (t : Tree) : Decidable (DevInfoOK t) := by unfold DevInfoOK; infer_instance

theorem storedNM_addOneG (feats : List F) (acc : Tree × List Evt) (ei : EI) (h : storedNM acc.1 = true) :
    storedNM (addOneG Cfg.clean feats acc ei).1 = true := by
  unfold addOneG
  split
  · exact h
  · rename_i hs
    unfold storedNM
    rw [findE_addOne]
    by_cases h0 : ei.addr = [0]
    · simp only [h0, if_true]
      -- not skipped although [0] has feature 0: the new list has feature 0
      simp only [refreshSkipped, Cfg.clean, h0, h, Bool.not_false, Bool.true_and, decide_true, Bool.and_true,
        Bool.not_eq_true', Bool.not_eq_false] at hs
      exact hs
    · simp only [h0, if_false]
      exact h

theorem storedNM_remOneG (acc : Tree × List Evt) (ei : EI) (h : storedNM acc.1 = true) :
    storedNM (remOneG Cfg.clean acc ei).1 = true := by
  unfold remOneG
  split
  · exact h
  · rename_i hs
    have h0 : ¬ ei.addr = [0] := by simpa [removalSkipped, Cfg.clean] using hs
    unfold storedNM
    rw [findE_remOne]
    simp only [h0, if_false]
    exact h

theorem storedNM_entryG (feats : List F) (acc acc' : Tree × List Evt) (e : EW) (h : storedNM acc.1 = true)
    (he : entryG Cfg.clean feats acc e = some acc') : storedNM acc'.1 = true := by
  unfold entryG at he
  cases hc : e.chg with
  | none => simp [hc] at he
  | added =>
    simp only [hc] at he
    split at he
    · exact absurd he (by simp)
    · injection he with he; rw [← he]; exact storedNM_addOneG feats acc _ h
  | removed =>
    simp only [hc] at he
    split at he
    · exact absurd he (by simp)
    · injection he with he; rw [← he]; exact storedNM_remOneG acc _ h

theorem storedNM_replyEntryG (feats : List F) (acc acc' : Tree × List Evt) (e : EW) (h : storedNM acc.1 = true)
    (he : replyEntryG Cfg.clean feats acc e = some acc') : storedNM acc'.1 = true := by
  unfold replyEntryG at he
  split at he
  · exact absurd he (by simp)
  · injection he with he; rw [← he]; exact storedNM_addOneG feats acc _ h

theorem storedNM_runG (body : Tree × List Evt → EW → Option (Tree × List Evt))
    (hb : ∀ acc acc' e, storedNM acc.1 = true → body acc e = some acc' → storedNM acc'.1 = true) :
    ∀ (l : List EW) (acc : Tree × List Evt), storedNM acc.1 = true → storedNM (runG body l acc).1.1 = true
  | [], _, h => h
  | e :: l, acc, h => by
    unfold runG
    cases hbe : body acc e with
    | none => exact h
    | some acc' => exact storedNM_runG body hb l acc' (hb acc acc' e h hbe)

/-- one message of the repaired tree, of any kind and any shape (malformed entries included), keeps the
    device-information entity with its feature 0 -/
theorem devInfo_step (k : Kind) (m : MsgG) (t : Tree) (h : DevInfoOK t) : DevInfoOK (treeStepG Cfg.clean k m t).1 := by
  unfold DevInfoOK at *
  unfold treeStepG
  simp only [Cfg.clean, Bool.false_eq_true, if_false]
  cases k with
  | reply => exact storedNM_runG _ (storedNM_replyEntryG m.feats) m.ents (t, []) h
  | part =>
    simp only [notifyG]
    split
    · exact h
    · exact storedNM_runG _ (storedNM_entryG m.feats) m.ents (t, []) h
  | full =>
    simp only [notifyFullG, notifyG]
    split
    · exact h
    · exact storedNM_runG _ (storedNM_entryG (fullDiffG m t).feats) (fullDiffG m t).ents (t, []) h

structure AnnG where
  kind : Kind
  msg : MsgG

def treeRunG (c : Cfg) (t : Tree) (h : List AnnG) : Tree := h.foldl (fun t x => (treeStepG c x.kind x.msg t).1) t

/-- `c06_device_information_kept`: over every history of discovery messages — replies, partial and full notifications,
    listing [0] as removed anywhere, omitting it, re-announcing it without feature 0, with malformed entries — the
    repaired tree keeps entity [0] with feature 0, so the peer keeps being answered -/
theorem devInfo_history : ∀ (h : List AnnG) (t : Tree), DevInfoOK t → DevInfoOK (treeRunG Cfg.clean t h)
  | [], _, ht => ht
  | x :: h, t, ht => by
    unfold treeRunG
    rw [List.foldl_cons]
    exact devInfo_history h _ (devInfo_step x.kind x.msg t ht)

/-! ### a skipped entry does not stop the loop -/

/-- the entries after a `removed` entry about [0] are processed exactly as if that entry were not there (and so are the
    entries before it): the guard is `continue`, not `return` -/
theorem runG_skips_devInfo_removal (feats : List F) (e0 : EW) (h0 : e0.addr = [0]) (hc : e0.chg = .removed) :
    ∀ (pre post : List EW) (acc : Tree × List Evt),
      runG (entryG Cfg.clean feats) (pre ++ e0 :: post) acc = runG (entryG Cfg.clean feats) (pre ++ post) acc
  | [], post, acc => by
    simp only [List.nil_append]
    rw [runG]
    have : entryG Cfg.clean feats acc e0 = some acc := by
      simp [entryG, hc, h0, remOneG, removalSkipped, Cfg.clean, EW.toEI]
    rw [this]
  | e :: pre, post, acc => by
    simp only [List.cons_append]
    rw [runG, runG]
    cases entryG Cfg.clean feats acc e with
    | none => rfl
    | some acc' => exact runG_skips_devInfo_removal feats e0 h0 hc pre post acc'

/-! ### well-formed messages: the loop runs to the end and refines the specification -/

/-- an entity element the handlers accept whatever the tree: non-empty address, entity type present unless the entry is
    a removal -/
def EW.WF (e : EW) : Prop := e.addr ≠ [] ∧ (e.chg ≠ .removed → e.typ.isSome = true)

/-- one entry of the repaired tree, when accepted -/
def stepGd (c : Cfg) (feats : List F) (acc : Tree × List Evt) (ei : EI) : Tree × List Evt :=
  match ei.chg with
  | .added => addOneG c feats acc ei
  | .removed => remOneG c acc ei
  | .none => acc

theorem runG_entry_wf (c : Cfg) (feats : List F) : ∀ (l : List EW) (acc : Tree × List Evt),
    (∀ e ∈ l, e.WF ∧ e.chg ≠ .none) →
    runG (entryG c feats) l acc = ((l.map EW.toEI).foldl (stepGd c feats) acc, true)
  | [], _, _ => rfl
  | e :: l, acc, h => by
    obtain ⟨⟨hne, htyp⟩, hchg⟩ := h e (List.mem_cons_self ..)
    have ih := fun acc' => runG_entry_wf c feats l acc' (fun x hx => h x (List.mem_cons_of_mem _ hx))
    rw [runG]
    cases hc : e.chg with
    | none => exact absurd hc hchg
    | added =>
      have ht : e.typ.isSome = true := htyp (by rw [hc]; decide)
      have ht' : ¬ e.typ = none := by intro h'; rw [h'] at ht; exact absurd ht (by decide)
      have : entryG c feats acc e = some (addOneG c feats acc e.toEI) := by
        simp [entryG, hc, addRejected, hne, ht']
      rw [this]
      simp only [ih, List.map_cons, List.foldl_cons, stepGd, EW.toEI, hc]
    | removed =>
      have : entryG c feats acc e = some (remOneG c acc e.toEI) := by
        simp [entryG, hc, hne]
      rw [this]
      simp only [ih, List.map_cons, List.foldl_cons, stepGd, EW.toEI, hc]

theorem runG_reply_wf (c : Cfg) (feats : List F) : ∀ (l : List EW) (acc : Tree × List Evt),
    (∀ e ∈ l, e.addr ≠ [] ∧ e.typ.isSome = true) →
    runG (replyEntryG c feats) l acc = ((l.map EW.toEI).foldl (addOneG c feats) acc, true)
  | [], _, _ => rfl
  | e :: l, acc, h => by
    obtain ⟨hne, ht⟩ := h e (List.mem_cons_self ..)
    rw [runG]
    have ht' : ¬ e.typ = none := by intro h'; rw [h'] at ht; exact absurd ht (by decide)
    have : replyEntryG c feats acc e = some (addOneG c feats acc e.toEI) := by
      simp [replyEntryG, addRejected, hne, ht']
    rw [this]
    show runG (replyEntryG c feats) l (addOneG c feats acc e.toEI) = _
    rw [runG_reply_wf c feats l _ (fun x hx => h x (List.mem_cons_of_mem _ hx))]
    rfl

def curNM (cur : Option E) : Bool :=
  match cur with
  | some e => hasNM e.feats
  | none => false

/-- does the specification leave the device-information entity alone for this entry? -/
def guardB (feats : List F) (a : List Nat) (cur : Option E) (ei : EI) : Bool :=
  decide (a = [0]) && decide (ei.addr = [0]) &&
    (decide (ei.chg = .removed) ||
      (decide (ei.chg = .added) && curNM cur && !hasNM (feats.filter (·.ent = [0]))))

/-- SPEC of the repaired tree, one address at a time: as `specEntity`, except that the device-information entity is
    never removed and is not refreshed by an announcement that would take feature 0 away from it -/
def specEntityG (feats : List F) (a : List Nat) (cur : Option E) (ei : EI) : Option E :=
  if guardB feats a cur ei then cur else specEntity ⟨[], feats⟩ a cur ei

theorem storedNM_eq (t : Tree) : storedNM t = curNM (findE t [0]) := rfl

theorem findE_stepGd (feats : List F) (acc : Tree × List Evt) (ei : EI) (a : List Nat) :
    findE (stepGd Cfg.clean feats acc ei).1 a = specEntityG feats a (findE acc.1 a) ei := by
  unfold stepGd specEntityG
  by_cases h0 : ei.addr = [0]
  · by_cases ha : a = [0]
    · subst ha
      cases hc : ei.chg with
      | none => simp [guardB, hc, specEntity]
      | removed => simp [guardB, hc, h0, remOneG, removalSkipped, Cfg.clean]
      | added =>
        simp only [addOneG, refreshSkipped, Cfg.clean, guardB, hc, h0, storedNM_eq, Bool.not_false, Bool.true_and,
          decide_true, reduceCtorEq, decide_false, Bool.false_or]
        cases hg : (curNM (findE acc.1 [0]) && !hasNM (feats.filter (·.ent = [0]))) with
        | true => simp
        | false =>
          simp only [Bool.false_eq_true, if_false]
          rw [findE_addOne]
          simp [specEntity, h0, hc]
    · have hne : ¬ ([0] : List Nat) = a := fun h => ha h.symm
      have hg : guardB feats a (findE acc.1 a) ei = false := by simp [guardB, ha]
      rw [hg]
      simp only [Bool.false_eq_true, if_false]
      cases hc : ei.chg with
      | none => simp [specEntity, hc]
      | removed =>
        simp only [remOneG]
        split
        · simp [specEntity, h0, hne]
        · rw [findE_remOne]; simp [specEntity, h0, hne]
      | added =>
        simp only [addOneG]
        split
        · simp [specEntity, h0, hne]
        · rw [findE_addOne]; simp [specEntity, h0, hne]
  · have hg : guardB feats a (findE acc.1 a) ei = false := by simp [guardB, h0]
    rw [hg]
    simp only [Bool.false_eq_true, if_false]
    cases hc : ei.chg with
    | none => simp [specEntity, hc]
    | removed =>
      simp only [remOneG, removalSkipped, h0, decide_false, Bool.and_false, Bool.false_eq_true, if_false]
      rw [findE_remOne]; simp [specEntity, hc]
    | added =>
      simp only [addOneG, refreshSkipped, h0, decide_false, Bool.and_false, Bool.false_and, Bool.false_eq_true, if_false]
      rw [findE_addOne]; simp [specEntity, hc]

theorem guard_refines (feats : List F) : ∀ (l : List EI) (acc : Tree × List Evt) (a : List Nat),
    findE (l.foldl (stepGd Cfg.clean feats) acc).1 a = l.foldl (specEntityG feats a) (findE acc.1 a)
  | [], _, _ => rfl
  | ei :: l, acc, a => by
    rw [List.foldl_cons, List.foldl_cons, guard_refines feats l _ a, findE_stepGd]

/-- a well-formed partial notification -/
def MsgG.WFpart (m : MsgG) : Prop := m.ents ≠ [] ∧ ∀ e ∈ m.ents, e.WF ∧ e.chg ≠ .none

theorem guard_tree_notification (m : MsgG) (t : Tree) (a : List Nat) (hw : m.WFpart) :
    findE (notifyG Cfg.clean m t).1 a = (m.ents.map EW.toEI).foldl (specEntityG m.feats a) (findE t a) := by
  unfold notifyG
  have : m.ents.isEmpty = false := by cases h : m.ents with | nil => exact absurd h hw.1 | cons _ _ => rfl
  rw [this]
  simp only [Bool.false_eq_true, if_false]
  rw [runG_entry_wf Cfg.clean m.feats m.ents (t, []) hw.2]
  exact guard_refines m.feats _ (t, []) a

/-- a well-formed reply: every entry has an address and an entity type -/
def MsgG.WFreply (m : MsgG) : Prop := ∀ e ∈ m.ents, e.addr ≠ [] ∧ e.typ.isSome = true

theorem addOneG_eq_stepGd (c : Cfg) (feats : List F) (acc : Tree × List Evt) (ei : EI) :
    addOneG c feats acc ei = stepGd c feats acc { ei with chg := .added } := by
  simp [stepGd, addOneG, refreshSkipped, addOne]

theorem guard_tree_reply (m : MsgG) (t : Tree) (a : List Nat) (hw : m.WFreply) :
    findE (replyG Cfg.clean m t).1 a
      = (m.ents.map EW.toEI).foldl (fun cur ei => specEntityG m.feats a cur { ei with chg := .added }) (findE t a) := by
  unfold replyG
  simp only
  rw [runG_reply_wf Cfg.clean m.feats m.ents (t, []) hw]
  suffices ∀ (l : List EI) (acc : Tree × List Evt),
      findE (l.foldl (addOneG Cfg.clean m.feats) acc).1 a
        = l.foldl (fun cur ei => specEntityG m.feats a cur { ei with chg := .added }) (findE acc.1 a) from this _ (t, [])
  intro l
  induction l with
  | nil => intro acc; rfl
  | cons ei l ih =>
    intro acc
    rw [List.foldl_cons, List.foldl_cons, ih, addOneG_eq_stepGd, findE_stepGd]

end Spine.Disc
