import Spine.Teardown
import Spine.RegistryMore
/-! Lemmas on the composed teardown model (C10). -/
namespace Spine.Td

theorem clean_timers : Cfg.clean.timersSurvive = false := rfl
theorem clean_entAppr : Cfg.clean.entityKeepsApprovals = false := rfl
theorem clean_reg : Cfg.clean.reg = Reg.Cfg.clean := rfl
theorem clean_tally : Cfg.clean.tallySurvivesDrop = false := rfl

theorem finish_shape (s : St) (p w : Nat) :
    (finish s p w).reg = s.reg ∧ (finish s p w).alive = s.alive ∧ (finish s p w).armed.Sublist s.armed :=
  ⟨rfl, rfl, List.filter_sublist⟩

theorem verdict_shape (s : St) (p w : Nat) (a : Bool) :
    (verdict s p w a).1.reg = s.reg ∧ (verdict s p w a).1.alive = s.alive ∧ (verdict s p w a).1.armed.Sublist s.armed := by
  unfold verdict
  split
  · exact ⟨rfl, rfl, List.Sublist.refl _⟩
  · split
    · unfold approveStep
      split
      · exact ⟨rfl, rfl, List.Sublist.refl _⟩
      · exact finish_shape s p w
    · exact finish_shape s p w

/-! ### removing a connection -/

/-- repaired code: every part of the state is the previous one minus what refers to peer `p` -/
theorem drop_exact (s : St) (hs : Reg.Sane s.reg) (p : Nat) (hp : s.alive.contains p = true) :
    (drop Cfg.clean s p).reg.subs = s.reg.subs.filter (·.peer ≠ p) ∧
    (drop Cfg.clean s p).reg.binds = s.reg.binds.filter (·.peer ≠ p) ∧
    (drop Cfg.clean s p).pend = s.pend.filter (·.peer ≠ p) ∧
    (drop Cfg.clean s p).armed = s.armed.filter (·.peer ≠ p) ∧
    (drop Cfg.clean s p).csubs = s.csubs.filter (·.peer ≠ p) ∧
    (drop Cfg.clean s p).cbinds = s.cbinds.filter (·.peer ≠ p) ∧
    (drop Cfg.clean s p).alive = s.alive.filter (· ≠ p) ∧
    (drop Cfg.clean s p).tally = s.tally.filter (·.1 ≠ p) := by
  have h := Reg.c10_drop_exact s.reg hs p
  unfold drop
  rw [hp, clean_timers, clean_reg, clean_tally]
  exact ⟨h.1, h.2, rfl, rfl, rfl, rfl, rfl, rfl⟩

/-- every member: after the removal the peer is not among the connected ones -/
theorem drop_unresolvable (c : Cfg) (s : St) (p : Nat) : (drop c s p).alive.contains p = false := by
  unfold drop
  by_cases hp : s.alive.contains p = true
  · rw [hp]
    simp
  · have hp' : s.alive.contains p = false := by simpa using hp
    rw [hp']
    simpa using hp'

/-- every member: nobody else's connection is touched -/
theorem drop_alive_others (c : Cfg) (s : St) (p q : Nat) (hq : q ≠ p) :
    (drop c s p).alive.contains q = s.alive.contains q := by
  unfold drop
  by_cases hp : s.alive.contains p = true
  · rw [hp]
    simp [hq]
  · have hp' : s.alive.contains p = false := by simpa using hp
    rw [hp']
    rfl

theorem filter_ne_filter_eq {α : Type} (l : List α) (f : α → Nat) (p q : Nat) (hq : q ≠ p) :
    (l.filter (fun x => f x ≠ p)).filter (fun x => f x = q) = l.filter (fun x => f x = q) := by
  rw [List.filter_filter]
  apply List.filter_congr
  intro x _
  by_cases hx : f x = q
  · simp [hx, hq]
  · simp [hx]

/-- every member: the pending approvals, the client-side bookkeeping and the subscriptions of every other peer stay
    exactly as they are (bindings: see `drop_exact` for the repaired member, `Reg.removePeer_any_member` otherwise) -/
theorem drop_others (c : Cfg) (s : St) (hs : Reg.Sane s.reg) (p q : Nat) (hq : q ≠ p) :
    Reg.subsOf (drop c s p).reg q = Reg.subsOf s.reg q ∧
    (drop c s p).pend.filter (·.peer = q) = s.pend.filter (·.peer = q) ∧
    (drop c s p).csubs.filter (·.peer = q) = s.csubs.filter (·.peer = q) ∧
    (drop c s p).cbinds.filter (·.peer = q) = s.cbinds.filter (·.peer = q) := by
  unfold drop
  by_cases hp : s.alive.contains p = true
  · rw [hp]
    simp only [Bool.not_true, Bool.false_eq_true, if_false]
    refine ⟨?_, filter_ne_filter_eq s.pend (·.peer) p q hq, filter_ne_filter_eq s.csubs (·.peer) p q hq,
      filter_ne_filter_eq s.cbinds (·.peer) p q hq⟩
    unfold Reg.subsOf
    rw [(Reg.removePeer_any_member c.reg s.reg hs p).1]
    exact filter_ne_filter_eq s.reg.subs (·.peer) p q hq
  · have hp' : s.alive.contains p = false := by simpa using hp
    rw [hp']
    exact ⟨rfl, rfl, rfl, rfl⟩

/-- repaired code: … and so do the bindings of every other peer -/
theorem drop_others_binds (s : St) (hs : Reg.Sane s.reg) (p q : Nat) (hq : q ≠ p) :
    Reg.bindsOf (drop Cfg.clean s p).reg q = Reg.bindsOf s.reg q := by
  unfold drop
  by_cases hp : s.alive.contains p = true
  · rw [hp]
    simp only [Bool.not_true, Bool.false_eq_true, if_false]
    unfold Reg.bindsOf
    rw [clean_reg, (Reg.c10_drop_exact s.reg hs p).2]
    exact filter_ne_filter_eq s.reg.binds (·.peer) p q hq
  · have hp' : s.alive.contains p = false := by simpa using hp
    rw [hp']
    rfl

/-! ### removing an entity -/

/-- repaired code: every part of the state is the previous one minus what refers to entity `ent` of peer `p` -/
theorem dropEntity_exact (s : St) (p : Nat) (ent : List Nat) (hp : s.alive.contains p = true)
    (hex : ((s.reg.rem p).map (·.ent)).contains ent = true) :
    (dropEntity Cfg.clean s p ent).reg.subs = s.reg.subs.filter (fun e => !(e.peer = p && e.cEnt = ent)) ∧
    (dropEntity Cfg.clean s p ent).reg.binds = s.reg.binds.filter (fun e => !(e.peer = p && e.cEnt = ent)) ∧
    (dropEntity Cfg.clean s p ent).pend = s.pend.filter (fun x => !ofEntity p ent x) ∧
    (dropEntity Cfg.clean s p ent).armed = s.armed.filter (fun x => !ofEntity p ent x) ∧
    (dropEntity Cfg.clean s p ent).csubs = s.csubs.filter (fun b => !(b.peer = p && b.ent = ent)) ∧
    (dropEntity Cfg.clean s p ent).cbinds = s.cbinds.filter (fun b => !(b.peer = p && b.ent = ent)) ∧
    (dropEntity Cfg.clean s p ent).alive = s.alive := by
  have h := Reg.dropEntity_exact s.reg p ent hex
  unfold dropEntity
  rw [hp, hex, clean_entAppr, clean_reg]
  exact ⟨h.1, h.2, rfl, rfl, rfl, rfl, rfl⟩

/-- every member: nothing happens when the peer announces no such entity -/
theorem dropEntity_absent (c : Cfg) (s : St) (p : Nat) (ent : List Nat)
    (hex : ((s.reg.rem p).map (·.ent)).contains ent = false) : dropEntity c s p ent = s := by
  unfold dropEntity
  rw [hex]
  simp

/-- every member: a removal entry for the device information entity [0] changes nothing in the composed world -/
theorem removeEntity_zero (c : Cfg) (s : St) (p : Nat) : removeEntity c s p [0] = s := by
  unfold removeEntity; simp

/-- every member: on the domain of `dropEntity` (a connected peer, an entity other than [0] announced with features)
    a removal entry is that cascade in every component -/
theorem removeEntity_eq_dropEntity (c : Cfg) (s : St) (p : Nat) (ent : List Nat) (h0 : ent ≠ [0])
    (hp : s.alive.contains p = true) (hex : ((s.reg.rem p).map (·.ent)).contains ent = true) :
    (removeEntity c s p ent).reg.subs = (dropEntity c s p ent).reg.subs ∧
    (removeEntity c s p ent).reg.binds = (dropEntity c s p ent).reg.binds ∧
    (removeEntity c s p ent).pend = (dropEntity c s p ent).pend ∧
    (removeEntity c s p ent).armed = (dropEntity c s p ent).armed ∧
    (removeEntity c s p ent).csubs = (dropEntity c s p ent).csubs ∧
    (removeEntity c s p ent).cbinds = (dropEntity c s p ent).cbinds ∧
    (removeEntity c s p ent).alive = (dropEntity c s p ent).alive := by
  have hk : (Reg.knownEnts s.reg p).contains ent = true := by
    simp only [Reg.knownEnts, List.contains_eq_mem, List.mem_append, decide_eq_true_eq] at hex ⊢
    exact Or.inl hex
  have hr := Reg.removeEntity_eq_dropEntity c.reg s.reg p ent h0 hex
  unfold removeEntity dropEntity
  rw [if_neg h0, hp, hk, hex]
  exact ⟨hr.1, hr.2.1, rfl, rfl, rfl, rfl, rfl⟩

/-- repaired code: an entity of a connected peer that is known WITHOUT features goes with everything that refers to it -/
theorem removeEntity_bare_exact (s : St) (p : Nat) (ent : List Nat) (h0 : ent ≠ [0]) (hp : s.alive.contains p = true)
    (hex : ((s.reg.rem p).map (·.ent)).contains ent = false) (hb : (s.reg.bare p).contains ent = true) :
    (removeEntity Cfg.clean s p ent).reg.subs = s.reg.subs.filter (fun e => !(e.peer = p && e.cEnt = ent)) ∧
    (removeEntity Cfg.clean s p ent).reg.binds = s.reg.binds.filter (fun e => !(e.peer = p && e.cEnt = ent)) ∧
    (removeEntity Cfg.clean s p ent).pend = s.pend.filter (fun x => !ofEntity p ent x) ∧
    (removeEntity Cfg.clean s p ent).armed = s.armed.filter (fun x => !ofEntity p ent x) ∧
    (removeEntity Cfg.clean s p ent).csubs = s.csubs.filter (fun b => !(b.peer = p && b.ent = ent)) ∧
    (removeEntity Cfg.clean s p ent).cbinds = s.cbinds.filter (fun b => !(b.peer = p && b.ent = ent)) := by
  have hk : (Reg.knownEnts s.reg p).contains ent = true := by
    simp only [Reg.knownEnts, List.contains_eq_mem, List.mem_append, decide_eq_true_eq] at hb ⊢
    exact Or.inr hb
  have hr := Reg.removeEntity_bare_exact s.reg p ent h0 hex hb
  unfold removeEntity
  rw [if_neg h0, hp, hk, clean_entAppr, clean_reg]
  exact ⟨hr.1, hr.2.1, rfl, rfl, rfl, rfl⟩

/-! ### nothing is written to a removed connection -/

/-- every running approval timer belongs to a connected peer -/
def ArmedAlive (s : St) : Prop := ∀ x ∈ s.armed, s.alive.contains x.peer = true

/-- the one situation in which the code as written leaves a timer behind: a drop while a timer of that peer runs -/
def calmOp (s : St) : Op → Bool
  | .drop p => s.armed.all (·.peer ≠ p)
  | _ => true

theorem late_nil (s : St) (h : ArmedAlive s) : late s = [] := by
  unfold late fired
  rw [List.filter_eq_nil_iff]
  intro x hx
  have := h x (List.mem_filter.mp hx).1
  rw [this]
  simp

theorem step_armedAlive (c : Cfg) (s : St) (h : ArmedAlive s) (op : Op)
    (hc : c.timersSurvive = false ∨ calmOp s op = true) : ArmedAlive (step c s op) := by
  cases op with
  | reg op =>
    simp only [step]
    split
    · exact h
    · exact h
  | write p ce cf se sf w sh =>
    simp only [step, write]
    split
    · exact h
    · rename_i hal
      have hal' : s.alive.contains p = true := by simpa using hal
      split
      · exact h
      · split
        · exact h
        · split
          · exact h
          · split
            · intro x hx
              rcases List.mem_append.mp hx with hx | hx
              · exact h x hx
              · simp only [List.mem_singleton] at hx
                subst hx
                exact hal'
            · exact h
  | verdict p w a =>
    have hv := verdict_shape s p w a
    intro x hx
    simp only [step] at hx ⊢
    rw [hv.2.1]
    exact h x (hv.2.2.subset hx)
  | reconnect p =>
    simp only [step, reconnect]
    split
    · exact h
    · intro x hx
      have := h x hx
      simp only [List.contains_cons, Bool.or_eq_true] at this ⊢
      exact Or.inr this
  | fire =>
    intro x hx
    exact h x (List.mem_filter.mp hx).1
  | client b p e f =>
    simp only [step, clientAdd]
    split
    · exact h
    · split <;> exact h
  | drop p =>
    simp only [step, drop]
    split
    · exact h
    · intro x hx
      dsimp only at hx ⊢
      have hne : x.peer ≠ p ∧ x ∈ s.armed := by
        rcases hc with hc | hc
        · rw [hc] at hx
          simp only [Bool.false_eq_true, if_false] at hx
          have := List.mem_filter.mp hx
          exact ⟨by simpa using this.2, this.1⟩
        · have hx' : x ∈ s.armed := by
            by_cases ht : c.timersSurvive = true
            · rw [ht] at hx; simpa using hx
            · have ht' : c.timersSurvive = false := by simpa using ht
              rw [ht'] at hx
              exact (List.mem_filter.mp hx).1
          simp only [calmOp, List.all_eq_true] at hc
          exact ⟨by simpa using hc x hx', hx'⟩
      have := h x hne.2
      simp only [List.contains_eq_mem, List.mem_filter, decide_eq_true_eq] at this ⊢
      exact ⟨this, by simpa using hne.1⟩
  | dropEnt p e =>
    simp only [step, removeEntity]
    split
    · exact h
    · split
      · exact h
      · split
        · exact h
        · intro x hx
          dsimp only at hx ⊢
          have hx' : x ∈ s.armed := by
            by_cases ht : c.entityKeepsApprovals = true
            · rw [ht] at hx; simpa using hx
            · have ht' : c.entityKeepsApprovals = false := by simpa using ht
              rw [ht'] at hx
              exact (List.mem_filter.mp hx).1
          exact h x hx'

/-- along a history every drop happens while no approval timer of the dropped peer is running -/
def calm (c : Cfg) : St → List Op → Bool
  | _, [] => true
  | s, op :: ops => calmOp s op && calm c (step c s op) ops

/-- every member: no approval timer ever writes to a removed connection along a history whose drops are calm;
    for a member that stops the timers, along every history -/
theorem lateAlong_nil (c : Cfg) (s : St) (h : ArmedAlive s) (ops : List Op)
    (hc : c.timersSurvive = false ∨ calm c s ops = true) : lateAlong c s ops = [] := by
  induction ops generalizing s with
  | nil => rfl
  | cons op ops ih =>
    have hop : c.timersSurvive = false ∨ calmOp s op = true := by
      rcases hc with hc | hc
      · exact Or.inl hc
      · simp only [calm, Bool.and_eq_true] at hc
        exact Or.inr hc.1
    have hrest : c.timersSurvive = false ∨ calm c (step c s op) ops = true := by
      rcases hc with hc | hc
      · exact Or.inl hc
      · simp only [calm, Bool.and_eq_true] at hc
        exact Or.inr hc.2
    have hnext := ih (step c s op) (step_armedAlive c s h op hop) hrest
    cases op with
    | fire =>
      simp only [lateAlong]
      rw [late_nil s h, hnext]
      rfl
    | reg _ => simpa only [lateAlong] using hnext
    | write _ _ _ _ _ _ _ => simpa only [lateAlong] using hnext
    | verdict _ _ _ => simpa only [lateAlong] using hnext
    | client _ _ _ _ => simpa only [lateAlong] using hnext
    | drop _ => simpa only [lateAlong] using hnext
    | dropEnt _ _ => simpa only [lateAlong] using hnext
    | reconnect _ => simpa only [lateAlong] using hnext

/-! ### reachable states -/

/-- every registry entry belongs to a connected peer -/
def EntriesAlive (s : St) : Prop :=
  (∀ e ∈ s.reg.subs, s.alive.contains e.peer = true) ∧ (∀ e ∈ s.reg.binds, s.alive.contains e.peer = true)

/-- what holds in every state the repaired stack reaches -/
structure Reach (s : St) : Prop where
  sane : Reg.Sane s.reg
  live : EntriesAlive s

/-- a registry operation creates entries of the calling peer only -/
theorem reg_step_entries (c : Reg.Cfg) (s : Reg.St) (op : Reg.Op) :
    (∀ e ∈ (Reg.step c s op).subs, e ∈ s.subs ∨ e.peer = regPeer op) ∧
    (∀ e ∈ (Reg.step c s op).binds, e ∈ s.binds ∨ e.peer = regPeer op) := by
  cases op with
  | bind p ce cf se sf t =>
    refine ⟨?_, ?_⟩
    · intro e he
      simp only [Reg.step] at he
      rw [(Reg.addBind_shape s p ce cf se sf t).1] at he
      exact Or.inl he
    · intro e he
      simp only [Reg.step] at he
      rw [Reg.addBind_effect] at he
      split at he
      · rcases List.mem_append.mp he with he | he
        · exact Or.inl he
        · simp only [List.mem_singleton] at he
          subst he
          exact Or.inr rfl
      · exact Or.inl he
  | sub p ce cf se sf t =>
    refine ⟨?_, ?_⟩
    · intro e he
      simp only [Reg.step] at he
      rw [Reg.c08_add_effect] at he
      split at he
      · rcases List.mem_append.mp he with he | he
        · exact Or.inl he
        · simp only [List.mem_singleton] at he
          subst he
          exact Or.inr rfl
      · exact Or.inl he
    · intro e he
      simp only [Reg.step] at he
      rw [(Reg.addSub_shape s p ce cf se sf t).1] at he
      exact Or.inl he
  | unbind p cd ce cf se sf =>
    have := Reg.delBind_shape c s p cd ce cf se sf
    exact ⟨fun e he => Or.inl (by simp only [Reg.step] at he; rw [this.2.2.1] at he; exact he),
      fun e he => Or.inl (this.1.subset he)⟩
  | unsub p cd ce cf se sf =>
    have := Reg.delSub_shape c s p cd ce cf se sf
    exact ⟨fun e he => Or.inl (this.1.subset he),
      fun e he => Or.inl (by simp only [Reg.step] at he; rw [Reg.binds_unsub] at he; exact he)⟩
  | drop p => exact ⟨fun e he => Or.inl (List.mem_filter.mp he).1, fun e he => Or.inl (List.mem_filter.mp he).1⟩
  | dropEnt p ent =>
    have := Reg.removeEntity_shape c s p ent
    exact ⟨fun e he => Or.inl (this.1.subset he), fun e he => Or.inl (this.2.1.subset he)⟩
  | bareEnt p ent => exact ⟨fun e he => Or.inl he, fun e he => Or.inl he⟩
  | subsPass p ent => exact ⟨fun e he => Or.inl (List.mem_filter.mp he).1, fun e he => Or.inl he⟩
  | bindsPass p ent => exact ⟨fun e he => Or.inl he, fun e he => Or.inl (List.mem_filter.mp he).1⟩

theorem step_reach_clean (s : St) (h : Reach s) (op : Op) : Reach (step Cfg.clean s op) := by
  cases op with
  | reg op =>
    simp only [step]
    split
    · rename_i hc
      simp only [Bool.and_eq_true] at hc
      refine ⟨Reg.step_sane_clean s.reg h.sane op, ?_, ?_⟩
      · intro e he
        rcases (reg_step_entries Reg.Cfg.clean s.reg op).1 e he with h1 | h1
        · exact h.live.1 e h1
        · rw [h1]; exact hc.2
      · intro e he
        rcases (reg_step_entries Reg.Cfg.clean s.reg op).2 e he with h1 | h1
        · exact h.live.2 e h1
        · rw [h1]; exact hc.2
    · exact h
  | write p ce cf se sf w sh =>
    simp only [step, write]
    repeat' split
    all_goals exact ⟨h.sane, h.live⟩
  | verdict p w a =>
    have hv := verdict_shape s p w a
    refine ⟨by simp only [step]; rw [hv.1]; exact h.sane, ?_, ?_⟩
    · intro e he
      simp only [step] at he ⊢
      rw [hv.1] at he
      rw [hv.2.1]
      exact h.live.1 e he
    · intro e he
      simp only [step] at he ⊢
      rw [hv.1] at he
      rw [hv.2.1]
      exact h.live.2 e he
  | fire => exact ⟨h.sane, h.live⟩
  | client b p e f =>
    simp only [step, clientAdd]
    repeat' split
    all_goals exact ⟨h.sane, h.live⟩
  | drop p =>
    simp only [step, drop]
    split
    · exact h
    · have hx := Reg.c10_drop_exact s.reg h.sane p
      refine ⟨h.sane.of_sublist List.filter_sublist List.filter_sublist rfl rfl, ?_, ?_⟩
      · intro e he
        dsimp only at he ⊢
        rw [clean_reg, hx.1] at he
        have hm := List.mem_filter.mp he
        have hne : e.peer ≠ p := by simpa using hm.2
        have := h.live.1 e hm.1
        simp only [List.contains_eq_mem, List.mem_filter, decide_eq_true_eq] at this ⊢
        exact ⟨this, by simpa using hne⟩
      · intro e he
        dsimp only at he ⊢
        rw [clean_reg, hx.2] at he
        have hm := List.mem_filter.mp he
        have hne : e.peer ≠ p := by simpa using hm.2
        have := h.live.2 e hm.1
        simp only [List.contains_eq_mem, List.mem_filter, decide_eq_true_eq] at this ⊢
        exact ⟨this, by simpa using hne⟩
  | dropEnt p e =>
    simp only [step, removeEntity]
    split
    · exact h
    · split
      · exact h
      · split
        · exact h
        · have hs := Reg.removeEntity_shape Reg.Cfg.clean s.reg p e
          exact ⟨Reg.removeEntity_sane_clean s.reg h.sane p e,
            fun x hx => h.live.1 x (hs.1.subset hx), fun x hx => h.live.2 x (hs.2.1.subset hx)⟩
  | reconnect p =>
    simp only [step, reconnect]
    split
    · exact h
    · rename_i hp
      have hp' : s.alive.contains p = false := by simpa using hp
      refine ⟨⟨?_, ?_⟩, ?_, ?_⟩
      · intro e he
        dsimp only at he ⊢
        have hl := h.live.1 e he
        have hne : e.peer ≠ p := by intro hc; rw [hc, hp'] at hl; exact Bool.noConfusion hl
        have := h.sane.1 e he
        simpa only [Reg.knownEnts, if_neg hne] using this
      · intro e he
        dsimp only at he ⊢
        have hl := h.live.2 e he
        have hne : e.peer ≠ p := by intro hc; rw [hc, hp'] at hl; exact Bool.noConfusion hl
        have := h.sane.2 e he
        simpa only [Reg.knownEnts, if_neg hne] using this
      · intro e he
        have := h.live.1 e he
        simp only [List.contains_cons, Bool.or_eq_true] at this ⊢
        exact Or.inr this
      · intro e he
        have := h.live.2 e he
        simp only [List.contains_cons, Bool.or_eq_true] at this ⊢
        exact Or.inr this

/-- repaired code: along every history — reconnections included — every registry entry refers to an entity its peer
    currently announces and belongs to a connected peer -/
theorem run_reach_clean (s0 : St) (h : Reach s0) (ops : List Op) : Reach (run Cfg.clean s0 ops) := by
  unfold run
  induction ops generalizing s0 with
  | nil => exact h
  | cons op ops ih => exact ih _ (step_reach_clean s0 h op)

theorem run_sane_clean (s0 : St) (h : Reg.Sane s0.reg) (hl : EntriesAlive s0) (ops : List Op) :
    Reg.Sane (run Cfg.clean s0 ops).reg :=
  (run_reach_clean s0 ⟨h, hl⟩ ops).sane

/-! ### a connection that comes back -/

theorem reconnect_fields (s : St) (p : Nat) :
    (reconnect s p).reg.subs = s.reg.subs ∧ (reconnect s p).reg.binds = s.reg.binds ∧ (reconnect s p).pend = s.pend ∧
    (reconnect s p).armed = s.armed ∧ (reconnect s p).tally = s.tally ∧ (reconnect s p).csubs = s.csubs ∧
    (reconnect s p).cbinds = s.cbinds ∧ (reconnect s p).alive.contains p = true := by
  unfold reconnect
  split
  · rename_i h
    exact ⟨rfl, rfl, rfl, rfl, rfl, rfl, rfl, h⟩
  · exact ⟨rfl, rfl, rfl, rfl, rfl, rfl, rfl, by simp⟩

theorem filter_ne_eq_nil {α : Type} (l : List α) (f : α → Nat) (p : Nat) :
    (l.filter (fun x => f x ≠ p)).filter (fun x => f x = p) = [] := by
  rw [List.filter_filter, List.filter_eq_nil_iff]
  intro x _
  by_cases hx : f x = p <;> simp [hx]

/-- repaired code: after the connection of `p` is removed and `p` connects again, nothing of the old connection is
    there: no subscription, binding, pending approval, timer, approval tally or client-side bookkeeping of `p` -/
theorem reconnect_fresh (s : St) (hs : Reg.Sane s.reg) (p : Nat) (hp : s.alive.contains p = true) :
    Reg.subsOf (reconnect (drop Cfg.clean s p) p).reg p = [] ∧ Reg.bindsOf (reconnect (drop Cfg.clean s p) p).reg p = [] ∧
    (reconnect (drop Cfg.clean s p) p).pend.filter (·.peer = p) = [] ∧
    (reconnect (drop Cfg.clean s p) p).armed.filter (·.peer = p) = [] ∧
    (reconnect (drop Cfg.clean s p) p).tally.filter (·.1 = p) = [] ∧
    (reconnect (drop Cfg.clean s p) p).csubs.filter (·.peer = p) = [] ∧
    (reconnect (drop Cfg.clean s p) p).cbinds.filter (·.peer = p) = [] ∧
    (reconnect (drop Cfg.clean s p) p).alive.contains p = true := by
  have hd := drop_exact s hs p hp
  have hr := reconnect_fields (drop Cfg.clean s p) p
  unfold Reg.subsOf Reg.bindsOf
  rw [hr.1, hr.2.1, hr.2.2.1, hr.2.2.2.1, hr.2.2.2.2.1, hr.2.2.2.2.2.1, hr.2.2.2.2.2.2.1,
    hd.1, hd.2.1, hd.2.2.1, hd.2.2.2.1, hd.2.2.2.2.1, hd.2.2.2.2.2.1, hd.2.2.2.2.2.2.2]
  exact ⟨filter_ne_eq_nil s.reg.subs (·.peer) p, filter_ne_eq_nil s.reg.binds (·.peer) p, filter_ne_eq_nil s.pend (·.peer) p,
    filter_ne_eq_nil s.armed (·.peer) p, filter_ne_eq_nil s.tally (·.1) p, filter_ne_eq_nil s.csubs (·.peer) p,
    filter_ne_eq_nil s.cbinds (·.peer) p, hr.2.2.2.2.2.2.2⟩

/-! ### witnesses for the code as written -/

def wLoc : List Reg.Feat := [⟨[1], 1, 1, .server⟩]
def wRem : Nat → List Reg.Feat := fun _ => [⟨[1], 1, 1, .client⟩, ⟨[2], 1, 1, .client⟩]
def w0 : St := { reg := { loc := wLoc, rem := wRem }, alive := [1, 2], writable := [([1], 1)], approval := [([1], 1)] }

/-- as written: the timer of a write pending at disconnect fires and writes to the removed connection -/
theorem timer_after_drop_witness :
    (lateAlong {} w0 [.reg (.bind 1 [1] 1 [1] 1 1), .write 1 [1] 1 [1] 1 7 true, .drop 1, .fire]).map (fun x => (x.peer, x.ctr))
      = [(1, 7)] := by decide

/-- as written: the approval pending for a write of a removed entity's feature is still there and still effective -/
theorem entity_keeps_approval_witness :
    let s := run {} w0 [.reg (.bind 1 [1] 1 [1] 1 1), .write 1 [1] 1 [1] 1 7 false, .dropEnt 1 [1]]
    s.pend.map (fun x => (x.peer, x.ctr, x.cEnt)) = [(1, 7, [1])] ∧ (verdict s 1 7 true).2 = "applied" ∧
    s.reg.binds = [] := by decide

/-- as written: dropping peer 1 deletes peer 2's binding, after which peer 2's writes are denied -/
theorem drop_leaks_witness :
    let s := run {} w0 [.reg (.bind 2 [1] 1 [1] 1 1), .drop 1]
    Reg.bindsOf s.reg 2 = [] ∧ (write s 2 [1] 1 [1] 1 9 false).2 = "denied" ∧ s.alive = [2] := by decide

/-- a member that keeps the tallies of a removed connection: feature [1]/1 has two callbacks; the first connection's
    write 7 gets one approval and times out; the connection is removed and comes back; its new write 7 is applied after
    ONE approval -/
def w2 : St := { w0 with approval2 := [([1], 1)], tree := wRem 1 }
theorem tally_inherited_witness :
    let c : Cfg := { reg := Reg.Cfg.clean, timersSurvive := false, entityKeepsApprovals := false, tallySurvivesDrop := true }
    let s := run c w2 [.reg (.bind 1 [1] 1 [1] 1 1), .write 1 [1] 1 [1] 1 7 true, .verdict 1 7 true, .fire, .drop 1,
      .reconnect 1, .reg (.bind 1 [1] 1 [1] 1 1), .write 1 [1] 1 [1] 1 7 true]
    (verdict s 1 7 true).2 = "applied" ∧
    (verdict (run Cfg.clean w2 [.reg (.bind 1 [1] 1 [1] 1 1), .write 1 [1] 1 [1] 1 7 true, .verdict 1 7 true, .fire, .drop 1,
      .reconnect 1, .reg (.bind 1 [1] 1 [1] 1 1), .write 1 [1] 1 [1] 1 7 true]) 1 7 true).2 = "-" := by decide

end Spine.Td
