import Spine.Teardown
import Spine.RegistryMore
/-! Lemmas on the composed teardown model (C10). -/
namespace Spine.Td

theorem clean_timers : Cfg.clean.timersSurvive = false := rfl
theorem clean_entAppr : Cfg.clean.entityKeepsApprovals = false := rfl
theorem clean_reg : Cfg.clean.reg = Reg.Cfg.clean := rfl

/-! ### removing a connection -/

/-- repaired code: every part of the state is the previous one minus what refers to peer `p` -/
theorem drop_exact (s : St) (hs : Reg.Sane s.reg) (p : Nat) (hp : s.alive.contains p = true) :
    (drop Cfg.clean s p).reg.subs = s.reg.subs.filter (·.peer ≠ p) ∧
    (drop Cfg.clean s p).reg.binds = s.reg.binds.filter (·.peer ≠ p) ∧
    (drop Cfg.clean s p).pend = s.pend.filter (·.peer ≠ p) ∧
    (drop Cfg.clean s p).armed = s.armed.filter (·.peer ≠ p) ∧
    (drop Cfg.clean s p).csubs = s.csubs.filter (·.peer ≠ p) ∧
    (drop Cfg.clean s p).cbinds = s.cbinds.filter (·.peer ≠ p) ∧
    (drop Cfg.clean s p).alive = s.alive.filter (· ≠ p) := by
  have h := Reg.c10_drop_exact s.reg hs p
  unfold drop
  rw [hp, clean_timers, clean_reg]
  exact ⟨h.1, h.2, rfl, rfl, rfl, rfl, rfl⟩

/-- every member: after the removal the peer is not among the connected ones -/
theorem drop_unresolvable (c : Cfg) (s : St) (p : Nat) : (drop c s p).alive.contains p = false := by
  unfold drop
  by_cases hp : s.alive.contains p = true
  · rw [hp]
    simp
  · have hp' : s.alive.contains p = false := by simpa using hp
    rw [hp']
    simpa using hp'

/-- every member: nobody else's connection is touched -/
theorem drop_alive_others (c : Cfg) (s : St) (p q : Nat) (hq : q ≠ p) :
    (drop c s p).alive.contains q = s.alive.contains q := by
  unfold drop
  by_cases hp : s.alive.contains p = true
  · rw [hp]
    simp [hq]
  · have hp' : s.alive.contains p = false := by simpa using hp
    rw [hp']
    rfl

theorem filter_ne_filter_eq {α : Type} (l : List α) (f : α → Nat) (p q : Nat) (hq : q ≠ p) :
    (l.filter (fun x => f x ≠ p)).filter (fun x => f x = q) = l.filter (fun x => f x = q) := by
  rw [List.filter_filter]
  apply List.filter_congr
  intro x _
  by_cases hx : f x = q
  · simp [hx, hq]
  · simp [hx]

/-- every member: the pending approvals, the client-side bookkeeping and the subscriptions of every other peer stay
    exactly as they are (bindings: see `drop_exact` for the repaired member, `Reg.dropPeer_any_member` otherwise) -/
theorem drop_others (c : Cfg) (s : St) (hs : Reg.Sane s.reg) (p q : Nat) (hq : q ≠ p) :
    Reg.subsOf (drop c s p).reg q = Reg.subsOf s.reg q ∧
    (drop c s p).pend.filter (·.peer = q) = s.pend.filter (·.peer = q) ∧
    (drop c s p).csubs.filter (·.peer = q) = s.csubs.filter (·.peer = q) ∧
    (drop c s p).cbinds.filter (·.peer = q) = s.cbinds.filter (·.peer = q) := by
  unfold drop
  by_cases hp : s.alive.contains p = true
  · rw [hp]
    simp only [Bool.not_true, Bool.false_eq_true, if_false]
    refine ⟨?_, filter_ne_filter_eq s.pend (·.peer) p q hq, filter_ne_filter_eq s.csubs (·.peer) p q hq,
      filter_ne_filter_eq s.cbinds (·.peer) p q hq⟩
    unfold Reg.subsOf
    rw [(Reg.dropPeer_any_member c.reg s.reg hs p).1]
    exact filter_ne_filter_eq s.reg.subs (·.peer) p q hq
  · have hp' : s.alive.contains p = false := by simpa using hp
    rw [hp']
    exact ⟨rfl, rfl, rfl, rfl⟩

/-- repaired code: … and so do the bindings of every other peer -/
theorem drop_others_binds (s : St) (hs : Reg.Sane s.reg) (p q : Nat) (hq : q ≠ p) :
    Reg.bindsOf (drop Cfg.clean s p).reg q = Reg.bindsOf s.reg q := by
  unfold drop
  by_cases hp : s.alive.contains p = true
  · rw [hp]
    simp only [Bool.not_true, Bool.false_eq_true, if_false]
    unfold Reg.bindsOf
    rw [clean_reg, (Reg.c10_drop_exact s.reg hs p).2]
    exact filter_ne_filter_eq s.reg.binds (·.peer) p q hq
  · have hp' : s.alive.contains p = false := by simpa using hp
    rw [hp']
    rfl

/-! ### removing an entity -/

/-- repaired code: every part of the state is the previous one minus what refers to entity `ent` of peer `p` -/
theorem dropEntity_exact (s : St) (p : Nat) (ent : List Nat) (hp : s.alive.contains p = true)
    (hex : ((s.reg.rem p).map (·.ent)).contains ent = true) :
    (dropEntity Cfg.clean s p ent).reg.subs = s.reg.subs.filter (fun e => !(e.peer = p && e.cEnt = ent)) ∧
    (dropEntity Cfg.clean s p ent).reg.binds = s.reg.binds.filter (fun e => !(e.peer = p && e.cEnt = ent)) ∧
    (dropEntity Cfg.clean s p ent).pend = s.pend.filter (fun x => !ofEntity p ent x) ∧
    (dropEntity Cfg.clean s p ent).armed = s.armed.filter (fun x => !ofEntity p ent x) ∧
    (dropEntity Cfg.clean s p ent).csubs = s.csubs.filter (fun b => !(b.peer = p && b.ent = ent)) ∧
    (dropEntity Cfg.clean s p ent).cbinds = s.cbinds.filter (fun b => !(b.peer = p && b.ent = ent)) ∧
    (dropEntity Cfg.clean s p ent).alive = s.alive := by
  have h := Reg.dropEntity_exact s.reg p ent hex
  unfold dropEntity
  rw [hp, hex, clean_entAppr, clean_reg]
  exact ⟨h.1, h.2, rfl, rfl, rfl, rfl, rfl⟩

/-- every member: nothing happens when the peer announces no such entity -/
theorem dropEntity_absent (c : Cfg) (s : St) (p : Nat) (ent : List Nat)
    (hex : ((s.reg.rem p).map (·.ent)).contains ent = false) : dropEntity c s p ent = s := by
  unfold dropEntity
  rw [hex]
  simp

/-! ### nothing is written to a removed connection -/

/-- every running approval timer belongs to a connected peer -/
def ArmedAlive (s : St) : Prop := ∀ x ∈ s.armed, s.alive.contains x.peer = true

/-- the one situation in which the code as written leaves a timer behind: a drop while a timer of that peer runs -/
def calmOp (s : St) : Op → Bool
  | .drop p => s.armed.all (·.peer ≠ p)
  | _ => true

theorem late_nil (s : St) (h : ArmedAlive s) : late s = [] := by
  unfold late fired
  rw [List.filter_eq_nil_iff]
  intro x hx
  have := h x (List.mem_filter.mp hx).1
  rw [this]
  simp

theorem step_armedAlive (c : Cfg) (s : St) (h : ArmedAlive s) (op : Op)
    (hc : c.timersSurvive = false ∨ calmOp s op = true) : ArmedAlive (step c s op) := by
  cases op with
  | reg op =>
    simp only [step]
    split
    · exact h
    · exact h
  | write p ce cf se sf w sh =>
    simp only [step, write]
    split
    · exact h
    · rename_i hal
      have hal' : s.alive.contains p = true := by simpa using hal
      split
      · exact h
      · split
        · exact h
        · split
          · exact h
          · split
            · intro x hx
              rcases List.mem_append.mp hx with hx | hx
              · exact h x hx
              · simp only [List.mem_singleton] at hx
                subst hx
                exact hal'
            · exact h
  | verdict p w a =>
    simp only [step, verdict]
    split
    · intro x hx
      exact h x (List.mem_filter.mp hx).1
    · exact h
  | fire =>
    intro x hx
    exact h x (List.mem_filter.mp hx).1
  | client b p e f =>
    simp only [step, clientAdd]
    split
    · exact h
    · split <;> exact h
  | drop p =>
    simp only [step, drop]
    split
    · exact h
    · intro x hx
      dsimp only at hx ⊢
      have hne : x.peer ≠ p ∧ x ∈ s.armed := by
        rcases hc with hc | hc
        · rw [hc] at hx
          simp only [Bool.false_eq_true, if_false] at hx
          have := List.mem_filter.mp hx
          exact ⟨by simpa using this.2, this.1⟩
        · have hx' : x ∈ s.armed := by
            by_cases ht : c.timersSurvive = true
            · rw [ht] at hx; simpa using hx
            · have ht' : c.timersSurvive = false := by simpa using ht
              rw [ht'] at hx
              exact (List.mem_filter.mp hx).1
          simp only [calmOp, List.all_eq_true] at hc
          exact ⟨by simpa using hc x hx', hx'⟩
      have := h x hne.2
      simp only [List.contains_eq_mem, List.mem_filter, decide_eq_true_eq] at this ⊢
      exact ⟨this, by simpa using hne.1⟩
  | dropEnt p e =>
    simp only [step, dropEntity]
    split
    · exact h
    · split
      · exact h
      · intro x hx
        dsimp only at hx ⊢
        have hx' : x ∈ s.armed := by
          by_cases ht : c.entityKeepsApprovals = true
          · rw [ht] at hx; simpa using hx
          · have ht' : c.entityKeepsApprovals = false := by simpa using ht
            rw [ht'] at hx
            exact (List.mem_filter.mp hx).1
        exact h x hx'

/-- along a history every drop happens while no approval timer of the dropped peer is running -/
def calm (c : Cfg) : St → List Op → Bool
  | _, [] => true
  | s, op :: ops => calmOp s op && calm c (step c s op) ops

/-- every member: no approval timer ever writes to a removed connection along a history whose drops are calm;
    for a member that stops the timers, along every history -/
theorem lateAlong_nil (c : Cfg) (s : St) (h : ArmedAlive s) (ops : List Op)
    (hc : c.timersSurvive = false ∨ calm c s ops = true) : lateAlong c s ops = [] := by
  induction ops generalizing s with
  | nil => rfl
  | cons op ops ih =>
    have hop : c.timersSurvive = false ∨ calmOp s op = true := by
      rcases hc with hc | hc
      · exact Or.inl hc
      · simp only [calm, Bool.and_eq_true] at hc
        exact Or.inr hc.1
    have hrest : c.timersSurvive = false ∨ calm c (step c s op) ops = true := by
      rcases hc with hc | hc
      · exact Or.inl hc
      · simp only [calm, Bool.and_eq_true] at hc
        exact Or.inr hc.2
    have hnext := ih (step c s op) (step_armedAlive c s h op hop) hrest
    cases op with
    | fire =>
      simp only [lateAlong]
      rw [late_nil s h, hnext]
      rfl
    | reg _ => simpa only [lateAlong] using hnext
    | write _ _ _ _ _ _ _ => simpa only [lateAlong] using hnext
    | verdict _ _ _ => simpa only [lateAlong] using hnext
    | client _ _ _ _ => simpa only [lateAlong] using hnext
    | drop _ => simpa only [lateAlong] using hnext
    | dropEnt _ _ => simpa only [lateAlong] using hnext

/-! ### reachable states -/

theorem step_sane_clean (s : St) (h : Reg.Sane s.reg) (op : Op) : Reg.Sane (step Cfg.clean s op).reg := by
  cases op with
  | reg op =>
    simp only [step]
    split
    · exact Reg.step_sane_clean s.reg h op
    · exact h
  | write p ce cf se sf w sh =>
    simp only [step, write]
    repeat' split
    all_goals exact h
  | verdict p w a =>
    simp only [step, verdict]
    split <;> exact h
  | fire => exact h
  | client b p e f =>
    simp only [step, clientAdd]
    repeat' split
    all_goals exact h
  | drop p =>
    simp only [step, drop]
    split
    · exact h
    · exact h.of_sublist List.filter_sublist List.filter_sublist rfl
  | dropEnt p e =>
    simp only [step, dropEntity]
    split
    · exact h
    · split
      · exact h
      · exact Reg.dropEntity_sane_clean s.reg h p e

/-- repaired code: along every history every registry entry refers to an entity its peer currently announces -/
theorem run_sane_clean (s0 : St) (h : Reg.Sane s0.reg) (ops : List Op) : Reg.Sane (run Cfg.clean s0 ops).reg := by
  unfold run
  induction ops generalizing s0 with
  | nil => exact h
  | cons op ops ih => exact ih _ (step_sane_clean s0 h op)

/-! ### witnesses for the code as written -/

def wLoc : List Reg.Feat := [⟨[1], 1, 1, .server⟩]
def wRem : Nat → List Reg.Feat := fun _ => [⟨[1], 1, 1, .client⟩, ⟨[2], 1, 1, .client⟩]
def w0 : St := { reg := { loc := wLoc, rem := wRem }, alive := [1, 2], writable := [([1], 1)], approval := [([1], 1)] }

/-- as written: the timer of a write pending at disconnect fires and writes to the removed connection -/
theorem timer_after_drop_witness :
    (lateAlong {} w0 [.reg (.bind 1 [1] 1 [1] 1 1), .write 1 [1] 1 [1] 1 7 true, .drop 1, .fire]).map (fun x => (x.peer, x.ctr))
      = [(1, 7)] := by decide

/-- as written: the approval pending for a write of a removed entity's feature is still there and still effective -/
theorem entity_keeps_approval_witness :
    let s := run {} w0 [.reg (.bind 1 [1] 1 [1] 1 1), .write 1 [1] 1 [1] 1 7 false, .dropEnt 1 [1]]
    s.pend.map (fun x => (x.peer, x.ctr, x.cEnt)) = [(1, 7, [1])] ∧ (verdict s 1 7 true).2 = "applied" ∧
    s.reg.binds = [] := by decide

/-- as written: dropping peer 1 deletes peer 2's binding, after which peer 2's writes are denied -/
theorem drop_leaks_witness :
    let s := run {} w0 [.reg (.bind 2 [1] 1 [1] 1 1), .drop 1]
    Reg.bindsOf s.reg 2 = [] ∧ (write s 2 [1] 1 [1] 1 9 false).2 = "denied" ∧ s.alive = [2] := by decide

end Spine.Td
