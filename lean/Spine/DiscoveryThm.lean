import Spine.Discovery
namespace Spine.Disc

def t0 : Tree := [{ addr := [0], typ := 0, desc := none, feats := [⟨[0], 0, 0, 2, none, []⟩] },
  { addr := [2], typ := 1, desc := none, feats := [] }]

/-- C06 refuted (as written): one notification announces entity [1] as added and entity [2] as removed;
    afterwards neither is known -/
theorem mixed_add_remove_witness :
    ((notifyPartial { ents := [⟨[1], 1, .added, none⟩, ⟨[2], 1, .removed, none⟩], feats := [⟨[1], 1, 1, 0, none, []⟩] } t0).1.map (·.addr))
      = [[0]] := by decide

/-- … and with the two entries in the other order both are known, the removed one re-created without features -/
theorem mixed_remove_add_witness :
    ((notifyPartial { ents := [⟨[2], 1, .removed, none⟩, ⟨[1], 1, .added, none⟩], feats := [⟨[1], 1, 1, 0, none, []⟩] } t0).1.map (·.addr))
      = [[0], [2], [1]] := by decide

/-- C05 refuted (as written): a full notification that lists no entity removes the device-information entity,
    after which no datagram of the peer finds its source feature -/
theorem empty_full_notify_wipes_witness :
    (notifyFull { ents := [], feats := [] } t0).1 = [] := by decide

/-- C06 (partial): a notification whose entries are all `added` adds or refreshes exactly the listed entities
    and removes none -/
theorem all_added_keeps (m : Msg) (t : Tree) (e : E) (he : e ∈ t) :
    ∃ e' ∈ (addAll m t).1, e'.addr = e.addr := by
  unfold addAll
  suffices ∀ (ents : List EI) (acc : Tree × List Evt), (∃ e' ∈ acc.1, e'.addr = e.addr) →
      ∃ e' ∈ (ents.foldl (addOne m) acc).1, e'.addr = e.addr from this m.ents (t, []) ⟨e, he, rfl⟩
  intro ents
  induction ents with
  | nil => intro acc h; exact h
  | cons ei rest ih =>
    intro acc h
    apply ih
    obtain ⟨e', he', hadr⟩ := h
    obtain ⟨t', evs⟩ := acc
    simp only [addOne]
    cases hf : findE t' ei.addr with
    | some _ =>
      simp only
      refine ⟨if e'.addr = ei.addr then { e' with desc := ei.desc, feats := m.feats.filter (·.ent = ei.addr) } else e', ?_, ?_⟩
      · exact List.mem_map.mpr ⟨e', he', rfl⟩
      · split <;> exact hadr
    | none =>
      simp only
      exact ⟨e', List.mem_append_left _ he', hadr⟩

end Spine.Disc
