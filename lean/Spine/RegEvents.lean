import Spine.RegistryMore
/-! Subscription-change events of the subscribe / unsubscribe calls (C08, observation point
    `spine.Events` / `EventTypeSubscriptionChange`): `AddSubscription` publishes ONE add event after it appended the
    entry, naming the requesting device (Ski), the client feature and the local server feature; `RemoveSubscription`
    publishes ONE remove event after it wrote the filtered list back, naming the requester and the two addressed
    features; a refused call publishes nothing. (The remove events of a teardown — one per entry that
    `RemoveSubscriptionsForEntity` drops — belong to C10 and are monitored there.) -/
namespace Spine.RegEv
open Spine Reg

abbrev Key := Nat × List Nat × Nat × List Nat × Nat

inductive Ev
  | add (k : Key)
  | remove (k : Key)
deriving DecidableEq, Repr

/-- the subscription-change events a call publishes -/
def callEvents (c : Cfg) (s : St) : Op → List Ev
  | .sub p ce cf se sf t => if (addSub s p ce cf se sf t).2 then [.add (p, ce, cf, se, sf)] else []
  | .unsub p cd ce cf se sf => if (delSub c s p cd ce cf se sf).2 then [.remove (p, ce, cf, se, sf)] else []
  | _ => []

/-- An add event is published exactly for a granted request, and then the registry grew by exactly one entry: the
    pair the event names, at the end, under the new id. -/
theorem add_event (c : Cfg) (s : St) (p : Nat) (ce : List Nat) (cf : Nat) (se : List Nat) (sf t : Nat) :
    (callEvents c s (.sub p ce cf se sf t) = [.add (p, ce, cf, se, sf)] ↔ (addSub s p ce cf se sf t).2 = true) ∧
    ((addSub s p ce cf se sf t).2 = true →
      ∃ e, (addSub s p ce cf se sf t).1.subs = s.subs ++ [e] ∧ key e = (p, ce, cf, se, sf) ∧ e.id = s.subNum + 1) ∧
    ((addSub s p ce cf se sf t).2 = false →
      callEvents c s (.sub p ce cf se sf t) = [] ∧ (addSub s p ce cf se sf t).1.subs = s.subs) := by
  have heff := Reg.c08_add_effect s p ce cf se sf t
  refine ⟨?_, ?_, ?_⟩
  · cases h : (addSub s p ce cf se sf t).2 <;> simp [callEvents, h]
  · intro h
    rw [h] at heff
    exact ⟨⟨s.subNum + 1, se, sf, p, ce, cf⟩, by simpa using heff, rfl, rfl⟩
  · intro h
    rw [h] at heff
    exact ⟨by simp [callEvents, h], by simpa using heff⟩

/-- `delSub` either refuses and leaves the state, or succeeds with the list filtered for the target peer -/
theorem delSub_cases (c : Cfg) (s : St) (p cd : Nat) (ce : List Nat) (cf : Nat) (se : List Nat) (sf : Nat) :
    delSub c s p cd ce cf se sf = (s, false) ∨
    ∃ q, target c.delSubByDevice p cd = some q ∧
      delSub c s p cd ce cf se sf = ({ s with subs := s.subs.filter fun e => !e.is q ce cf se sf }, true) := by
  unfold delSub
  cases findF (s.rem p) ce cf with
  | none => exact Or.inl rfl
  | some _ =>
    cases findF s.loc se sf with
    | none => exact Or.inl rfl
    | some _ =>
      cases ht : target c.delSubByDevice p cd with
      | none => exact Or.inl rfl
      | some q =>
        dsimp only
        by_cases hl : (s.subs.filter fun e => !e.is q ce cf se sf).length = s.subs.length
        · simp [hl]
        · exact Or.inr ⟨q, rfl, by simp [hl]⟩

theorem target_clean (p cd q : Nat) (h : target false p cd = some q) : q = p := by
  unfold target at h
  split at h
  · exact (Option.some.inj h).symm
  · simp at h

/-- in a list without a key twice exactly one entry carries a key that occurs -/
theorem filter_key_length (l : List Entry) (k : Key) (hk : (l.map key).Nodup) (hm : k ∈ l.map key) :
    (l.filter (fun e => key e ≠ k)).length + 1 = l.length := by
  induction l with
  | nil => simp at hm
  | cons a r ih =>
    simp only [List.map_cons, List.nodup_cons] at hk
    by_cases ha : key a = k
    · have hall : ∀ e ∈ r, decide (key e ≠ k) = true := by
        intro e he
        have : key e ≠ key a := fun hh => hk.1 (List.mem_map.mpr ⟨e, he, hh⟩)
        simpa [ha] using this
      have hr : r.filter (fun e => decide (key e ≠ k)) = r := List.filter_eq_self.mpr hall
      rw [List.filter_cons_of_neg (by simp [ha]), hr, List.length_cons]
    · have hm' : k ∈ r.map key := by
        simp only [List.map_cons, List.mem_cons] at hm
        rcases hm with h | h
        · exact absurd h.symm ha
        · exact h
      have := ih hk.2 hm'
      rw [List.filter_cons_of_pos (by simp [ha]), List.length_cons, List.length_cons, this]

/-- A remove event is published exactly for a delete call that succeeds; for the repaired member, in a registry
    without a pair twice (every reachable one: `Reg.history_subInv`), exactly ONE entry left the registry then — the
    pair the event names — and a call without event left the registry as it was. -/
theorem remove_event (s : St) (hk : (s.subs.map key).Nodup) (p cd : Nat) (ce : List Nat) (cf : Nat) (se : List Nat)
    (sf : Nat) :
    (callEvents Cfg.clean s (.unsub p cd ce cf se sf) = [.remove (p, ce, cf, se, sf)] ↔
      (delSub Cfg.clean s p cd ce cf se sf).2 = true) ∧
    ((delSub Cfg.clean s p cd ce cf se sf).2 = true →
      (delSub Cfg.clean s p cd ce cf se sf).1.subs = s.subs.filter (fun e => key e ≠ (p, ce, cf, se, sf)) ∧
      (p, ce, cf, se, sf) ∈ s.subs.map key ∧
      (delSub Cfg.clean s p cd ce cf se sf).1.subs.length + 1 = s.subs.length) ∧
    ((delSub Cfg.clean s p cd ce cf se sf).2 = false →
      callEvents Cfg.clean s (.unsub p cd ce cf se sf) = [] ∧ (delSub Cfg.clean s p cd ce cf se sf).1.subs = s.subs) := by
  have hfilter : ∀ l : List Entry, l.filter (fun e => !e.is p ce cf se sf) = l.filter (fun e => key e ≠ (p, ce, cf, se, sf)) := by
    intro l
    apply List.filter_congr
    intro e _
    have := is_iff_key e p ce cf se sf
    by_cases h : e.is p ce cf se sf = true
    · simp [h, this.mp h]
    · have h' : key e ≠ (p, ce, cf, se, sf) := fun hh => h (this.mpr hh)
      simp [h, h']
  have hres := Reg.c08_delete_result s p cd ce cf se sf
  have hex := Reg.c08_delete_exact s p cd ce cf se sf
  refine ⟨?_, ?_, ?_⟩
  · cases h : (delSub Cfg.clean s p cd ce cf se sf).2 <;> simp [callEvents, h]
  · intro h
    have hany := (hres.mp h).2.2.2
    obtain ⟨e0, he0, his⟩ := List.any_eq_true.mp hany
    have hmem : (p, ce, cf, se, sf) ∈ s.subs.map key := List.mem_map.mpr ⟨e0, he0, (is_iff_key e0 p ce cf se sf).mp his⟩
    -- the registry changed (otherwise the call would have failed), so it is the filtered list
    have hsubs : (delSub Cfg.clean s p cd ce cf se sf).1.subs = s.subs.filter (fun e => !e.is p ce cf se sf) := by
      rcases delSub_cases Cfg.clean s p cd ce cf se sf with hc | ⟨q, hq, hc⟩
      · rw [hc] at h; simp at h
      · have := target_clean p cd q hq
        subst this
        rw [hc]
    refine ⟨hsubs.trans (hfilter _), hmem, ?_⟩
    rw [hsubs, hfilter]
    exact filter_key_length s.subs _ hk hmem
  · intro h
    refine ⟨by simp [callEvents, h], ?_⟩
    rcases delSub_cases Cfg.clean s p cd ce cf se sf with hc | ⟨q, _, hc⟩
    · rw [hc]
    · rw [hc] at h; simp at h

end Spine.RegEv
