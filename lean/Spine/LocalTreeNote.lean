import Spine.LocalTreeSpec
/-! C07, clause 2, the CONTENT of the notifications against the SPEC (second deepening wave).

    `c07_notifications_history` says that peer p receives one notification per AddEntity / RemoveEntity performed while
    it was subscribed, and takes what the notification says (entity type, features) from the MODEL state at that
    moment. Here the content is identified with the DECLARED one: the notifications, read as maps
    (`noteDecl`: added?, slot, entity type, feature number ↦ type / role / description / operations), are exactly the
    list `specNotes` computed from the SPEC maps folded over the trace (`specStep`) — nothing of the model's lists,
    generators or lookups is mentioned on the right-hand side. -/
namespace Spine.LTree

/-- a feature list read as a map from feature numbers -/
def featsMap (fs : List Feat) (id : Nat) : Option FDecl := (fs.find? (·.id = id)).map toDecl

/-- what a partial detailed-discovery notification says, as maps -/
structure NoteDecl where
  added : Bool
  slot : Nat
  etype : Nat
  feat : Nat → Option FDecl

def noteDecl : Obs → Option NoteDecl
  | .notify _ added k et fs => some ⟨added, k, et, featsMap fs⟩
  | _ => none

/-- SPEC of the notifications of peer p over a history: folded over the calls and the numbers they returned exactly
    like `specFrom`; an AddEntity performed while p is subscribed announces the slot with the DECLARED entity type and
    the DECLARED features of that slot at that moment, a RemoveEntity announces the slot without features -/
def specNotes (p : Nat) : St → Spec → Bool → List Op → List NoteDecl
  | _, _, _, [] => []
  | s, σ, sb, o :: os =>
    (match o with
      | .attach k => if sb then [⟨true, k, σ.etype k, σ.feat k⟩] else []
      | .detach k => if sb then [⟨false, k, σ.etype k, fun _ => none⟩] else []
      | _ => []) ++ specNotes p (step s o).1 (specStep σ o (retOf (step s o).2)) (subdAfter p sb o) os

theorem featsMap_nil : featsMap [] = fun _ => none := by
  funext id; simp [featsMap]

theorem exp_eq_spec (p : Nat) (ops : List Op) : ∀ (s : St) (sb : Bool), Inv s →
    (expNotes p s sb ops).filterMap noteDecl = specNotes p s (abs s) sb ops := by
  induction ops with
  | nil => intro s sb _; rfl
  | cons o os ih =>
    intro s sb h
    simp only [expNotes, specNotes, List.filterMap_append]
    rw [ih _ _ (inv_step s h o), abs_step s h o]
    congr 1
    cases o with
    | attach k =>
      cases sb
      · rfl
      · simp only [if_true, List.filterMap_cons, List.filterMap_nil, noteDecl]; rfl
    | detach k =>
      cases sb
      · rfl
      · simp only [if_true, List.filterMap_cons, List.filterMap_nil, noteDecl, featsMap_nil]; rfl
    | _ => rfl

/-- every notification peer p received describes a slot as it was in a state of the invariant: the announced feature
    numbers are pairwise distinct and every feature names each function once — the map reading loses nothing but
    order -/
theorem exp_wellformed (p : Nat) (ops : List Op) : ∀ (s : St) (sb : Bool), Inv s →
    ∀ q a k et fs, Obs.notify q a k et fs ∈ expNotes p s sb ops →
      q = p ∧ (fs.map (·.id)).Nodup ∧ ∀ f ∈ fs, (f.fns.map (·.fn)).Nodup := by
  induction ops with
  | nil => intro s sb _ q a k et fs hm; simp [expNotes] at hm
  | cons o os ih =>
    intro s sb h q a k et fs hm
    simp only [expNotes, List.mem_append] at hm
    rcases hm with hm | hm
    · cases o with
      | attach j =>
        cases sb
        · simp at hm
        · simp only [if_true, List.mem_singleton, Obs.notify.injEq] at hm
          obtain ⟨rfl, _, _, _, rfl⟩ := hm
          exact ⟨rfl, (h.1 j).1.1, (h.1 j).2.2⟩
      | detach j =>
        cases sb
        · simp at hm
        · simp only [if_true, List.mem_singleton, Obs.notify.injEq] at hm
          obtain ⟨rfl, _, _, _, rfl⟩ := hm
          exact ⟨rfl, by simp, by simp⟩
      | _ => simp at hm
    · exact ih _ _ (inv_step s h o) q a k et fs hm

theorem specNotes_length (p : Nat) (ops : List Op) : ∀ (s : St) (σ : Spec) (sb : Bool),
    (specNotes p s σ sb ops).length = expCount p sb ops := by
  induction ops with
  | nil => intro s σ sb; rfl
  | cons o os ih =>
    intro s σ sb
    simp only [specNotes, expCount, List.length_append, ih]
    congr 1
    cases o <;> simp <;> split <;> rfl

end Spine.LTree
