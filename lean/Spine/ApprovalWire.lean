import Spine.ApprovalRefine
import Spine.ApprovalThm
/-! C12: what leaves the approval machinery — result datagrams (acknowledgement / error, on which connection) and the
    feature's data — and any number of peers.

    `Spine.Appr` decides the OUTCOME of a write (applied / error). The code turns an outcome into observable effects in
    `processWrite` (apply, then `ResultSuccess` iff the header asked for an acknowledgement) and in the two error
    paths (`ResultError` from the denial and from the timeout function), always through
    `msg.FeatureRemote.Device().Sender()` — the sender of the connection the write came in on. Here these effects are
    functions of the outcome list and of the write's own attributes (`Attr`: ackRequest, connection), so every
    theorem about outcomes carries over; the driver prints them and the harness compares them with the result
    datagrams it sees on every connection's writer and with the data digests, step by step.

    `World`: the maps of feature_local.go are keyed by the peer's SKI, one `Appr.St` per peer. `wrun_proj` is the
    frame theorem for any number of peers: the state of peer `p` after any interleaving of the events of all peers
    is the state after `p`'s own events alone. -/
namespace Spine.ApprW
open Spine.Appr

/-- what the approval machinery does not look at but the effects depend on -/
structure Attr where
  ack : Bool := false      -- header.ackRequest
  conn : Nat := 0          -- the connection the write came in on
deriving DecidableEq, Repr

inductive Res | success | error deriving DecidableEq, Repr

/-- the result datagrams one outcome produces: (connection, msgCounterReference, kind) -/
def results (attr : Nat → Attr) (x : Nat × Out) : List (Nat × Nat × Res) :=
  match x.2 with
  | .applied => if (attr x.1).ack then [((attr x.1).conn, x.1, .success)] else []
  | .error => [((attr x.1).conn, x.1, .error)]

/-- the change of the feature's data one outcome produces (the write that was applied) -/
def applies (x : Nat × Out) : List Nat :=
  match x.2 with
  | .applied => [x.1]
  | .error => []

/-- all result datagrams written for the peer so far, oldest first -/
def wireOf (attr : Nat → Attr) (s : St) : List (Nat × Nat × Res) := s.outcomes.flatMap (results attr)

/-- the writes applied to the data so far, oldest first (the data is the fold of these over the initial data) -/
def dataOf (s : St) : List Nat := s.outcomes.flatMap applies

theorem mem_results (attr : Nat → Attr) (x : Nat × Out) (c w : Nat) (r : Res) :
    (c, w, r) ∈ results attr x ↔
      x.1 = w ∧ c = (attr w).conn ∧ ((r = .success ∧ x.2 = .applied ∧ (attr w).ack = true) ∨ (r = .error ∧ x.2 = .error)) := by
  obtain ⟨w', o⟩ := x
  cases o <;> cases r <;> simp only [results] <;> (try split) <;> simp_all <;> (try constructor) <;>
    (try (intro h; simp_all)) <;> (try (rintro ⟨rfl, rfl⟩; simp_all))

theorem mem_wireOf (attr : Nat → Attr) (s : St) (c w : Nat) (r : Res) :
    (c, w, r) ∈ wireOf attr s ↔
      c = (attr w).conn ∧ ((r = .success ∧ (w, Out.applied) ∈ s.outcomes ∧ (attr w).ack = true) ∨
        (r = .error ∧ (w, Out.error) ∈ s.outcomes)) := by
  simp only [wireOf, List.mem_flatMap, mem_results]
  constructor
  · rintro ⟨⟨w', o⟩, hm, hw, hc, h⟩
    simp only at hw h; subst hw
    refine ⟨hc, ?_⟩
    rcases h with ⟨hr, ho, ha⟩ | ⟨hr, ho⟩
    · exact Or.inl ⟨hr, ho ▸ hm, ha⟩
    · exact Or.inr ⟨hr, ho ▸ hm⟩
  · rintro ⟨hc, h⟩
    rcases h with ⟨hr, hm, ha⟩ | ⟨hr, hm⟩
    · exact ⟨(w, .applied), hm, rfl, hc, Or.inl ⟨hr, rfl, ha⟩⟩
    · exact ⟨(w, .error), hm, rfl, hc, Or.inr ⟨hr, rfl⟩⟩

theorem mem_dataOf (s : St) (w : Nat) : w ∈ dataOf s ↔ (w, Out.applied) ∈ s.outcomes := by
  simp only [dataOf, List.mem_flatMap]
  constructor
  · rintro ⟨⟨w', o⟩, hm, h⟩
    cases o <;> simp [applies] at h
    subst h; exact hm
  · intro h; exact ⟨(w, .applied), h, by simp [applies]⟩

theorem results_length (attr : Nat → Attr) (x : Nat × Out) : (results attr x).length ≤ 1 := by
  obtain ⟨w, o⟩ := x
  cases o <;> simp only [results] <;> (try split) <;> simp

theorem filter_flatMap_results (attr : Nat → Attr) (l : List (Nat × Out)) (w : Nat) :
    (l.flatMap (results attr)).filter (·.2.1 = w) = (l.filter (·.1 = w)).flatMap (results attr) := by
  induction l with
  | nil => rfl
  | cons x xs ih =>
    simp only [List.flatMap_cons, List.filter_append, ih, List.filter_cons]
    by_cases h : x.1 = w
    · have : (results attr x).filter (·.2.1 = w) = results attr x := by
        rw [List.filter_eq_self]
        intro r hr
        obtain ⟨c, w', k⟩ := r
        have := (mem_results attr x c w' k).mp hr
        simp [← this.1, h]
      simp [h, this]
    · have : (results attr x).filter (·.2.1 = w) = [] := by
        rw [List.filter_eq_nil_iff]
        intro r hr
        obtain ⟨c, w', k⟩ := r
        have := (mem_results attr x c w' k).mp hr
        simp [← this.1, h]
      simp [h, this]

theorem flatMap_length_le {α β : Type} (f : α → List β) (l : List α) (h : ∀ x, (f x).length ≤ 1) :
    (l.flatMap f).length ≤ l.length := by
  induction l with
  | nil => simp
  | cons x xs ih => simp only [List.flatMap_cons, List.length_append, List.length_cons]; have := h x; omega

/-- what one step adds to the outcome list: at most one outcome, and `applied` only at the commit of an approval -/
theorem step_outcomes (c : Cfg) (s : St) (e : Ev) :
    ∃ l, (step c s e).outcomes = s.outcomes ++ l ∧ l.length ≤ 1 ∧
      (∀ x ∈ l, x.2 = Out.applied → ∃ op, e = .commit op true) := by
  have hfin : ∀ (s0 : St) (w : Nat) (a : Bool), ∃ l, (finish c s0 w a).outcomes = s0.outcomes ++ l ∧ l.length ≤ 1 ∧
      (∀ x ∈ l, x.2 = Out.applied → a = true) := by
    intro s0 w a
    simp only [finish]
    split
    · refine ⟨[(w, if a then .applied else .error)], rfl, by simp, ?_⟩
      intro x hx hx2
      simp only [List.mem_singleton] at hx; subst hx
      cases a <;> simp_all
    · exact ⟨[], by simp, by simp, by simp⟩
  cases e with
  | arrive w => simp only [step]; split <;> exact ⟨[], by simp, by simp, by simp⟩
  | lookup op w => simp only [step]; split <;> exact ⟨[], by simp, by simp, by simp⟩
  | timeoutTake w => simp only [step]; split <;> exact ⟨[], by simp, by simp, by simp⟩
  | timeoutSend w =>
    simp only [step]; split
    · exact ⟨[(w, .error)], rfl, by simp, by simp⟩
    · exact ⟨[], by simp, by simp, by simp⟩
  | drop => exact ⟨[], by simp [step], by simp, by simp⟩
  | commit op a =>
    simp only [step]
    split
    · exact ⟨[], by simp, by simp, by simp⟩
    · rename_i x w hf
      split
      · split
        · exact ⟨[], by simp, by simp, by simp⟩
        · obtain ⟨l, h1, h2, h3⟩ := hfin { s with lookups := s.lookups.filter (·.1 ≠ op), tally := some (bump c s.tally w).1 } w a
          exact ⟨l, h1, h2, fun x hx hx2 => ⟨op, by rw [h3 x hx hx2]⟩⟩
      · obtain ⟨l, h1, h2, h3⟩ := hfin { s with lookups := s.lookups.filter (·.1 ≠ op) } w a
        exact ⟨l, h1, h2, fun x hx hx2 => ⟨op, by rw [h3 x hx hx2]⟩⟩

/-- the data changes only at the commit of an approval (every member of the family): a denial, a timeout, an
    arrival, a lookup, the removal of the connection leave it as it was -/
theorem data_changes_only_at_approval (c : Cfg) (s : St) (e : Ev) (h : dataOf (step c s e) ≠ dataOf s) :
    ∃ op, e = .commit op true := by
  obtain ⟨l, h1, h2, h3⟩ := step_outcomes c s e
  match l, h1, h2, h3 with
  | [], h1, _, _ => exact absurd (by simp [dataOf, h1]) h
  | [x], h1, _, h3 =>
    obtain ⟨w, o⟩ := x
    cases o with
    | applied => exact h3 (w, .applied) (by simp) rfl
    | error => exact absurd (by simp [dataOf, h1, applies]) h
  | _ :: _ :: _, _, h2, _ => simp at h2

/-! ### any number of peers -/

/-- one approval state per peer (the maps of feature_local.go are keyed by SKI) -/
abbrev World := Nat → St

def wstep (W : World) (x : Nat × Ev) : World := fun q => if q = x.1 then step Cfg.clean (W q) x.2 else W q

def wrun (n : Nat) (evs : List (Nat × Ev)) : World := evs.foldl wstep (fun _ => { nCb := n })

/-- the events of peer `p` -/
def proj (p : Nat) (evs : List (Nat × Ev)) : List Ev := (evs.filter (·.1 = p)).map (·.2)

/-- frame: an event of another peer leaves a peer's approval state — pending writes, timers, tallies, outcomes —
    untouched -/
theorem wstep_other (W : World) (x : Nat × Ev) (q : Nat) (h : q ≠ x.1) : wstep W x q = W q := by
  simp [wstep, h]

theorem wfold_proj (evs : List (Nat × Ev)) (W : World) (p : Nat) :
    (evs.foldl wstep W) p = (proj p evs).foldl (step Cfg.clean) (W p) := by
  induction evs generalizing W with
  | nil => rfl
  | cons x xs ih =>
    simp only [List.foldl_cons, ih]
    by_cases h : x.1 = p
    · simp [proj, h, wstep]
    · have hne : p ≠ x.1 := fun hc => h hc.symm
      simp [proj, h, wstep, hne]

/-- frame theorem for any number of peers and any interleaving of their events: what a peer's writes experience is
    what they experience in the run of the peer's own events alone -/
theorem wrun_proj (n : Nat) (evs : List (Nat × Ev)) (p : Nat) : wrun n evs p = run Cfg.clean n (proj p evs) := by
  simp only [wrun, run]; exact wfold_proj evs _ p

/-! ### independence inside one peer, over whole segments -/

/-- no event of the segment is about write `w` (judged in the state in which it happens) -/
def NotAbout (n : Nat) (w : Nat) : Sp → List Ev → Prop
  | _, [] => True
  | sp, e :: es => ¬ concerns sp w e ∧ NotAbout n w (specStep n sp e) es

/-- whatever happens to any number of other writes of the same peer — arrivals, verdicts, timeouts — leaves `w`
    where it was -/
theorem spec_frame_segment (n : Nat) (w : Nat) (es : List Ev) (sp : Sp) (h : NotAbout n w sp es) :
    (es.foldl (specStep n) sp).st w = sp.st w := by
  induction es generalizing sp with
  | nil => rfl
  | cons e es ih =>
    simp only [List.foldl_cons]
    rw [ih _ h.2, spec_frame n sp e w h.1]

end Spine.ApprW
