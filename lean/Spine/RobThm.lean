import Spine.Rob
/-! C05: lemmas about the discovery and request-body layers (`Spine/Rob.lean`): which payloads panic, member by member
    (characterisation), and that the repaired members panic on none (totality). -/
namespace Spine.Rob

/-! ### generic loop lemmas -/

def Step.NoPanic (s : Step) : Prop := ∀ x, s ≠ .panic x

theorem runLoop_cons_next {α : Type} (step : List (List Nat) → α → Step) (y : α) (rest : List α)
    (known k : List (List Nat)) (h : step known y = .next k) :
    runLoop step (y :: rest) known = runLoop step rest k := by simp only [runLoop, h]

theorem runLoop_cons_panic {α : Type} (step : List (List Nat) → α → Step) (y : α) (rest : List α)
    (known : List (List Nat)) (s : Site) (h : step known y = .panic s) :
    runLoop step (y :: rest) known = .panic s := by simp only [runLoop, h]

theorem runLoop_cons_stop {α : Type} (step : List (List Nat) → α → Step) (y : α) (rest : List α)
    (known : List (List Nat)) (h : step known y = .stop) :
    runLoop step (y :: rest) known = .stop := by simp only [runLoop, h]

theorem runLoop_nopanic {α : Type} (step : List (List Nat) → α → Step) (h : ∀ k x, (step k x).NoPanic) :
    ∀ (l : List α) (known : List (List Nat)), (runLoop step l known).NoPanic
  | [], known => by intro x; simp [runLoop]
  | y :: rest, known => by
    intro x
    cases hs : step known y with
    | panic s => exact absurd hs (h known y s)
    | stop => rw [runLoop_cons_stop step y rest known hs]; simp
    | next k => rw [runLoop_cons_next step y rest known k hs]; exact runLoop_nopanic step h rest k x

/-- the first entry that does not simply go on decides: the loop panics at `s` iff some entry does, all entries
    before it having gone on -/
theorem runLoop_panic_iff {α : Type} (step : List (List Nat) → α → Step) (s : Site) :
    ∀ (l : List α) (known : List (List Nat)),
      runLoop step l known = .panic s ↔
        ∃ pre x post k, l = pre ++ x :: post ∧ runLoop step pre known = .next k ∧ step k x = .panic s
  | [], known => by
    simp [runLoop]
  | y :: rest, known => by
    -- what a decomposition of `y :: rest` looks like
    have hsplit : (∃ pre x post k, y :: rest = pre ++ x :: post ∧ runLoop step pre known = .next k ∧ step k x = .panic s) ↔
        (step known y = .panic s ∨
         ∃ k', step known y = .next k' ∧
           ∃ pre x post k, rest = pre ++ x :: post ∧ runLoop step pre k' = .next k ∧ step k x = .panic s) := by
      constructor
      · rintro ⟨pre, x, post, k, hl, hpre, hx⟩
        cases pre with
        | nil =>
          simp only [List.nil_append, List.cons.injEq] at hl
          obtain ⟨rfl, rfl⟩ := hl
          simp only [runLoop, Step.next.injEq] at hpre
          subst hpre
          exact Or.inl hx
        | cons z pre' =>
          simp only [List.cons_append, List.cons.injEq] at hl
          obtain ⟨rfl, rfl⟩ := hl
          cases hz : step known y with
          | panic s' => rw [runLoop_cons_panic step y pre' known s' hz] at hpre; cases hpre
          | stop => rw [runLoop_cons_stop step y pre' known hz] at hpre; cases hpre
          | next k' =>
            rw [runLoop_cons_next step y pre' known k' hz] at hpre
            exact Or.inr ⟨k', rfl, pre', x, post, k, rfl, hpre, hx⟩
      · rintro (h | ⟨k', hk', pre, x, post, k, hl, hpre, hx⟩)
        · exact ⟨[], y, rest, known, rfl, rfl, h⟩
        · exact ⟨y :: pre, x, post, k, by rw [hl]; rfl, by rw [runLoop_cons_next step y pre known k' hk']; exact hpre, hx⟩
    rw [hsplit]
    cases hs : step known y with
    | panic s' =>
      rw [runLoop_cons_panic step y rest known s' hs]
      simp
    | stop =>
      rw [runLoop_cons_stop step y rest known hs]
      simp
    | next k' =>
      rw [runLoop_cons_next step y rest known k' hs, runLoop_panic_iff step s rest k']
      simp

/-! ### discovery layer, element level: exactly which elements panic, for every member -/

theorem setOps_iff (c : DCfg) (fns : List Fn) (s : Site) :
    setOps c fns = some s ↔
      s = .setOperations ∧ c.fnNil = false ∧ ∃ fn ∈ fns, fn.ops = true ∧ fn.function = false := by
  unfold setOps
  by_cases h : fns.any (fnPanics c) = true
  · simp only [h, if_true, Option.some.injEq]
    obtain ⟨fn, hmem, hp⟩ := List.any_eq_true.mp h
    simp only [fnPanics, Bool.and_eq_true, Bool.not_eq_true'] at hp
    constructor
    · intro hs; exact ⟨hs.symm, hp.1.1, fn, hmem, hp.1.2, hp.2⟩
    · intro hs; exact hs.1.symm
  · simp only [h, Bool.false_eq_true, if_false]
    constructor
    · intro hs; cases hs
    · rintro ⟨_, hc, fn, hmem, ho, hf⟩
      exact absurd (List.any_eq_true.mpr ⟨fn, hmem, by simp [fnPanics, hc, ho, hf]⟩) h

/-- a feature description lacks one of the parts `unmarshalFeature` dereferences -/
def Feat.missing (f : Feat) : Prop :=
  f.featureAddress = false ∨ f.feature = none ∨ f.ftype = none ∨ f.role = false

instance (f : Feat) : Decidable f.missing := by unfold Feat.missing; exact inferInstance

theorem unmarshal_iff (c : DCfg) (f : Feat) (s : Site) :
    unmarshal c f = some s ↔
      f.description = true ∧
        ((f.missing ∧ c.descr = false ∧ s = .unmarshalFeature) ∨
         (¬ f.missing ∧ f.ftype = some .unknown ∧ c.unkType = false ∧ s = .createFunctionData) ∨
         (¬ f.missing ∧ ¬ (f.ftype = some .unknown ∧ c.unkType = false) ∧ setOps c f.fns = some s)) := by
  unfold unmarshal Feat.missing
  cases hd : f.description <;> cases ha : f.featureAddress <;> cases hf : f.feature <;> cases ht : f.ftype <;>
    cases hr : f.role <;> cases hc : c.descr <;> cases hu : c.unkType <;>
    simp <;> (try (rename_i t; cases t <;> simp)) <;> (try (constructor <;> intro h <;> simp_all))

theorem featStep_iff (c : DCfg) (a : Option (List Nat)) (f : Feat) (s : Site) :
    featStep c a f = some s ↔
      ((f.description = false ∨ f.featureAddress = false) ∧ c.descr = false ∧ s = .addEntityAndFeatures) ∨
      (f.description = true ∧ f.featureAddress = true ∧ f.entity = a ∧ unmarshal c f = some s) := by
  unfold featStep
  cases hd : f.description <;> cases ha : f.featureAddress <;> cases hc : c.descr <;> simp <;>
    (try (constructor <;> intro h <;> simp_all)) <;> (try (by_cases he : f.entity = a <;> simp [he]))

theorem featLoop_iff (c : DCfg) (a : Option (List Nat)) (s : Site) :
    ∀ feats : List Feat, featLoop c a feats = some s ↔
      ∃ pre f post, feats = pre ++ f :: post ∧ (∀ g ∈ pre, featStep c a g = none) ∧ featStep c a f = some s
  | [] => by simp [featLoop]
  | g :: rest => by
    simp only [featLoop]
    cases hg : featStep c a g with
    | some s' =>
      simp only [Option.some.injEq]
      constructor
      · rintro rfl
        exact ⟨[], g, rest, rfl, by simp, hg⟩
      · rintro ⟨pre, f, post, hl, hpre, hf⟩
        cases pre with
        | nil =>
          simp only [List.nil_append, List.cons.injEq] at hl
          obtain ⟨rfl, rfl⟩ := hl
          rw [hg] at hf; exact Option.some.inj hf
        | cons z pre' =>
          simp only [List.cons_append, List.cons.injEq] at hl
          obtain ⟨rfl, _⟩ := hl
          have := hpre g (List.mem_cons_self ..)
          rw [hg] at this; cases this
    | none =>
      simp only []
      rw [featLoop_iff c a s rest]
      constructor
      · rintro ⟨pre, f, post, hl, hpre, hf⟩
        refine ⟨g :: pre, f, post, by rw [hl]; rfl, ?_, hf⟩
        intro x hx
        rcases List.mem_cons.mp hx with rfl | hx
        · exact hg
        · exact hpre x hx
      · rintro ⟨pre, f, post, hl, hpre, hf⟩
        cases pre with
        | nil =>
          simp only [List.nil_append, List.cons.injEq] at hl
          obtain ⟨rfl, rfl⟩ := hl
          rw [hg] at hf; cases hf
        | cons z pre' =>
          simp only [List.cons_append, List.cons.injEq] at hl
          obtain ⟨rfl, rfl⟩ := hl
          exact ⟨pre', f, post, rfl, fun x hx => hpre x (List.mem_cons_of_mem _ hx), hf⟩

theorem checkEnt_iff (c : DCfg) (initial : Bool) (e : Ent) (l : List Nat) :
    checkEnt c initial e = some l ↔
      e.description = true ∧ e.entityAddress = true ∧ e.entity = some l ∧
        ¬ (c.emptyAddr = true ∧ l = []) ∧ ¬ (initial = false ∧ e.devMismatch = true) := by
  unfold checkEnt
  cases hd : e.description <;> cases ha : e.entityAddress <;> cases he : e.entity <;> simp
  rename_i l'
  cases hc : c.emptyAddr <;> cases hi : initial <;> cases hm : e.devMismatch <;> cases l' <;> simp <;>
    (try (constructor <;> intro h <;> simp_all)) <;> (try (intro h; subst h; simp))

theorem afterFeats_panic (r : Option Site) (known : List (List Nat)) (s : Site) :
    afterFeats r known = .panic s ↔ r = some s := by
  unfold afterFeats; cases r <;> simp

theorem entStep_iff (c : DCfg) (initial : Bool) (feats : List Feat) (known : List (List Nat)) (e : Ent) (s : Site) :
    entStep c initial feats known e = .panic s ↔
      ∃ l, checkEnt c initial e = some l ∧
        ((known.contains l = true ∧ featLoop c (some l) feats = some s) ∨
         (known.contains l = false ∧ e.etype = false ∧ c.descr = false ∧ s = .addEntityAndFeatures) ∨
         (known.contains l = false ∧ e.etype = true ∧ l = [] ∧ s = .newEntity) ∨
         (known.contains l = false ∧ e.etype = true ∧ l ≠ [] ∧ featLoop c (some l) feats = some s)) := by
  unfold entStep
  cases hck : checkEnt c initial e with
  | none => simp
  | some l =>
    simp only [Option.some.injEq, exists_eq_left']
    unfold entBody
    cases hk : known.contains l <;> cases ht : e.etype <;> cases hc : c.descr <;> cases l <;>
      simp [afterFeats_panic] <;> (try (constructor <;> intro h <;> simp_all))

/-! ### discovery layer, message level -/

theorem outOf_panic (st : Step) (s : Site) : outOf st = .panic s ↔ st = .panic s := by
  unfold outOf; cases st <;> simp

theorem entLoop_iff (c : DCfg) (initial : Bool) (feats : List Feat) (ents : List Ent) (known : List (List Nat))
    (s : Site) :
    entLoop c initial feats ents known = .panic s ↔
      ∃ pre e post k, ents = pre ++ e :: post ∧ entLoop c initial feats pre known = .next k ∧
        entStep c initial feats k e = .panic s :=
  runLoop_panic_iff (entStep c initial feats) s ents known

theorem reply_iff (c : DCfg) (known : List (List Nat)) (p : Payload) (s : Site) :
    reply c known p = .panic s ↔
      (p.deviceInformation = false ∧ c.devInfo = false ∧ s = .replyDeviceInformation) ∨
      (p.deviceInformation = true ∧ p.deviceDescription = true ∧ entLoop c true p.feats p.ents known = .panic s) := by
  unfold reply
  cases hi : p.deviceInformation <;> cases hd : p.deviceDescription <;> cases hc : c.devInfo <;>
    simp [outOf_panic] <;> (try (constructor <;> intro h <;> simp_all))

theorem remStep_nopanic (c : DCfg) (known : List (List Nat)) (e : Ent) : (remStep c known e).NoPanic := by
  intro x
  unfold remStep
  cases checkEnt c false e with
  | none => simp
  | some l => by_cases h : (c.keep0 && decide (l = [0])) = true <;> simp [h]

theorem remLoop_nopanic (c : DCfg) (l : List Ent) (known : List (List Nat)) : (remLoop c l known).NoPanic :=
  runLoop_nopanic (remStep c) (remStep_nopanic c) l known

theorem notifyStep_iff (c : DCfg) (all : List Ent) (feats : List Feat) (known : List (List Nat)) (e : Ent) (s : Site) :
    notifyStep c all feats known e = .panic s ↔
      e.description = true ∧ e.entityAddress = true ∧ e.chg = some .added ∧
        entLoop c false feats (if c.perEntry then [e] else all) known = .panic s := by
  unfold notifyStep
  cases hd : e.description <;> cases ha : e.entityAddress <;> simp
  cases hc : e.chg with
  | none => simp
  | some ch =>
    cases ch with
    | added => simp
    | removed => simp; exact remLoop_nopanic c _ known s
    | other => simp

theorem notifyPartial_iff (c : DCfg) (known : List (List Nat)) (p : Payload) (s : Site) :
    notifyPartial c known p = .panic s ↔
      ∃ pre e post k, p.ents = pre ++ e :: post ∧ notifyLoop c p.ents p.feats pre known = .next k ∧
        notifyStep c p.ents p.feats k e = .panic s := by
  unfold notifyPartial
  cases hp : p.ents with
  | nil => simp
  | cons e rest =>
    simp only [List.isEmpty_cons, Bool.false_eq_true, if_false, outOf_panic]
    exact runLoop_panic_iff (notifyStep c (e :: rest) p.feats) s (e :: rest) known

/-! ### discovery layer: the repaired members are total -/

/-- the five guards that concern panics; `perEntry` and `keep0` only change which entries are processed -/
def DCfg.Guarded (c : DCfg) : Prop :=
  c.devInfo = true ∧ c.descr = true ∧ c.emptyAddr = true ∧ c.unkType = true ∧ c.fnNil = true

theorem setOps_total (c : DCfg) (h : c.fnNil = true) (fns : List Fn) : setOps c fns = none := by
  cases hs : setOps c fns with
  | none => rfl
  | some s => have := (setOps_iff c fns s).mp hs; rw [h] at this; simp at this

theorem unmarshal_total (c : DCfg) (h : c.Guarded) (f : Feat) : unmarshal c f = none := by
  obtain ⟨_, hd, _, hu, hf⟩ := h
  cases hs : unmarshal c f with
  | none => rfl
  | some s =>
    have := (unmarshal_iff c f s).mp hs
    rw [hd, hu, setOps_total c hf] at this
    simp at this

theorem featStep_total (c : DCfg) (h : c.Guarded) (a : Option (List Nat)) (f : Feat) : featStep c a f = none := by
  cases hs : featStep c a f with
  | none => rfl
  | some s =>
    have := (featStep_iff c a f s).mp hs
    rw [h.2.1, unmarshal_total c h] at this
    simp at this

theorem featLoop_total (c : DCfg) (h : c.Guarded) (a : Option (List Nat)) : ∀ feats, featLoop c a feats = none
  | [] => rfl
  | f :: rest => by simp only [featLoop, featStep_total c h a f]; exact featLoop_total c h a rest

theorem entStep_nopanic (c : DCfg) (h : c.Guarded) (initial : Bool) (feats : List Feat) (known : List (List Nat))
    (e : Ent) : (entStep c initial feats known e).NoPanic := by
  intro s hs
  obtain ⟨l, hck, hcase⟩ := (entStep_iff c initial feats known e s).mp hs
  have hne := ((checkEnt_iff c initial e l).mp hck).2.2.2.1
  rw [featLoop_total c h, h.2.1] at hcase
  rcases hcase with h1 | h1 | h1 | h1
  · simp at h1
  · simp at h1
  · exact hne ⟨h.2.2.1, h1.2.2.1⟩
  · simp at h1

theorem entLoop_nopanic (c : DCfg) (h : c.Guarded) (initial : Bool) (feats : List Feat) (ents : List Ent)
    (known : List (List Nat)) : (entLoop c initial feats ents known).NoPanic :=
  runLoop_nopanic (entStep c initial feats) (entStep_nopanic c h initial feats) ents known

theorem reply_total (c : DCfg) (h : c.Guarded) (known : List (List Nat)) (p : Payload) : reply c known p = .done := by
  cases hr : reply c known p with
  | done => rfl
  | panic s =>
    rcases (reply_iff c known p s).mp hr with h1 | h1
    · rw [h.1] at h1; simp at h1
    · exact absurd h1.2.2 (entLoop_nopanic c h true p.feats p.ents known s)

theorem notifyStep_nopanic (c : DCfg) (h : c.Guarded) (all : List Ent) (feats : List Feat) (known : List (List Nat))
    (e : Ent) : (notifyStep c all feats known e).NoPanic := by
  intro s hs
  exact entLoop_nopanic c h false feats _ known s ((notifyStep_iff c all feats known e s).mp hs).2.2.2

theorem notifyPartial_total (c : DCfg) (h : c.Guarded) (known : List (List Nat)) (p : Payload) :
    notifyPartial c known p = .done := by
  cases hr : notifyPartial c known p with
  | done => rfl
  | panic s =>
    obtain ⟨pre, e, post, k, _, _, hx⟩ := (notifyPartial_iff c known p s).mp hr
    exact absurd hx (notifyStep_nopanic c h p.ents p.feats k e s)

theorem notifyFull_total (c : DCfg) (h : c.Guarded) (known : List (List Nat)) (p : Payload) :
    notifyFull c known p = .done := notifyPartial_total c h known (fullDiff known p)

/-! ### request-body layer -/

theorem serverLookup_cases (c : RCfg) (r : Req) :
    (serverLookup c r = none ∧ r.serverAddr = true ∧ r.serverFound = true) ∨
    (serverLookup c r = some .done ∧ ((r.serverAddr = false ∧ c.fba = true) ∨ (r.serverAddr = true ∧ r.serverFound = false))) ∨
    (serverLookup c r = some (.panic .featureByAddressLocal) ∧ r.serverAddr = false ∧ c.fba = false) := by
  unfold serverLookup
  cases r.serverAddr <;> cases r.serverFound <;> cases c.fba <;> simp

theorem clientLookup_iff (c : RCfg) (r : Req) (s : Site) :
    clientLookup c r = .panic s ↔
      (r.clientAddr = false ∧ c.fba = false ∧ s = .featureByAddressRemote) ∨
      (r.clientAddr = true ∧ r.clientFound = false ∧ r.devKnown = false ∧ c.errTxt = false ∧ s = managerSite r.kind) := by
  unfold clientLookup
  cases r.clientAddr <;> cases r.clientFound <;> cases r.devKnown <;> cases c.fba <;> cases c.errTxt <;> simp <;>
    (try (constructor <;> intro h <;> simp_all))

theorem addReq_iff (c : RCfg) (r : Req) (s : Site) :
    addReq c r = .panic s ↔
      (r.serverAddr = false ∧ c.fba = false ∧ s = .featureByAddressLocal) ∨
      (r.serverAddr = true ∧ r.serverFound = true ∧ r.sft = false ∧ r.kind = .subRequest ∧ c.sft = false ∧
         s = .addSubscription) ∨
      (r.serverAddr = true ∧ r.serverFound = true ∧ r.sft = true ∧ r.serverOk = true ∧
         ¬ (r.kind = .bindRequest ∧ r.bound = true) ∧ clientLookup c r = .panic s) := by
  unfold addReq
  rcases serverLookup_cases c r with ⟨h, ha, hf⟩ | ⟨h, hc⟩ | ⟨h, ha, hf⟩
  · rw [h]
    simp only [ha, hf]
    cases r.sft <;> cases r.serverOk <;> cases r.bound <;> cases c.sft <;> cases hk : r.kind <;> simp <;>
      (try (constructor <;> intro h' <;> simp_all))
  · rw [h]
    rcases hc with ⟨h1, h2⟩ | ⟨h1, h2⟩ <;> simp [h1, h2]
  · rw [h]
    simp [ha, hf]
    constructor <;> intro h' <;> simp_all

theorem delReq_iff (c : RCfg) (r : Req) (s : Site) :
    delReq c r = .panic s ↔
      (r.clientAddr = false ∧ c.clientAddr = false ∧ s = managerSite r.kind) ∨
      (r.clientAddr = true ∧ clientLookup c r = .panic s) ∨
      (r.clientAddr = true ∧ r.clientFound = true ∧ r.serverAddr = false ∧ c.fba = false ∧ s = .featureByAddressLocal) := by
  unfold delReq
  cases hca : r.clientAddr
  · cases c.clientAddr <;> simp <;> (try (constructor <;> intro h' <;> simp_all))
  · simp only [Bool.not_true, Bool.false_eq_true, if_false, reduceCtorEq, false_and, false_or, true_and]
    cases hcl : clientLookup c r with
    | panic s' => simp only [Out.panic.injEq]
                  have := (clientLookup_iff c r s').mp hcl
                  rw [hca] at this
                  constructor
                  · intro h'; exact Or.inl h'
                  · rintro (h' | h')
                    · exact h'
                    · rcases this with h'' | h''
                      · simp at h''
                      · rw [h''.2.1] at h'; simp at h'
    | done =>
      simp only [reduceCtorEq, false_or]
      cases hcf : r.clientFound
      · simp
      · simp only [Bool.not_true, Bool.false_eq_true, if_false, true_and]
        rcases serverLookup_cases c r with ⟨h, ha, hf⟩ | ⟨h, hc⟩ | ⟨h, ha, hf⟩
        · rw [h]; simp [ha]
        · rw [h]; rcases hc with ⟨h1, h2⟩ | ⟨h1, h2⟩ <;> simp [h1, h2]
        · rw [h]; simp [ha, hf]; constructor <;> intro h' <;> simp_all

/-- exactly which requests panic at which site, for every member of the family -/
theorem request_iff (c : RCfg) (r : Req) (s : Site) :
    request c r = .panic s ↔
      (r.body = false ∧ c.body = false ∧ s = bodySite r.kind) ∨
      (r.body = true ∧ (r.kind = .subRequest ∨ r.kind = .bindRequest) ∧ addReq c r = .panic s) ∨
      (r.body = true ∧ (r.kind = .subDelete ∨ r.kind = .bindDelete) ∧ delReq c r = .panic s) := by
  unfold request
  cases r.body <;> cases c.body <;> cases hk : r.kind <;> simp <;> (try (constructor <;> intro h' <;> simp_all))

theorem request_total (r : Req) : request RCfg.repaired r = .done := by
  cases hr : request RCfg.repaired r with
  | done => rfl
  | panic s =>
    rcases (request_iff RCfg.repaired r s).mp hr with h | ⟨_, _, h⟩ | ⟨_, _, h⟩
    · simp [RCfg.repaired] at h
    · rcases (addReq_iff RCfg.repaired r s).mp h with h | h | h
      · simp [RCfg.repaired] at h
      · simp [RCfg.repaired] at h
      · have := (clientLookup_iff RCfg.repaired r s).mp h.2.2.2.2.2
        simp [RCfg.repaired] at this
    · rcases (delReq_iff RCfg.repaired r s).mp h with h | h | h
      · simp [RCfg.repaired] at h
      · have := (clientLookup_iff RCfg.repaired r s).mp h.2
        simp [RCfg.repaired] at this
      · simp [RCfg.repaired] at h

/-! ### composition -/

/-- header guards + the five discovery guards + the five request guards: no abstract datagram of the covered kinds
    panics in the header layer, in its own layer, or while the answer is written -/
theorem handle_total (hc : Hdr.Cfg) (ha : hc.addr = true) (hf : hc.filter = true) (hp : hc.pmo = true)
    (dc : DCfg) (hd : dc.Guarded) (d : Dgram) :
    handle hc dc RCfg.repaired d = .ok ∨ handle hc dc RCfg.repaired d = .outside := by
  unfold handle
  cases hpre : Hdr.pre hc { d.hdr with responds := false } with
  | panic s => exact absurd hpre (Hdr.pre_total hc ha hf hp _ s)
  | dropped => exact Or.inl rfl
  | errorResult => exact Or.inl rfl
  | proceed =>
    simp only []
    have hans : answered hc d.hdr = .ok := by
      unfold answered Hdr.answerWith
      simp [hp]
    cases hb : d.body with
    | discReply p => simp only [layer, reply_total dc hd]; by_cases h : d.hdr.responds = true <;> simp [h, hans]
    | discNotify pf p =>
      cases pf <;> simp only [layer, notifyPartial_total dc hd, notifyFull_total dc hd] <;>
        by_cases h : d.hdr.responds = true <;> simp [h, hans]
    | call r => simp only [layer, request_total]; by_cases h : d.hdr.responds = true <;> simp [h, hans]
    | quiet => simp only [layer]; by_cases h : d.hdr.responds = true <;> simp [h, hans]
    | outside => simp [layer]

end Spine.Rob
