import Spine.Update
namespace Spine

/-! ### fields -/

theorem get_updateFields (sh : Shape) (r : Bool) (a b : Item) (i : Nat) (hi : i < b.length) :
    (updateFields sh r a b).get i =
      if (b.get i).isNone || (r && sh.flag == some i) then a.get i else b.get i := by
  simp [updateFields, Item.get, hi]

theorem get_none_of_ge (b : Item) (i : Nat) (hi : b.length ≤ i) : b.get i = none := by
  simp [Item.get, List.getElem?_eq_none hi]

theorem updateFields_length (sh : Shape) (r : Bool) (a b : Item) : (updateFields sh r a b).length = b.length := by
  simp [updateFields]

/-- on a remote write the flag of the stored item wins -/
theorem updateFields_flag (sh : Shape) (a b : Item) (f : Nat) (hf : sh.flag = some f) (hb : f < b.length) :
    (updateFields sh true a b).get f = a.get f := by
  simp [updateFields, Item.get, hf, hb]

theorem get_copyNonNil (src dst : Item) (i : Nat) (hl : src.length = dst.length) (hi : i < dst.length) :
    (copyNonNil src dst).get i = match src.get i with | some v => some v | none => dst.get i := by
  have hi' : i < src.length := by omega
  simp only [copyNonNil, hl, bne_self_eq_false, Bool.false_eq_true, if_false, Item.get]
  rw [List.getElem?_map, List.getElem?_range hi]
  simp only [Option.map_some, Option.join_some, List.getElem?_eq_getElem hi, List.getElem?_eq_getElem hi']
  cases src[i] <;> rfl

/-! ### lookups -/

theorem lookupLast_mem (sh : Shape) (h : List Val) (s2 : List Item) (b : Item)
    (hl : lookupLast sh h s2 = some b) : b ∈ s2 ∧ hashKey sh b = h := by
  induction s2 with
  | nil => simp [lookupLast] at hl
  | cons x xs ih =>
    simp only [lookupLast] at hl
    split at hl
    · rename_i y hy
      cases hl
      exact ⟨List.mem_cons_of_mem _ (ih hy).1, (ih hy).2⟩
    · split at hl
      · rename_i hx; cases hl; exact ⟨List.mem_cons_self, hx⟩
      · cases hl

/-! ### C04: the merge path of a remote write -/

theorem merge_remote_length (sh : Shape) (s1 s2 : List Item) : (merge sh true s1 s2).1.length = s1.length := by
  simp [merge]

/-- a remote merge leaves every non-writable item untouched and never alters the flag of any item -/
theorem merge_remote_protects (sh : Shape) (f : Nat) (hf : sh.flag = some f) (s1 s2 : List Item)
    (hs2 : ∀ b ∈ s2, f < b.length) (i : Nat) (hi : i < s1.length) :
    ∃ h : i < (merge sh true s1 s2).1.length,
      ((merge sh true s1 s2).1[i]).get f = (s1[i]).get f ∧
      (writeAllowed sh s1[i] = false → (merge sh true s1 s2).1[i] = s1[i]) := by
  have hlen := merge_remote_length sh s1 s2
  refine ⟨by omega, ?_⟩
  have hget : (merge sh true s1 s2).1[i]'(by omega) = mergeItem sh true s2 s1[i] := by
    simp [merge]
  rw [hget]
  unfold mergeItem
  cases hl : lookupLast sh (hashKey sh s1[i]) s2 with
  | none => simp
  | some b =>
    have hb := (lookupLast_mem sh _ s2 b hl).1
    by_cases hw : writeAllowed sh s1[i] = true
    · simp [hw, updateFields_flag sh _ _ f hf (hs2 b hb)]
    · simp [hw]

/-- the in-place paths of a remote write skip every non-writable item -/
theorem copyToAll_remote_protects (sh : Shape) (ex : List Item) (nw : Item) (i : Nat) (hi : i < ex.length)
    (hw : writeAllowed sh ex[i] = false) :
    ∃ h : i < (copyToAll sh true ex nw).1.length, (copyToAll sh true ex nw).1[i] = ex[i] := by
  refine ⟨by simp [copyToAll, hi], ?_⟩
  simp [copyToAll, hw]

/-- … and a remote write through them never changes a flag when the incoming item does not carry one
    (a flag it does carry is copied: this is part of the defect list of C04) -/
theorem copyToAll_remote_flag (sh : Shape) (f : Nat) (hf : sh.flag = some f) (ex : List Item) (nw : Item)
    (hnw : nw.get f = none) (i : Nat) (hi : i < ex.length) (hl : nw.length = ex[i].length) (hfl : f < ex[i].length) :
    ∃ h : i < (copyToAll sh true ex nw).1.length, ((copyToAll sh true ex nw).1[i]).get f = (ex[i]).get f := by
  refine ⟨by simp [copyToAll, hi], ?_⟩
  simp only [copyToAll, List.getElem_map]
  split
  · rfl
  · rw [get_copyNonNil nw ex[i] f hl hfl, hnw]

/-! ### C02: identifiers under a local merge -/

/-- hashKey only looks at the key fields -/
theorem hashKey_congr (sh : Shape) (x y : Item)
    (h : ∀ k ∈ sh.keys, x.get k.1 = y.get k.1) : hashKey sh x = hashKey sh y := by
  unfold hashKey
  generalize sh.keys = ks at h
  induction ks with
  | nil => rfl
  | cons k ks ih =>
    obtain ⟨i, kind⟩ := k
    have h0 := h (i, kind) List.mem_cons_self
    simp only at h0
    simp only [hashKey.go, h0]
    cases y.get i with
    | none => rfl
    | some v =>
      cases kind <;> simp [ih (fun k hk => h k (List.mem_cons_of_mem _ hk))]

/-- a local merge keeps the identifier of the incoming item -/
theorem hashKey_updateFields_local (sh : Shape) (a b : Item)
    (hb : hasIdentifiers sh b = true) : hashKey sh (updateFields sh false a b) = hashKey sh b := by
  apply hashKey_congr
  intro k hk
  have hsome : (b.get k.1).isSome = true := by
    simp only [hasIdentifiers, List.all_eq_true] at hb
    exact hb k hk
  have hlt : k.1 < b.length := by
    rcases Nat.lt_or_ge k.1 b.length with h | h
    · exact h
    · rw [get_none_of_ge b k.1 h] at hsome; simp at hsome
  rw [get_updateFields sh false a b k.1 hlt]
  cases hg : b.get k.1 with
  | none => rw [hg] at hsome; simp at hsome
  | some v => simp

theorem merge_local_keys_first (sh : Shape) (s1 s2 : List Item)
    (h2 : ∀ b ∈ s2, hasIdentifiers sh b = true) :
    ((s1.map (mergeItem sh false s2)).map (hashKey sh)) = s1.map (hashKey sh) := by
  rw [List.map_map]
  apply List.map_congr_left
  intro a _
  simp only [Function.comp, mergeItem]
  cases hl : lookupLast sh (hashKey sh a) s2 with
  | none => rfl
  | some b =>
    obtain ⟨hmem, hh⟩ := lookupLast_mem sh _ s2 b hl
    simp [hashKey_updateFields_local sh a b (h2 b hmem), hh]

/-- C02 `unique`, merge path: distinct identifiers in store and update give distinct identifiers afterwards -/
theorem merge_local_nodup (sh : Shape) (s1 s2 : List Item)
    (h1 : (s1.map (hashKey sh)).Nodup) (h2 : (s2.map (hashKey sh)).Nodup)
    (hid : ∀ b ∈ s2, hasIdentifiers sh b = true) :
    (((merge sh false s1 s2).1).map (hashKey sh)).Nodup := by
  simp only [merge, Bool.false_eq_true, if_false, List.map_append]
  rw [merge_local_keys_first sh s1 s2 hid]
  rw [List.nodup_append]
  refine ⟨h1, ?_, ?_⟩
  · exact (List.Sublist.map _ List.filter_sublist).nodup h2
  · intro x hx y hy
    simp only [List.mem_map, List.mem_filter] at hx hy
    obtain ⟨a, ha, rfl⟩ := hx
    obtain ⟨b, ⟨_, hb⟩, rfl⟩ := hy
    intro heq
    simp only [Bool.not_eq_true', List.any_eq_false] at hb
    have := hb a ha
    simp [heq] at this

/-- C02, merge path: a local merge never loses a stored item and adds exactly the incoming items whose
    identifier was not stored -/
theorem merge_local_keys (sh : Shape) (s1 s2 : List Item) (hid : ∀ b ∈ s2, hasIdentifiers sh b = true) :
    ((merge sh false s1 s2).1).map (hashKey sh) =
      s1.map (hashKey sh) ++ (s2.filter fun b => !(s1.any fun a => hashKey sh a = hashKey sh b)).map (hashKey sh) := by
  simp only [merge, Bool.false_eq_true, if_false, List.map_append]
  rw [merge_local_keys_first sh s1 s2 hid]


/-! ### C02: fields under a local merge -/

theorem item_ext (x y : Item) (hl : x.length = y.length) (h : ∀ i, i < y.length → x.get i = y.get i) : x = y := by
  apply List.ext_getElem hl
  intro i h1 h2
  have := h i h2
  simp only [Item.get, List.getElem?_eq_getElem h1, List.getElem?_eq_getElem h2, Option.join_some] at this
  exact this

/-- a partial update overlays the fields it mentions and keeps the others -/
theorem merge_local_overlay (sh : Shape) (a b : Item) (i : Nat) (hi : i < b.length) :
    (updateFields sh false a b).get i = match b.get i with | some v => some v | none => a.get i := by
  rw [get_updateFields sh false a b i hi]
  cases b.get i <;> simp

/-- applying the same partial update to an item a second time changes nothing -/
theorem updateFields_idem (sh : Shape) (a b : Item) :
    updateFields sh false (updateFields sh false a b) b = updateFields sh false a b := by
  apply item_ext
  · simp [updateFields_length]
  · intro i hi
    rw [updateFields_length] at hi
    rw [merge_local_overlay sh _ b i hi, merge_local_overlay sh a b i hi]
    cases b.get i <;> rfl

/-- an item merged with itself is itself -/
theorem updateFields_self (sh : Shape) (b : Item) : updateFields sh false b b = b := by
  apply item_ext
  · simp [updateFields_length]
  · intro i hi
    rw [merge_local_overlay sh b b i hi]
    cases b.get i <;> rfl

end Spine
