import Spine.Update
namespace Spine

/-! ### `SortData`: a permutation, and sorted when every item carries complete numeric identifiers -/

theorem go_spec (sh : Shape) (x : Item) (l : List Item) :
    sortData.insertRight.go sh x l = l.takeWhile (less sh x) ++ x :: l.dropWhile (less sh x) := by
  induction l with
  | nil => rfl
  | cons y ys ih =>
    simp only [sortData.insertRight.go, List.takeWhile_cons, List.dropWhile_cons]
    by_cases h : less sh x y = true
    · simp [h, ih]
    · simp [h]

theorem go_perm (sh : Shape) (x : Item) (l : List Item) : (sortData.insertRight.go sh x l).Perm (x :: l) := by
  rw [go_spec]
  have h1 : (l.takeWhile (less sh x) ++ x :: l.dropWhile (less sh x)).Perm
      (x :: (l.takeWhile (less sh x) ++ l.dropWhile (less sh x))) := List.perm_middle
  rw [List.takeWhile_append_dropWhile] at h1
  exact h1

theorem insertRight_perm (sh : Shape) (acc : List Item) (x : Item) :
    (sortData.insertRight sh acc x).Perm (x :: acc) := by
  unfold sortData.insertRight
  exact (List.reverse_perm _).trans ((go_perm sh x acc.reverse).trans ((List.reverse_perm acc).cons x))

theorem foldl_insertRight_perm (sh : Shape) (l acc : List Item) :
    (l.foldl (fun a x => sortData.insertRight sh a x) acc).Perm (l.reverse ++ acc) := by
  induction l generalizing acc with
  | nil => simp
  | cons x xs ih =>
    simp only [List.foldl_cons, List.reverse_cons, List.append_assoc, List.singleton_append]
    exact (ih _).trans ((insertRight_perm sh acc x).append_left _)

/-- C02: sorting neither loses nor invents items -/
theorem sortData_perm (sh : Shape) (l : List Item) : (sortData sh l).Perm l := by
  unfold sortData
  split
  · exact List.Perm.refl _
  · have := foldl_insertRight_perm sh l []
    simp only [List.append_nil] at this
    exact this.trans (List.reverse_perm l)

/-! the identifier vector of an item whose keys are all numeric and present -/

def keyVec (sh : Shape) (it : Item) : List Nat := sh.keys.map fun k => (it.get k.1).getD 0

def Keyed (sh : Shape) (it : Item) : Prop := ∀ k ∈ sh.keys, k.2 = .uint ∧ (it.get k.1).isSome = true

/-- lexicographic "less" on vectors of equal length -/
def lexLt : List Nat → List Nat → Bool
  | x :: xs, y :: ys => if x != y then x < y else lexLt xs ys
  | _, _ => false

theorem less_eq_lexLt (sh : Shape) (a b : Item) (ha : Keyed sh a) (hb : Keyed sh b) :
    less sh a b = lexLt (keyVec sh a) (keyVec sh b) := by
  unfold less keyVec Keyed at *
  generalize sh.keys = ks at ha hb
  induction ks with
  | nil => rfl
  | cons k ks ih =>
    obtain ⟨i, kind⟩ := k
    have ⟨hk, hsa⟩ := ha (i, kind) List.mem_cons_self
    have ⟨_, hsb⟩ := hb (i, kind) List.mem_cons_self
    simp only at hk hsa hsb
    subst hk
    cases hga : a.get i with
    | none => rw [hga] at hsa; simp at hsa
    | some x =>
      cases hgb : b.get i with
      | none => rw [hgb] at hsb; simp at hsb
      | some y =>
        simp only [less.go, hga, hgb, List.map_cons, Option.getD_some, lexLt]
        have := ih (fun k hk => ha k (List.mem_cons_of_mem _ hk)) (fun k hk => hb k (List.mem_cons_of_mem _ hk))
        simp [this]

theorem lexLt_asymm : ∀ (u v : List Nat), lexLt u v = true → lexLt v u = false
  | [], _, h => by simp [lexLt] at h
  | _ :: _, [], h => by simp [lexLt] at h
  | x :: xs, y :: ys, h => by
    simp only [lexLt] at h ⊢
    by_cases hxy : x = y
    · subst hxy; simp at h ⊢; exact lexLt_asymm xs ys h
    · have hyx : ¬ y = x := fun h' => hxy h'.symm
      simp [hxy, hyx] at h ⊢; omega

/-- "not less" is transitive on vectors of one length -/
theorem lexLt_negtrans : ∀ (u v w : List Nat), u.length = v.length → v.length = w.length →
    lexLt v u = false → lexLt w v = false → lexLt w u = false
  | [], _, w, _, _, _, _ => by cases w <;> simp [lexLt]
  | _ :: _, [], _, h1, _, _, _ => by simp at h1
  | _ :: _, _ :: _, [], _, h2, _, _ => by simp at h2
  | x :: xs, y :: ys, z :: zs, h1, h2, hvu, hwv => by
    simp only [List.length_cons, Nat.add_right_cancel_iff] at h1 h2
    simp only [lexLt] at hvu hwv ⊢
    by_cases hxy : y = x
    · subst hxy
      by_cases hzy : z = y
      · subst hzy
        simp at hvu hwv ⊢
        exact lexLt_negtrans xs ys zs h1 h2 hvu hwv
      · simp [hzy] at hwv ⊢; omega
    · simp [hxy] at hvu
      by_cases hzy : z = y
      · subst hzy; simp [hxy]; omega
      · simp [hzy] at hwv
        by_cases hzx : z = x
        · omega
        · simp [hzx]; omega

theorem of_mem_takeWhile {α} (p : α → Bool) : ∀ (l : List α) (s : α), s ∈ l.takeWhile p → p s = true
  | [], _, h => by cases h
  | y :: ys, s, h => by
    simp only [List.takeWhile_cons] at h
    split at h
    · rename_i hy
      rcases List.mem_cons.mp h with rfl | h'
      · exact hy
      · exact of_mem_takeWhile p ys s h'
    · cases h

theorem head_dropWhile {α} (p : α → Bool) : ∀ (l : List α) (z : α) (zs : List α), l.dropWhile p = z :: zs → p z = false
  | [], _, _, h => by cases h
  | y :: ys, z, zs, h => by
    simp only [List.dropWhile_cons] at h
    split at h
    · exact head_dropWhile p ys z zs h
    · rename_i hy
      injection h with h1 _
      subst h1
      simpa using hy

def Sorted (sh : Shape) (l : List Item) : Prop := l.Pairwise fun a b => less sh b a = false

theorem keyVec_length (sh : Shape) (a : Item) : (keyVec sh a).length = sh.keys.length := by simp [keyVec]

theorem insertRight_sorted (sh : Shape) (acc : List Item) (x : Item) (hs : Sorted sh acc)
    (hk : ∀ a ∈ acc, Keyed sh a) (hx : Keyed sh x) : Sorted sh (sortData.insertRight sh acc x) := by
  unfold sortData.insertRight
  rw [go_spec]
  -- in chronological order: prefix ++ [x] ++ suffix, where the suffix is the run of items greater than x
  have hrev : (acc.reverse.takeWhile (less sh x) ++ x :: acc.reverse.dropWhile (less sh x)).reverse =
      (acc.reverse.dropWhile (less sh x)).reverse ++ x :: (acc.reverse.takeWhile (less sh x)).reverse := by
    simp
  rw [hrev]
  have hsplit : acc = (acc.reverse.dropWhile (less sh x)).reverse ++ (acc.reverse.takeWhile (less sh x)).reverse := by
    rw [← List.reverse_append, List.takeWhile_append_dropWhile, List.reverse_reverse]
  have hsP : Sorted sh (acc.reverse.dropWhile (less sh x)).reverse := by
    unfold Sorted at hs ⊢; rw [hsplit] at hs; exact (List.pairwise_append.mp hs).1
  have hsS : Sorted sh (acc.reverse.takeWhile (less sh x)).reverse := by
    unfold Sorted at hs ⊢; rw [hsplit] at hs; exact (List.pairwise_append.mp hs).2.1
  have hcross : ∀ p ∈ (acc.reverse.dropWhile (less sh x)).reverse, ∀ s ∈ (acc.reverse.takeWhile (less sh x)).reverse,
      less sh s p = false := by
    unfold Sorted at hs; rw [hsplit] at hs; exact (List.pairwise_append.mp hs).2.2
  have hmemP : ∀ p ∈ (acc.reverse.dropWhile (less sh x)).reverse, p ∈ acc := by
    intro p hp; rw [hsplit]; exact List.mem_append_left _ hp
  have hmemS : ∀ s ∈ (acc.reverse.takeWhile (less sh x)).reverse, s ∈ acc := by
    intro s hs'; rw [hsplit]; exact List.mem_append_right _ hs'
  -- every item of the suffix is greater than x
  have hS : ∀ s ∈ (acc.reverse.takeWhile (less sh x)).reverse, less sh x s = true := by
    intro s hs'
    exact of_mem_takeWhile _ _ s (List.mem_reverse.mp hs')
  -- every item of the prefix is not greater than x
  have hP : ∀ p ∈ (acc.reverse.dropWhile (less sh x)).reverse, less sh x p = false := by
    intro p hp
    have hp' : p ∈ acc.reverse.dropWhile (less sh x) := List.mem_reverse.mp hp
    cases hd : acc.reverse.dropWhile (less sh x) with
    | nil => rw [hd] at hp'; cases hp'
    | cons z zs =>
      have hz : less sh x z = false := head_dropWhile _ _ z zs hd
      rw [hd] at hp'
      rcases List.mem_cons.mp hp' with rfl | hpz
      · exact hz
      · -- p comes before z in `acc`, so p ≤ z ≤ x
        have hzP : z ∈ (acc.reverse.dropWhile (less sh x)).reverse := by rw [hd]; simp
        have hpz' : less sh z p = false := by
          have hsP' := hsP
          unfold Sorted at hsP'
          rw [hd, List.reverse_cons] at hsP'
          exact (List.pairwise_append.mp hsP').2.2 p (List.mem_reverse.mpr hpz) z (by simp)
        have hkp := hk p (hmemP p hp)
        have hkz := hk z (hmemP z hzP)
        rw [less_eq_lexLt sh x p hx hkp]
        rw [less_eq_lexLt sh z p hkz hkp] at hpz'
        rw [less_eq_lexLt sh x z hx hkz] at hz
        exact lexLt_negtrans _ _ _ (by simp [keyVec_length]) (by simp [keyVec_length]) hpz' hz
  unfold Sorted
  rw [List.pairwise_append]
  refine ⟨hsP, ?_, ?_⟩
  · rw [List.pairwise_cons]
    refine ⟨?_, hsS⟩
    intro s hs'
    have := hS s hs'
    rw [less_eq_lexLt sh x s hx (hk s (hmemS s hs'))] at this
    rw [less_eq_lexLt sh s x (hk s (hmemS s hs')) hx]
    exact lexLt_asymm _ _ this
  · intro p hp b hb
    rcases List.mem_cons.mp hb with rfl | hb
    · exact hP p hp
    · exact hcross p hp b hb

/-- C02: when every item carries complete numeric identifiers, the result is ordered by identifier -/
theorem sortData_sorted (sh : Shape) (l : List Item) (hne : sh.keys.isEmpty = false) (hk : ∀ a ∈ l, Keyed sh a) :
    Sorted sh (sortData sh l) := by
  unfold sortData
  simp only [hne, Bool.false_eq_true, if_false]
  suffices ∀ acc, Sorted sh acc → (∀ a ∈ acc, Keyed sh a) →
      Sorted sh (l.foldl (fun a x => sortData.insertRight sh a x) acc) ∧ True from
    (this [] (by simp [Sorted]) (by simp)).1
  induction l with
  | nil => intro acc hs _; exact ⟨hs, trivial⟩
  | cons x xs ih =>
    intro acc hs hka
    have hx := hk x List.mem_cons_self
    have hs' := insertRight_sorted sh acc x hs hka hx
    have hk' : ∀ a ∈ sortData.insertRight sh acc x, Keyed sh a := by
      intro a ha
      have := (insertRight_perm sh acc x).subset ha
      rcases List.mem_cons.mp this with rfl | h
      · exact hx
      · exact hka a h
    exact ih (fun a ha => hk a (List.mem_cons_of_mem _ ha)) _ hs' hk'

end Spine
