import Spine.Callbacks
/-! C14, registrations from several goroutines: the registration as the source allows it to be scheduled.

    `Spine.CB` has `register` as ONE event: duplicate check and insertion in one critical section. Whether that is so
    is a fact about the source (regenerated: `Spine.Generated.Callbacks.registerOneSection`). This wrapper adds the
    other member: the check in a critical section of its own (`regCheck`), the insertion in a later one
    (`regInsert`) — check-then-act. `admitted` says which events the code can produce given the fact. -/
namespace Spine.CBC
open Spine.CB

inductive Ev
  | atomic (e : CB.Ev)                  -- an event of `Spine.CB`: one critical section
  | regCheck (op f c cb : Nat)          -- split registration `op`: the duplicate check …
  | regInsert (op : Nat)                -- … and, in a later critical section, the insertion

structure St where
  core : CB.St := {}
  checked : List (Nat × Nat × Nat × Nat) := []    -- registrations past their check: (op, feature, counter, function)

def step (b : Bool) (s : St) : Ev → St
  | .atomic e => { s with core := CB.step b s.core e }
  | .regCheck op f c cb =>
    if s.core.regs.any (isDup f c cb) then s else { s with checked := (op, f, c, cb) :: s.checked }
  | .regInsert op =>
    match s.checked.find? (·.1 = op) with
    | none => s
    | some (_, f, c, cb) =>
      { core := { s.core with next := s.core.next + 1, regs := s.core.regs ++ [⟨s.core.next, f, c, cb⟩] },
        checked := s.checked.filter (·.1 ≠ op) }

def run (b : Bool) (evs : List Ev) : St := evs.foldl (step b) {}

/-- the events the code can produce: with the check and the insertion in one critical section only the atomic
    ones; otherwise the split ones as well -/
def admitted (registerOneSection : Bool) : Ev → Bool
  | .atomic _ => true
  | .regCheck .. => !registerOneSection
  | .regInsert _ => !registerOneSection

/-- no two waiting registrations of the same function for the same counter on the same feature -/
def NoDupWaiting (regs : List Reg) : Prop :=
  regs.Pairwise fun r1 r2 => ¬ (r1.feat = r2.feat ∧ r1.ctr = r2.ctr ∧ r1.cb = r2.cb)

theorem cb_step_noDup (b : Bool) (s : CB.St) (e : CB.Ev) (h : NoDupWaiting s.regs) : NoDupWaiting (CB.step b s e).regs := by
  cases e with
  | register f c cb =>
    simp only [CB.step]
    split
    · exact h
    · rename_i hn
      simp only [NoDupWaiting, List.pairwise_append, List.pairwise_cons, List.Pairwise.nil, List.not_mem_nil,
        false_imp_iff, implies_true, and_true, true_and, List.mem_singleton, forall_eq]
      refine ⟨h, ?_⟩
      intro r hr hd
      apply hn
      simp only [List.any_eq_true]
      exact ⟨r, hr, by simp [isDup, hd.1, hd.2.1, hd.2.2]⟩
  | registerResult f cb => exact h
  | arrive a f ref reply acc d src =>
    simp only [CB.step]
    split
    · exact h
    · exact List.Pairwise.sublist List.filter_sublist h
  | resultCbs a f d src => exact h

/-- "registering the same callback twice for one counter is refused", ALL schedules: when the duplicate check and the
    insertion are one critical section, under every interleaving of any number of registering goroutines with
    arrivals no function is ever waiting twice for one counter of one feature — hence (`CB.step`, `arrive`) one
    reply invokes it once. -/
theorem no_duplicate_waiting (b : Bool) (evs : List Ev) (h : ∀ e ∈ evs, admitted true e = true) :
    NoDupWaiting (run b evs).core.regs := by
  unfold run
  suffices ∀ s : St, NoDupWaiting s.core.regs → NoDupWaiting (evs.foldl (step b) s).core.regs from
    this {} (by simp [NoDupWaiting])
  induction evs with
  | nil => intro s hs; exact hs
  | cons e es ih =>
    intro s hs
    simp only [List.foldl_cons]
    apply ih (fun e' he' => h e' (List.mem_cons_of_mem _ he'))
    have he := h e List.mem_cons_self
    cases e with
    | atomic e0 => exact cb_step_noDup b s.core e0 hs
    | regCheck op f c cb => simp [admitted] at he
    | regInsert op => simp [admitted] at he

/-- check-then-act: two goroutines register the same function for the same counter; both pass the check before
    either inserts; ONE reply then invokes the function twice -/
theorem split_registration_witness :
    let evs : List Ev := [.regCheck 1 1 5 7, .regCheck 2 1 5 7, .regInsert 1, .regInsert 2,
      .atomic (.arrive 100 1 5 true true 3 2)]
    (∀ e ∈ evs, admitted false e = true) ∧ (run true evs).core.fired = [⟨0, 100, 3, 2⟩, ⟨1, 100, 3, 2⟩] := by decide

end Spine.CBC
