import Spine.LocalTree
/-! A detailed-discovery read as EVENTS (C07, second deepening wave): `processReadDetailedDiscoveryData`
    (spine/nodemanagement_detaileddiscovery.go:22-50) is not one critical section. It

    * takes the entity list once (`Device().Entities()`, device lock; the slice header is a snapshot: AddEntity appends
      behind it, RemoveEntity builds a new slice),
    * for every entity of that list, in order: `Information()` (address and type, immutable) and `Features()` (entity
      lock; again a slice header, GetOrAddFeature / AddFeature append behind it) — one event `ent`,
    * for every feature of that slice, in order: `FeatureLocal.Information()`, which copies the operations map under
      the feature's description lock (`Operations()`, event `ops`) and then reads the description under the same lock
      taken a second time (`Description()`, event `descr`); type, role and address are immutable,
    * sends the reply.

    Between any two of these events the application may call GetOrAddFeature, NextFeatureId, AddFunctionType,
    SetDescriptionString, AddEntity, RemoveEntity (`Ev.app`). `tick` performs the next event of the read in progress
    on the state it meets — the read's program order is fixed, so a schedule is a list of `tick` / `app o`.
    Features are identified by their number within the entity object (unique under `Inv`); there is no API that
    removes a feature from an entity. Core Lean only (the driver imports this file). -/
namespace Spine.LTree

/-- a read in progress -/
structure Rd where
  peer : Nat
  ents : List Nat := []                    -- entities of the snapshot still to be rendered
  cur : Nat := 0                           -- the entity being rendered
  todo : List Nat := []                    -- feature numbers of `cur` (snapshot) still to be rendered
  pend : Option (Nat × List Fn) := none    -- feature whose operations were copied; its description is read next
  outE : List (Nat × Nat) := []
  outF : List (Nat × Feat) := []
deriving DecidableEq, Repr

def fnsOf (s : St) (k id : Nat) : List Fn :=
  match (s.pool k).feats.find? (·.id = id) with
  | some f => f.fns
  | none => []

/-- the feature entry completed by the `descr` event: number, type, role (immutable), the description as it is NOW
    and the functions copied before -/
def entryOf (s : St) (k id : Nat) (fns : List Fn) : Feat :=
  match (s.pool k).feats.find? (·.id = id) with
  | some f => ⟨id, f.typ, f.role, f.descr, fns⟩
  | none => ⟨id, 0, 0, 0, fns⟩

/-- `Entities()` -/
def rbegin (s : St) (p : Nat) : Rd := { peer := p, ents := s.attached }

def tickDescr (s : St) (rd : Rd) (id : Nat) (fns : List Fn) : Rd :=
  { rd with pend := none, outF := rd.outF ++ [(rd.cur, entryOf s rd.cur id fns)] }

def tickOps (s : St) (rd : Rd) (id : Nat) (t : List Nat) : Rd :=
  { rd with todo := t, pend := some (id, fnsOf s rd.cur id) }

def tickEnt (s : St) (rd : Rd) (k : Nat) (es : List Nat) : Rd :=
  { rd with ents := es, cur := k, todo := (s.pool k).feats.map (·.id), outE := rd.outE ++ [(k, (s.pool k).etype)] }

/-- the next event of the read, performed on state `s` (the read changes nothing in the tree) -/
def tick (s : St) (rd : Rd) : Rd :=
  match rd.pend with
  | some (id, fns) => tickDescr s rd id fns
  | none =>
    match rd.todo with
    | id :: t => tickOps s rd id t
    | [] =>
      match rd.ents with
      | k :: es => tickEnt s rd k es
      | [] => rd

def Rd.done (rd : Rd) : Bool := rd.pend.isNone && rd.todo.isEmpty && rd.ents.isEmpty

/-- the reply sent when the walk is over -/
def Rd.reply (s : St) (rd : Rd) : Obs := .reply rd.peer s.dev rd.outE rd.outF

/-- the read is about to render entity k (this is where the harness can hold it: a gate in k's `Information()`) -/
def Rd.atEnt (rd : Rd) (k : Nat) : Bool := rd.pend.isNone && rd.todo.isEmpty && rd.ents.head? == some k

inductive Ev
  | tick
  | app (o : Op)
deriving DecidableEq, Repr

/-- one event of a schedule: the read moves, or the application calls `o` (its observations are collected) -/
def evStep (x : St × Rd × List Obs) : Ev → St × Rd × List Obs
  | .tick => (x.1, tick x.1 x.2.1, x.2.2)
  | .app o => ((step x.1 o).1, x.2.1, x.2.2 ++ (step x.1 o).2)

/-- peer p's read runs under the schedule `evs`, starting in state s -/
def runRead (s : St) (p : Nat) (evs : List Ev) : St × Rd × List Obs := evs.foldl evStep (s, rbegin s p, [])

/-! ### what the rest of the walk would render if nothing interfered -/

/-- the entry of feature `id` of entity k rendered at once -/
def renderFeat (s : St) (k id : Nat) : Nat × Feat := (k, entryOf s k id (fnsOf s k id))

def renderEntsE (s : St) (ks : List Nat) : List (Nat × Nat) := ks.map fun k => (k, (s.pool k).etype)
def renderEntsF (s : St) (ks : List Nat) : List (Nat × Feat) :=
  ks.flatMap fun k => ((s.pool k).feats.map (·.id)).map fun id => renderFeat s k id

def pendF (s : St) (rd : Rd) : List (Nat × Feat) :=
  match rd.pend with
  | some (id, fns) => [(rd.cur, entryOf s rd.cur id fns)]
  | none => []

/-- the reply lists the read would end with if every remaining event met state `s` -/
def completeE (s : St) (rd : Rd) : List (Nat × Nat) := rd.outE ++ renderEntsE s rd.ents
def completeF (s : St) (rd : Rd) : List (Nat × Feat) :=
  rd.outF ++ pendF s rd ++ rd.todo.map (renderFeat s rd.cur) ++ renderEntsF s rd.ents

/-- run ticks until the read is about to render entity k, or over (fuel: an upper bound of the events left) -/
def tickUntil (s : St) (k : Nat) : Nat → Rd → Rd
  | 0, rd => rd
  | n + 1, rd => if rd.done || rd.atEnt k then rd else tickUntil s k n (tick s rd)

def tickAll (s : St) : Nat → Rd → Rd
  | 0, rd => rd
  | n + 1, rd => if rd.done then rd else tickAll s n (tick s rd)

/-- an upper bound of the number of events a read has left in state s -/
def fuelOf (s : St) (rd : Rd) : Nat :=
  2 + 2 * rd.todo.length + rd.ents.length + 2 * (rd.ents.map fun k => (s.pool k).feats.length).sum

end Spine.LTree
