import Spine.HeapThm
import Spine.C04Thm
/-!
# C04 clause 4 beyond the merge path: a write answered with success has applied ALL of its changes

`copyToSelectedData`, `copyToAllData` and `deleteFilteredData` skip (`continue`) the elements a remote write may not
touch and report that by `success = false`. "Success ⇒ applied" therefore reads: whenever such a function reports
success, its result is the COMPLETE application — the function one gets by deleting the writability test and the
skip altogether (`selApplied`, `allApplied`, `delApplied` below mention `writeAllowed` nowhere). That is proved
here for every member of the engine family, every shape, every list, local and remote; then composed through
`UpdateList` (`updateListF_success_applied`) and through `FunctionData.UpdateData` on the heap
(`updateData_success_applied`); element-level corollaries say what "applied" means field by field.
-/
namespace Spine

/-! ### the complete applications (no writability test anywhere) -/

/-- selector update, completely applied: the first matching item receives the overlay -/
def selApplied (c : UCfg) (sh : Shape) (remote : Bool) (sel nw : Item) : List Item → List Item
  | [] => []
  | x :: xs => match selectorMatchF c sh sel x with
    | .ok true => copyNonNilF c sh remote nw x :: xs
    | _ => x :: selApplied c sh remote sel nw xs

/-- identifier-less update, completely applied: every item receives the overlay -/
def allApplied (c : UCfg) (sh : Shape) (remote : Bool) (nw : Item) (ex : List Item) : List Item :=
  ex.map (copyNonNilF c sh remote nw)

/-- does the delete filter hit the item (a panic of `SelectorMatch` counts as no) -/
def hitB (c : UCfg) (sh : Shape) (f : Filter) (x : Item) : Bool :=
  match hitOf c sh f x with
  | .ok b => b
  | .panic _ => false

/-- delete filter, completely applied: hit items are removed (selector alone) resp. lose the named elements -/
def delApplied (c : UCfg) (sh : Shape) (remote : Bool) (f : Filter) (ex : List Item) : List Item :=
  ex.filterMap fun x =>
    if delKeep f (hitB c sh f x) then some (delItem c sh remote f (hitB c sh f x) x) else none

theorem delKeep_false (f : Filter) : delKeep f false = true := by
  obtain ⟨fs, fe⟩ := f
  cases fs <;> cases fe <;> rfl

theorem delItem_false (c : UCfg) (sh : Shape) (remote : Bool) (f : Filter) (x : Item) :
    delItem c sh remote f false x = x := by
  obtain ⟨fs, fe⟩ := f
  cases fe <;> simp [delItem]

/-! ### success of each function ⇒ complete application -/

theorem copyToSelectedF_success (c : UCfg) (sh : Shape) (remote : Bool) (sel nw : Item) :
    ∀ (ex r : List Item), copyToSelectedF.go c sh remote sel nw ex = .ok (r, true) →
      r = selApplied c sh remote sel nw ex
  | [], r, h => by
    simp only [copyToSelectedF.go, Outcome.ok.injEq, Prod.mk.injEq] at h
    simp [selApplied, h.1]
  | x :: xs, r, h => by
    simp only [copyToSelectedF.go] at h
    cases hm : selectorMatchF c sh sel x with
    | panic s => rw [hm] at h; simp at h
    | ok m =>
      rw [hm] at h
      cases m with
      | false =>
        simp only at h
        cases hrec : copyToSelectedF.go c sh remote sel nw xs with
        | panic s => rw [hrec] at h; simp at h
        | ok rb =>
          obtain ⟨r', b'⟩ := rb
          rw [hrec] at h
          simp only [Outcome.ok.injEq, Prod.mk.injEq] at h
          obtain ⟨rfl, rfl⟩ := h
          have ih := copyToSelectedF_success c sh remote sel nw xs r' hrec
          simp [selApplied, hm, ih]
      | true =>
        simp only at h
        split at h
        · cases hrec : copyToSelectedF.go c sh remote sel nw xs with
          | panic s => rw [hrec] at h; simp at h
          | ok rb =>
            obtain ⟨r', b'⟩ := rb
            rw [hrec] at h
            simp at h
        · simp only [Outcome.ok.injEq, Prod.mk.injEq] at h
          simp [selApplied, hm, h.1]

/-- … and the first matching item of a successful REMOTE selector write was writable -/
theorem copyToSelectedF_success_writable (c : UCfg) (sh : Shape) (sel nw : Item) :
    ∀ (pre : List Item) (x : Item) (post r : List Item),
      copyToSelectedF.go c sh true sel nw (pre ++ x :: post) = .ok (r, true) →
      (∀ y ∈ pre, selectorMatchF c sh sel y = .ok false) → selectorMatchF c sh sel x = .ok true →
      writeAllowed sh x = true
  | [], x, post, r, h, _, hx => by
    simp only [List.nil_append, copyToSelectedF.go, hx] at h
    cases hw : writeAllowed sh x with
    | true => rfl
    | false =>
      simp only [hw, Bool.not_false, Bool.and_self, if_true] at h
      cases hrec : copyToSelectedF.go c sh true sel nw post with
      | panic s => rw [hrec] at h; simp at h
      | ok rb => obtain ⟨r', b'⟩ := rb; rw [hrec] at h; simp at h
  | p :: pre, x, post, r, h, hpre, hx => by
    have hp := hpre p List.mem_cons_self
    simp only [List.cons_append, copyToSelectedF.go, hp] at h
    cases hrec : copyToSelectedF.go c sh true sel nw (pre ++ x :: post) with
    | panic s => rw [hrec] at h; simp at h
    | ok rb =>
      obtain ⟨r', b'⟩ := rb
      rw [hrec] at h
      simp only [Outcome.ok.injEq, Prod.mk.injEq] at h
      obtain ⟨_, rfl⟩ := h
      exact copyToSelectedF_success_writable c sh sel nw pre x post r' hrec
        (fun y hy => hpre y (List.mem_cons_of_mem _ hy)) hx

theorem selApplied_first_match (c : UCfg) (sh : Shape) (remote : Bool) (sel nw : Item) :
    ∀ (pre : List Item) (x : Item) (post : List Item),
      (∀ y ∈ pre, selectorMatchF c sh sel y = .ok false) → selectorMatchF c sh sel x = .ok true →
      selApplied c sh remote sel nw (pre ++ x :: post) = pre ++ copyNonNilF c sh remote nw x :: post
  | [], x, post, _, hx => by simp [selApplied, hx]
  | p :: pre, x, post, hpre, hx => by
    have hp := hpre p List.mem_cons_self
    simp only [List.cons_append, selApplied, hp]
    rw [selApplied_first_match c sh remote sel nw pre x post (fun y hy => hpre y (List.mem_cons_of_mem _ hy)) hx]

theorem copyToAllF_success (c : UCfg) (sh : Shape) (remote : Bool) (ex : List Item) (nw : Item)
    (h : (copyToAllF c sh remote ex nw).2 = true) :
    (copyToAllF c sh remote ex nw).1 = allApplied c sh remote nw ex ∧
    (remote = true → ∀ x ∈ ex, writeAllowed sh x = true) := by
  simp only [copyToAllF, Bool.not_eq_true', Bool.and_eq_false_imp] at h
  cases remote with
  | false => simp [copyToAllF, allApplied]
  | true =>
    have hall : ∀ x ∈ ex, writeAllowed sh x = true := by
      have := h rfl
      rw [List.any_eq_false] at this
      intro x hx
      simpa using this x hx
    refine ⟨?_, fun _ => hall⟩
    simp only [copyToAllF, allApplied]
    exact List.map_congr_left fun x hx => by simp [hall x hx]

theorem deleteFilteredF_success (c : UCfg) (sh : Shape) (remote : Bool) (f : Filter) :
    ∀ (ex ip out : List Item), deleteFilteredF.go c sh remote f ex = .ok (ip, out, true) →
      out = delApplied c sh remote f ex ∧
      (remote = true → ∀ x ∈ ex, writeAllowed sh x = false → c.deleteStrict = false ∧ hitOf c sh f x = .ok false)
  | [], ip, out, h => by
    simp only [deleteFilteredF.go, Outcome.ok.injEq, Prod.mk.injEq] at h
    obtain ⟨_, rfl, _⟩ := h
    exact ⟨rfl, fun _ x hx => by cases hx⟩
  | x :: xs, ip, out, h => by
    simp only [deleteFilteredF.go] at h
    split at h
    · -- unwritable item under a remote write
      rename_i hun
      simp only [Bool.and_eq_true, Bool.not_eq_true'] at hun
      split at h
      · cases hrec : deleteFilteredF.go c sh remote f xs with
        | panic s => rw [hrec] at h; simp at h
        | ok t => obtain ⟨ip', out', ok'⟩ := t; rw [hrec] at h; simp at h
      · rename_i hds
        cases hm : hitOf c sh f x with
        | panic s => rw [hm] at h; simp at h
        | ok hit =>
          rw [hm] at h
          simp only at h
          cases hrec : deleteFilteredF.go c sh remote f xs with
          | panic s => rw [hrec] at h; simp at h
          | ok t =>
            obtain ⟨ip', out', ok'⟩ := t
            rw [hrec] at h
            simp only [Outcome.ok.injEq, Prod.mk.injEq, Bool.and_eq_true, Bool.not_eq_true'] at h
            obtain ⟨_, rfl, rfl, rfl⟩ := h
            obtain ⟨ih1, ih2⟩ := deleteFilteredF_success c sh remote f xs ip' out' hrec
            refine ⟨?_, ?_⟩
            · have hb : hitB c sh f x = false := by simp [hitB, hm]
              simp only [delApplied, List.filterMap_cons, hb, delKeep_false, delItem_false, if_true]
              rw [ih1]; rfl
            · intro hr y hy hwy
              rw [List.mem_cons] at hy
              rcases hy with rfl | hy
              · exact ⟨by simpa using hds, hm⟩
              · exact ih2 hr y hy hwy
    · rename_i hun
      cases hm : hitOf c sh f x with
      | panic s => rw [hm] at h; simp at h
      | ok hit =>
        rw [hm] at h
        simp only at h
        cases hrec : deleteFilteredF.go c sh remote f xs with
        | panic s => rw [hrec] at h; simp at h
        | ok t =>
          obtain ⟨ip', out', ok'⟩ := t
          rw [hrec] at h
          simp only [Outcome.ok.injEq, Prod.mk.injEq] at h
          obtain ⟨_, rfl, rfl⟩ := h
          obtain ⟨ih1, ih2⟩ := deleteFilteredF_success c sh remote f xs ip' out' hrec
          refine ⟨?_, ?_⟩
          · simp only [delApplied, List.filterMap_cons, hitB, hm]
            split <;> simp_all [delApplied, hitB]
          · intro hr y hy hwy
            rw [List.mem_cons] at hy
            rcases hy with rfl | hy
            · subst hr
              simp [hwy] at hun
            · exact ih2 hr y hy hwy

/-! ### composed through `UpdateList` -/

/-- the delete phase, completely applied -/
def delPhaseApplied (c : UCfg) (sh : Shape) (remote : Bool) (fd : Option Filter) (ex : List Item) : List Item :=
  match fd with
  | none => ex
  | some f => if f.sel.isNone && f.el.isNone then ex else delApplied c sh remote f ex

/-- the partial phase, completely applied to the list the delete phase left -/
def partialApplied (c : UCfg) (sh : Shape) (remote : Bool) (nw : List Item) (fp : Option Filter)
    (cur : List Item) : List Item :=
  match fp, nw with
  | some f, n0 :: _ =>
    (match f.sel with
     | none => cur
     | some sel => selApplied c sh remote sel n0 cur)
  | _, n0 :: _ =>
    if !hasIdentifiers sh n0 then allApplied c sh remote n0 cur else sortData sh (mergeF c sh remote cur nw).1
  | _, [] => sortData sh (mergeF c sh remote cur nw).1

theorem deletePhaseF_success (c : UCfg) (sh : Shape) (remote : Bool) (ex : List Item) (fd : Option Filter)
    (orig cur : List Item) (aliased : Bool)
    (h : deletePhaseF c sh remote ex fd = .ok (orig, cur, aliased, true)) :
    cur = delPhaseApplied c sh remote fd ex ∧ (aliased = true → orig = cur) := by
  unfold deletePhaseF at h
  cases fd with
  | none =>
    simp only [Outcome.ok.injEq, Prod.mk.injEq] at h
    obtain ⟨rfl, rfl, _, _⟩ := h
    exact ⟨rfl, fun _ => rfl⟩
  | some f =>
    simp only at h
    split at h
    · rename_i hn
      simp only [Outcome.ok.injEq, Prod.mk.injEq] at h
      obtain ⟨rfl, rfl, _, _⟩ := h
      exact ⟨by simp [delPhaseApplied, hn], fun _ => rfl⟩
    · rename_i hn
      unfold deleteFilteredF at h
      cases hg : deleteFilteredF.go c sh remote f ex with
      | panic s => rw [hg] at h; simp at h
      | ok t =>
        obtain ⟨ip, out, ok⟩ := t
        rw [hg] at h
        cases ok with
        | false => simp at h
        | true =>
          simp only [if_true, Outcome.ok.injEq, Prod.mk.injEq] at h
          obtain ⟨rfl, rfl, rfl, _⟩ := h
          refine ⟨?_, fun hh => by cases hh⟩
          simp only [delPhaseApplied, hn, Bool.false_eq_true, if_false]
          exact (deleteFilteredF_success c sh remote f ex ip out hg).1

/-- whenever the delete phase hands on an aliased list, it IS the caller's array content -/
theorem deletePhaseF_aliased (c : UCfg) (sh : Shape) (remote : Bool) (ex : List Item) (fd : Option Filter)
    (orig cur : List Item) (ok0 : Bool)
    (h : deletePhaseF c sh remote ex fd = .ok (orig, cur, true, ok0)) : orig = cur := by
  unfold deletePhaseF at h
  cases fd with
  | none =>
    simp only [Outcome.ok.injEq, Prod.mk.injEq] at h
    obtain ⟨rfl, rfl, _, _⟩ := h
    rfl
  | some f =>
    simp only at h
    split at h
    · simp only [Outcome.ok.injEq, Prod.mk.injEq] at h
      obtain ⟨rfl, rfl, _, _⟩ := h
      rfl
    · cases hg : deleteFilteredF c sh remote ex f with
      | panic s => rw [hg] at h; simp at h
      | ok t =>
        obtain ⟨ip, out, ok⟩ := t
        rw [hg] at h
        cases ok with
        | false =>
          simp only [Bool.false_eq_true, if_false, Outcome.ok.injEq, Prod.mk.injEq] at h
          obtain ⟨rfl, rfl, _, _⟩ := h
          rfl
        | true => simp at h

theorem tailF_success (c : UCfg) (sh : Shape) (remote : Bool) (orig cur : List Item) (aliased ok0 : Bool)
    (nw : List Item) (hok : (tailF c sh remote orig cur aliased ok0 nw).ok = true) :
    (tailF c sh remote orig cur aliased ok0 nw).out = partialApplied c sh remote nw none cur := by
  unfold tailF at hok ⊢
  cases nw with
  | nil => simp [partialApplied]
  | cons n0 rest =>
    simp only at hok ⊢
    by_cases hid : hasIdentifiers sh n0 = true
    · simp [hid, partialApplied]
    · have hid' : hasIdentifiers sh n0 = false := by simpa using hid
      simp only [hid', Bool.not_false, if_true, Bool.and_eq_true] at hok ⊢
      simp only [partialApplied, hid', Bool.not_false, if_true]
      exact (copyToAllF_success c sh remote cur n0 hok.2).1

/-- **Success ⇒ applied, whole `UpdateList` call** (every member, every shape, local or remote, all seven filter
    shapes): if the call reports success, the list it returns is the complete application of the partial part to
    the complete application of the delete part. -/
theorem updateListF_success_applied (c : UCfg) (sh : Shape) (remote : Bool) (ex nw : List Item)
    (fp fd : Option Filter) (r : Res) (h : updateListF c sh remote ex nw fp fd = .ok r) (hok : r.ok = true) :
    r.out = partialApplied c sh remote nw fp (delPhaseApplied c sh remote fd ex) := by
  unfold updateListF at h
  cases hd : deletePhaseF c sh remote ex fd with
  | panic s => rw [hd] at h; simp at h
  | ok t =>
    obtain ⟨orig, cur, aliased, ok0⟩ := t
    rw [hd] at h
    simp only at h
    -- every branch of the partial phase has `ok = ok0 && …`
    have hok0 : ok0 = true := by
      unfold partialPhaseF at h
      cases fp with
      | none =>
        simp only [Outcome.ok.injEq] at h
        subst h
        unfold tailF at hok
        cases nw with
        | nil => simp only [Bool.and_eq_true] at hok; exact hok.1
        | cons n0 rest =>
          simp only at hok
          split at hok <;> (simp only [Bool.and_eq_true] at hok; exact hok.1)
      | some f =>
        cases nw with
        | nil =>
          simp only at h
          split at h
          · simp at h
          · simp only [Outcome.ok.injEq] at h
            subst h
            unfold tailF at hok
            simp only [Bool.and_eq_true] at hok; exact hok.1
        | cons n0 rest =>
          simp only at h
          cases hs : f.sel with
          | none =>
            rw [hs] at h
            simp only [Outcome.ok.injEq] at h
            subst h; exact hok
          | some sel =>
            rw [hs] at h
            simp only at h
            cases hc : copyToSelectedF c sh remote cur sel n0 with
            | panic s => rw [hc] at h; simp at h
            | ok rb =>
              obtain ⟨r', ok1⟩ := rb
              rw [hc] at h
              simp only [Outcome.ok.injEq] at h
              subst h
              simp only [Bool.and_eq_true] at hok; exact hok.1
    subst hok0
    obtain ⟨hcur, _⟩ := deletePhaseF_success c sh remote ex fd orig cur aliased hd
    rw [← hcur]
    unfold partialPhaseF at h
    cases fp with
    | none =>
      simp only [Outcome.ok.injEq] at h
      subst h
      exact tailF_success c sh remote orig cur aliased true nw hok
    | some f =>
      cases nw with
      | nil =>
        simp only at h
        split at h
        · simp at h
        · simp only [Outcome.ok.injEq] at h
          subst h
          have := tailF_success c sh remote orig cur aliased true [] hok
          simpa [partialApplied] using this
      | cons n0 rest =>
        simp only at h
        cases hs : f.sel with
        | none =>
          rw [hs] at h
          simp only [Outcome.ok.injEq] at h
          subst h
          simp [partialApplied, hs]
        | some sel =>
          rw [hs] at h
          simp only at h
          unfold copyToSelectedF at h
          cases hc : copyToSelectedF.go c sh remote sel n0 cur with
          | panic s => rw [hc] at h; simp at h
          | ok rb =>
            obtain ⟨r', ok1⟩ := rb
            rw [hc] at h
            simp only [Outcome.ok.injEq] at h
            subst h
            simp only [Bool.true_and] at hok
            subst hok
            simp only [partialApplied, hs]
            exact copyToSelectedF_success c sh remote sel n0 cur r' hc

/-- a result that is not a fresh list is the content of the caller's array -/
theorem updateListF_inplace_is_out (c : UCfg) (sh : Shape) (remote : Bool) (ex nw : List Item)
    (fp fd : Option Filter) (r : Res) (h : updateListF c sh remote ex nw fp fd = .ok r) (hf : r.fresh = false) :
    r.inplace = r.out := by
  unfold updateListF at h
  cases hd : deletePhaseF c sh remote ex fd with
  | panic s => rw [hd] at h; simp at h
  | ok t =>
    obtain ⟨orig, cur, aliased, ok0⟩ := t
    rw [hd] at h
    simp only at h
    have htail : ∀ nw, (tailF c sh remote orig cur aliased ok0 nw).fresh = false →
        (tailF c sh remote orig cur aliased ok0 nw).inplace = (tailF c sh remote orig cur aliased ok0 nw).out := by
      intro nw
      unfold tailF
      cases nw with
      | nil => simp
      | cons n0 rest =>
        simp only
        split
        · intro hfr
          have : aliased = true := by simpa using hfr
          simp [this]
        · simp
    unfold partialPhaseF at h
    cases fp with
    | none =>
      simp only [Outcome.ok.injEq] at h
      subst h
      exact htail nw hf
    | some f =>
      cases nw with
      | nil =>
        simp only at h
        split at h
        · simp at h
        · simp only [Outcome.ok.injEq] at h
          subst h
          exact htail [] hf
      | cons n0 rest =>
        simp only at h
        cases hs : f.sel with
        | none =>
          rw [hs] at h
          simp only [Outcome.ok.injEq] at h
          subst h
          have hal : aliased = true := by simpa using hf
          subst hal
          exact deletePhaseF_aliased c sh remote ex fd orig cur ok0 hd
        | some sel =>
          rw [hs] at h
          simp only at h
          cases hc : copyToSelectedF c sh remote cur sel n0 with
          | panic s => rw [hc] at h; simp at h
          | ok rb =>
            obtain ⟨r', ok1⟩ := rb
            rw [hc] at h
            simp only [Outcome.ok.injEq] at h
            subst h
            have hal : aliased = true := by simpa using hf
            simp [hal]

/-! ### what "applied" means field by field -/

/-- the overlay of the in-place paths carries every field the written item names — except, on members that keep
    the flag on remote writes, the flag -/
theorem copyNonNilF_applied (c : UCfg) (sh : Shape) (remote : Bool) (nw x : Item) (hl : nw.length = x.length)
    (j : Nat) (hj : j < x.length) (hb : (nw.get j).isSome = true) (hf : sh.flag ≠ some j) :
    (copyNonNilF c sh remote nw x).get j = nw.get j := by
  have hcp : (copyNonNil nw x).get j = nw.get j := by
    rw [get_copyNonNil nw x j hl hj]
    cases hg : nw.get j with
    | none => rw [hg] at hb; cases hb
    | some v => rfl
  unfold copyNonNilF
  split
  · unfold restoreFlag
    cases hfl : sh.flag with
    | none => exact hcp
    | some f =>
      have hne : f ≠ j := fun e => hf (by rw [hfl, e])
      simp only [Item.get] at hcp ⊢
      rw [List.getElem?_set_ne hne]
      exact hcp
  · exact hcp

/-- every item the identifier-less write left carries every field it names (but the flag) -/
theorem allApplied_carries (c : UCfg) (sh : Shape) (remote : Bool) (nw : Item) (ex : List Item)
    (hl : ∀ x ∈ ex, nw.length = x.length) :
    ∀ a ∈ allApplied c sh remote nw ex, ∀ j, j < a.length → (nw.get j).isSome = true → sh.flag ≠ some j →
      a.get j = nw.get j := by
  intro a ha j hj hb hf
  simp only [allApplied, List.mem_map] at ha
  obtain ⟨x, hx, rfl⟩ := ha
  have hlen : (copyNonNilF c sh remote nw x).length = x.length := by
    unfold copyNonNilF
    split
    · rw [restoreFlag_length, copyNonNil_length]
    · exact copyNonNil_length nw x
  exact copyNonNilF_applied c sh remote nw x (hl x hx) j (hlen ▸ hj) hb hf

/-- a delete with a selector alone, completely applied, keeps exactly the items the selector does not hit -/
theorem delApplied_selector (c : UCfg) (sh : Shape) (remote : Bool) (sel : Item) (ex : List Item) :
    delApplied c sh remote ⟨some sel, none⟩ ex = ex.filter fun x => !hitB c sh ⟨some sel, none⟩ x := by
  induction ex with
  | nil => rfl
  | cons x xs ih =>
    have ih' : delApplied c sh remote ⟨some sel, none⟩ xs = xs.filter fun x => !hitB c sh ⟨some sel, none⟩ x := ih
    simp only [delApplied, List.filterMap_cons, List.filter_cons, delKeep, delItem]
    cases hitB c sh ⟨some sel, none⟩ x
    · simp only [Bool.not_false, if_true]; exact congrArg _ ih'
    · simp only [Bool.not_true, Bool.false_eq_true, if_false]; exact ih'

/-- a delete with elements, completely applied, keeps every item; the hit ones lose the named elements -/
theorem delApplied_elements (c : UCfg) (sh : Shape) (remote : Bool) (fs : Option Item) (el : Item) (ex : List Item) :
    delApplied c sh remote ⟨fs, some el⟩ ex = ex.map fun x => delItem c sh remote ⟨fs, some el⟩ (hitB c sh ⟨fs, some el⟩ x) x := by
  induction ex with
  | nil => rfl
  | cons x xs ih =>
    have hk : ∀ b, delKeep ⟨fs, some el⟩ b = true := by intro b; cases fs <;> rfl
    have ih' : delApplied c sh remote ⟨fs, some el⟩ xs = xs.map fun x => delItem c sh remote ⟨fs, some el⟩ (hitB c sh ⟨fs, some el⟩ x) x := ih
    simp only [delApplied, List.filterMap_cons, List.map_cons, hk, if_true]
    exact congrArg _ ih'

/-- `RemoveElementFromItem` clears every item field an element of the filter names -/
theorem removeElements_cleared (sh : Shape) (el x : Item) (hn : sh.elN = x.length) (j i : Nat)
    (hj : j < el.length) (hel : (el.get j).isSome = true) (hm : (sh.elMap[j]?).join = some i) (hi : i < x.length) :
    (removeElements sh el x).get i = none := by
  have hne : (sh.elN != x.length) = false := by simp [hn]
  simp only [removeElements, hne, Bool.false_eq_true, if_false, Item.get]
  rw [List.getElem?_map, List.getElem?_range hi]
  simp only [Option.map_some, Option.join_some]
  have hc : ((List.range el.length).filterMap fun j =>
      if (el.get j).isSome then (sh.elMap[j]?).join else none).contains i = true := by
    rw [List.contains_iff_mem, List.mem_filterMap]
    exact ⟨j, List.mem_range.mpr hj, by simp [hel, hm]⟩
  simp only [Item.get] at hc
  exact if_pos hc

/-- … and on members that keep the flag on remote writes, every such field other than the flag -/
theorem delItem_cleared (c : UCfg) (sh : Shape) (remote : Bool) (fs : Option Item) (el x : Item)
    (hn : sh.elN = x.length) (j i : Nat) (hj : j < el.length) (hel : (el.get j).isSome = true)
    (hm : (sh.elMap[j]?).join = some i) (hi : i < x.length) (hf : sh.flag ≠ some i) :
    (delItem c sh remote ⟨fs, some el⟩ true x).get i = none := by
  have hr := removeElements_cleared sh el x hn j i hj hel hm hi
  simp only [delItem, if_true]
  split
  · unfold restoreFlag
    cases hfl : sh.flag with
    | none => exact hr
    | some f =>
      have hne : f ≠ i := fun e => hf (by rw [hfl, e])
      simp only [Item.get] at hr ⊢
      rw [List.getElem?_set_ne hne]
      exact hr
  · exact hr

/-! ### clause 3: where an error answer leaves the data as it was — the exact region

In-place writes happen in `copyToSelectedData`, `copyToAllData` (when the list they work on is the caller's array)
and in `RemoveElementFromItem` under `deleteFilteredData`. A remote write skips unwritable items. Hence: a remote
write whose delete filter names no elements and whose partial part, on an in-place path, addresses no WRITABLE
stored item leaves the caller's array exactly as it was — whether it is answered with an error or not. The
complement (delete elements; an in-place path that addresses a writable item while the call fails for another
reason) is where the known findings `rejected-but-applied:*` live; each has its kernel-checked witness
(`Props.C04.c04_error_unchanged_refuted`). -/

/-- does `SelectorMatch` answer "match" (a panic counts as no) -/
def matchB (c : UCfg) (sh : Shape) (sel x : Item) : Bool :=
  match selectorMatchF c sh sel x with
  | .ok true => true
  | _ => false

/-- does the partial part of the update, on an in-place path, address an item of the stored list that it may write
    (a remote write skips unwritable items, a local update writes every item it addresses) -/
def partialTouches (c : UCfg) (sh : Shape) (remote : Bool) (nw : List Item) (fp : Option Filter) (ex : List Item) : Bool :=
  match fp, nw with
  | some f, n0 :: _ =>
    (match f.sel with
     | none => false
     | some sel => ex.any fun y => matchB c sh sel y && (!remote || writeAllowed sh y))
  | _, n0 :: _ => if !hasIdentifiers sh n0 then ex.any (fun y => !remote || writeAllowed sh y) else false
  | _, [] => false

theorem copyToSelectedF_untouched (c : UCfg) (sh : Shape) (remote : Bool) (sel nw : Item) :
    ∀ (ex r : List Item) (b : Bool), (ex.any fun y => matchB c sh sel y && (!remote || writeAllowed sh y)) = false →
      copyToSelectedF.go c sh remote sel nw ex = .ok (r, b) → r = ex
  | [], r, b, _, h => by
    simp only [copyToSelectedF.go, Outcome.ok.injEq, Prod.mk.injEq] at h
    exact h.1.symm
  | x :: xs, r, b, hn, h => by
    simp only [List.any_cons, Bool.or_eq_false_iff] at hn
    simp only [copyToSelectedF.go] at h
    cases hm : selectorMatchF c sh sel x with
    | panic s => rw [hm] at h; simp at h
    | ok m =>
      rw [hm] at h
      cases m with
      | false =>
        simp only at h
        cases hrec : copyToSelectedF.go c sh remote sel nw xs with
        | panic s => rw [hrec] at h; simp at h
        | ok rb =>
          obtain ⟨r', b'⟩ := rb
          rw [hrec] at h
          simp only [Outcome.ok.injEq, Prod.mk.injEq] at h
          obtain ⟨rfl, _⟩ := h
          rw [copyToSelectedF_untouched c sh remote sel nw xs r' b' hn.2 hrec]
      | true =>
        have hwx : remote = true ∧ writeAllowed sh x = false := by
          have := hn.1
          simp only [matchB, hm, Bool.true_and, Bool.or_eq_false_iff, Bool.not_eq_false'] at this
          exact this
        obtain ⟨hrem, hwx⟩ := hwx
        subst hrem
        simp only [hwx, Bool.not_false, Bool.and_self, if_true] at h
        cases hrec : copyToSelectedF.go c sh true sel nw xs with
        | panic s => rw [hrec] at h; simp at h
        | ok rb =>
          obtain ⟨r', b'⟩ := rb
          rw [hrec] at h
          simp only [Outcome.ok.injEq, Prod.mk.injEq] at h
          obtain ⟨rfl, _⟩ := h
          rw [copyToSelectedF_untouched c sh true sel nw xs r' b' hn.2 hrec]

theorem copyToAllF_untouched (c : UCfg) (sh : Shape) (remote : Bool) (nw : Item) (ex : List Item)
    (hn : ex.any (fun y => !remote || writeAllowed sh y) = false) : (copyToAllF c sh remote ex nw).1 = ex := by
  rw [List.any_eq_false] at hn
  simp only [copyToAllF]
  conv => rhs; rw [← List.map_id ex]
  refine List.map_congr_left fun x hx => ?_
  have := hn x hx
  simp only [Bool.or_eq_true, Bool.not_eq_true', not_or, Bool.not_eq_false, Bool.not_eq_true] at this
  simp [this.1, this.2]

/-- a delete filter without elements writes nothing into the caller's array -/
theorem deleteFilteredF_noel_inplace (c : UCfg) (sh : Shape) (remote : Bool) (fs : Option Item) :
    ∀ (ex ip out : List Item) (ok : Bool), deleteFilteredF.go c sh remote ⟨fs, none⟩ ex = .ok (ip, out, ok) → ip = ex
  | [], ip, out, ok, h => by
    simp only [deleteFilteredF.go, Outcome.ok.injEq, Prod.mk.injEq] at h
    exact h.1.symm
  | x :: xs, ip, out, ok, h => by
    simp only [deleteFilteredF.go] at h
    split at h
    · split at h
      · cases hrec : deleteFilteredF.go c sh remote ⟨fs, none⟩ xs with
        | panic s => rw [hrec] at h; simp at h
        | ok t =>
          obtain ⟨ip', out', ok'⟩ := t
          rw [hrec] at h
          simp only [Outcome.ok.injEq, Prod.mk.injEq] at h
          obtain ⟨rfl, _, _⟩ := h
          rw [deleteFilteredF_noel_inplace c sh remote fs xs ip' out' ok' hrec]
      · cases hm : hitOf c sh ⟨fs, none⟩ x with
        | panic s => rw [hm] at h; simp at h
        | ok hit =>
          rw [hm] at h
          simp only at h
          cases hrec : deleteFilteredF.go c sh remote ⟨fs, none⟩ xs with
          | panic s => rw [hrec] at h; simp at h
          | ok t =>
            obtain ⟨ip', out', ok'⟩ := t
            rw [hrec] at h
            simp only [Outcome.ok.injEq, Prod.mk.injEq] at h
            obtain ⟨rfl, _, _⟩ := h
            rw [deleteFilteredF_noel_inplace c sh remote fs xs ip' out' ok' hrec]
    · cases hm : hitOf c sh ⟨fs, none⟩ x with
      | panic s => rw [hm] at h; simp at h
      | ok hit =>
        rw [hm] at h
        simp only at h
        cases hrec : deleteFilteredF.go c sh remote ⟨fs, none⟩ xs with
        | panic s => rw [hrec] at h; simp at h
        | ok t =>
          obtain ⟨ip', out', ok'⟩ := t
          rw [hrec] at h
          simp only [delItem, Outcome.ok.injEq, Prod.mk.injEq] at h
          obtain ⟨rfl, _, _⟩ := h
          rw [deleteFilteredF_noel_inplace c sh remote fs xs ip' out' ok' hrec]

theorem deletePhaseF_noel (c : UCfg) (sh : Shape) (remote : Bool) (ex : List Item) (fd : Option Filter)
    (hel : ∀ f, fd = some f → f.el = none) (orig cur : List Item) (aliased ok0 : Bool)
    (h : deletePhaseF c sh remote ex fd = .ok (orig, cur, aliased, ok0)) : orig = ex := by
  unfold deletePhaseF at h
  cases fd with
  | none =>
    simp only [Outcome.ok.injEq, Prod.mk.injEq] at h
    exact h.1.symm
  | some f =>
    have hf := hel f rfl
    obtain ⟨fs, fe⟩ := f
    simp only at hf; subst hf
    simp only at h
    split at h
    · simp only [Outcome.ok.injEq, Prod.mk.injEq] at h
      exact h.1.symm
    · unfold deleteFilteredF at h
      cases hg : deleteFilteredF.go c sh remote ⟨fs, none⟩ ex with
      | panic s => rw [hg] at h; simp at h
      | ok t =>
        obtain ⟨ip, out, ok⟩ := t
        rw [hg] at h
        have hip := deleteFilteredF_noel_inplace c sh remote fs ex ip out ok hg
        cases ok with
        | true =>
          simp only [if_true, Outcome.ok.injEq, Prod.mk.injEq] at h
          rw [← h.1, hip]
        | false =>
          simp only [Bool.false_eq_true, if_false, Outcome.ok.injEq, Prod.mk.injEq] at h
          rw [← h.1, hip]

/-- **Nothing written in place**: a remote `UpdateList` call whose delete filter names no elements and whose
    partial part addresses no writable stored item on an in-place path leaves the caller's array as it was —
    every member, every shape, whatever the verdict. -/
theorem updateListF_untouched (c : UCfg) (sh : Shape) (remote : Bool) (ex nw : List Item) (fp fd : Option Filter) (r : Res)
    (h : updateListF c sh remote ex nw fp fd = .ok r) (hel : ∀ f, fd = some f → f.el = none)
    (ht : partialTouches c sh remote nw fp ex = false) : r.inplace = ex := by
  unfold updateListF at h
  cases hd : deletePhaseF c sh remote ex fd with
  | panic s => rw [hd] at h; simp at h
  | ok t =>
    obtain ⟨orig, cur, aliased, ok0⟩ := t
    rw [hd] at h
    simp only at h
    have horig := deletePhaseF_noel c sh remote ex fd hel orig cur aliased ok0 hd
    subst horig
    have hal : aliased = true → cur = orig := fun ha => by
      subst ha; exact (deletePhaseF_aliased c sh remote orig fd orig cur ok0 hd).symm
    have htail : ∀ nw', partialTouches c sh remote nw' none orig = false →
        (tailF c sh remote orig cur aliased ok0 nw').inplace = orig := by
      intro nw' ht'
      unfold tailF
      cases nw' with
      | nil => rfl
      | cons n0 rest =>
        simp only
        split
        · rename_i hid
          cases aliased with
          | false => rfl
          | true =>
            have := hal rfl; subst this
            simp only [if_true]
            simp only [partialTouches, hid, if_true] at ht'
            exact copyToAllF_untouched c sh remote n0 cur ht'
        · rfl
    unfold partialPhaseF at h
    cases fp with
    | none =>
      simp only [Outcome.ok.injEq] at h
      subst h
      exact htail nw (by simpa [partialTouches] using ht)
    | some f =>
      cases nw with
      | nil =>
        simp only at h
        split at h
        · simp at h
        · simp only [Outcome.ok.injEq] at h
          subst h
          exact htail [] rfl
      | cons n0 rest =>
        simp only at h
        cases hs : f.sel with
        | none =>
          rw [hs] at h
          simp only [Outcome.ok.injEq] at h
          subst h; rfl
        | some sel =>
          rw [hs] at h
          simp only at h
          unfold copyToSelectedF at h
          cases hc : copyToSelectedF.go c sh remote sel n0 cur with
          | panic s => rw [hc] at h; simp at h
          | ok rb =>
            obtain ⟨r', ok1⟩ := rb
            rw [hc] at h
            simp only [Outcome.ok.injEq] at h
            subst h
            cases aliased with
            | false => rfl
            | true =>
              have := hal rfl; subst this
              simp only [if_true]
              simp only [partialTouches, hs] at ht
              exact copyToSelectedF_untouched c sh remote sel n0 cur r' ok1 ht hc

/-! ### a local update is never reported as failed -/

theorem copyToSelectedF_local_ok (c : UCfg) (sh : Shape) (sel nw : Item) :
    ∀ (ex r : List Item) (b : Bool), copyToSelectedF.go c sh false sel nw ex = .ok (r, b) → b = true
  | [], r, b, h => by
    simp only [copyToSelectedF.go, Outcome.ok.injEq, Prod.mk.injEq] at h
    exact h.2.symm
  | x :: xs, r, b, h => by
    simp only [copyToSelectedF.go] at h
    cases hm : selectorMatchF c sh sel x with
    | panic s => rw [hm] at h; simp at h
    | ok m =>
      rw [hm] at h
      cases m with
      | false =>
        simp only at h
        cases hrec : copyToSelectedF.go c sh false sel nw xs with
        | panic s => rw [hrec] at h; simp at h
        | ok rb =>
          obtain ⟨r', b'⟩ := rb
          rw [hrec] at h
          simp only [Outcome.ok.injEq, Prod.mk.injEq] at h
          obtain ⟨_, rfl⟩ := h
          exact copyToSelectedF_local_ok c sh sel nw xs r' b' hrec
      | true =>
        simp only [Bool.and_false, Bool.false_eq_true, if_false, Outcome.ok.injEq, Prod.mk.injEq] at h
        exact h.2.symm

theorem deleteFilteredF_local_ok (c : UCfg) (sh : Shape) (f : Filter) :
    ∀ (ex ip out : List Item) (ok : Bool), deleteFilteredF.go c sh false f ex = .ok (ip, out, ok) → ok = true
  | [], ip, out, ok, h => by
    simp only [deleteFilteredF.go, Outcome.ok.injEq, Prod.mk.injEq] at h
    exact h.2.2.symm
  | x :: xs, ip, out, ok, h => by
    simp only [deleteFilteredF.go, Bool.and_false, Bool.false_eq_true, if_false] at h
    cases hm : hitOf c sh f x with
    | panic s => rw [hm] at h; simp at h
    | ok hit =>
      rw [hm] at h
      simp only at h
      cases hrec : deleteFilteredF.go c sh false f xs with
      | panic s => rw [hrec] at h; simp at h
      | ok t =>
        obtain ⟨ip', out', ok'⟩ := t
        rw [hrec] at h
        simp only [Outcome.ok.injEq, Prod.mk.injEq] at h
        obtain ⟨_, _, rfl⟩ := h
        exact deleteFilteredF_local_ok c sh f xs ip' out' ok' hrec

theorem mergeF_local_ok (c : UCfg) (sh : Shape) (s1 s2 : List Item) : (mergeF c sh false s1 s2).2 = true := by
  unfold mergeF
  split <;> simp [merge, mergeFixed]

/-- **A local update is never reported as failed** (every member, every shape, every filter shape): `success` can
    only become false on a remote write. So "an update reported as failed" is always a remote write. -/
theorem updateListF_local_ok (c : UCfg) (sh : Shape) (ex nw : List Item) (fp fd : Option Filter) (r : Res)
    (h : updateListF c sh false ex nw fp fd = .ok r) : r.ok = true := by
  unfold updateListF at h
  cases hd : deletePhaseF c sh false ex fd with
  | panic s => rw [hd] at h; simp at h
  | ok t =>
    obtain ⟨orig, cur, aliased, ok0⟩ := t
    rw [hd] at h
    simp only at h
    have hok0 : ok0 = true := by
      unfold deletePhaseF at hd
      cases fd with
      | none =>
        simp only [Outcome.ok.injEq, Prod.mk.injEq] at hd
        exact hd.2.2.2.symm
      | some f =>
        simp only at hd
        split at hd
        · simp only [Outcome.ok.injEq, Prod.mk.injEq] at hd
          exact hd.2.2.2.symm
        · unfold deleteFilteredF at hd
          cases hg : deleteFilteredF.go c sh false f ex with
          | panic s => rw [hg] at hd; simp at hd
          | ok t =>
            obtain ⟨ip, out, ok⟩ := t
            rw [hg] at hd
            have := deleteFilteredF_local_ok c sh f ex ip out ok hg
            subst this
            simp only [if_true, Outcome.ok.injEq, Prod.mk.injEq] at hd
            exact hd.2.2.2.symm
    subst hok0
    have htail : ∀ nw', (tailF c sh false orig cur aliased true nw').ok = true := by
      intro nw'
      unfold tailF
      cases nw' with
      | nil => simp [mergeF_local_ok]
      | cons n0 rest =>
        simp only
        split
        · simp [copyToAllF]
        · simp [mergeF_local_ok]
    unfold partialPhaseF at h
    cases fp with
    | none =>
      simp only [Outcome.ok.injEq] at h
      subst h
      exact htail nw
    | some f =>
      cases nw with
      | nil =>
        simp only at h
        split at h
        · simp at h
        · simp only [Outcome.ok.injEq] at h
          subst h
          exact htail []
      | cons n0 rest =>
        simp only at h
        cases hs : f.sel with
        | none =>
          rw [hs] at h
          simp only [Outcome.ok.injEq] at h
          subst h; rfl
        | some sel =>
          rw [hs] at h
          simp only at h
          unfold copyToSelectedF at h
          cases hc : copyToSelectedF.go c sh false sel n0 cur with
          | panic s => rw [hc] at h; simp at h
          | ok rb =>
            obtain ⟨r', ok1⟩ := rb
            rw [hc] at h
            simp only [Outcome.ok.injEq] at h
            subst h
            simp [copyToSelectedF_local_ok c sh sel n0 cur r' ok1 hc]

/-! ### on the store (`FunctionData.UpdateData`) -/

namespace Heap

/-- **Success ⇒ applied on the stored data**: a persisting update through the engine (any filter shape; for a
    remote write: any write that does not take the replace fast path) that is answered with success leaves as the
    function's data exactly the complete application of its delete part and its partial part to the data stored
    before — for every member of the family. -/
theorem updateData_success_applied (c : Cfg) (sh : Shape) {h : H} (hw : h.WF) (nw : List Item) (fp fd : FArg)
    (hnf : fastPath c (h.allocValue nw).1 true true fp fd = false)
    (hsucc : ∃ i o, (updateData c sh h true true nw fp fd).2 = .done true i o) :
    (updateData c sh h true true nw fp fd).1.readStore =
      partialApplied c.u sh true nw fp.toOpt (delPhaseApplied c.u sh true fd.toOpt h.readStore) := by
  obtain ⟨i, o, hres⟩ := hsucc
  unfold updateData at hres ⊢
  simp only [hnf, Bool.false_eq_true, if_false] at hres ⊢
  have hw0 := wf_allocValue hw nw
  have hr0 := allocValue_read hw nw
  generalize (h.allocValue nw).1 = h0 at hw0 hr0 hres ⊢
  generalize (h.allocValue nw).2 = inp at hres ⊢
  rw [← hr0]
  cases hu : updateListF c.u sh true h0.readStore nw fp.toOpt fd.toOpt with
  | panic s =>
    unfold engine at hres
    dsimp only at hres
    rw [ensureStore_slice, hu] at hres
    cases hres
  | ok r =>
    have hp := updateListF_remote_protects c.u sh _ nw _ _ r hu
    have hok : r.ok = true := by
      unfold engine at hres
      dsimp only at hres
      rw [ensureStore_slice, hu] at hres
      unfold applyRes at hres
      dsimp only at hres
      cases hr : r.ok with
      | true => rfl
      | false => rw [hr] at hres; simp at hres
    rw [engine_readStore c sh hw0 true true nw _ _ inp r hu (Prot.length sh hp.1)]
    have happ := updateListF_success_applied c.u sh true _ nw _ _ r hu hok
    cases hfr : r.fresh with
    | true => simp [hok, happ]
    | false =>
      simp only [Bool.false_and, Bool.false_eq_true, if_false]
      rw [updateListF_inplace_is_out c.u sh true _ nw _ _ r hu hfr, happ]

/-- the stored data after an update that goes through the engine and either does not persist or is answered with
    an error: unchanged, provided the delete filter names no elements and the partial part addresses, on an in-place
    path, no stored item it may write -/
theorem updateData_nochange (c : Cfg) (sh : Shape) {h : H} (hw : h.WF) (remote persist : Bool) (nw : List Item) (fp fd : FArg)
    (hnf : fastPath c (h.allocValue nw).1 remote persist fp fd = false)
    (hel : ∀ f, fd.toOpt = some f → f.el = none)
    (ht : partialTouches c.u sh remote nw fp.toOpt h.readStore = false)
    (hwhy : persist = false ∨ ∃ i o, (updateData c sh h remote persist nw fp fd).2 = .done false i o) :
    (updateData c sh h remote persist nw fp fd).1.readStore = h.readStore := by
  unfold updateData at hwhy ⊢
  simp only [hnf, Bool.false_eq_true, if_false] at hwhy ⊢
  have hw0 := wf_allocValue hw nw
  have hr0 := allocValue_read hw nw
  generalize (h.allocValue nw).1 = h0 at hw0 hr0 hwhy ⊢
  generalize (h.allocValue nw).2 = inp at hwhy ⊢
  rw [← hr0] at ht ⊢
  cases hu : updateListF c.u sh remote h0.readStore nw fp.toOpt fd.toOpt with
  | panic s => exact engine_panic_readStore c sh h0 remote persist nw _ _ inp s hu
  | ok r =>
    have hun := updateListF_untouched c.u sh remote _ nw _ _ r hu hel ht
    have hkey : (r.fresh && r.ok && persist) = false := by
      rcases hwhy with hp | ⟨i, o, hres⟩
      · simp [hp]
      · have hok : r.ok = false := by
          unfold engine at hres
          dsimp only at hres
          rw [ensureStore_slice, hu] at hres
          unfold applyRes at hres
          dsimp only at hres
          cases hr : r.ok with
          | false => rfl
          | true => rw [hr] at hres; simp at hres
        simp [hok]
    rw [engine_readStore c sh hw0 remote persist nw _ _ inp r hu (by rw [hun])]
    simp only [hkey, Bool.false_eq_true, if_false]
    exact hun

/-- **Error ⇒ unchanged on the stored data, exact region**: a remote persisting write through the engine whose
    delete filter names no elements and whose partial part addresses no writable stored element on an in-place
    path, answered with an error, leaves the function's data exactly as it was. -/
theorem updateData_error_unchanged (c : Cfg) (sh : Shape) {h : H} (hw : h.WF) (nw : List Item) (fp fd : FArg)
    (hnf : fastPath c (h.allocValue nw).1 true true fp fd = false)
    (hel : ∀ f, fd.toOpt = some f → f.el = none)
    (ht : partialTouches c.u sh true nw fp.toOpt h.readStore = false)
    (herr : ∃ i o, (updateData c sh h true true nw fp fd).2 = .done false i o) :
    (updateData c sh h true true nw fp fd).1.readStore = h.readStore :=
  updateData_nochange c sh hw true true nw fp fd hnf hel ht (Or.inr herr)

/-- the verdict of `applyRes` is the engine's -/
theorem applyRes_verdict (h1 : H) (s : Nat) (persist : Bool) (inp : Nat) (r : Res) (hok : r.ok = true) :
    ∀ i o, (applyRes h1 s persist inp r).2 ≠ .done false i o := by
  intro i o
  unfold applyRes
  dsimp only
  rw [if_pos hok]
  intro hc
  cases hc

/-- on the store: a local update is never answered with an error -/
theorem updateData_local_never_fails (c : Cfg) (sh : Shape) (h : H) (persist : Bool) (nw : List Item) (fp fd : FArg) :
    ∀ i o, (updateData c sh h false persist nw fp fd).2 ≠ .done false i o := by
  intro i o hres
  unfold updateData at hres
  dsimp only at hres
  by_cases hf : fastPath c (h.allocValue nw).1 false persist fp fd = true
  · rw [if_pos hf] at hres
    by_cases ha : c.fastpathAdopts = true
    · rw [if_pos ha] at hres; cases hres
    · rw [if_neg ha] at hres; cases hres
  · rw [if_neg hf] at hres
    unfold engine at hres
    dsimp only at hres
    cases hu : updateListF c.u sh false ((h.allocValue nw).1.ensureStore.1.slice
        ((h.allocValue nw).1.ensureStore.1.field (h.allocValue nw).1.ensureStore.2)) nw fp.toOpt fd.toOpt with
    | panic s => rw [hu] at hres; cases hres
    | ok r =>
      rw [hu] at hres
      exact applyRes_verdict _ _ persist _ r (updateListF_local_ok c.u sh _ nw _ _ r hu) i o hres

end Heap
end Spine
