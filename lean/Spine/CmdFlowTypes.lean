/-!
# Row types of the regenerated table `Spine.Generated.CmdFlow` (C18)

`go/cmdflow` (an abstract interpretation of the SSA of the tree under test) writes the static face of the
command builders `ReadCmdType` / `ReplyCmdType` / `NotifyOrWriteCmdType` as may-flow facts over these types;
`Spine.Props.C18Flow` derives the same facts from the hand-written model `Spine.Cmd` BY EXECUTION and proves
that both agree. Builders are numbered by the shape of their signature — 0: `(any, any)` read, 1: `(bool)`
reply, 2: `(any, any, bool, any)` notify or write — and parameters by position.
-/
namespace Spine.CmdFlow

/-- what reaches the `data` argument of `(*model.CmdType).SetDataForFunction` -/
inductive Origin
  | nil                 -- the constant nil (a nil `*T`: the callee stores `new(T)`)
  | stored              -- the copy of the stored data (a value of the type parameter loaded from the receiver)
  | param (k : Nat)     -- entry parameter k
deriving Repr, DecidableEq

/-- under which test a field of the command is written -/
inductive Guard
  | none
  | lenFilters          -- `len(filters) > 0`
  | boolParam (k : Nat) -- entry parameter k (a bool) is true
deriving Repr, DecidableEq

/-- the value written to `CmdType.Function` -/
inductive FnVal
  | empty               -- the constant ""
  | fnType              -- the receiver's function type
  | other
deriving Repr, DecidableEq

/-- one way a parameter reaches `(*model.FilterType).SetDataForFunction(tagType, fct, data)` -/
structure FilterFlow where
  builder : Nat
  kind : Nat            -- filter the call is applied to: 1 CmdControl.Delete set, 2 CmdControl.Partial set, 0 unresolved
  tag : Nat             -- tagType: 1 selector, 2 elements, 0 unresolved
  param : Nat           -- entry parameter reaching `data`
  byRef : Bool          -- handed over as the address of an interface variable (`*interface{}`)
  fctRecv : Bool        -- `fct` is the receiver's function type
deriving Repr, DecidableEq

structure DataFlow where
  builder : Nat
  origin : Origin
  fctRecv : Bool
deriving Repr, DecidableEq

structure FnStore where
  builder : Nat
  guard : Guard
  val : FnVal
deriving Repr, DecidableEq

structure FilterStore where
  builder : Nat
  guard : Guard
  hasDelete : Bool      -- the stored list may hold a filter with CmdControl.Delete
  hasPartial : Bool
  hasData : Bool        -- some filter of the list carries a selectors / elements value
deriving Repr, DecidableEq

/-- equality as sets (the generated lists are sorted and duplicate-free; the lists derived from the model are
    in order of enumeration) -/
def sameSet {α : Type} [DecidableEq α] (a b : List α) : Bool :=
  a.all (fun x => b.contains x) && b.all (fun x => a.contains x)

end Spine.CmdFlow
