import Spine.ApprovalFrame
/-! C12: the repaired member of the approval model refines, write by write, the automaton the property statement
    describes: a write waits with a count of approvals; the approval that completes the count applies it, the first
    denial rejects it, the timeout rejects it; nothing that happens afterwards — and nothing that happens to any
    other write — changes its outcome. -/
namespace Spine.Appr

/-- the life of one write according to the statement -/
inductive W
  | absent                -- not arrived
  | waiting (k : Nat)     -- pending; k approvals counted so far
  | expiring              -- the timeout has taken the write; its error result is being written
  | gone                  -- the peer's connection was removed while the write was waiting: it gets no outcome
  | done (o : Out)        -- it has its outcome
deriving DecidableEq, Repr

/-- what a verdict committed in time does to a waiting write (`n` callbacks registered) -/
def verdictW (n k : Nat) (approve : Bool) : W :=
  if approve then (if n > 1 ∧ k + 1 < n then .waiting (k + 1) else .done .applied) else .done .error

structure Sp where
  st : Nat → W := fun _ => .absent
  lookups : List (Nat × Nat) := []    -- verdict operations past their pending lookup: (operation, write)

def upd (f : Nat → W) (w : Nat) (x : W) : Nat → W := fun v => if v = w then x else f v

theorem upd_same (f : Nat → W) (w : Nat) (x : W) : upd f w x w = x := by simp [upd]
theorem upd_other (f : Nat → W) (w v : Nat) (x : W) (h : v ≠ w) : upd f w x v = f v := by simp [upd, h]

/-- the connection is removed: every write that is waiting is gone -/
def dropW (f : Nat → W) : Nat → W := fun v =>
  match f v with
  | .waiting _ => .gone
  | x => x

def specStep (n : Nat) (sp : Sp) : Ev → Sp
  | .arrive w =>
    match sp.st w with
    | .absent => { sp with st := upd sp.st w (.waiting 0) }
    | _ => sp
  | .lookup op w =>
    match sp.st w with
    | .waiting _ => { sp with lookups := (op, w) :: sp.lookups }
    | _ => sp
  | .commit op a =>
    match sp.lookups.find? (·.1 = op) with
    | none => sp
    | some (_, w) =>
      match sp.st w with
      | .waiting k => { st := upd sp.st w (verdictW n k a), lookups := sp.lookups.filter (·.1 ≠ op) }
      | _ => { sp with lookups := sp.lookups.filter (·.1 ≠ op) }
  | .timeoutTake w =>
    match sp.st w with
    | .waiting _ => { sp with st := upd sp.st w .expiring }
    | _ => sp
  | .timeoutSend w =>
    match sp.st w with
    | .expiring => { sp with st := upd sp.st w (.done .error) }
    | _ => sp
  | .drop => { sp with st := dropW sp.st }

def specRun (n : Nat) (evs : List Ev) : Sp := evs.foldl (specStep n) {}

/-! ### views of the model state -/

def outs (s : St) (w : Nat) : List Out := (s.outcomes.filter (·.1 = w)).map (·.2)

def tallyOf (t : Option (List (Nat × Nat))) (w : Nat) : Nat :=
  match t with
  | none => 0
  | some m => match m.find? (·.1 = w) with
    | some (_, n) => n
    | none => 0

theorem find_filter_imp {α : Type} (p q : α → Bool) (l : List α) (h : ∀ a, q a = true → p a = true) :
    (l.filter p).find? q = l.find? q := by
  induction l with
  | nil => rfl
  | cons x xs ih =>
    cases hp : p x with
    | true => rw [List.filter_cons, if_pos hp, List.find?_cons, List.find?_cons, ih]
    | false =>
      have hq : q x = false := by
        cases hq : q x with
        | false => rfl
        | true => rw [h x hq] at hp; cases hp
      rw [List.filter_cons, if_neg (by simp [hp]), List.find?_cons, hq]
      exact ih

theorem find_filter_excl {α : Type} (p q : α → Bool) (l : List α) (h : ∀ a, p a = true → q a = false) :
    (l.filter p).find? q = none := by
  induction l with
  | nil => rfl
  | cons x xs ih =>
    cases hp : p x with
    | true => rw [List.filter_cons, if_pos hp, List.find?_cons, h x hp]; exact ih
    | false => rw [List.filter_cons, if_neg (by simp [hp])]; exact ih

theorem find_filter_ne (m : List (Nat × Nat)) (w w' : Nat) (h : w' ≠ w) :
    (m.filter (·.1 ≠ w)).find? (·.1 = w') = m.find? (·.1 = w') := by
  apply find_filter_imp
  intro a ha
  have : a.1 = w' := by simpa using ha
  simp [this, h]

theorem find_filter_self (m : List (Nat × Nat)) (w : Nat) :
    (m.filter (·.1 ≠ w)).find? (·.1 = w) = none := by
  apply find_filter_excl
  intro a ha
  have : ¬ a.1 = w := by simpa using ha
  simp [this]

theorem tallyOf_filter_other (t : Option (List (Nat × Nat))) (w w' : Nat) (h : w' ≠ w) :
    tallyOf (t.map (·.filter (·.1 ≠ w))) w' = tallyOf t w' := by
  cases t with
  | none => rfl
  | some m => simp only [Option.map_some, tallyOf, find_filter_ne m w w' h]

theorem bump_snd (t : Option (List (Nat × Nat))) (w : Nat) : (bump Cfg.clean t w).2 = tallyOf t w + 1 := by
  cases t with
  | none => rfl
  | some m =>
    simp only [bump, tallyOf]
    cases hf : m.find? (fun x => decide (x.1 = w)) with
    | none => simp [Cfg.clean]
    | some x => obtain ⟨a, n⟩ := x; simp

theorem tallyOf_bump_self (t : Option (List (Nat × Nat))) (w : Nat) :
    tallyOf (some (bump Cfg.clean t w).1) w = tallyOf t w + 1 := by
  cases t with
  | none => simp [bump, tallyOf]
  | some m =>
    simp only [bump, tallyOf]
    cases hf : m.find? (fun x => decide (x.1 = w)) with
    | none => simp [Cfg.clean, List.find?_append, hf]
    | some x =>
      obtain ⟨a, n⟩ := x
      simp only [List.find?_append, find_filter_self]
      simp

theorem tallyOf_bump_other (t : Option (List (Nat × Nat))) (w w' : Nat) (h : w' ≠ w) :
    tallyOf (some (bump Cfg.clean t w).1) w' = tallyOf t w' := by
  have hne : ¬ w = w' := fun h' => h h'.symm
  cases t with
  | none => simp [bump, tallyOf, hne]
  | some m =>
    simp only [bump, tallyOf]
    cases hf : m.find? (fun x => decide (x.1 = w)) with
    | none =>
      simp only [Cfg.clean, Bool.false_eq_true, if_false, List.find?_append]
      cases hf' : m.find? (fun x => decide (x.1 = w')) with
      | none => simp [hne]
      | some y => simp
    | some x =>
      obtain ⟨a, n⟩ := x
      simp only [List.find?_append, find_filter_ne m w w' h]
      cases hf' : m.find? (fun x => decide (x.1 = w')) with
      | none => simp [hne]
      | some y => simp

theorem outs_append (s : St) (w w' : Nat) (o : Out) (l : List (Nat × Out)) (hl : l = s.outcomes ++ [(w, o)]) :
    ((l.filter (·.1 = w')).map (·.2)) = if w = w' then outs s w' ++ [o] else outs s w' := by
  subst hl
  simp only [outs, List.filter_append, List.map_append, List.filter_cons, List.filter_nil]
  by_cases h : w = w'
  · simp [h]
  · simp [h]

theorem mem_filter_ne (l : List Nat) (w v : Nat) : v ∈ l.filter (· ≠ w) ↔ v ∈ l ∧ v ≠ w := by
  simp [List.mem_filter]

/-! ### the refinement relation -/

def Rw (s : St) (w : Nat) : W → Prop
  | .absent => w ∉ s.seen ∧ w ∉ s.pending ∧ w ∉ s.armed ∧ w ∉ s.fired ∧ outs s w = [] ∧ tallyOf s.tally w = 0 ∧
      ∀ x ∈ s.lookups, x.2 ≠ w
  | .waiting k => w ∈ s.seen ∧ w ∈ s.pending ∧ w ∈ s.armed ∧ w ∉ s.fired ∧ outs s w = [] ∧ tallyOf s.tally w = k
  | .expiring => w ∈ s.seen ∧ w ∉ s.pending ∧ w ∉ s.armed ∧ w ∈ s.fired ∧ outs s w = []
  | .gone => w ∈ s.seen ∧ w ∉ s.pending ∧ w ∉ s.armed ∧ w ∉ s.fired ∧ outs s w = []
  | .done o => w ∈ s.seen ∧ w ∉ s.pending ∧ w ∉ s.armed ∧ w ∉ s.fired ∧ outs s w = [o]

def R (s : St) (sp : Sp) : Prop := sp.lookups = s.lookups ∧ ∀ w, Rw s w (sp.st w)

/-- the projections of the state that concern write `w` are the same in `s'` as in `s` (lookups may shrink) -/
structure Same (s s' : St) (w : Nat) : Prop where
  seen : w ∈ s'.seen ↔ w ∈ s.seen
  pending : w ∈ s'.pending ↔ w ∈ s.pending
  armed : w ∈ s'.armed ↔ w ∈ s.armed
  fired : w ∈ s'.fired ↔ w ∈ s.fired
  outs : outs s' w = outs s w

theorem Rw_same (s s' : St) (w : Nat) (x : W) (h : Same s s' w)
    (ht : tallyOf s'.tally w = tallyOf s.tally w ∨ x = .expiring ∨ x = .gone ∨ ∃ o, x = .done o)
    (hl : x = .absent → ∀ y ∈ s'.lookups, y.2 = w → y ∈ s.lookups) :
    Rw s w x → Rw s' w x := by
  intro hr
  cases x with
  | absent =>
    obtain ⟨h1, h2, h3, h4, h5, h6, h7⟩ := hr
    have htt : tallyOf s'.tally w = tallyOf s.tally w := by
      rcases ht with h | h | h | ⟨o, h⟩
      · exact h
      · cases h
      · cases h
      · cases h
    exact ⟨fun hc => h1 (h.seen.mp hc), fun hc => h2 (h.pending.mp hc), fun hc => h3 (h.armed.mp hc),
      fun hc => h4 (h.fired.mp hc), by rw [h.outs]; exact h5, by rw [htt]; exact h6,
      fun y hy hyw => h7 y (hl rfl y hy hyw) hyw⟩
  | waiting k =>
    obtain ⟨h1, h2, h3, h4, h5, h6⟩ := hr
    have htt : tallyOf s'.tally w = tallyOf s.tally w := by
      rcases ht with h | h | h | ⟨o, h⟩
      · exact h
      · cases h
      · cases h
      · cases h
    exact ⟨h.seen.mpr h1, h.pending.mpr h2, h.armed.mpr h3, fun hc => h4 (h.fired.mp hc), by rw [h.outs]; exact h5,
      by rw [htt]; exact h6⟩
  | expiring =>
    obtain ⟨h1, h2, h3, h4, h5⟩ := hr
    exact ⟨h.seen.mpr h1, fun hc => h2 (h.pending.mp hc), fun hc => h3 (h.armed.mp hc), h.fired.mpr h4,
      by rw [h.outs]; exact h5⟩
  | gone =>
    obtain ⟨h1, h2, h3, h4, h5⟩ := hr
    exact ⟨h.seen.mpr h1, fun hc => h2 (h.pending.mp hc), fun hc => h3 (h.armed.mp hc), fun hc => h4 (h.fired.mp hc),
      by rw [h.outs]; exact h5⟩
  | done o =>
    obtain ⟨h1, h2, h3, h4, h5⟩ := hr
    exact ⟨h.seen.mpr h1, fun hc => h2 (h.pending.mp hc), fun hc => h3 (h.armed.mp hc), fun hc => h4 (h.fired.mp hc),
      by rw [h.outs]; exact h5⟩


theorem finish_armed (s : St) (w : Nat) (a : Bool) (h : w ∈ s.armed) :
    finish Cfg.clean s w a =
      { s with armed := s.armed.filter (· ≠ w), tally := s.tally.map (·.filter (·.1 ≠ w)),
               pending := s.pending.filter (· ≠ w),
               outcomes := s.outcomes ++ [(w, if a then .applied else .error)] } := by
  have hc : s.armed.contains w = true := by simpa using h
  simp only [finish, Cfg.clean, hc, Bool.or_true, if_true]

theorem finish_unarmed (s : St) (w : Nat) (a : Bool) (h : w ∉ s.armed) :
    finish Cfg.clean s w a =
      { s with armed := s.armed.filter (· ≠ w), tally := s.tally.map (·.filter (·.1 ≠ w)),
               pending := s.pending.filter (· ≠ w) } := by
  have hc : s.armed.contains w = false := by simpa using h
  simp only [finish, Cfg.clean, hc, Bool.or_false, Bool.false_eq_true, if_false]

theorem commit_eq (s : St) (op : Nat) (a : Bool) (x w0 : Nat)
    (hf : s.lookups.find? (·.1 = op) = some (x, w0)) :
    step Cfg.clean s (.commit op a) =
      if (decide (s.nCb > 1) && a) = true then
        if (bump Cfg.clean s.tally w0).2 < s.nCb then
          { s with lookups := s.lookups.filter (·.1 ≠ op), tally := some (bump Cfg.clean s.tally w0).1 }
        else finish Cfg.clean
          { s with lookups := s.lookups.filter (·.1 ≠ op), tally := some (bump Cfg.clean s.tally w0).1 } w0 a
      else finish Cfg.clean { s with lookups := s.lookups.filter (·.1 ≠ op) } w0 a := by
  simp only [step, hf]

/-- a write that is not absent has arrived; an absent one is in none of the lists -/
theorem Rw_armed_iff (s : St) (w : Nat) (x : W) (h : Rw s w x) : w ∈ s.armed ↔ ∃ k, x = .waiting k := by
  cases x with
  | absent => exact ⟨fun hc => absurd hc h.2.2.1, fun ⟨k, hk⟩ => by cases hk⟩
  | waiting k => exact ⟨fun _ => ⟨k, rfl⟩, fun _ => h.2.2.1⟩
  | expiring => exact ⟨fun hc => absurd hc h.2.2.1, fun ⟨k, hk⟩ => by cases hk⟩
  | gone => exact ⟨fun hc => absurd hc h.2.2.1, fun ⟨k, hk⟩ => by cases hk⟩
  | done o => exact ⟨fun hc => absurd hc h.2.2.1, fun ⟨k, hk⟩ => by cases hk⟩

theorem Rw_pending_iff (s : St) (w : Nat) (x : W) (h : Rw s w x) : w ∈ s.pending ↔ ∃ k, x = .waiting k := by
  cases x with
  | absent => exact ⟨fun hc => absurd hc h.2.1, fun ⟨k, hk⟩ => by cases hk⟩
  | waiting k => exact ⟨fun _ => ⟨k, rfl⟩, fun _ => h.2.1⟩
  | expiring => exact ⟨fun hc => absurd hc h.2.1, fun ⟨k, hk⟩ => by cases hk⟩
  | gone => exact ⟨fun hc => absurd hc h.2.1, fun ⟨k, hk⟩ => by cases hk⟩
  | done o => exact ⟨fun hc => absurd hc h.2.1, fun ⟨k, hk⟩ => by cases hk⟩

theorem Rw_seen_iff (s : St) (w : Nat) (x : W) (h : Rw s w x) : w ∈ s.seen ↔ x ≠ .absent := by
  cases x with
  | absent => exact ⟨fun hc => absurd hc h.1, fun hc => absurd rfl hc⟩
  | waiting k => exact ⟨fun _ hc => W.noConfusion hc, fun _ => h.1⟩
  | expiring => exact ⟨fun _ hc => W.noConfusion hc, fun _ => h.1⟩
  | gone => exact ⟨fun _ hc => W.noConfusion hc, fun _ => h.1⟩
  | done o => exact ⟨fun _ hc => W.noConfusion hc, fun _ => h.1⟩

theorem Rw_fired_iff (s : St) (w : Nat) (x : W) (h : Rw s w x) : w ∈ s.fired ↔ x = .expiring := by
  cases x with
  | absent => exact ⟨fun hc => absurd hc h.2.2.2.1, fun hc => by cases hc⟩
  | waiting k => exact ⟨fun hc => absurd hc h.2.2.2.1, fun hc => by cases hc⟩
  | expiring => exact ⟨fun _ => rfl, fun _ => h.2.2.2.1⟩
  | gone => exact ⟨fun hc => absurd hc h.2.2.2.1, fun hc => by cases hc⟩
  | done o => exact ⟨fun hc => absurd hc h.2.2.2.1, fun hc => by cases hc⟩

end Spine.Appr
