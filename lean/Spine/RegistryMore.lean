import Spine.RegistryThm
/-! Further lemmas on the registry family (C08, C09, C10): the request conditions spelled out, results of delete
    calls, invariants over all histories (pairs and ids pairwise distinct, entries belong to announced entities),
    fan-out, entity removal, partial theorems for the members with defect flags on. -/
namespace Spine.Reg

/-! ### generic list facts -/

theorem filter_not_length_eq_iff {α : Type} (l : List α) (f : α → Bool) :
    (l.filter fun e => !f e).length = l.length ↔ l.any f = false := by
  induction l with
  | nil => simp
  | cons a l ih =>
    simp only [List.filter_cons, List.any_cons]
    cases hf : f a
    · simp [ih]
    · have := List.length_filter_le (fun e => !f e) l
      simp
      omega

theorem eq_of_mem_length_le_one {α : Type} {l : List α} (h : l.length ≤ 1) {a b : α} (ha : a ∈ l) (hb : b ∈ l) :
    a = b := by
  match l, h, ha, hb with
  | [x], _, ha, hb =>
    simp only [List.mem_singleton] at ha hb
    rw [ha, hb]
  | _ :: _ :: _, h, _, _ => simp at h

/-- if `k` is injective on the members selected by `f` that agree under `g`, a list without `k`-duplicates has no
    `g`-duplicates among the selected members -/
theorem nodup_map_filter {α β γ : Type} (l : List α) (k : α → β) (g : α → γ) (f : α → Bool)
    (h : (l.map k).Nodup)
    (hinj : ∀ a b, a ∈ l → b ∈ l → f a = true → f b = true → g a = g b → k a = k b) :
    ((l.filter f).map g).Nodup := by
  induction l with
  | nil => simp
  | cons a l ih =>
    simp only [List.map_cons, List.nodup_cons] at h
    have ih' := ih h.2 (fun x y hx hy => hinj x y (List.mem_cons_of_mem _ hx) (List.mem_cons_of_mem _ hy))
    simp only [List.filter_cons]
    split
    · rename_i hfa
      simp only [List.map_cons, List.nodup_cons]
      refine ⟨?_, ih'⟩
      intro hm
      obtain ⟨b, hb, hgb⟩ := List.mem_map.mp hm
      have hb' := List.mem_filter.mp hb
      apply h.1
      refine List.mem_map.mpr ⟨b, hb'.1, ?_⟩
      exact hinj b a (List.mem_cons_of_mem _ hb'.1) List.mem_cons_self hb'.2 hfa hgb
    · exact ih'

/-! ### the request conditions in the words of the property -/

theorem requestOk_iff (s : St) (p : Nat) (cEnt : List Nat) (cFeat : Nat) (sEnt : List Nat) (sFeat typ : Nat) :
    requestOk s p cEnt cFeat sEnt sFeat typ = true ↔
      ∃ sv cl, findF s.loc sEnt sFeat = some sv ∧ findF (s.rem p) cEnt cFeat = some cl ∧
        (sv.role = .special ∨ sv.role = .server) ∧ (sv.typ = typ ∨ sv.typ = 0) ∧
        (cl.role = .special ∨ cl.role = .client) ∧ (cl.typ = typ ∨ cl.typ = 0) := by
  unfold requestOk
  cases h1 : findF s.loc sEnt sFeat <;> cases h2 : findF (s.rem p) cEnt cFeat <;>
    simp [roleTypeOk, and_assoc]

/-- what `findF` finds is a feature of the list at the requested address -/
theorem findF_some {fs : List Feat} {ent : List Nat} {feat : Nat} {f : Feat} (h : findF fs ent feat = some f) :
    f ∈ fs ∧ f.ent = ent ∧ f.feat = feat := by
  unfold findF at h
  have hm := List.mem_of_find?_eq_some h
  have hp := List.find?_some h
  simp only [Bool.and_eq_true, decide_eq_true_eq] at hp
  exact ⟨hm, hp.1, hp.2⟩

theorem findF_none {fs : List Feat} {ent : List Nat} {feat : Nat} (h : findF fs ent feat = none) :
    ∀ f ∈ fs, ¬ (f.ent = ent ∧ f.feat = feat) := by
  unfold findF at h
  intro f hf hc
  have := List.find?_eq_none.mp h f hf
  simp [hc.1, hc.2] at this

/-! ### results of the calls -/

theorem target_own (b : Bool) (p cDev : Nat) (hd : cDev = 0 ∨ cDev = p) : target b p cDev = some p := by
  unfold target
  rcases hd with h | h <;> simp [h]

/-- repaired code: a subscription delete succeeds exactly when both addressed features exist, the device address
    is omitted or the requester's own, and the requester holds the addressed pair -/
theorem c08_delete_result (s : St) (p cDev : Nat) (cEnt : List Nat) (cFeat : Nat) (sEnt : List Nat) (sFeat : Nat) :
    (delSub Cfg.clean s p cDev cEnt cFeat sEnt sFeat).2 = true ↔
      (findF (s.rem p) cEnt cFeat).isSome = true ∧ (findF s.loc sEnt sFeat).isSome = true ∧
      (cDev = 0 ∨ cDev = p) ∧ s.subs.any (·.is p cEnt cFeat sEnt sFeat) = true := by
  unfold delSub
  rw [clean_delSub, target_clean]
  cases h1 : findF (s.rem p) cEnt cFeat with
  | none => simp
  | some cl =>
  cases h2 : findF s.loc sEnt sFeat with
  | none => simp
  | some sv =>
  simp only [Option.isSome_some, true_and]
  by_cases hd : (cDev = 0 || cDev = p) = true
  · rw [if_pos hd]
    have hd' : cDev = 0 ∨ cDev = p := by simpa using hd
    dsimp only
    have hl := filter_not_length_eq_iff s.subs (·.is p cEnt cFeat sEnt sFeat)
    by_cases hk : (s.subs.filter fun e => !e.is p cEnt cFeat sEnt sFeat).length = s.subs.length
    · rw [if_pos hk]
      have hany := hl.mp hk
      simp only [Bool.false_eq_true, false_iff]
      intro hc
      rw [hany] at hc
      exact Bool.noConfusion hc.2
    · rw [if_neg hk]
      have hany : s.subs.any (·.is p cEnt cFeat sEnt sFeat) = true := by
        cases h : s.subs.any (·.is p cEnt cFeat sEnt sFeat) with
        | true => rfl
        | false => exact absurd (hl.mpr h) hk
      simp only [true_iff]
      exact ⟨hd', hany⟩
  · rw [if_neg hd]
    have hd' : ¬ (cDev = 0 ∨ cDev = p) := by simpa using hd
    simp [hd']

/-- every member: when the device address is omitted or the requester's own, a subscription delete behaves as the
    repaired code -/
theorem delSub_own_device (c : Cfg) (s : St) (p cDev : Nat) (hd : cDev = 0 ∨ cDev = p) (cEnt : List Nat) (cFeat : Nat)
    (sEnt : List Nat) (sFeat : Nat) :
    delSub c s p cDev cEnt cFeat sEnt sFeat = delSub Cfg.clean s p cDev cEnt cFeat sEnt sFeat := by
  unfold delSub
  rw [target_own _ p cDev hd, target_own _ p cDev hd]

theorem addBind_result (s : St) (p : Nat) (cEnt : List Nat) (cFeat : Nat) (sEnt : List Nat) (sFeat typ : Nat) :
    (addBind s p cEnt cFeat sEnt sFeat typ).2 = true ↔
      requestOk s p cEnt cFeat sEnt sFeat typ = true ∧ (onServer s sEnt sFeat) = [] := by
  unfold addBind onServer
  by_cases h1 : requestOk s p cEnt cFeat sEnt sFeat typ = true
  · by_cases h2 : s.binds.any (fun e => e.sEnt = sEnt && e.sFeat = sFeat) = true
    · simp only [h1, h2, Bool.not_true, Bool.false_eq_true, if_false, if_true, true_and, false_iff]
      intro hnil
      rw [List.filter_eq_nil_iff] at hnil
      obtain ⟨e, he, hp⟩ := List.any_eq_true.mp h2
      exact hnil e he hp
    · have h2' : s.binds.any (fun e => e.sEnt = sEnt && e.sFeat = sFeat) = false := by simpa using h2
      simp only [h1, h2', Bool.not_true, Bool.false_eq_true, if_false, true_and, true_iff]
      rw [List.filter_eq_nil_iff]
      intro e he
      have := List.any_eq_false.mp h2' e he
      simpa using this
  · have h1' : requestOk s p cEnt cFeat sEnt sFeat typ = false := by simpa using h1
    simp [h1']

theorem addBind_effect (s : St) (p : Nat) (cEnt : List Nat) (cFeat : Nat) (sEnt : List Nat) (sFeat typ : Nat) :
    (addBind s p cEnt cFeat sEnt sFeat typ).1.binds =
      if (addBind s p cEnt cFeat sEnt sFeat typ).2 then s.binds ++ [⟨s.bindNum + 1, sEnt, sFeat, p, cEnt, cFeat⟩]
      else s.binds := by
  unfold addBind
  by_cases h1 : requestOk s p cEnt cFeat sEnt sFeat typ = true
  · by_cases h2 : s.binds.any (fun e => e.sEnt = sEnt && e.sFeat = sFeat) = true
    · simp [h1, h2]
    · have h2' : s.binds.any (fun e => e.sEnt = sEnt && e.sFeat = sFeat) = false := by simpa using h2
      simp [h1, h2']
  · have h1' : requestOk s p cEnt cFeat sEnt sFeat typ = false := by simpa using h1
    simp [h1']

/-- repaired code: whatever peer `p` asks to unbind, every other peer's bindings stay as they are -/
theorem c09_delete_other_peers (s : St) (p q cDev : Nat) (hq : q ≠ p) (cEnt : List Nat) (cFeat : Nat)
    (sEnt : List Nat) (sFeat : Nat) :
    bindsOf (delBind Cfg.clean s p cDev cEnt cFeat sEnt sFeat).1 q = bindsOf s q := by
  unfold bindsOf
  rcases c09_delete_exact s p cDev cEnt cFeat sEnt sFeat with h | h
  · rw [h]
  · rw [h, List.filter_filter]
    apply List.filter_congr
    intro e _
    by_cases he : e.peer = q
    · simp [Entry.is, he, hq]
    · simp [he]

/-- repaired code: a binding delete succeeds exactly when both addressed features exist, the server has server or
    special role, the device address is omitted or the requester's own, and the requester holds the addressed binding -/
theorem c09_delete_result (s : St) (p cDev : Nat) (cEnt : List Nat) (cFeat : Nat) (sEnt : List Nat) (sFeat : Nat) :
    (delBind Cfg.clean s p cDev cEnt cFeat sEnt sFeat).2 = true ↔
      (findF (s.rem p) cEnt cFeat).isSome = true ∧
      (∃ sv, findF s.loc sEnt sFeat = some sv ∧ (sv.role = .special ∨ sv.role = .server)) ∧
      (cDev = 0 ∨ cDev = p) ∧ s.binds.any (·.is p cEnt cFeat sEnt sFeat) = true := by
  unfold delBind
  cases h1 : findF (s.rem p) cEnt cFeat with
  | none => simp
  | some cl =>
  cases h2 : findF s.loc sEnt sFeat with
  | none => simp
  | some sv =>
  simp only [Option.isSome_some, true_and, Option.some.injEq, exists_eq_left']
  by_cases hr : (sv.role = .special ∨ sv.role = .server)
  · have hr' : (!(decide (sv.role = Role.special) || decide (sv.role = Role.server))) = false := by
      rcases hr with h | h <;> simp [h]
    rw [hr']
    simp only [Bool.false_eq_true, if_false]
    by_cases hh : s.binds.any (·.is p cEnt cFeat sEnt sFeat) = true
    · rw [hh]
      simp only [Bool.not_true, Bool.false_eq_true, if_false]
      by_cases hd : (cDev = 0 || cDev = p) = true
      · have hd' : cDev = 0 ∨ cDev = p := by simpa using hd
        have hf : s.binds.filter (unbindKeep Cfg.clean p cDev cEnt cFeat sEnt sFeat) =
            s.binds.filter (fun e => !e.is p cEnt cFeat sEnt sFeat) := by
          apply List.filter_congr
          intro e _
          rw [unbindKeep_clean, if_pos hd]
        rw [hf]
        have hl := filter_not_length_eq_iff s.binds (·.is p cEnt cFeat sEnt sFeat)
        have hk : ¬ (s.binds.filter fun e => !e.is p cEnt cFeat sEnt sFeat).length = s.binds.length := by
          intro hk
          have := hl.mp hk
          rw [hh] at this
          exact Bool.noConfusion this
        rw [if_neg hk]
        simp only [true_iff]
        exact ⟨hr, hd', by simpa using hh⟩
      · have hd' : ¬ (cDev = 0 ∨ cDev = p) := by simpa using hd
        have hf : s.binds.filter (unbindKeep Cfg.clean p cDev cEnt cFeat sEnt sFeat) = s.binds := by
          rw [List.filter_eq_self]
          intro e _
          rw [unbindKeep_clean, if_neg hd]
        rw [hf]
        simp [hd']
    · have hh' : s.binds.any (·.is p cEnt cFeat sEnt sFeat) = false := by simpa using hh
      rw [hh']
      simp [hr]
  · have hr' : (!(decide (sv.role = Role.special) || decide (sv.role = Role.server))) = true := by
      have : sv.role ≠ .special ∧ sv.role ≠ .server := by
        constructor <;> intro h <;> exact hr (by simp [h])
      simp [this.1, this.2]
    rw [hr']
    simp [hr]

/-- Every member of the family, on the states the stack can be in (at most one binding per server): if the device
    address is omitted or the requester's own and the addressed client feature holds no binding on another server
    feature, a binding delete behaves as the repaired code (the `&&`-for-`||` retain condition is harmless there). -/
theorem delBind_single_binding (c : Cfg) (s : St) (h1 : AtMostOne s) (p cDev : Nat) (hd : cDev = 0 ∨ cDev = p)
    (cEnt : List Nat) (cFeat : Nat) (sEnt : List Nat) (sFeat : Nat)
    (hsingle : ∀ e ∈ s.binds, e.peer = p → e.cEnt = cEnt → e.cFeat = cFeat → e.sEnt = sEnt ∧ e.sFeat = sFeat) :
    delBind c s p cDev cEnt cFeat sEnt sFeat = delBind Cfg.clean s p cDev cEnt cFeat sEnt sFeat := by
  unfold delBind
  split
  · split
    · rfl
    · split
      · rfl
      · rename_i hhas
        have hhas' : s.binds.any (·.is p cEnt cFeat sEnt sFeat) = true := by simpa using hhas
        obtain ⟨e0, he0, hi0⟩ := List.any_eq_true.mp hhas'
        have hf : s.binds.filter (unbindKeep c p cDev cEnt cFeat sEnt sFeat) =
            s.binds.filter (unbindKeep Cfg.clean p cDev cEnt cFeat sEnt sFeat) := by
          apply List.filter_congr
          intro e he
          have hdb : (cDev = 0 || cDev = p) = true := by simpa using hd
          rw [unbindKeep_clean, if_pos hdb]
          unfold unbindKeep
          rw [target_own _ p cDev hd]
          split
          · -- as written: client match or server match; both coincide with the exact match here
            simp only [Entry.is, Bool.and_eq_true, decide_eq_true_eq] at hi0
            by_cases hcm : e.peer = p ∧ e.cEnt = cEnt ∧ e.cFeat = cFeat
            · have := hsingle e he hcm.1 hcm.2.1 hcm.2.2
              simp [Entry.is, hcm.1, hcm.2.1, hcm.2.2, this.1, this.2]
            · by_cases hsm : e.sEnt = sEnt ∧ e.sFeat = sFeat
              · -- the only binding on this server is the requester's own
                have hmem : e ∈ onServer s sEnt sFeat := by
                  simp only [onServer, List.mem_filter, Bool.and_eq_true, decide_eq_true_eq]
                  exact ⟨he, hsm⟩
                have hmem0 : e0 ∈ onServer s sEnt sFeat := by
                  simp only [onServer, List.mem_filter, Bool.and_eq_true, decide_eq_true_eq]
                  exact ⟨he0, hi0.1.2, hi0.2⟩
                have := eq_of_mem_length_le_one (h1 sEnt sFeat) hmem hmem0
                subst this
                exact absurd ⟨hi0.1.1.1.1, hi0.1.1.1.2, hi0.1.1.2⟩ hcm
              · have h3 : (decide (e.peer = p) && decide (e.cEnt = cEnt) && decide (e.cFeat = cFeat)) = false := by
                  simp only [Bool.and_eq_false_imp, Bool.and_eq_true, decide_eq_true_eq, decide_eq_false_iff_not]
                  intro ⟨a, b⟩ c'; exact hcm ⟨a, b, c'⟩
                have h4 : (decide (e.sEnt = sEnt) && decide (e.sFeat = sFeat)) = false := by
                  simp only [Bool.and_eq_false_imp, decide_eq_true_eq, decide_eq_false_iff_not]
                  intro a b; exact hsm ⟨a, b⟩
                have h5 : e.is p cEnt cFeat sEnt sFeat = false := by
                  simp only [Entry.is, Bool.and_eq_false_imp, Bool.and_eq_true, decide_eq_true_eq,
                    decide_eq_false_iff_not]
                  intro ⟨⟨⟨a, b⟩, c'⟩, _⟩; exact absurd ⟨a, b, c'⟩ hcm
                simp [h3, h4, h5]
          · rfl
        rw [hf]
  · rfl

/-- as written: a peer that holds a binding of its own deletes another peer's binding by naming that peer's device -/
theorem delBind_by_device_witness :
    let fs : List Feat := [⟨[1], 3, 0, .client⟩]
    let s : St := { loc := [⟨[1], 1, 1, .server⟩, ⟨[1], 2, 2, .server⟩], rem := fun _ => fs,
                    binds := [⟨1, [1], 2, 1, [1], 3⟩, ⟨2, [1], 1, 2, [1], 3⟩] }
    bindsOf (delBind {} s 2 1 [1] 3 [1] 1).1 1 = [] ∧ bindsOf s 1 ≠ [] := by decide

/-! ### invariants over all histories -/

def key (e : Entry) : Nat × List Nat × Nat × List Nat × Nat := (e.peer, e.cEnt, e.cFeat, e.sEnt, e.sFeat)

theorem is_iff_key (e : Entry) (p : Nat) (cEnt : List Nat) (cFeat : Nat) (sEnt : List Nat) (sFeat : Nat) :
    e.is p cEnt cFeat sEnt sFeat = true ↔ key e = (p, cEnt, cFeat, sEnt, sFeat) := by
  simp [Entry.is, key, and_assoc]

/-- the subscription registry: no pair twice, no id twice, ids drawn from the counter -/
structure SubInv (s : St) : Prop where
  keys : (s.subs.map key).Nodup
  ids : (s.subs.map (·.id)).Nodup
  bound : ∀ e ∈ s.subs, e.id ≤ s.subNum

/-- the binding registry: no id twice, ids drawn from the counter -/
structure BindInv (s : St) : Prop where
  ids : (s.binds.map (·.id)).Nodup
  bound : ∀ e ∈ s.binds, e.id ≤ s.bindNum

theorem SubInv.of_sublist {s s' : St} (h : SubInv s) (hs : s'.subs.Sublist s.subs) (hn : s.subNum ≤ s'.subNum) :
    SubInv s' :=
  ⟨(hs.map key).nodup h.keys, (hs.map _).nodup h.ids, fun e he => Nat.le_trans (h.bound e (hs.subset he)) hn⟩

theorem BindInv.of_sublist {s s' : St} (h : BindInv s) (hs : s'.binds.Sublist s.binds) (hn : s.bindNum ≤ s'.bindNum) :
    BindInv s' :=
  ⟨(hs.map _).nodup h.ids, fun e he => Nat.le_trans (h.bound e (hs.subset he)) hn⟩

theorem addSub_subInv (s : St) (h : SubInv s) (p : Nat) (ce : List Nat) (cf : Nat) (se : List Nat) (sf t : Nat) :
    SubInv (addSub s p ce cf se sf t).1 := by
  unfold addSub
  split
  · exact h
  · split
    · exact h.of_sublist (List.Sublist.refl _) (Nat.le_succ _)
    · rename_i hnd
      have hnd' : s.subs.any (·.is p ce cf se sf) = false := by simpa using hnd
      refine ⟨?_, ?_, ?_⟩
      · simp only [List.map_append, List.map_cons, List.map_nil]
        rw [List.nodup_append]
        refine ⟨h.keys, by simp, ?_⟩
        intro a ha b hb
        simp only [List.mem_singleton] at hb
        subst hb
        obtain ⟨e, he, rfl⟩ := List.mem_map.mp ha
        intro heq
        have := List.any_eq_false.mp hnd' e he
        exact this ((is_iff_key e p ce cf se sf).mpr heq)
      · simp only [List.map_append, List.map_cons, List.map_nil]
        rw [List.nodup_append]
        refine ⟨h.ids, by simp, ?_⟩
        intro a ha b hb
        simp only [List.mem_singleton] at hb
        subst hb
        obtain ⟨e, he, rfl⟩ := List.mem_map.mp ha
        have := h.bound e he
        omega
      · intro e he
        rcases List.mem_append.mp he with he | he
        · exact Nat.le_succ_of_le (h.bound e he)
        · simp only [List.mem_singleton] at he
          subst he
          exact Nat.le_refl _

theorem addBind_bindInv (s : St) (h : BindInv s) (p : Nat) (ce : List Nat) (cf : Nat) (se : List Nat) (sf t : Nat) :
    BindInv (addBind s p ce cf se sf t).1 := by
  unfold addBind
  split
  · exact h
  · split
    · exact h
    · refine ⟨?_, ?_⟩
      · simp only [List.map_append, List.map_cons, List.map_nil]
        rw [List.nodup_append]
        refine ⟨h.ids, by simp, ?_⟩
        intro a ha b hb
        simp only [List.mem_singleton] at hb
        subst hb
        obtain ⟨e, he, rfl⟩ := List.mem_map.mp ha
        have := h.bound e he
        omega
      · intro e he
        rcases List.mem_append.mp he with he | he
        · exact Nat.le_succ_of_le (h.bound e he)
        · simp only [List.mem_singleton] at he
          subst he
          exact Nat.le_refl _

theorem delSub_shape (c : Cfg) (s : St) (p cd : Nat) (ce : List Nat) (cf : Nat) (se : List Nat) (sf : Nat) :
    (delSub c s p cd ce cf se sf).1.subs.Sublist s.subs ∧ (delSub c s p cd ce cf se sf).1.subNum = s.subNum ∧
    (delSub c s p cd ce cf se sf).1.rem = s.rem ∧ (delSub c s p cd ce cf se sf).1.loc = s.loc := by
  unfold delSub
  repeat' split
  all_goals first
    | exact ⟨List.Sublist.refl _, rfl, rfl, rfl⟩
    | (dsimp only; split <;> first | exact ⟨List.Sublist.refl _, rfl, rfl, rfl⟩ | exact ⟨List.filter_sublist, rfl, rfl, rfl⟩)

theorem delBind_shape (c : Cfg) (s : St) (p cd : Nat) (ce : List Nat) (cf : Nat) (se : List Nat) (sf : Nat) :
    (delBind c s p cd ce cf se sf).1.binds.Sublist s.binds ∧ (delBind c s p cd ce cf se sf).1.bindNum = s.bindNum ∧
    (delBind c s p cd ce cf se sf).1.subs = s.subs ∧ (delBind c s p cd ce cf se sf).1.subNum = s.subNum ∧
    (delBind c s p cd ce cf se sf).1.rem = s.rem ∧ (delBind c s p cd ce cf se sf).1.loc = s.loc := by
  unfold delBind
  dsimp only
  repeat' split
  all_goals first
    | exact ⟨List.Sublist.refl _, rfl, rfl, rfl, rfl, rfl⟩
    | exact ⟨List.filter_sublist, rfl, rfl, rfl, rfl, rfl⟩

theorem addSub_shape (s : St) (p : Nat) (ce : List Nat) (cf : Nat) (se : List Nat) (sf t : Nat) :
    (addSub s p ce cf se sf t).1.binds = s.binds ∧ (addSub s p ce cf se sf t).1.bindNum = s.bindNum ∧
    (addSub s p ce cf se sf t).1.rem = s.rem ∧ (addSub s p ce cf se sf t).1.loc = s.loc := by
  unfold addSub; repeat' split
  all_goals exact ⟨rfl, rfl, rfl, rfl⟩

theorem addBind_shape (s : St) (p : Nat) (ce : List Nat) (cf : Nat) (se : List Nat) (sf t : Nat) :
    (addBind s p ce cf se sf t).1.subs = s.subs ∧ (addBind s p ce cf se sf t).1.subNum = s.subNum ∧
    (addBind s p ce cf se sf t).1.rem = s.rem ∧ (addBind s p ce cf se sf t).1.loc = s.loc := by
  unfold addBind; repeat' split
  all_goals exact ⟨rfl, rfl, rfl, rfl⟩

theorem dropEntity_shape (c : Cfg) (s : St) (p : Nat) (ent : List Nat) :
    (dropEntity c s p ent).subs.Sublist s.subs ∧ (dropEntity c s p ent).binds.Sublist s.binds ∧
    (dropEntity c s p ent).subNum = s.subNum ∧ (dropEntity c s p ent).bindNum = s.bindNum := by
  unfold dropEntity
  split
  · exact ⟨List.Sublist.refl _, List.Sublist.refl _, rfl, rfl⟩
  · exact ⟨List.filter_sublist, List.filter_sublist, rfl, rfl⟩

theorem removeEntity_shape (c : Cfg) (s : St) (p : Nat) (ent : List Nat) :
    (removeEntity c s p ent).subs.Sublist s.subs ∧ (removeEntity c s p ent).binds.Sublist s.binds ∧
    (removeEntity c s p ent).subNum = s.subNum ∧ (removeEntity c s p ent).bindNum = s.bindNum := by
  unfold removeEntity
  split
  · exact ⟨List.Sublist.refl _, List.Sublist.refl _, rfl, rfl⟩
  · split
    · exact dropEntity_shape c s p ent
    · split
      · exact ⟨List.filter_sublist, List.filter_sublist, rfl, rfl⟩
      · exact ⟨List.Sublist.refl _, List.Sublist.refl _, rfl, rfl⟩

theorem delSub_bare (c : Cfg) (s : St) (p cd : Nat) (ce : List Nat) (cf : Nat) (se : List Nat) (sf : Nat) :
    (delSub c s p cd ce cf se sf).1.bare = s.bare := by
  unfold delSub
  repeat' split
  all_goals first | rfl | (dsimp only; split <;> rfl)

theorem delBind_bare (c : Cfg) (s : St) (p cd : Nat) (ce : List Nat) (cf : Nat) (se : List Nat) (sf : Nat) :
    (delBind c s p cd ce cf se sf).1.bare = s.bare := by
  unfold delBind
  dsimp only
  repeat' split
  all_goals rfl

theorem step_subInv (c : Cfg) (s : St) (h : SubInv s) (op : Op) : SubInv (step c s op) := by
  cases op with
  | bind p ce cf se sf t =>
    have := addBind_shape s p ce cf se sf t
    exact h.of_sublist (by simp only [step]; rw [this.1]; exact List.Sublist.refl _) (by simp only [step]; rw [this.2.1]; exact Nat.le_refl _)
  | unbind p cd ce cf se sf =>
    have := delBind_shape c s p cd ce cf se sf
    exact h.of_sublist (by simp only [step]; rw [this.2.2.1]; exact List.Sublist.refl _) (by simp only [step]; rw [this.2.2.2.1]; exact Nat.le_refl _)
  | sub p ce cf se sf t => exact addSub_subInv s h p ce cf se sf t
  | unsub p cd ce cf se sf =>
    have := delSub_shape c s p cd ce cf se sf
    exact h.of_sublist this.1 (by simp only [step]; rw [this.2.1]; exact Nat.le_refl _)
  | drop p => exact h.of_sublist List.filter_sublist (Nat.le_refl _)
  | dropEnt p ent =>
    have := removeEntity_shape c s p ent
    exact h.of_sublist this.1 (by simp only [step]; rw [this.2.2.1]; exact Nat.le_refl _)
  | bareEnt p ent => exact h.of_sublist (List.Sublist.refl _) (Nat.le_refl _)
  | subsPass p ent => exact h.of_sublist List.filter_sublist (Nat.le_refl _)
  | bindsPass p ent => exact h.of_sublist (List.Sublist.refl _) (Nat.le_refl _)

theorem step_bindInv (c : Cfg) (s : St) (h : BindInv s) (op : Op) : BindInv (step c s op) := by
  cases op with
  | bind p ce cf se sf t => exact addBind_bindInv s h p ce cf se sf t
  | unbind p cd ce cf se sf =>
    have := delBind_shape c s p cd ce cf se sf
    exact h.of_sublist this.1 (by simp only [step]; rw [this.2.1]; exact Nat.le_refl _)
  | sub p ce cf se sf t =>
    have := addSub_shape s p ce cf se sf t
    exact h.of_sublist (by simp only [step]; rw [this.1]; exact List.Sublist.refl _) (by simp only [step]; rw [this.2.1]; exact Nat.le_refl _)
  | unsub p cd ce cf se sf =>
    have h1 := binds_unsub c s p cd ce cf se sf
    have h2 : (delSub c s p cd ce cf se sf).1.bindNum = s.bindNum := by
      unfold delSub
      repeat' split
      all_goals first | rfl | (dsimp only; split <;> rfl)
    exact h.of_sublist (by simp only [step]; rw [h1]; exact List.Sublist.refl _) (by simp only [step]; rw [h2]; exact Nat.le_refl _)
  | drop p => exact h.of_sublist List.filter_sublist (Nat.le_refl _)
  | dropEnt p ent =>
    have := removeEntity_shape c s p ent
    exact h.of_sublist this.2.1 (by simp only [step]; rw [this.2.2.2]; exact Nat.le_refl _)
  | bareEnt p ent => exact h.of_sublist (List.Sublist.refl _) (Nat.le_refl _)
  | subsPass p ent => exact h.of_sublist (List.Sublist.refl _) (Nat.le_refl _)
  | bindsPass p ent => exact h.of_sublist List.filter_sublist (Nat.le_refl _)

theorem history_subInv (c : Cfg) (loc : List Feat) (rem : Nat → List Feat) (ops : List Op) :
    SubInv (ops.foldl (step c) { loc := loc, rem := rem }) := by
  suffices ∀ s, SubInv s → SubInv (ops.foldl (step c) s) from
    this _ ⟨by simp, by simp, by simp⟩
  induction ops with
  | nil => intro s h; exact h
  | cons op ops ih => intro s h; exact ih _ (step_subInv c s h op)

theorem history_bindInv (c : Cfg) (loc : List Feat) (rem : Nat → List Feat) (ops : List Op) :
    BindInv (ops.foldl (step c) { loc := loc, rem := rem }) := by
  suffices ∀ s, BindInv s → BindInv (ops.foldl (step c) s) from
    this _ ⟨by simp, by simp⟩
  induction ops with
  | nil => intro s h; exact h
  | cons op ops ih => intro s h; exact ih _ (step_bindInv c s h op)

/-! ### fan-out -/

theorem mem_notifyTargets (s : St) (sEnt : List Nat) (sFeat : Nat) (t : Nat × List Nat × Nat) :
    t ∈ notifyTargets s sEnt sFeat ↔
      ∃ e ∈ s.subs, e.sEnt = sEnt ∧ e.sFeat = sFeat ∧ t = (e.peer, e.cEnt, e.cFeat) := by
  simp only [notifyTargets, List.mem_map, List.mem_filter, Bool.and_eq_true, decide_eq_true_eq]
  constructor
  · rintro ⟨e, ⟨he, h1, h2⟩, rfl⟩; exact ⟨e, he, h1, h2, rfl⟩
  · rintro ⟨e, he, h1, h2, rfl⟩; exact ⟨e, ⟨he, h1, h2⟩, rfl⟩

theorem notifyTargets_nodup (s : St) (h : SubInv s) (sEnt : List Nat) (sFeat : Nat) :
    (notifyTargets s sEnt sFeat).Nodup := by
  unfold notifyTargets
  apply nodup_map_filter s.subs key _ _ h.keys
  intro a b _ _ ha hb hg
  simp only [Bool.and_eq_true, decide_eq_true_eq] at ha hb
  simp only [Prod.mk.injEq] at hg
  simp [key, hg.1, hg.2.1, hg.2.2, ha.1, ha.2, hb.1, hb.2]

theorem notifyTargets_length (s : St) (sEnt : List Nat) (sFeat : Nat) :
    (notifyTargets s sEnt sFeat).length = (s.subs.filter fun e => e.sEnt = sEnt && e.sFeat = sFeat).length := by
  simp [notifyTargets]

/-! ### fan-out when some connections cannot be written to -/

theorem sendLoop_continue (fails : Nat → Bool) (ts : List (Nat × List Nat × Nat)) :
    sendLoop false fails ts = ts.filter (fun t => !fails t.1) := by
  induction ts with
  | nil => rfl
  | cons t ts ih =>
    simp only [sendLoop, List.filter_cons]
    cases h : fails t.1 <;> simp [ih]

/-- what a healthy subscriber gets does not depend on which OTHER connections fail: it is the registry's entries on the
    feature for that peer — a function of the subscription set only -/
theorem delivered_healthy (s : St) (fails : Nat → Bool) (sEnt : List Nat) (sFeat : Nat) (q : Nat) (hq : fails q = false) :
    (delivered s fails sEnt sFeat).filter (·.1 = q) = (notifyTargets s sEnt sFeat).filter (·.1 = q) := by
  unfold delivered
  rw [sendLoop_continue, List.filter_filter]
  apply List.filter_congr
  intro t _
  by_cases ht : t.1 = q
  · simp [ht, hq]
  · simp [ht]

/-- the member that leaves the loop at the first failure: the healthy subscriber registered after a failing one gets
    nothing -/
theorem sendLoop_stop_witness :
    sendLoop true (fun p => p = 1) [(1, [1], 1), (2, [1], 1)] = [] ∧
    sendLoop false (fun p => p = 1) [(1, [1], 1), (2, [1], 1)] = [(2, [1], 1)] := by decide

/-! ### C10: entries belong to announced entities; entity removal -/

theorem sane_init (loc : List Feat) (rem : Nat → List Feat) : Sane { loc := loc, rem := rem } :=
  ⟨by simp, by simp⟩

theorem mem_knownEnts {s : St} {p : Nat} {x : List Nat} :
    x ∈ knownEnts s p ↔ (∃ f ∈ s.rem p, f.ent = x) ∨ x ∈ s.bare p := by
  simp [knownEnts]

theorem requestOk_ent {s : St} {p : Nat} {ce : List Nat} {cf : Nat} {se : List Nat} {sf t : Nat}
    (h : requestOk s p ce cf se sf t = true) : (knownEnts s p).contains ce = true := by
  obtain ⟨_, cl, _, hc, _⟩ := (requestOk_iff s p ce cf se sf t).mp h
  have := findF_some hc
  simp only [List.contains_eq_mem, decide_eq_true_eq]
  exact mem_knownEnts.mpr (Or.inl ⟨cl, this.1, this.2.1⟩)

theorem addSub_sane (s : St) (h : Sane s) (p : Nat) (ce : List Nat) (cf : Nat) (se : List Nat) (sf t : Nat) :
    Sane (addSub s p ce cf se sf t).1 := by
  unfold addSub
  split
  · exact h
  · rename_i hok
    have hok' : requestOk s p ce cf se sf t = true := by simpa using hok
    split
    · exact h
    · refine ⟨?_, h.2⟩
      intro e he
      rcases List.mem_append.mp he with he | he
      · exact h.1 e he
      · simp only [List.mem_singleton] at he
        subst he
        exact requestOk_ent hok'

theorem addBind_sane (s : St) (h : Sane s) (p : Nat) (ce : List Nat) (cf : Nat) (se : List Nat) (sf t : Nat) :
    Sane (addBind s p ce cf se sf t).1 := by
  unfold addBind
  split
  · exact h
  · rename_i hok
    have hok' : requestOk s p ce cf se sf t = true := by simpa using hok
    split
    · exact h
    · refine ⟨h.1, ?_⟩
      intro e he
      rcases List.mem_append.mp he with he | he
      · exact h.2 e he
      · simp only [List.mem_singleton] at he
        subst he
        exact requestOk_ent hok'

theorem Sane.of_sublist {s s' : St} (h : Sane s) (h1 : s'.subs.Sublist s.subs) (h2 : s'.binds.Sublist s.binds)
    (hr : s'.rem = s.rem) (hb : s'.bare = s.bare) : Sane s' := by
  have hk : ∀ q, knownEnts s' q = knownEnts s q := by intro q; simp only [knownEnts, hr, hb]
  exact ⟨fun e he => by rw [hk]; exact h.1 e (h1.subset he), fun e he => by rw [hk]; exact h.2 e (h2.subset he)⟩

/-- entries may go as long as what stays refers to an entity that is still known: all entries of entity `ent` of peer
    `p` go, every other known entity stays known -/
theorem Sane.of_removal {s s' : St} (h : Sane s) (p : Nat) (ent : List Nat)
    (h1 : ∀ e ∈ s'.subs, e ∈ s.subs ∧ ¬ (e.peer = p ∧ e.cEnt = ent))
    (h2 : ∀ e ∈ s'.binds, e ∈ s.binds ∧ ¬ (e.peer = p ∧ e.cEnt = ent))
    (hk : ∀ q x, x ∈ knownEnts s q → (q = p ∧ x = ent) ∨ x ∈ knownEnts s' q) : Sane s' := by
  constructor
  · intro e he
    have hm : e.cEnt ∈ knownEnts s e.peer := by simpa using h.1 e (h1 e he).1
    rcases hk e.peer e.cEnt hm with hc | hc
    · exact absurd hc (h1 e he).2
    · simpa using hc
  · intro e he
    have hm : e.cEnt ∈ knownEnts s e.peer := by simpa using h.2 e (h2 e he).1
    rcases hk e.peer e.cEnt hm with hc | hc
    · exact absurd hc (h2 e he).2
    · simpa using hc

/-- repaired code: entity removal keeps every entry inside the known trees -/
theorem dropEntity_sane_clean (s : St) (h : Sane s) (p : Nat) (ent : List Nat) : Sane (dropEntity Cfg.clean s p ent) := by
  unfold dropEntity
  split
  · exact h
  · rw [clean_dropAny]
    apply h.of_removal p ent
    · intro e he
      have hm := List.mem_filter.mp he
      exact ⟨hm.1, by intro hc; simp [hc.1, hc.2] at hm⟩
    · intro e he
      have hm := List.mem_filter.mp he
      exact ⟨hm.1, by intro hc; simp [hc.1, hc.2] at hm⟩
    · intro q x hx
      by_cases hq : q = p
      · by_cases hxe : x = ent
        · exact Or.inl ⟨hq, hxe⟩
        · right
          rcases mem_knownEnts.mp hx with ⟨f, hf, hfe⟩ | hb
          · refine mem_knownEnts.mpr (Or.inl ⟨f, ?_, hfe⟩)
            dsimp only
            rw [if_pos hq, List.mem_filter]
            subst hq
            exact ⟨hf, by simp [hfe, hxe]⟩
          · exact mem_knownEnts.mpr (Or.inr hb)
      · right
        rcases mem_knownEnts.mp hx with ⟨f, hf, hfe⟩ | hb
        · refine mem_knownEnts.mpr (Or.inl ⟨f, ?_, hfe⟩)
          dsimp only
          rw [if_neg hq]
          exact hf
        · exact mem_knownEnts.mpr (Or.inr hb)

theorem removeEntity_sane_clean (s : St) (h : Sane s) (p : Nat) (ent : List Nat) : Sane (removeEntity Cfg.clean s p ent) := by
  unfold removeEntity
  split
  · exact h
  · split
    · -- the cascade for an entity with features; the bare list forgets the entity as well
      have hd := dropEntity_sane_clean s h p ent
      have hs := dropEntity_shape Cfg.clean s p ent
      apply hd.of_removal p ent
      · intro e he
        refine ⟨he, ?_⟩
        intro hc
        rename_i hex
        unfold dropEntity at he
        rw [hex] at he
        simp only [Bool.not_true, Bool.false_eq_true, if_false] at he
        have := (List.mem_filter.mp he).2
        simp [hc.1, hc.2] at this
      · intro e he
        refine ⟨he, ?_⟩
        intro hc
        rename_i hex
        unfold dropEntity at he
        rw [hex, clean_dropAny] at he
        simp only [Bool.not_true, Bool.false_eq_true, if_false, Bool.false_or] at he
        have := (List.mem_filter.mp he).2
        simp [hc.1, hc.2] at this
      · intro q x hx
        by_cases hc : q = p ∧ x = ent
        · exact Or.inl hc
        · right
          rcases mem_knownEnts.mp hx with hf | hb
          · exact mem_knownEnts.mpr (Or.inl hf)
          · refine mem_knownEnts.mpr (Or.inr ?_)
            dsimp only
            by_cases hq : q = p
            · rw [if_pos hq, List.mem_filter]
              have hbs : x ∈ s.bare p := by
                unfold dropEntity at hb
                split at hb
                · rw [← hq]; exact hb
                · rw [← hq]; exact hb
              exact ⟨hbs, by simpa using fun hxe => hc ⟨hq, hxe⟩⟩
            · rw [if_neg hq]
              unfold dropEntity at hb
              split at hb <;> exact hb
    · split
      · rw [clean_dropAny]
        apply h.of_removal p ent
        · intro e he
          have hm := List.mem_filter.mp he
          exact ⟨hm.1, by intro hc; simp [hc.1, hc.2] at hm⟩
        · intro e he
          have hm := List.mem_filter.mp he
          exact ⟨hm.1, by intro hc; simp [hc.1, hc.2] at hm⟩
        · intro q x hx
          by_cases hc : q = p ∧ x = ent
          · exact Or.inl hc
          · right
            rcases mem_knownEnts.mp hx with hf | hb
            · exact mem_knownEnts.mpr (Or.inl hf)
            · refine mem_knownEnts.mpr (Or.inr ?_)
              dsimp only
              by_cases hq : q = p
              · rw [if_pos hq, List.mem_filter]
                exact ⟨hq ▸ hb, by simpa using fun hxe => hc ⟨hq, hxe⟩⟩
              · rw [if_neg hq]; exact hb
      · exact h

theorem Sane.of_known {s s' : St} (h : Sane s) (h1 : s'.subs.Sublist s.subs) (h2 : s'.binds.Sublist s.binds)
    (hk : ∀ q x, x ∈ knownEnts s q → x ∈ knownEnts s' q) : Sane s' :=
  ⟨fun e he => by
      have hm : e.cEnt ∈ knownEnts s e.peer := by simpa using h.1 e (h1.subset he)
      simpa using hk _ _ hm,
   fun e he => by
      have hm : e.cEnt ∈ knownEnts s e.peer := by simpa using h.2 e (h2.subset he)
      simpa using hk _ _ hm⟩

/-- an `added` entry without features keeps every entry inside the known trees: the entity stays known, bare -/
theorem bareEntity_sane (s : St) (h : Sane s) (p : Nat) (ent : List Nat) : Sane (bareEntity s p ent) := by
  refine Sane.of_known (s' := bareEntity s p ent) h (List.Sublist.refl _) (List.Sublist.refl _) ?_
  intro q x hx
  unfold bareEntity
  by_cases hq : q = p
  · subst hq
    by_cases hxe : x = ent
    · exact mem_knownEnts.mpr (Or.inr (by simp [hxe]))
    · rcases mem_knownEnts.mp hx with ⟨f, hf, hfe⟩ | hb
      · exact mem_knownEnts.mpr (Or.inl ⟨f, by simp [hf, hfe, hxe], hfe⟩)
      · exact mem_knownEnts.mpr (Or.inr (by simp [hb, hxe]))
  · rcases mem_knownEnts.mp hx with ⟨f, hf, hfe⟩ | hb
    · exact mem_knownEnts.mpr (Or.inl ⟨f, by simp [hq, hf], hfe⟩)
    · exact mem_knownEnts.mpr (Or.inr (by simp [hq, hb]))

theorem step_sane_clean (s : St) (h : Sane s) (op : Op) : Sane (step Cfg.clean s op) := by
  cases op with
  | bind p ce cf se sf t => exact addBind_sane s h p ce cf se sf t
  | unbind p cd ce cf se sf =>
    have := delBind_shape Cfg.clean s p cd ce cf se sf
    exact h.of_sublist (by simp only [step]; rw [this.2.2.1]; exact List.Sublist.refl _) this.1 this.2.2.2.2.1
      (delBind_bare Cfg.clean s p cd ce cf se sf)
  | sub p ce cf se sf t => exact addSub_sane s h p ce cf se sf t
  | unsub p cd ce cf se sf =>
    have := delSub_shape Cfg.clean s p cd ce cf se sf
    exact h.of_sublist this.1 (by simp only [step]; rw [binds_unsub]; exact List.Sublist.refl _) this.2.2.1
      (delSub_bare Cfg.clean s p cd ce cf se sf)
  | drop p => exact h.of_sublist List.filter_sublist List.filter_sublist rfl rfl
  | dropEnt p ent => exact removeEntity_sane_clean s h p ent
  | bareEnt p ent => exact bareEntity_sane s h p ent
  | subsPass p ent => exact h.of_sublist List.filter_sublist (List.Sublist.refl _) rfl rfl
  | bindsPass p ent => exact h.of_sublist (List.Sublist.refl _) List.filter_sublist rfl rfl

/-- repaired code, every history: every registry entry refers to an entity its peer currently announces -/
theorem history_sane_clean (loc : List Feat) (rem : Nat → List Feat) (ops : List Op) :
    Sane (ops.foldl (step Cfg.clean) { loc := loc, rem := rem }) := by
  suffices ∀ s, Sane s → Sane (ops.foldl (step Cfg.clean) s) from this _ (sane_init loc rem)
  induction ops with
  | nil => intro s h; exact h
  | cons op ops ih => intro s h; exact ih _ (step_sane_clean s h op)

/-- repaired code: removing entity `ent` of peer `p` removes all and only the entries of that entity of that peer -/
theorem dropEntity_exact (s : St) (p : Nat) (ent : List Nat) (hex : ((s.rem p).map (·.ent)).contains ent = true) :
    (dropEntity Cfg.clean s p ent).subs = s.subs.filter (fun e => !(e.peer = p && e.cEnt = ent)) ∧
    (dropEntity Cfg.clean s p ent).binds = s.binds.filter (fun e => !(e.peer = p && e.cEnt = ent)) := by
  unfold dropEntity
  rw [clean_dropAny, hex]
  simp

/-- … and nothing at all when the peer announces no such entity -/
theorem dropEntity_absent (c : Cfg) (s : St) (p : Nat) (ent : List Nat)
    (hex : ((s.rem p).map (·.ent)).contains ent = false) : dropEntity c s p ent = s := by
  unfold dropEntity
  rw [hex]
  simp

/-! ### one removal entry of a notification: [0] kept, bare entities, the domain of `dropEntity` -/

/-- every member: a removal entry for the device information entity [0] changes nothing -/
theorem removeEntity_zero (c : Cfg) (s : St) (p : Nat) : removeEntity c s p [0] = s := by
  unfold removeEntity; simp

/-- every member: on the domain of `dropEntity` — an entity other than [0] that is announced with features — a removal
    entry is that cascade (and the entity is no longer known in any form) -/
theorem removeEntity_eq_dropEntity (c : Cfg) (s : St) (p : Nat) (ent : List Nat) (h0 : ent ≠ [0])
    (hex : ((s.rem p).map (·.ent)).contains ent = true) :
    (removeEntity c s p ent).subs = (dropEntity c s p ent).subs ∧
    (removeEntity c s p ent).binds = (dropEntity c s p ent).binds ∧
    (removeEntity c s p ent).rem = (dropEntity c s p ent).rem ∧
    (knownEnts (removeEntity c s p ent) p).contains ent = false := by
  unfold removeEntity
  rw [if_neg h0, hex]
  refine ⟨rfl, rfl, rfl, ?_⟩
  simp only [if_true, knownEnts, dropEntity, hex, Bool.not_true, Bool.false_eq_true, if_false]
  simp

/-- repaired code: an entity known WITHOUT features goes as well — all and only the (stale) entries of that entity of
    that peer, and it is forgotten -/
theorem removeEntity_bare_exact (s : St) (p : Nat) (ent : List Nat) (h0 : ent ≠ [0])
    (hex : ((s.rem p).map (·.ent)).contains ent = false) (hb : (s.bare p).contains ent = true) :
    (removeEntity Cfg.clean s p ent).subs = s.subs.filter (fun e => !(e.peer = p && e.cEnt = ent)) ∧
    (removeEntity Cfg.clean s p ent).binds = s.binds.filter (fun e => !(e.peer = p && e.cEnt = ent)) ∧
    (knownEnts (removeEntity Cfg.clean s p ent) p).contains ent = false := by
  unfold removeEntity
  rw [if_neg h0, hex, hb, clean_dropAny]
  refine ⟨by simp, by simp, ?_⟩
  have hn : ∀ f ∈ s.rem p, f.ent ≠ ent := by
    intro f hf hc
    have : ((s.rem p).map (·.ent)).contains ent = true := by
      simp only [List.contains_eq_mem, List.mem_map, decide_eq_true_eq]
      exact ⟨f, hf, hc⟩
    rw [hex] at this
    exact Bool.noConfusion this
  simp only [Bool.false_eq_true, if_false, if_true, knownEnts, List.contains_eq_mem, List.mem_append, List.mem_map,
    List.mem_filter, decide_eq_false_iff_not, not_or, not_exists, not_and]
  exact ⟨fun f hf => hn f hf, fun _ => by simp⟩

/-- every member: for a peer without bare entities `removePeer` is `dropPeer` -/
theorem removePeer_eq_dropPeer (c : Cfg) (s : St) (p : Nat) (hb : s.bare p = []) : removePeer c s p = dropPeer c s p := by
  unfold removePeer dropPeer knownEnts
  rw [hb, List.append_nil]

/-- every member: a removal entry for an entity the stack does not know changes nothing -/
theorem removeEntity_unknown (c : Cfg) (s : St) (p : Nat) (ent : List Nat)
    (hk : (knownEnts s p).contains ent = false) : removeEntity c s p ent = s := by
  have h1 : ((s.rem p).map (·.ent)).contains ent = false := by
    cases h : ((s.rem p).map (·.ent)).contains ent with
    | false => rfl
    | true =>
      have : (knownEnts s p).contains ent = true := by
        simp only [knownEnts, List.contains_eq_mem, List.mem_append, decide_eq_true_eq] at h ⊢
        exact Or.inl h
      rw [hk] at this
      exact Bool.noConfusion this
  have h2 : (s.bare p).contains ent = false := by
    cases h : (s.bare p).contains ent with
    | false => rfl
    | true =>
      have : (knownEnts s p).contains ent = true := by
        simp only [knownEnts, List.contains_eq_mem, List.mem_append, decide_eq_true_eq] at h ⊢
        exact Or.inr h
      rw [hk] at this
      exact Bool.noConfusion this
  unfold removeEntity
  split
  · rfl
  · rw [h1, h2]
    simp

/-- the stale entry of a bare entity: peer 1 subscribed from [1]/1, announced [1] again without features, then as removed -/
theorem bare_entity_witness :
    let s : St := { loc := [⟨[1], 1, 1, .server⟩], rem := fun _ => [⟨[1], 1, 1, .client⟩, ⟨[2], 1, 1, .client⟩] }
    let s1 := bareEntity (addSub s 1 [1] 1 [1] 1 1).1 1 [1]
    s1.subs.map key = [(1, [1], 1, [1], 1)] ∧ (addSub s1 1 [1] 1 [1] 1 1).2 = false ∧
    (dropEntity Cfg.clean s1 1 [1]).subs.map key = [(1, [1], 1, [1], 1)] ∧
    (removeEntity Cfg.clean s1 1 [1]).subs = [] ∧ (removePeer Cfg.clean s1 1).subs = [] := by decide

/-- every member: the subscription half of a teardown is exact; bindings of other peers are touched only where the
    flag `dropBindsAnyPeer` is on and the entity addresses coincide -/
theorem removePeer_any_member (c : Cfg) (s : St) (hs : Sane s) (p : Nat) :
    (removePeer c s p).subs = s.subs.filter (·.peer ≠ p) ∧
    (removePeer c s p).binds = s.binds.filter
      (fun e => !(e.peer = p) && !(c.dropBindsAnyPeer && (knownEnts s p).contains e.cEnt)) := by
  constructor
  · exact (c10_drop_exact s hs p).1
  · simp only [removePeer]
    apply List.filter_congr
    intro e he
    by_cases hp : e.peer = p
    · have hc := hs.2 e he
      rw [hp] at hc
      rw [hc]
      simp [hp]
    · cases c.dropBindsAnyPeer <;> simp [hp]

/-- the code as written: removing entity [1] of peer 1 deletes peer 2's binding from its own entity [1] -/
theorem dropEntity_any_peer_witness :
    let fs : List Feat := [⟨[1], 1, 1, .client⟩]
    let s : St := { loc := [⟨[1], 1, 1, .server⟩], rem := fun _ => fs, binds := [⟨1, [1], 1, 2, [1], 1⟩] }
    bindsOf (dropEntity {} s 1 [1]) 2 = [] ∧ bindsOf s 2 ≠ [] := by decide

end Spine.Reg

namespace Spine.Reg

/-! ### a teardown as the passes it consists of -/

theorem subsPasses_subs (s : St) (p : Nat) (ents : List (List Nat)) :
    (ents.foldl (fun s e => subsPass s p e) s).subs = s.subs.filter (fun e => !(e.peer = p && ents.contains e.cEnt)) ∧
    (ents.foldl (fun s e => subsPass s p e) s).binds = s.binds ∧
    (ents.foldl (fun s e => subsPass s p e) s).rem = s.rem := by
  induction ents generalizing s with
  | nil => exact ⟨(List.filter_eq_self.mpr (by intro a _; simp)).symm, rfl, rfl⟩
  | cons a ents ih =>
    simp only [List.foldl_cons]
    have := ih (subsPass s p a)
    refine ⟨?_, this.2.1, this.2.2⟩
    rw [this.1]
    simp only [subsPass, List.filter_filter]
    apply List.filter_congr
    intro e _
    by_cases hp : e.peer = p <;> by_cases ha : e.cEnt = a <;> by_cases hm : e.cEnt ∈ ents <;>
      simp [hp, ha, hm]

theorem bindsPasses_binds (c : Cfg) (s : St) (p : Nat) (ents : List (List Nat)) :
    (ents.foldl (fun s e => bindsPass c s p e) s).binds =
      s.binds.filter (fun e => !((c.dropBindsAnyPeer || e.peer = p) && ents.contains e.cEnt)) ∧
    (ents.foldl (fun s e => bindsPass c s p e) s).subs = s.subs := by
  induction ents generalizing s with
  | nil => exact ⟨(List.filter_eq_self.mpr (by intro a _; simp)).symm, rfl⟩
  | cons a ents ih =>
    simp only [List.foldl_cons]
    have := ih (bindsPass c s p a)
    refine ⟨?_, this.2⟩
    rw [this.1]
    simp only [bindsPass, List.filter_filter]
    apply List.filter_congr
    intro e _
    cases hp : (c.dropBindsAnyPeer || decide (e.peer = p)) <;> by_cases ha : e.cEnt = a <;>
      by_cases hm : e.cEnt ∈ ents <;> simp [ha, hm]

/-- RemoveRemoteDevice is exactly: for every entity of the peer a subscription pass, then for every entity a binding
    pass (every member of the family) -/
theorem removePeer_eq_passes (c : Cfg) (s : St) (p : Nat) :
    let ents := knownEnts s p
    let s1 := ents.foldl (fun s e => subsPass s p e) s
    let s2 := ents.foldl (fun s e => bindsPass c s p e) s1
    (removePeer c s p).subs = s2.subs ∧ (removePeer c s p).binds = s2.binds := by
  intro ents s1 s2
  have h1 := subsPasses_subs s p ents
  have h2 := bindsPasses_binds c s1 p ents
  refine ⟨?_, ?_⟩
  · rw [h2.2, h1.1]; rfl
  · rw [h2.1, h1.2.1]; rfl

/-- the removal of an entity is one subscription pass and one binding pass for it -/
theorem dropEntity_eq_passes (c : Cfg) (s : St) (p : Nat) (ent : List Nat)
    (hex : ((s.rem p).map (·.ent)).contains ent = true) :
    (dropEntity c s p ent).subs = (bindsPass c (subsPass s p ent) p ent).subs ∧
    (dropEntity c s p ent).binds = (bindsPass c (subsPass s p ent) p ent).binds := by
  unfold dropEntity
  rw [hex]
  exact ⟨rfl, rfl⟩

/-- every member: a subscription pass for peer `p` leaves the list of every other peer exactly as it is -/
theorem subsPass_others (s : St) (p q : Nat) (hq : q ≠ p) (ent : List Nat) :
    subsOf (subsPass s p ent) q = subsOf s q ∧ bindsOf (subsPass s p ent) q = bindsOf s q := by
  refine ⟨?_, rfl⟩
  simp only [subsOf, subsPass, List.filter_filter]
  apply List.filter_congr
  intro e _
  by_cases he : e.peer = q
  · simp [he, hq]
  · simp [he]

/-- repaired code: so does a binding pass -/
theorem bindsPass_others (s : St) (p q : Nat) (hq : q ≠ p) (ent : List Nat) :
    bindsOf (bindsPass Cfg.clean s p ent) q = bindsOf s q ∧ subsOf (bindsPass Cfg.clean s p ent) q = subsOf s q := by
  refine ⟨?_, rfl⟩
  simp only [bindsOf, bindsPass, clean_dropAny, Bool.false_or, List.filter_filter]
  apply List.filter_congr
  intro e _
  by_cases he : e.peer = q
  · simp [he, hq]
  · simp [he]

/-- the code as written: a binding pass for entity [1] of peer 1 deletes the binding peer 2 was just granted -/
theorem bindsPass_any_peer_witness :
    let fs : List Feat := [⟨[1], 1, 1, .client⟩]
    let s : St := { loc := [⟨[1], 1, 1, .server⟩], rem := fun _ => fs }
    (addBind s 2 [1] 1 [1] 1 1).2 = true ∧ bindsOf (bindsPass {} (addBind s 2 [1] 1 [1] 1 1).1 1 [1]) 2 = [] := by decide

/-! ### AddBinding as the two halves the code as written runs in separate critical sections -/

/-- first half: lookups, role / type checks, `BindingsOnFeature(server)` under the lock -/
def bindCheck (s : St) (p : Nat) (cEnt : List Nat) (cFeat : Nat) (sEnt : List Nat) (sFeat typ : Nat) : Bool :=
  requestOk s p cEnt cFeat sEnt sFeat typ && !s.binds.any (fun e => e.sEnt = sEnt && e.sFeat = sFeat)

/-- second half: the append under the lock — no second look at the registry -/
def bindInsert (s : St) (p : Nat) (cEnt : List Nat) (cFeat : Nat) (sEnt : List Nat) (sFeat : Nat) : St :=
  { s with bindNum := s.bindNum + 1, binds := s.binds ++ [⟨s.bindNum + 1, sEnt, sFeat, p, cEnt, cFeat⟩] }

/-- run without interruption the two halves are the sequential operation of the family -/
theorem addBind_halves (s : St) (p : Nat) (cEnt : List Nat) (cFeat : Nat) (sEnt : List Nat) (sFeat typ : Nat) :
    addBind s p cEnt cFeat sEnt sFeat typ =
      if bindCheck s p cEnt cFeat sEnt sFeat typ then (bindInsert s p cEnt cFeat sEnt sFeat, true) else (s, false) := by
  unfold addBind bindCheck bindInsert
  by_cases h1 : requestOk s p cEnt cFeat sEnt sFeat typ = true
  · by_cases h2 : s.binds.any (fun e => e.sEnt = sEnt && e.sFeat = sFeat) = true
    · simp [h1, h2]
    · have h2' : s.binds.any (fun e => e.sEnt = sEnt && e.sFeat = sFeat) = false := by simpa using h2
      simp [h1, h2']
  · have h1' : requestOk s p cEnt cFeat sEnt sFeat typ = false := by simpa using h1
    simp [h1']

/-- the schedule check₁ check₂ insert₁ insert₂ in the registry family: two peers with identical numbering ask for the
    same free server feature, both checks pass on the same state, both insertions happen -/
theorem bind_interleaving_witness :
    let fs : List Feat := [⟨[1], 1, 1, .client⟩]
    let s : St := { loc := [⟨[1], 1, 1, .server⟩], rem := fun _ => fs }
    bindCheck s 1 [1] 1 [1] 1 1 = true ∧ bindCheck s 2 [1] 1 [1] 1 1 = true ∧
    (onServer (bindInsert (bindInsert s 1 [1] 1 [1] 1) 2 [1] 1 [1] 1) [1] 1).length = 2 := by decide

/-- a history of calls, drops and entity removals from empty registries over fixed announced trees -/
def run (c : Cfg) (loc : List Feat) (rem : Nat → List Feat) (ops : List Op) : St :=
  ops.foldl (step c) { loc := loc, rem := rem }

/-! ### ids are never reused -/

/-- one step: every subscription afterwards was there before or carries the fresh id; the counter never decreases -/
theorem step_subs_old_or_fresh (c : Cfg) (s : St) (op : Op) :
    (∀ e ∈ (step c s op).subs, e ∈ s.subs ∨ e.id = s.subNum + 1) ∧ s.subNum ≤ (step c s op).subNum := by
  cases op with
  | sub p ce cf se sf t =>
    simp only [step, addSub]
    split
    · exact ⟨fun e he => Or.inl he, Nat.le_refl _⟩
    · split
      · exact ⟨fun e he => Or.inl he, Nat.le_succ _⟩
      · refine ⟨fun e he => ?_, Nat.le_succ _⟩
        rcases List.mem_append.mp he with he | he
        · exact Or.inl he
        · simp only [List.mem_singleton] at he; subst he; exact Or.inr rfl
  | unsub p cd ce cf se sf =>
    have := delSub_shape c s p cd ce cf se sf
    exact ⟨fun e he => Or.inl (this.1.subset he), by simp only [step]; rw [this.2.1]; exact Nat.le_refl _⟩
  | bind p ce cf se sf t =>
    have := addBind_shape s p ce cf se sf t
    exact ⟨fun e he => Or.inl (by simp only [step] at he; rw [this.1] at he; exact he), by simp only [step]; rw [this.2.1]; exact Nat.le_refl _⟩
  | unbind p cd ce cf se sf =>
    have := delBind_shape c s p cd ce cf se sf
    exact ⟨fun e he => Or.inl (by simp only [step] at he; rw [this.2.2.1] at he; exact he), by simp only [step]; rw [this.2.2.2.1]; exact Nat.le_refl _⟩
  | drop p => exact ⟨fun e he => Or.inl (List.filter_sublist.subset he), Nat.le_refl _⟩
  | dropEnt p ent =>
    have := removeEntity_shape c s p ent
    exact ⟨fun e he => Or.inl (this.1.subset he), by simp only [step]; rw [this.2.2.1]; exact Nat.le_refl _⟩
  | bareEnt p ent => exact ⟨fun e he => Or.inl he, Nat.le_refl _⟩
  | subsPass p ent => exact ⟨fun e he => Or.inl (List.filter_sublist.subset he), Nat.le_refl _⟩
  | bindsPass p ent => exact ⟨fun e he => Or.inl he, Nat.le_refl _⟩

/-- ids are never reused: whatever happens after a state `s` — requests, deletes, drops, entity removals —, a
    subscription whose id is not above the counter of `s` is a subscription of `s` (same id, same pair) -/
theorem old_id_old_entry (c : Cfg) (ops : List Op) (s : St) (e : Entry) (he : e ∈ (ops.foldl (step c) s).subs)
    (hid : e.id ≤ s.subNum) : e ∈ s.subs := by
  induction ops generalizing s with
  | nil => exact he
  | cons op ops ih =>
    have h1 := step_subs_old_or_fresh c s op
    have h2 := ih (step c s op) he (Nat.le_trans hid h1.2)
    rcases h1.1 e h2 with h | h
    · exact h
    · omega


end Spine.Reg
