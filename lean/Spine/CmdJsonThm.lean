import Spine.CmdJson
import Spine.JsonThm
/-!
# Lemmas about `Spine.CmdJson`: every well-formed command survives the JSON wire up to `norm`

Hand-proved, for every table content that satisfies the decidable side condition `tablesOk` (decided over
the regenerated tables in `Spine.Props.C18.c18_cmd_schema_is_tables`). Main result: `wire_eq`.
-/
namespace Spine.CmdJson
open Spine.Json Spine.Generated Spine.Cmd

/-! ## structural equality of schema types is equality -/

mutual
theorem tyBeq_eq (a b : Ty) (h : tyBeq a b = true) : a = b := by
  match a, b with
  | .str, .str => rfl
  | .num, .num => rfl
  | .bool, .bool => rfl
  | .ptr a, .ptr b => simp only [tyBeq] at h; rw [tyBeq_eq a b h]
  | .slice a, .slice b => simp only [tyBeq] at h; rw [tyBeq_eq a b h]
  | .struct fs, .struct gs => simp only [tyBeq] at h; rw [fieldsBeq_eq fs gs h]
  | .str, .num | .str, .bool | .str, .ptr _ | .str, .slice _ | .str, .struct _ => simp [tyBeq] at h
  | .num, .str | .num, .bool | .num, .ptr _ | .num, .slice _ | .num, .struct _ => simp [tyBeq] at h
  | .bool, .str | .bool, .num | .bool, .ptr _ | .bool, .slice _ | .bool, .struct _ => simp [tyBeq] at h
  | .ptr _, .str | .ptr _, .num | .ptr _, .bool | .ptr _, .slice _ | .ptr _, .struct _ => simp [tyBeq] at h
  | .slice _, .str | .slice _, .num | .slice _, .bool | .slice _, .ptr _ | .slice _, .struct _ => simp [tyBeq] at h
  | .struct _, .str | .struct _, .num | .struct _, .bool | .struct _, .ptr _ | .struct _, .slice _ => simp [tyBeq] at h
theorem fieldsBeq_eq (fs gs : List (Key × Bool × Ty)) (h : fieldsBeq fs gs = true) : fs = gs := by
  match fs, gs with
  | [], [] => rfl
  | (k, o, t) :: fs, (k', o', t') :: gs =>
    simp only [fieldsBeq, Bool.and_eq_true, beq_iff_eq] at h
    obtain ⟨⟨⟨hk, ho⟩, ht⟩, hr⟩ := h
    rw [Nat.eq_of_beq_eq_true hk, ho, tyBeq_eq t t' ht, fieldsBeq_eq fs gs hr]
  | [], _ :: _ => simp [fieldsBeq] at h
  | _ :: _, [] => simp [fieldsBeq] at h
end

/-! ## generic: a struct value given slot by slot -/

theorem lookupIdx_mem {α : Type} (i : Nat) (l : List (Nat × α)) (v : α) (h : lookupIdx i l = some v) :
    (i, v) ∈ l := by
  induction l with
  | nil => simp [lookupIdx] at h
  | cons p rest ih =>
    simp only [lookupIdx] at h
    split at h
    · next hi =>
      have : p = (i, v) := by
        obtain ⟨a, b⟩ := p
        simp only [Option.some.injEq] at h
        simp only at hi
        rw [hi, h]
      rw [this]; exact List.mem_cons_self
    · exact List.mem_cons_of_mem _ (ih h)

theorem lookupIdx_none {α : Type} (i : Nat) (l : List (Nat × α)) (h : i ∉ l.map (·.1)) : lookupIdx i l = none := by
  induction l with
  | nil => rfl
  | cons p rest ih =>
    simp only [List.map_cons, List.mem_cons, not_or] at h
    simp only [lookupIdx, h.1, if_false]
    exact ih h.2

theorem typedFields_slots (spTy : Slot → Ty) (g : Slot → V) (slots : List Slot)
    (h : ∀ s ∈ slots, typed (slotSpec spTy s).2.2 (g s) = true) :
    typedFields (slots.map (slotSpec spTy)) (slots.map g) = true := by
  induction slots with
  | nil => simp [typedFields]
  | cons s ss ih =>
    have h1 := h s List.mem_cons_self
    simp only [slotSpec] at h1
    simp only [List.map_cons, slotSpec, typedFields, Bool.and_eq_true]
    exact ⟨h1, ih (fun s' hs' => h s' (List.mem_cons_of_mem _ hs'))⟩

theorem normFields_slots (spTy : Slot → Ty) (g : Slot → V) (slots : List Slot) :
    normFields (slots.map (slotSpec spTy)) (slots.map g) =
      slots.map (fun s => if isEmptyV (g s) then V.nil else norm (slotSpec spTy s).2.2 (g s)) := by
  induction slots with
  | nil => simp [normFields]
  | cons s ss ih =>
    simp only [slotSpec] at ih
    simp only [List.map_cons, slotSpec, normFields, Bool.true_and]
    rw [ih]

theorem zip_map_self (slots : List Slot) (g : Slot → V) :
    slots.zip (slots.map g) = slots.map (fun s => (s, g s)) := by
  induction slots with
  | nil => rfl
  | cons s ss ih => simp only [List.map_cons, List.zip_cons_cons, ih]

theorem setOfV_map (slots : List Slot) (g : Slot → V) :
    setOfV slots (slots.map g) = slots.filterMap (fun s => dataOf (s, g s)) := by
  unfold setOfV
  rw [zip_map_self, List.filterMap_map]
  rfl

theorem specialV_map (slots : List Slot) (g : Slot → V) (k : Key) :
    specialV slots (slots.map g) k = match slots.find? (isSpecial k) with | some s => g s | none => .nil := by
  unfold specialV
  rw [zip_map_self]
  induction slots with
  | nil => rfl
  | cons s ss ih =>
    simp only [List.map_cons, List.find?_cons]
    cases h : isSpecial k s with
    | true => simp
    | false => simpa using ih

theorem slotAt_of_ok (slots : List Slot) (h : slotsOk slots = true) : ∀ s ∈ slots, slotAt slots s.idx = some s := by
  intro s hs
  simp only [slotsOk, Bool.and_eq_true, List.all_eq_true, beq_iff_eq] at h
  exact h.2 s hs

theorem nodup_of_ok (slots : List Slot) (h : slotsOk slots = true) : (slots.map (·.idx)).Nodup := by
  simp only [slotsOk, Bool.and_eq_true] at h
  exact namesDistinct_nodup _ h.1

/-- every index of a list accepted by `subIdx` is the index of one of the slots -/
theorem subIdx_mem : ∀ (is : List Nat) (slots : List Slot), subIdx is slots = true → ∀ i ∈ is, i ∈ slots.map (·.idx)
  | [], _, _, i, hi => by simp at hi
  | _ :: _, [], h, _, _ => by simp [subIdx] at h
  | j :: js, s :: ss, h, i, hi => by
    simp only [subIdx] at h
    split at h
    · next hj =>
      simp only [Bool.and_eq_true] at h
      rcases List.mem_cons.mp hi with rfl | hi'
      · simp [hj]
      · exact List.mem_cons_of_mem _ (subIdx_mem js ss h.2 i hi')
    · exact List.mem_cons_of_mem _ (subIdx_mem (j :: js) ss h i hi)

theorem filterMap_congr' {α β : Type} (f g : α → Option β) : ∀ (l : List α), (∀ x ∈ l, f x = g x) →
    l.filterMap f = l.filterMap g
  | [], _ => rfl
  | x :: xs, h => by
    simp only [List.filterMap_cons, h x List.mem_cons_self,
      filterMap_congr' f g xs (fun y hy => h y (List.mem_cons_of_mem _ hy))]

theorem collect_nil (sp : Slot → V) (slots : List Slot) :
    slots.filterMap (fun s => dataOf (s, slotV sp ([] : List (Nat × V)) s)) = [] := by
  induction slots with
  | nil => rfl
  | cons s ss ih =>
    simp only [List.filterMap_cons, ih]
    cases hs : s.special <;> simp [dataOf, slotV, hs, lookupIdx]

/-- reading the set fields back, in field order, returns the list they were written from -/
theorem collect_eq (sp : Slot → V) : ∀ (slots : List Slot) (set : List (Nat × V)),
    (slots.map (·.idx)).Nodup → subIdx (set.map (·.1)) slots = true →
    slots.filterMap (fun s => dataOf (s, slotV sp set s)) = set
  | slots, [], _, _ => collect_nil sp slots
  | [], _ :: _, _, h => by simp [subIdx] at h
  | s :: ss, (i, v) :: rest, hnd, h => by
    simp only [List.map_cons, subIdx] at h
    simp only [List.map_cons, List.nodup_cons] at hnd
    split at h
    · next hi =>
      simp only [Bool.and_eq_true, Bool.not_eq_true'] at h
      have hrest : ∀ s' ∈ ss, slotV sp ((i, v) :: rest) s' = slotV sp rest s' := by
        intro s' hs'
        have hne : s'.idx ≠ i := by
          intro he
          exact hnd.1 (hi ▸ he ▸ List.mem_map_of_mem (f := (·.idx)) hs')
        simp [slotV, lookupIdx, hne]
      have ih := collect_eq sp ss rest hnd.2 h.2
      have hhead : dataOf (s, slotV sp ((i, v) :: rest) s) = some (i, v) := by
        simp [dataOf, slotV, h.1, lookupIdx, hi]
      have htail : ss.filterMap (fun s' => dataOf (s', slotV sp ((i, v) :: rest) s')) =
          ss.filterMap (fun s' => dataOf (s', slotV sp rest s')) :=
        filterMap_congr' _ _ ss (fun s' hs' => by rw [hrest s' hs'])
      simp only [List.filterMap_cons, hhead, htail, ih]
    · next hi =>
      have ih := collect_eq sp ss ((i, v) :: rest) hnd.2 (by simpa using h)
      have hnot : s.idx ∉ ((i, v) :: rest).map (·.1) := by
        intro hm
        exact hnd.1 (subIdx_mem _ ss (by simpa using h) _ hm)
      have hhead : dataOf (s, slotV sp ((i, v) :: rest) s) = none := by
        cases hs : s.special
        · simp [dataOf, slotV, hs, lookupIdx_none _ _ hnot]
        · simp [dataOf, hs]
      simp only [List.filterMap_cons, hhead, ih]

/-! ## the struct value as a whole -/

def SetSub (slots : List Slot) (set : List (Nat × V)) : Prop := subIdx (set.map (·.1)) slots = true
def SetTyped (slots : List Slot) (set : List (Nat × V)) : Prop :=
  ∀ p ∈ set, ∀ s, slotAt slots p.1 = some s → typed (tyOf s.tyKey) p.2 = true

theorem typed_slots (slots : List Slot) (hok : slotsOk slots = true) (sp : Slot → V) (spTy : Slot → Ty)
    (set : List (Nat × V))
    (hsp : ∀ s ∈ slots, s.special = true → typed (spTy s) (sp s) = true) (ht : SetTyped slots set) :
    typedFields (slots.map (slotSpec spTy)) (slots.map (slotV sp set)) = true := by
  apply typedFields_slots
  intro s hs
  simp only [slotSpec, slotV]
  cases hsp' : s.special with
  | true => simpa using hsp s hs hsp'
  | false =>
    simp only [Bool.false_eq_true, if_false]
    cases hl : lookupIdx s.idx set with
    | none => simp [typed]
    | some v =>
      simp only [typed]
      exact ht _ (lookupIdx_mem _ _ _ hl) s (slotAt_of_ok slots hok s hs)

theorem lookupIdx_normAt (slots : List Slot) (i : Nat) (set : List (Nat × V)) :
    lookupIdx i (set.map (normAt slots)) = (lookupIdx i set).map (fun v => (normAt slots (i, v)).2) := by
  induction set with
  | nil => rfl
  | cons p rest ih =>
    obtain ⟨j, w⟩ := p
    simp only [List.map_cons, lookupIdx, normAt]
    by_cases h : i = j
    · subst h; simp
    · simp only [h, if_false]; exact ih

theorem norm_slots (slots : List Slot) (hok : slotsOk slots = true) (sp sp' : Slot → V) (spTy : Slot → Ty)
    (set : List (Nat × V))
    (hsp : ∀ s ∈ slots, s.special = true →
      (if isEmptyV (sp s) then V.nil else norm (spTy s) (sp s)) = sp' s) :
    normFields (slots.map (slotSpec spTy)) (slots.map (slotV sp set)) =
      slots.map (slotV sp' (set.map (normAt slots))) := by
  rw [normFields_slots]
  apply List.map_congr_left
  intro s hs
  simp only [slotSpec, slotV]
  by_cases hsp' : s.special = true
  · simp only [hsp', if_true]; exact hsp s hs hsp'
  · simp only [hsp', if_false]
    rw [lookupIdx_normAt]
    cases hl : lookupIdx s.idx set with
    | none => simp [isEmptyV]
    | some v =>
      simp only [isEmptyV, Bool.false_eq_true, if_false, norm, Option.map_some, normAt,
        slotAt_of_ok slots hok s hs]

theorem map_normAt_fst (slots : List Slot) (set : List (Nat × V)) :
    (set.map (normAt slots)).map (·.1) = set.map (·.1) := by
  induction set with
  | nil => rfl
  | cons p rest ih => simp only [List.map_cons, normAt, ih]

/-! ## the facts `tablesOk` packs -/

structure TablesOk : Prop where
  cmdOk : slotsOk cmdSlots = true
  filterOk : slotsOk filterSlots = true
  cmdTy : tCmdSchema = tCmd
  filterTy : tyOf keyFilterType = tFilter
  ctlTy : tyOf keyCmdControlType =
    .struct [(keyDelete, true, .ptr (.struct [])), (keyPartial, true, .ptr (.struct []))]
  fnSlot : (cmdSlots.find? (isSpecial keyFunctionType)).isSome = true
  flSlot : (cmdSlots.find? (isSpecial keyFilterType)).isSome = true
  ctlSlot : (filterSlots.find? (isSpecial keyCmdControlType)).isSome = true

theorem tablesOk_unpack (h : tablesOk = true) : TablesOk := by
  simp only [tablesOk, Bool.and_eq_true] at h
  obtain ⟨⟨⟨⟨⟨⟨⟨h1, h2⟩, h3⟩, h4⟩, h5⟩, h6⟩, h7⟩, h8⟩ := h
  exact ⟨h1, h2, tyBeq_eq _ _ h3, tyBeq_eq _ _ h4, tyBeq_eq _ _ h5, h6, h7, h8⟩

theorem isSpecial_of_find {slots : List Slot} {k : Key} {s : Slot} (h : slots.find? (isSpecial k) = some s) :
    s.special = true ∧ (s.tyKey == k) = true ∧ s ∈ slots := by
  have h1 := List.find?_some h
  simp only [isSpecial, Bool.and_eq_true] at h1
  exact ⟨h1.1, h1.2, List.mem_of_find?_eq_some h⟩

/-! ## FilterType -/

theorem typed_ctl {α : Type} (f : Filter α) :
    typed (.ptr (.struct [(keyDelete, true, .ptr (.struct [])), (keyPartial, true, .ptr (.struct []))])) (ctlV f) = true := by
  unfold ctlV tagV
  cases f.ctl <;> cases f.delete <;> cases f.part <;> simp [typed, typedFields]

theorem norm_ctl {α : Type} (f : Filter α) :
    (if isEmptyV (ctlV f) then V.nil else
      norm (.ptr (.struct [(keyDelete, true, .ptr (.struct [])), (keyPartial, true, .ptr (.struct []))])) (ctlV f)) = ctlV f := by
  unfold ctlV tagV
  cases f.ctl <;> cases f.delete <;> cases f.part <;> simp [isEmptyV, norm, normFields]

theorem typed_filter (hok : TablesOk) (f : Filter V) (ht : SetTyped filterSlots f.set) :
    typed tFilter (filterToV f) = true := by
  unfold tFilter filterToV
  simp only [typed]
  apply typed_slots _ hok.filterOk
  · intro s _ _
    simp only [filterSpTy, filterSp]
    split
    · rw [hok.ctlTy]; exact typed_ctl f
    · simp [typed]
  · exact ht

theorem norm_filter (hok : TablesOk) (f : Filter V) : norm tFilter (filterToV f) = filterToV (normFilter f) := by
  unfold tFilter filterToV
  simp only [norm]
  congr 1
  rw [norm_slots _ hok.filterOk (filterSp f) (filterSp (normFilter f))]
  · rfl
  · intro s _ _
    simp only [filterSpTy, filterSp]
    split
    · rw [hok.ctlTy]; exact norm_ctl f
    · simp [isEmptyV]

structure FilterShape (f : Filter V) : Prop where
  ctl : f.ctl = true
  sub : SetSub filterSlots f.set

theorem filterOfV_filterToV (hok : TablesOk) (f : Filter V) (hs : FilterShape f) :
    filterOfV (filterToV f) = some f := by
  unfold filterToV filterOfV
  simp only
  rw [setOfV_map, collect_eq _ _ _ (nodup_of_ok _ hok.filterOk) hs.sub, specialV_map]
  obtain ⟨s0, hs0⟩ := Option.isSome_iff_exists.mp hok.ctlSlot
  obtain ⟨h1, h2, _⟩ := isSpecial_of_find hs0
  rw [hs0]
  simp only [slotV, h1, if_true, filterSp, h2]
  obtain ⟨ctl, part, del, set⟩ := f
  have hc : ctl = true := hs.ctl
  subst hc
  cases part <;> cases del <;> simp [ctlV, tagV, ctlOfV, isSomeV]

/-! ## CmdType -/

theorem typedList_filters (hok : TablesOk) : ∀ (fs : List (Filter V)), (∀ f ∈ fs, SetTyped filterSlots f.set) →
    typedList tFilter (fs.map filterToV) = true
  | [], _ => by simp [typedList]
  | f :: fs, h => by
    simp only [List.map_cons, typedList, Bool.and_eq_true]
    exact ⟨typed_filter hok f (h f List.mem_cons_self),
      typedList_filters hok fs (fun g hg => h g (List.mem_cons_of_mem _ hg))⟩

theorem normList_filters (hok : TablesOk) : ∀ (fs : List (Filter V)),
    normList tFilter (fs.map filterToV) = (fs.map normFilter).map filterToV
  | [] => by simp [normList]
  | f :: fs => by
    simp only [List.map_cons, normList, norm_filter hok f, normList_filters hok fs]

theorem filtersOfV_filters (hok : TablesOk) : ∀ (fs : List (Filter V)), (∀ f ∈ fs, FilterShape f) →
    filtersOfV (fs.map filterToV) = some fs
  | [], _ => rfl
  | f :: fs, h => by
    simp only [List.map_cons, filtersOfV, filterOfV_filterToV hok f (h f List.mem_cons_self),
      filtersOfV_filters hok fs (fun g hg => h g (List.mem_cons_of_mem _ hg))]

structure CmdShape (c : Cmd V) : Prop where
  sub : SetSub cmdSlots c.data
  filters : ∀ f ∈ c.filter, FilterShape f
  fn : fnKeyOk c.function = true

structure CmdTyped (c : Cmd V) : Prop where
  data : SetTyped cmdSlots c.data
  filters : ∀ f ∈ c.filter, SetTyped filterSlots f.set

theorem typed_cmd (hok : TablesOk) (c : Cmd V) (ht : CmdTyped c) : typed tCmd (cmdToV c) = true := by
  unfold tCmd cmdToV
  simp only [typed]
  apply typed_slots _ hok.cmdOk
  · intro s _ _
    simp only [cmdSpTy, cmdSp]
    split
    · cases c.function <;> simp [fnV, typed]
    · split
      · unfold filtersV
        split
        · simp [typed]
        · simp only [typed]; exact typedList_filters hok c.filter ht.filters
      · simp [typed]
  · exact ht.data

theorem norm_cmd (hok : TablesOk) (c : Cmd V) : norm tCmd (cmdToV c) = cmdToV (normCmd c) := by
  unfold tCmd cmdToV
  simp only [norm]
  congr 1
  rw [norm_slots _ hok.cmdOk (cmdSp c) (cmdSp (normCmd c))]
  · rfl
  · intro s _ _
    simp only [cmdSpTy, cmdSp]
    split
    · simp only [normCmd]; cases c.function <;> simp [fnV, isEmptyV, norm]
    · split
      · obtain ⟨fn, fs, data⟩ := c
        simp only [normCmd, filtersV]
        cases fs with
        | nil => simp [isEmptyV]
        | cons f fs =>
          simp only [List.isEmpty_cons, Bool.false_eq_true, if_false, isEmptyV, List.map_cons, norm]
          have := normList_filters hok (f :: fs)
          simp only [List.map_cons] at this
          rw [this]
      · simp [isEmptyV]

theorem keyFilter_ne_function : (keyFilterType == keyFunctionType) = false := by decide

theorem cmdOfV_cmdToV (hok : TablesOk) (c : Cmd V) (hs : CmdShape c) : cmdOfV (cmdToV c) = some c := by
  unfold cmdToV cmdOfV
  simp only
  rw [setOfV_map, collect_eq _ _ _ (nodup_of_ok _ hok.cmdOk) hs.sub, specialV_map, specialV_map]
  obtain ⟨s0, hs0⟩ := Option.isSome_iff_exists.mp hok.fnSlot
  obtain ⟨s1, hs1⟩ := Option.isSome_iff_exists.mp hok.flSlot
  obtain ⟨h01, h02, _⟩ := isSpecial_of_find hs0
  obtain ⟨h11, h12, _⟩ := isSpecial_of_find hs1
  have h13 : (s1.tyKey == keyFunctionType) = false := by
    have : s1.tyKey = keyFilterType := by simpa using h12
    rw [this]; exact keyFilter_ne_function
  rw [hs0, hs1]
  simp only [slotV, h01, h11, if_true, cmdSp, h02, h12, h13, Bool.false_eq_true, if_false]
  obtain ⟨fn, fs, data⟩ := c
  have hfl : filterListOfV (filtersV fs) = some fs := by
    unfold filtersV
    cases fs with
    | nil => rfl
    | cons f fs' =>
      simp only [List.isEmpty_cons, Bool.false_eq_true, if_false, filterListOfV]
      exact filtersOfV_filters hok (f :: fs') hs.filters
  have hfn : fnOfV (fnV fn) = fn := by
    cases fn with
    | none => rfl
    | some k =>
      have := hs.fn
      simp only [fnKeyOk, beq_iff_eq] at this
      simp only [fnV, fnOfV, this]
  simp only [hfl, hfn]

theorem shape_norm (c : Cmd V) (hs : CmdShape c) : CmdShape (normCmd c) := by
  refine ⟨?_, ?_, hs.fn⟩
  · show subIdx ((c.data.map (normAt cmdSlots)).map (·.1)) cmdSlots = true
    rw [map_normAt_fst]; exact hs.sub
  · intro f hf
    simp only [normCmd, List.mem_map] at hf
    obtain ⟨g, hg, rfl⟩ := hf
    refine ⟨(hs.filters g hg).ctl, ?_⟩
    show subIdx ((g.set.map (normAt filterSlots)).map (·.1)) filterSlots = true
    rw [map_normAt_fst]; exact (hs.filters g hg).sub

/-- MAIN LEMMA: a well-formed, well-typed command — whatever its values — encoded with the SCHEMA's
    `CmdType` by the JSON model, decoded and read back is the same command with every value replaced by
    its normal form under the type of the field it sits in. -/
theorem wire_eq (hok : tablesOk = true) (hwf : wf tCmdSchema = true) (c : Cmd V)
    (hs : CmdShape c) (ht : CmdTyped c) : wire c = some (normCmd c) := by
  have ok := tablesOk_unpack hok
  unfold wire
  rw [decode_encode tCmdSchema (cmdToV c) hwf (by rw [ok.cmdTy]; exact typed_cmd ok c ht)]
  simp only
  rw [ok.cmdTy, norm_cmd ok c, cmdOfV_cmdToV ok _ (shape_norm c hs)]

end Spine.CmdJson
