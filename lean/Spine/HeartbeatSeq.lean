import Spine.Heartbeat
/-! C16, lemmas: the code as written, when start / stop operations do not overlap, behaves as the repaired
    (atomic) operations — the region where the code as written satisfies the schedule clauses. -/
namespace Spine.HB

/-- one operation of the API -/
inductive Op | start | stop
deriving DecidableEq, Repr

/-- the events of an operation of the code as written, run without interruption (operation id `i`) -/
def splitEvents (i : Nat) : Op → List Ev
  | .stop => [.stopCheck i, .stopClose i]
  | .start => [.stopCheck i, .stopClose i, .startMake i, .startSpawn i]

/-- the same operation of the repaired code -/
def atomicEvent : Op → Ev
  | .stop => .stopAtomic
  | .start => .startAtomic

/-- no operation is between two of its events -/
def Idle (s : St) : Prop := s.checked = [] ∧ s.made = []

theorem closeCur_checked (s : St) : (closeCur s).checked = s.checked := by
  unfold closeCur; split
  · rfl
  · split <;> rfl

theorem closeCur_made (s : St) : (closeCur s).made = s.made := by
  unfold closeCur; split
  · rfl
  · split <;> rfl

theorem seq_stop_eq (s : St) (i : Nat) (h : Idle s) :
    (splitEvents i .stop).foldl step s = step s .stopAtomic := by
  obtain ⟨hc, _⟩ := h
  simp only [splitEvents, List.foldl_cons, List.foldl_nil, step]
  by_cases hr : running s = true
  · simp only [hr, if_true, hc, List.contains_cons, beq_self_eq_true, Bool.true_or, List.erase_cons_head]
    have : ({ s with checked := [] } : St) = s := by cases s; simp_all
    rw [this]
  · simp only [hr]
    simp only [Bool.false_eq_true, if_false]
    have hn : s.checked.contains i = false := by rw [hc]; rfl
    rw [hn]
    simp

theorem idle_stopAtomic (s : St) (h : Idle s) : Idle (step s .stopAtomic) := by
  simp only [step]
  split
  · exact ⟨by rw [closeCur_checked]; exact h.1, by rw [closeCur_made]; exact h.2⟩
  · exact h

/-- make a channel and spawn the stream that listens on it -/
def spawnNew (s1 : St) : St :=
  { s1 with chan := some s1.nextId, nextId := s1.nextId + 1, streams := s1.nextId :: s1.streams }

theorem startAtomic_eq (s : St) : step s .startAtomic = spawnNew (step s .stopAtomic) := rfl

theorem make_spawn_eq (s1 : St) (i : Nat) (hm : s1.made = []) :
    step (step s1 (.startMake i)) (.startSpawn i) = spawnNew s1 := by
  simp [step, spawnNew, hm]

theorem seq_start_eq (s : St) (i : Nat) (h : Idle s) :
    (splitEvents i .start).foldl step s = step s .startAtomic := by
  have hstop := seq_stop_eq s i h
  simp only [splitEvents, List.foldl_cons, List.foldl_nil] at hstop ⊢
  rw [hstop, startAtomic_eq]
  exact make_spawn_eq _ i (idle_stopAtomic s h).2

theorem idle_startAtomic (s : St) (h : Idle s) : Idle (step s .startAtomic) := by
  rw [startAtomic_eq]
  exact idle_stopAtomic s h

/-- every sequence of non-overlapping operations of the code as written ends in the state of the same sequence of
    repaired operations -/
theorem seq_run_eq (ops : List (Nat × Op)) :
    ∀ s : St, Idle s →
      (ops.flatMap fun x => splitEvents x.1 x.2).foldl step s = (ops.map fun x => atomicEvent x.2).foldl step s ∧
      Idle ((ops.map fun x => atomicEvent x.2).foldl step s) := by
  induction ops with
  | nil => intro s h; exact ⟨rfl, h⟩
  | cons x xs ih =>
    intro s h
    obtain ⟨i, op⟩ := x
    simp only [List.flatMap_cons, List.foldl_append, List.map_cons, List.foldl_cons]
    cases op with
    | stop =>
      rw [seq_stop_eq s i h]
      exact ih _ (idle_stopAtomic s h)
    | start =>
      rw [seq_start_eq s i h]
      exact ih _ (idle_startAtomic s h)

theorem repaired_atomic (ops : List (Nat × Op)) : ∀ e ∈ ops.map (fun x => atomicEvent x.2), repaired e = true := by
  intro e he
  obtain ⟨x, _, rfl⟩ := List.mem_map.mp he
  cases x.2 <;> rfl

end Spine.HB
