import Spine.UseCaseSnapThm
/-! Cross-model agreement: what the store reads after a helper program of `Spine.UCS` (clean member) is the value-level
    operation of `Spine.UC` (C20's registry model) applied to what it read before. -/
namespace Spine.UCS
open Spine.UC

def spliceAt {α : Type} : List α → Nat → (α → List α) → List α
  | [], _, _ => []
  | x :: xs, 0, g => g x ++ xs
  | x :: xs, n + 1, g => x :: spliceAt xs n g

theorem updAt_eq_splice {α : Type} (l : List α) (i : Nat) (f : α → α) : updAt l i f = spliceAt l i (fun x => [f x]) := by
  induction l generalizing i with
  | nil => rfl
  | cons x xs ih => cases i with
    | zero => rfl
    | succ i => simp [updAt, spliceAt, ih]

theorem spliceAt_eq {α : Type} (l : List α) (i : Nat) (g : α → List α) (x : α) (hx : l[i]? = some x) :
    spliceAt l i g = l.take i ++ g x ++ l.drop (i + 1) := by
  induction l generalizing i with
  | nil => simp at hx
  | cons y ys ih => cases i with
    | zero => simp at hx; subst hx; simp [spliceAt]
    | succ i => simp at hx; simp [spliceAt, ih i hx]

theorem updAt_set {α : Type} (l : List α) (i : Nat) (f : α → α) (x : α) (hx : l[i]? = some x) :
    updAt l i f = l.set i (f x) := by
  induction l generalizing i with
  | nil => simp at hx
  | cons y ys ih => cases i with
    | zero => simp at hx; subst hx; simp [updAt]
    | succ i => simp at hx; simp [updAt, ih i hx]

/-! ### the value-level operations through `findIdx?` -/

theorem add_spec (r : Reg) (ent : List Nat) (actor : Nat) (s : Support) :
    add r ent actor s =
      match r.findIdx? (hit ent actor 0) with
      | none => r ++ [⟨ent, actor, [s]⟩]
      | some i => updAt r i (fun x => { x with sup := addSup x.sup s }) := by
  induction r with
  | nil => simp [add]
  | cons x xs ih =>
    simp only [add, List.findIdx?_cons]
    by_cases hh : hit ent actor 0 x = true
    · simp [hh, updAt]
    · simp only [hh, Bool.false_eq_true, if_false]
      rw [ih]
      cases xs.findIdx? (hit ent actor 0) with
      | none => simp
      | some i => simp [updAt]

theorem setAvail_spec (r : Reg) (ent : List Nat) (actor name : Nat) (a : Bool) :
    setAvail r ent actor name a =
      match r.findIdx? (hit ent actor name) with
      | none => r
      | some i => updAt r i (fun x => { x with sup := setSupAvail x.sup name a }) := by
  induction r with
  | nil => simp [setAvail]
  | cons x xs ih =>
    simp only [setAvail, List.findIdx?_cons]
    by_cases hh : hit ent actor name x = true
    · simp [hh, updAt]
    · simp only [hh, Bool.false_eq_true, if_false]
      rw [ih]
      cases xs.findIdx? (hit ent actor name) with
      | none => simp
      | some i => simp [updAt]

def removeMid (name : Nat) (x : Info) : List Info :=
  if (x.sup.filter (·.name ≠ name)).isEmpty then [] else [{ x with sup := x.sup.filter (·.name ≠ name) }]

theorem remove_spec (r : Reg) (ent : List Nat) (actor name : Nat) :
    remove r ent actor name =
      match r.findIdx? (hit ent actor name) with
      | none => r
      | some i => spliceAt r i (removeMid name) := by
  induction r with
  | nil => simp [remove]
  | cons x xs ih =>
    simp only [remove, List.findIdx?_cons]
    by_cases hh : hit ent actor name x = true
    · simp only [hh, if_true, spliceAt, removeMid]
      split <;> simp_all
    · simp only [hh, Bool.false_eq_true, if_false]
      rw [ih]
      cases xs.findIdx? (hit ent actor name) with
      | none => simp
      | some i => simp [spliceAt]

theorem addSup_spec (sup : List Support) (s : Support) :
    addSup sup s = match supIdx sup s.name with
      | none => sup ++ [s]
      | some j => sup.set j s := by
  induction sup with
  | nil => simp [addSup, supIdx]
  | cons x xs ih =>
    simp only [addSup, supIdx, List.findIdx?_cons] at *
    by_cases hh : x.name = s.name
    · simp [hh]
    · simp only [hh, if_false, decide_false, Bool.false_eq_true]
      rw [ih]
      cases xs.findIdx? (fun x => decide (x.name = s.name)) with
      | none => simp
      | some j => simp

theorem setSupAvail_spec (sup : List Support) (name : Nat) (a : Bool) :
    setSupAvail sup name a = match supIdx sup name with
      | none => sup
      | some j => updAt sup j (fun y => { y with avail := a }) := by
  induction sup with
  | nil => simp [setSupAvail, supIdx]
  | cons x xs ih =>
    simp only [setSupAvail, supIdx, List.findIdx?_cons] at *
    by_cases hh : x.name = name
    · simp [hh, updAt]
    · simp only [hh, if_false, decide_false, Bool.false_eq_true]
      rw [ih]
      cases xs.findIdx? (fun x => decide (x.name = name)) with
      | none => simp
      | some j => simp [updAt]

end Spine.UCS

namespace Spine.UCS
open Spine.UC

/-! ### the heap after a program -/

theorem updAt_append_last {α : Type} (O : List α) (x : α) (f : α → α) : updAt (O ++ [x]) O.length f = O ++ [f x] := by
  induction O with
  | nil => rfl
  | cons y ys ih => simp [updAt, ih]

theorem findIdx?_lt {α : Type} (l : List α) (p : α → Bool) (i : Nat) (h : l.findIdx? p = some i) : i < l.length := by
  induction l generalizing i with
  | nil => simp at h
  | cons x xs ih =>
    simp only [List.findIdx?_cons] at h
    by_cases hp : p x = true
    · simp [hp] at h; subst h; simp
    · simp only [hp, Bool.false_eq_true, if_false] at h
      cases hx : xs.findIdx? p with
      | none => simp [hx] at h
      | some j => simp [hx] at h; subst h; have := ih j hx; simp; omega

theorem set_self {α : Type} (l : List α) (i : Nat) (x : α) (h : l[i]? = some x) : l.set i x = l := by
  induction l generalizing i with
  | nil => rfl
  | cons y ys ih => cases i with
    | zero => simp at h; subst h; rfl
    | succ i => simp at h; simp [ih i h]

theorem info_old (h h' : H) (t : List (List Support)) (ht : h'.inner = h.inner ++ t) (c : Cell)
    (hc : c.sup.1 < h.inner.length) : h'.info c = h.info c := by
  simp only [H.info, H.sups, ht, List.getElem?_append_left hc]

theorem map_info_old (h h' : H) (t : List (List Support)) (ht : h'.inner = h.inner ++ t) (l : List Cell)
    (hl : ∀ c ∈ l, c.sup.1 < h.inner.length) : l.map h'.info = l.map h.info :=
  List.map_congr_left fun c hc => info_old h h' t ht c (hl c hc)

theorem info_new (h' : H) (I : List (List Support)) (l : List Support) (hI : h'.inner = I ++ [l]) (e : List Nat) (a : Nat) :
    h'.info ⟨e, a, (I.length, l.length)⟩ = ⟨e, a, l⟩ := by
  simp [H.info, H.sups, hI]

theorem view_new (h' : H) (O : List (List Cell)) (arr : List Cell) (hO : h'.outer = O ++ [arr]) :
    h'.view (some (O.length, arr.length)) = arr.map h'.info := by
  simp [H.view, H.cells, hO]

theorem view_new_or_nil (h' : H) (O : List (List Cell)) (arr : List Cell) (hO : h'.outer = O ++ [arr]) :
    h'.view (if arr.isEmpty then none else some (O.length, arr.length)) = arr.map h'.info := by
  cases arr with
  | nil => simp [H.view, H.cells]
  | cons c cs => simpa using view_new h' O (c :: cs) hO

theorem view_eq (h : H) (v : Hdr) : h.view v = (h.cells v).map h.info := rfl

theorem removeAll_refines (h : H) (v : Hdr) (ent : List Nat) (_hc : cellsBound h h.inner.length) :
    (h.run (removeAllP .clean h v ent).1).view (removeAllP .clean h v ent).2 = removeAll (h.view v) ent := by
  simp only [removeAllP, Cfg.clean, Bool.false_eq_true, if_false, H.run, List.foldl_cons, List.foldl_nil, H.apply]
  rw [view_new_or_nil _ h.outer _ rfl]
  simp only [removeAll, view_eq, List.filter_map]
  have : ({ outer := h.outer ++ [(h.cells v).filter (fun c => decide (c.ent ≠ ent))], inner := h.inner } : H).info = h.info := by
    funext c; simp [H.info, H.sups]
  rw [this]
  congr 1

theorem add_refines (h : H) (v : Hdr) (ent : List Nat) (actor : Nat) (x : Support) (hc : cellsBound h h.inner.length) :
    (h.run (addP .clean h v ent actor x).1).view (addP .clean h v ent actor x).2 = add (h.view v) ent actor x := by
  have hcb := cells_bound h v _ hc
  rw [add_spec]
  unfold addP findInfo
  cases hf : (h.view v).findIdx? (hit ent actor 0) with
  | none =>
    simp only [H.run, List.foldl_cons, List.foldl_nil, H.apply]
    have := view_new { outer := h.outer ++ [h.cells v ++ [⟨ent, actor, (h.inner.length, 1)⟩]], inner := h.inner ++ [[x]] } h.outer _ rfl
    simp only [List.length_append, List.length_singleton] at this
    rw [this, List.map_append, map_info_old h _ [[x]] rfl _ hcb]
    simp only [List.map_cons, List.map_nil, view_eq]
    congr 2
    exact info_new _ h.inner [x] rfl ent actor
  | some i =>
    have hi := findIdx?_lt _ _ _ hf
    simp only [view_eq, List.length_map] at hi
    have hcell : (h.cells v)[i]? = some (h.cells v)[i] := List.getElem?_eq_getElem hi
    simp only [hcell]
    generalize hce : (h.cells v)[i] = cell at hcell
    have hcl := hcb cell (List.mem_of_getElem? hcell)
    have hri : (h.view v)[i]? = some (h.info cell) := by simp [view_eq, hcell]
    rw [updAt_set _ _ _ _ hri]
    unfold addExisting
    dsimp only
    rw [show (h.info cell).sup = h.sups cell.sup from rfl, addSup_spec]
    cases hj : supIdx (h.sups cell.sup) x.name with
    | some j =>
      simp only [Cfg.clean, Bool.false_eq_true, if_false, H.run, List.foldl_cons, List.foldl_nil, H.apply,
        updAt_append_last]
      have := view_new { outer := h.outer ++ [(h.cells v).set i { cell with sup := (h.inner.length, (h.sups cell.sup).length) }],
                         inner := h.inner ++ [(h.sups cell.sup).set j x] } h.outer _ rfl
      simp only [List.length_set] at this
      rw [this, List.map_set, map_info_old h _ [(h.sups cell.sup).set j x] rfl _ hcb]
      have hn := info_new { outer := h.outer ++ [(h.cells v).set i { cell with sup := (h.inner.length, (h.sups cell.sup).length) }],
                            inner := h.inner ++ [(h.sups cell.sup).set j x] } h.inner ((h.sups cell.sup).set j x) rfl cell.ent cell.actor
      simp only [List.length_set] at hn
      rw [hn]
      rfl
    | none =>
      simp only [H.run, List.foldl_cons, List.foldl_nil, H.apply, updAt_append_last]
      have := view_new { outer := h.outer ++ [(h.cells v).set i { cell with sup := (h.inner.length, (h.sups cell.sup).length + 1) }],
                         inner := h.inner ++ [h.sups cell.sup ++ [x]] } h.outer _ rfl
      simp only [List.length_set] at this
      rw [this, List.map_set, map_info_old h _ [h.sups cell.sup ++ [x]] rfl _ hcb]
      have hn := info_new { outer := h.outer ++ [(h.cells v).set i { cell with sup := (h.inner.length, (h.sups cell.sup).length + 1) }],
                            inner := h.inner ++ [h.sups cell.sup ++ [x]] } h.inner (h.sups cell.sup ++ [x]) rfl cell.ent cell.actor
      simp only [List.length_append, List.length_singleton] at hn
      rw [hn]
      rfl

theorem map_info_new_heap (h : H) (arr : List (List Cell)) (keep : List Support) (l : List Cell)
    (hl : ∀ c ∈ l, c.sup.1 < h.inner.length) :
    l.map ({ outer := arr, inner := h.inner ++ [keep] } : H).info = l.map h.info :=
  map_info_old h _ [keep] rfl l hl

theorem avail_refines (h : H) (v : Hdr) (ent : List Nat) (actor name : Nat) (a : Bool) (hc : cellsBound h h.inner.length) :
    (h.run (availP .clean h v ent actor name a).1).view (availP .clean h v ent actor name a).2 = setAvail (h.view v) ent actor name a := by
  have hcb := cells_bound h v _ hc
  rw [setAvail_spec]
  unfold availP findInfo
  cases hf : (h.view v).findIdx? (hit ent actor name) with
  | none => simp [H.run]
  | some i =>
    have hi := findIdx?_lt _ _ _ hf
    simp only [view_eq, List.length_map] at hi
    have hcell : (h.cells v)[i]? = some (h.cells v)[i] := List.getElem?_eq_getElem hi
    simp only [hcell]
    generalize hce : (h.cells v)[i] = cell at hcell
    have hri : (h.view v)[i]? = some (h.info cell) := by simp [view_eq, hcell]
    rw [updAt_set _ _ _ _ hri]
    rw [show (h.info cell).sup = h.sups cell.sup from rfl, setSupAvail_spec]
    cases hj : supIdx (h.sups cell.sup) name with
    | none =>
      simp only [H.run, List.foldl_nil]
      exact (set_self _ _ _ hri).symm
    | some j =>
      have hjl := findIdx?_lt _ _ _ hj
      have hy : (h.sups cell.sup)[j]? = some (h.sups cell.sup)[j] := List.getElem?_eq_getElem hjl
      simp only [hy]
      generalize hye : (h.sups cell.sup)[j] = y at hy
      rw [updAt_set _ _ _ _ hy]
      unfold availAt
      simp only [Cfg.clean, Bool.false_eq_true, if_false, H.run, List.foldl_cons, List.foldl_nil, H.apply,
        updAt_append_last]
      have := view_new { outer := h.outer ++ [(h.cells v).set i { cell with sup := (h.inner.length, (h.sups cell.sup).length) }],
                         inner := h.inner ++ [(h.sups cell.sup).set j { y with avail := a }] } h.outer _ rfl
      simp only [List.length_set] at this
      rw [this, List.map_set, map_info_old h _ [(h.sups cell.sup).set j { y with avail := a }] rfl _ hcb]
      have hn := info_new { outer := h.outer ++ [(h.cells v).set i { cell with sup := (h.inner.length, (h.sups cell.sup).length) }],
                            inner := h.inner ++ [(h.sups cell.sup).set j { y with avail := a }] } h.inner
                          ((h.sups cell.sup).set j { y with avail := a }) rfl cell.ent cell.actor
      simp only [List.length_set] at hn
      rw [hn]
      rfl

theorem remove_refines (h : H) (v : Hdr) (ent : List Nat) (actor name : Nat) (hc : cellsBound h h.inner.length) :
    (h.run (removeP h v ent actor name).1).view (removeP h v ent actor name).2 = remove (h.view v) ent actor name := by
  have hcb := cells_bound h v _ hc
  rw [remove_spec]
  unfold removeP findInfo
  cases hf : (h.view v).findIdx? (hit ent actor name) with
  | none => simp [H.run]
  | some i =>
    have hi := findIdx?_lt _ _ _ hf
    simp only [view_eq, List.length_map] at hi
    have hcell : (h.cells v)[i]? = some (h.cells v)[i] := List.getElem?_eq_getElem hi
    simp only [hcell]
    generalize hce : (h.cells v)[i] = cell at hcell
    have hcl := hcb cell (List.mem_of_getElem? hcell)
    have hri : (h.view v)[i]? = some (h.info cell) := by simp [view_eq, hcell]
    rw [spliceAt_eq _ _ _ _ hri]
    unfold removeAt
    simp only [H.run, List.foldl_cons, List.foldl_nil, H.apply]
    rw [view_new_or_nil _ h.outer _ rfl]
    rw [List.map_append, List.map_append, map_info_new_heap h _ _ _ (fun c hc' => hcb c (List.mem_of_mem_take hc')),
      map_info_new_heap h _ _ _ (fun c hc' => hcb c (List.mem_of_mem_drop hc'))]
    simp only [view_eq, List.map_take, List.map_drop]
    congr 2
    simp only [removeMid]
    rw [show (h.info cell).sup = h.sups cell.sup from rfl]
    split
    · rfl
    · simp only [List.map_cons, List.map_nil]
      congr 1
      exact info_new _ h.inner _ rfl cell.ent cell.actor

/-- CROSS-MODEL AGREEMENT (every input, well-formed heap): the store after a helper program of the clean member reads
    exactly what C20's value-level registry operation gives on what it read before -/
theorem prog_refines (h : H) (v : Hdr) (o : Op) (hc : cellsBound h h.inner.length) :
    (h.run (prog .clean h v o).1).view (prog .clean h v o).2 = Spine.UC.apply (h.view v) o := by
  cases o with
  | add e a x => exact add_refines h v e a x hc
  | setAvail e a n b => exact avail_refines h v e a n b hc
  | remove e a n => exact remove_refines h v e a n hc
  | removeAll e => exact removeAll_refines h v e hc

/-- along any history of EntityLocal helper calls from the empty store: the store reads the fold of the value-level
    operations (hand-outs and the application's own helper calls do not matter) -/
def storeOps : List Ev → List Op
  | [] => []
  | .op o :: es => o :: storeOps es
  | _ :: es => storeOps es

theorem runEvs_refines (evs : List Ev) : ∀ s : St, Good s →
    (runEvs .clean s evs).h.view (runEvs .clean s evs).store = (storeOps evs).foldl Spine.UC.apply (s.h.view s.store) := by
  induction evs with
  | nil => intro s _; rfl
  | cons e es ih =>
    intro s hg
    simp only [runEvs, List.foldl_cons]
    have hg' := step_good s e hg
    have := ih (step .clean s e) hg'
    simp only [runEvs] at this
    rw [this]
    cases e with
    | op o =>
      simp only [storeOps, List.foldl_cons]
      congr 1
      exact prog_refines s.h s.store o hg.1
    | scratch o =>
      simp only [storeOps]
      congr 1
      exact (step_stable s (.scratch o) hg s.store hg.2.1).1
    | copy => rfl
    | own k o =>
      simp only [storeOps]
      congr 1
      have h1 := (step_stable s (.own k o) hg s.store hg.2.1).1
      have h2 : (step .clean s (.own k o)).store = s.store := by
        simp only [step]; split <;> rfl
      rw [h2]; exact h1

end Spine.UCS
