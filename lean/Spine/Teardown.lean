import Spine.Registry
/-! C10 — teardown of a peer or of a remote entity in the composed world: the two registries (`Spine.Reg`), the
    map of connected peers, the writes pending application approval with their timers
    (`FeatureLocal.pendingWriteApprovals`, `time.AfterFunc`) and the client-side bookkeeping of a local client
    feature (`FeatureLocal.subscriptions / bindings`).

    `Cfg` selects per defect the code as written (true) or the minimal repair (false):
    * `reg` — the flags of the registry family (`dropBindsAnyPeer` matters here),
    * `timersSurvive` — `CleanWriteApprovalCaches` forgets the pending map without stopping the timers,
    * `entityKeepsApprovals` — the removal of a remote entity does not touch the approvals pending for writes of
      that entity's features. -/
namespace Spine.Td

structure Cfg where
  reg : Reg.Cfg := {}
  timersSurvive : Bool := true
  entityKeepsApprovals : Bool := true
  /-- the approval tallies (`writeApprovalReceived`) of a removed connection are kept: the next connection with the same
      SKI inherits them. Never the case in a committed tree (both the pinned commit and HEAD delete them); the flag exists
      so that the harness can follow — and the monitor report — a tree in which it is. -/
  tallySurvivesDrop : Bool := false
deriving Repr

def Cfg.clean : Cfg :=
  { reg := Reg.Cfg.clean, timersSurvive := false, entityKeepsApprovals := false, tallySurvivesDrop := false }

/-- a write waiting for approval: who sent it (connection, client feature), its counter, the server feature, and
    whether its timer is a short one (fires at the next `fire`) -/
structure Pend where
  peer : Nat
  ctr : Nat
  cEnt : List Nat
  cFeat : Nat
  sEnt : List Nat
  sFeat : Nat
  short : Bool
deriving DecidableEq, Repr

/-- a remote feature address remembered by the local client feature -/
structure Book where
  peer : Nat
  ent : List Nat
  feat : Nat
deriving DecidableEq, Repr

structure St where
  reg : Reg.St
  alive : List Nat                          -- DeviceLocal.remoteDevices
  writable : List (List Nat × Nat) := []    -- local server features with a writable function
  approval : List (List Nat × Nat) := []    -- … that have a write-approval callback
  pend : List Pend := []                    -- pendingWriteApprovals, all features together
  armed : List Pend := []                   -- timers that exist and have not been stopped
  csubs : List Book := []                   -- FeatureLocal.subscriptions of the local client feature
  cbinds : List Book := []                  -- FeatureLocal.bindings
  late : List Nat := []                     -- connected peers whose discovery reply has not arrived yet
  approval2 : List (List Nat × Nat) := []   -- approval-guarded features with TWO callbacks (the others have one)
  tally : List (Nat × Nat) := []            -- writeApprovalReceived: one element per approval given to (peer, counter)
  tree : List Reg.Feat := []                -- what a peer announces when it (re)connects

/-- a remote write from client feature (cEnt, cFeat) of peer `p` to the local server (sEnt, sFeat), counter `w` -/
def write (s : St) (p : Nat) (cEnt : List Nat) (cFeat : Nat) (sEnt : List Nat) (sFeat w : Nat) (short : Bool) : St × String :=
  if !s.alive.contains p then (s, "none") else
  if (Reg.findF (s.reg.rem p) cEnt cFeat).isNone then (s, "none") else
  if !s.writable.contains (sEnt, sFeat) then (s, "denied") else
  if !s.reg.binds.any (·.is p cEnt cFeat sEnt sFeat) then (s, "denied") else
  if s.approval.contains (sEnt, sFeat) then
    let x : Pend := ⟨p, w, cEnt, cFeat, sEnt, sFeat, short⟩
    ({ s with pend := s.pend ++ [x], armed := s.armed ++ [x] }, "pending")
  else (s, "applied")

def isW (p w : Nat) (x : Pend) : Bool := x.peer = p && x.ctr = w

/-- how many approvals write `x` needs -/
def need (s : St) (x : Pend) : Nat := if s.approval2.contains (x.sEnt, x.sFeat) then 2 else 1

def given (t : List (Nat × Nat)) (p w : Nat) : Nat := (t.filter (· = (p, w))).length

/-- the write leaves the pending state with an outcome: timer stopped, map entries and tally deleted -/
def finish (s : St) (p w : Nat) : St :=
  { s with pend := s.pend.filter (fun x => !isW p w x), armed := s.armed.filter (fun x => !isW p w x),
           tally := s.tally.filter (· ≠ (p, w)) }

/-- one approval for a pending write `x` of (p, w): counted while more are needed, else the write is applied -/
def approveStep (s : St) (x : Pend) (p w : Nat) : St × String :=
  if need s x > 1 && given ((p, w) :: s.tally) p w < need s x then ({ s with tally := (p, w) :: s.tally }, "-")
  else (finish s p w, "applied")

/-- the application's verdict (one callback's answer) on write (p, w): effective only while the write is pending; a
    denial refuses at once, an approval applies the write when it is the last one needed -/
def verdict (s : St) (p w : Nat) (approve : Bool) : St × String :=
  match s.pend.find? (isW p w) with
  | none => (s, "-")
  | some x => if approve then approveStep s x p w else (finish s p w, "refused")

/-- the short timers fire: an error result is written for each, to whatever connection the write came from -/
def fired (s : St) : List Pend := s.armed.filter (·.short)

def fire (s : St) : St :=
  { s with armed := s.armed.filter (fun x => !x.short), pend := s.pend.filter (fun x => !(fired s).contains x) }

/-- results written by `fire` to a connection that has been removed -/
def late (s : St) : List Pend := (fired s).filter fun x => !s.alive.contains x.peer

def clientAdd (s : St) (bind : Bool) (p : Nat) (ent : List Nat) (feat : Nat) : St × String :=
  -- the peer is found by its device address, which is known from its discovery reply on
  if !s.alive.contains p || s.late.contains p then (s, "err") else
  if bind then ({ s with cbinds := s.cbinds ++ [⟨p, ent, feat⟩] }, "ok")
  else ({ s with csubs := s.csubs ++ [⟨p, ent, feat⟩] }, "ok")

/-- RemoveRemoteDeviceConnection -/
def drop (c : Cfg) (s : St) (p : Nat) : St :=
  if !s.alive.contains p then s else
  { s with reg := Reg.removePeer c.reg s.reg p,
           alive := s.alive.filter (· ≠ p),
           pend := s.pend.filter (·.peer ≠ p),
           armed := if c.timersSurvive then s.armed else s.armed.filter (·.peer ≠ p),
           tally := if c.tallySurvivesDrop then s.tally else s.tally.filter (·.1 ≠ p),
           csubs := s.csubs.filter (·.peer ≠ p),
           cbinds := s.cbinds.filter (·.peer ≠ p) }

/-- a removed SKI connects again: a new connection, the announced tree from scratch; nothing else is created -/
def reconnect (s : St) (p : Nat) : St :=
  if s.alive.contains p then s else
  { s with alive := p :: s.alive,
           late := s.late.filter (· ≠ p),
           reg := { s.reg with rem := fun q => if q = p then s.tree else s.reg.rem q,
                               bare := fun q => if q = p then [] else s.reg.bare q } }

def ofEntity (p : Nat) (ent : List Nat) (x : Pend) : Bool := x.peer = p && x.cEnt = ent

/-- a remote entity is announced as removed -/
def dropEntity (c : Cfg) (s : St) (p : Nat) (ent : List Nat) : St :=
  if !s.alive.contains p then s else
  if !((s.reg.rem p).map (·.ent)).contains ent then s else
  { s with reg := Reg.dropEntity c.reg s.reg p ent,
           pend := if c.entityKeepsApprovals then s.pend else s.pend.filter (fun x => !ofEntity p ent x),
           armed := if c.entityKeepsApprovals then s.armed else s.armed.filter (fun x => !ofEntity p ent x),
           csubs := s.csubs.filter (fun b => !(b.peer = p && b.ent = ent)),
           cbinds := s.cbinds.filter (fun b => !(b.peer = p && b.ent = ent)) }

/-- One removal entry of a discovery notification in the composed world: [0] is kept; an entity known with or without
    features goes with everything that refers to it. `dropEntity` is the cascade on its domain (announced with features,
    not [0]). -/
def removeEntity (c : Cfg) (s : St) (p : Nat) (ent : List Nat) : St :=
  if ent = [0] then s else
  if !s.alive.contains p then s else
  if !(Reg.knownEnts s.reg p).contains ent then s else
  { s with reg := Reg.removeEntity c.reg s.reg p ent,
           pend := if c.entityKeepsApprovals then s.pend else s.pend.filter (fun x => !ofEntity p ent x),
           armed := if c.entityKeepsApprovals then s.armed else s.armed.filter (fun x => !ofEntity p ent x),
           csubs := s.csubs.filter (fun b => !(b.peer = p && b.ent = ent)),
           cbinds := s.cbinds.filter (fun b => !(b.peer = p && b.ent = ent)) }

inductive Op
  | reg (op : Reg.Op)                       -- a registry call of a connected peer (drops excluded, see `step`)
  | write (p : Nat) (cEnt : List Nat) (cFeat : Nat) (sEnt : List Nat) (sFeat w : Nat) (short : Bool)
  | verdict (p w : Nat) (approve : Bool)
  | fire
  | client (bind : Bool) (p : Nat) (ent : List Nat) (feat : Nat)
  | drop (p : Nat)
  | dropEnt (p : Nat) (ent : List Nat)
  | reconnect (p : Nat)

def regPeer : Reg.Op → Nat
  | .bind p .. => p
  | .unbind p .. => p
  | .sub p .. => p
  | .unsub p .. => p
  | .drop p => p
  | .dropEnt p _ => p
  | .subsPass p _ => p
  | .bindsPass p _ => p
  | .bareEnt p _ => p

def isCall : Reg.Op → Bool
  | .drop _ => false
  | .dropEnt .. => false
  | .subsPass .. => false
  | .bindsPass .. => false
  | .bareEnt .. => false
  | _ => true

def step (c : Cfg) (s : St) : Op → St
  | .reg op => if isCall op && s.alive.contains (regPeer op) then { s with reg := Reg.step c.reg s.reg op } else s
  | .write p ce cf se sf w sh => (write s p ce cf se sf w sh).1
  | .verdict p w a => (verdict s p w a).1
  | .fire => fire s
  | .client b p e f => (clientAdd s b p e f).1
  | .drop p => drop c s p
  | .dropEnt p e => removeEntity c s p e
  | .reconnect p => reconnect s p

def run (c : Cfg) (s0 : St) (ops : List Op) : St := ops.foldl (step c) s0

/-- every datagram `fire` ever wrote to a removed connection along a history -/
def lateAlong (c : Cfg) : St → List Op → List Pend
  | _, [] => []
  | s, .fire :: ops => late s ++ lateAlong c (step c s .fire) ops
  | s, op :: ops => lateAlong c (step c s op) ops

end Spine.Td
