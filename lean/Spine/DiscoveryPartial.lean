import Spine.DiscoveryFixed
/-! C06, repaired member, partial notifications: per address the entries are applied in order — the last entry about
    an address decides whether it is known, addresses no entry mentions keep their state. -/
namespace Spine.Disc

/-- the specification, one address at a time: is `a` known after entry `ei`, given whether it was known before -/
def applyTo (a : List Nat) (known : Bool) (ei : EI) : Bool :=
  if ei.addr = a then (match ei.chg with | .added => true | .removed => false | .none => known) else known

theorem decide_mem_step (m : Msg) (acc : Tree × List Evt) (ei : EI) (a : List Nat) :
    decide (a ∈ addrs (stepFixed m acc ei).1) = applyTo a (decide (a ∈ addrs acc.1)) ei := by
  unfold stepFixed applyTo
  cases hc : ei.chg with
  | added =>
    simp only [mem_addOne]
    by_cases h : ei.addr = a
    · subst h; simp
    · have : ¬ a = ei.addr := fun h' => h h'.symm
      simp [h, this]
  | removed =>
    simp only [mem_remOne]
    by_cases h : ei.addr = a
    · subst h; simp
    · have : ¬ a = ei.addr := fun h' => h h'.symm
      simp [h, this]
  | none => by_cases h : ei.addr = a <;> simp [h]

/-- C06 (repaired), partial notifications refine the per-address specification, for every tree and every entry list -/
theorem c06_partial_refines (m : Msg) : ∀ (l : List EI) (acc : Tree × List Evt) (a : List Nat),
    decide (a ∈ addrs (l.foldl (stepFixed m) acc).1) = l.foldl (applyTo a) (decide (a ∈ addrs acc.1))
  | [], _, _ => rfl
  | ei :: l, acc, a => by
    rw [List.foldl_cons, List.foldl_cons, c06_partial_refines m l _ a, decide_mem_step]

/-- … and for the handler itself when every entry carries a state change -/
theorem c06_partial_notification (m : Msg) (t : Tree) (a : List Nat) (hne : m.ents ≠ [])
    (hall : m.ents.any (·.chg = .none) = false) :
    decide (a ∈ addrs (notifyPartialFixed m t).1) = m.ents.foldl (applyTo a) (decide (a ∈ addrs t)) := by
  unfold notifyPartialFixed
  have : m.ents.isEmpty = false := by cases h : m.ents with | nil => exact absurd h hne | cons _ _ => rfl
  rw [this, hall]
  simp only [Bool.false_eq_true, if_false]
  exact c06_partial_refines m m.ents (t, []) a

/-- addresses no entry mentions keep their state -/
theorem applyTo_untouched (a : List Nat) : ∀ (l : List EI) (b : Bool), (∀ ei ∈ l, ei.addr ≠ a) → l.foldl (applyTo a) b = b
  | [], _, _ => rfl
  | ei :: l, b, h => by
    rw [List.foldl_cons]
    have h1 : ei.addr ≠ a := h ei (List.mem_cons_self ..)
    have : applyTo a b ei = b := by simp [applyTo, h1]
    rw [this]
    exact applyTo_untouched a l b (fun x hx => h x (List.mem_cons_of_mem _ hx))

/-- C06 (repaired): a partial notification changes nothing but the entities it names -/
theorem c06_partial_nothing_else (m : Msg) (t : Tree) (a : List Nat) (hne : m.ents ≠ [])
    (hall : m.ents.any (·.chg = .none) = false) (hun : ∀ ei ∈ m.ents, ei.addr ≠ a) :
    (a ∈ addrs (notifyPartialFixed m t).1 ↔ a ∈ addrs t) := by
  have := c06_partial_notification m t a hne hall
  rw [applyTo_untouched a m.ents _ hun] at this
  simpa using this

/-- non-vacuity: [1] added and [2] removed in one notification, [0] not mentioned -/
example : addrs (notifyPartialFixed ⟨[⟨[1], 1, .added, none⟩, ⟨[2], 1, .removed, none⟩], [⟨[1], 1, 1, 0, none, []⟩]⟩
    [⟨[0], 0, none, []⟩, ⟨[2], 1, none, []⟩]).1 = [[0], [1]] := by decide

end Spine.Disc
