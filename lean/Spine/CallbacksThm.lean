import Spine.Callbacks
/-! C14, the "right message" half: a registration is invoked only by an accepted arrival for its own feature and
    counter that comes after the registration, with the data and origin of that arrival, and it *is* invoked by the
    first such arrival. Together with `c14_at_most_once`: exactly once. Then the result callbacks. -/
namespace Spine.CB

/-- an arrival that the feature hands to the response callbacks -/
def Delivers (b : Bool) (f : Nat) (reply : Bool) : Prop := ¬ (b = true ∧ f = 0 ∧ reply = true)

theorem snoc_induction {α} {P : List α → Prop} (nil : P []) (snoc : ∀ l a, P l → P (l ++ [a])) : ∀ l, P l := by
  have h : ∀ l : List α, P l.reverse := by
    intro l
    induction l with
    | nil => exact nil
    | cons a l ih => rw [List.reverse_cons]; exact snoc _ _ ih
  intro l
  have := h l.reverse
  rwa [List.reverse_reverse] at this

theorem run_snoc (b : Bool) (evs : List Ev) (e : Ev) : run b (evs ++ [e]) = step b (run b evs) e := by
  simp [run, List.foldl_append]

theorem run_append (b : Bool) (pre post : List Ev) : run b (pre ++ post) = post.foldl (step b) (run b pre) := by
  simp [run, List.foldl_append]

/-- every registration in the registry stems from a `register` event with its feature, counter and function -/
theorem regs_registered (b : Bool) (evs : List Ev) :
    ∀ r ∈ (run b evs).regs, Ev.register r.feat r.ctr r.cb ∈ evs := by
  induction evs using snoc_induction with
  | nil => intro r hr; simp [run] at hr
  | snoc evs e ih =>
    intro r hr
    rw [run_snoc] at hr
    cases e with
    | register f c cb =>
      simp only [step] at hr
      split at hr
      · exact List.mem_append_left _ (ih r hr)
      · rcases List.mem_append.mp hr with hr | hr
        · exact List.mem_append_left _ (ih r hr)
        · simp only [List.mem_singleton] at hr; subst hr; simp
    | registerResult f cb => exact List.mem_append_left _ (ih r hr)
    | resultCbs a f d src => exact List.mem_append_left _ (ih r hr)
    | arrive a f ref reply acc d src =>
      simp only [step] at hr
      split at hr
      · exact List.mem_append_left _ (ih r hr)
      · exact List.mem_append_left _ (ih r (List.mem_filter.mp hr).1)

/-- C14, "with the received data and the originating remote feature … never for another reference or another
    feature", and never before it was registered: every invocation `x` is caused by an accepted arrival `x.arr` that
    carries exactly the data `x.data` and the origin `x.src`, for a feature and counter for which a registration was
    made earlier in the history, and that arrival is one the feature delivers -/
theorem c14_only_for_own_message (b : Bool) (evs : List Ev) :
    ∀ x ∈ (run b evs).fired, ∃ f c cb reply pre post,
      evs = pre ++ Ev.arrive x.arr f c reply true x.data x.src :: post ∧ Ev.register f c cb ∈ pre ∧
      Delivers b f reply := by
  induction evs using snoc_induction with
  | nil => intro x hx; simp [run] at hx
  | snoc evs e ih =>
    intro x hx
    rw [run_snoc] at hx
    have old : x ∈ (run b evs).fired → ∃ f c cb reply pre post,
        evs ++ [e] = pre ++ Ev.arrive x.arr f c reply true x.data x.src :: post ∧ Ev.register f c cb ∈ pre ∧
        Delivers b f reply := by
      intro h
      obtain ⟨f, c, cb, reply, pre, post, heq, hreg, hd⟩ := ih x h
      exact ⟨f, c, cb, reply, pre, post ++ [e], by simp [heq], hreg, hd⟩
    cases e with
    | register f c cb =>
      simp only [step] at hx
      split at hx <;> exact old hx
    | registerResult f cb => exact old hx
    | resultCbs a f d src => exact old hx
    | arrive a f ref reply acc d src =>
      simp only [step] at hx
      split at hx
      · exact old hx
      · rename_i hcond
        rcases List.mem_append.mp hx with hx | hx
        · exact old hx
        · obtain ⟨r, hr, rfl⟩ := List.mem_map.mp hx
          have hr' := List.mem_filter.mp hr
          have hrf : r.feat = f ∧ r.ctr = ref := by simpa [isFor] using hr'.2
          have hacc : acc = true ∧ Delivers b f reply := by
            unfold Delivers
            cases acc <;> cases b <;> cases reply <;> simp_all
          obtain ⟨hacc, hdel⟩ := hacc
          subst hacc
          refine ⟨f, ref, r.cb, reply, evs, [], rfl, ?_, hdel⟩
          have := regs_registered b evs r hr'.1
          rw [hrf.1, hrf.2] at this
          exact this

theorem fired_mono_step (b : Bool) (s : St) (e : Ev) (x : Fire) (h : x ∈ s.fired) : x ∈ (step b s e).fired := by
  cases e with
  | register f c cb => simp only [step]; split <;> exact h
  | registerResult f cb => exact h
  | resultCbs a f d src => exact h
  | arrive a f ref reply acc d src =>
    simp only [step]; split
    · exact h
    · exact List.mem_append_left _ h

theorem fired_mono (b : Bool) (es : List Ev) : ∀ (s : St) (x : Fire), x ∈ s.fired → x ∈ (es.foldl (step b) s).fired := by
  induction es with
  | nil => intro s x h; exact h
  | cons e es ih => intro s x h; exact ih _ x (fired_mono_step b s e x h)

/-- C14, "invoked when an accepted reply or a result referencing that counter arrives for that feature": a
    registration that is waiting after `pre` is invoked by the next delivered arrival for its feature and counter —
    with that arrival's data and origin — whatever happens afterwards -/
theorem c14_fires (b : Bool) (pre post : List Ev) (r : Reg) (a d src : Nat) (reply : Bool)
    (hr : r ∈ (run b pre).regs) (hd : Delivers b r.feat reply) :
    ⟨r.id, a, d, src⟩ ∈ (run b (pre ++ Ev.arrive a r.feat r.ctr reply true d src :: post)).fired := by
  rw [run_append, List.foldl_cons]
  apply fired_mono
  have hc : (!true || (b && decide (r.feat = 0) && reply)) = false := by
    unfold Delivers at hd
    cases b <;> cases reply <;> simp_all
  simp only [step, hc, Bool.false_eq_true, if_false]
  apply List.mem_append_right
  exact List.mem_map.mpr ⟨r, List.mem_filter.mpr ⟨hr, by simp [isFor]⟩, rfl⟩

/-- the premise of `c14_fires` is met: a registration that was not refused is waiting -/
theorem c14_registered_waits (b : Bool) (pre : List Ev) (f c cb : Nat)
    (hnew : ¬ (run b pre).regs.any (isDup f c cb) = true) :
    ⟨(run b pre).next, f, c, cb⟩ ∈ (run b (pre ++ [Ev.register f c cb])).regs := by
  rw [run_snoc]
  simp only [step]
  rw [if_neg hnew]
  simp

/-- … and it keeps waiting while nothing the feature delivers arrives for its feature and counter -/
theorem waits_step (b : Bool) (s : St) (e : Ev) (r : Reg) (hr : r ∈ s.regs)
    (hno : ∀ a reply d src, e ≠ Ev.arrive a r.feat r.ctr reply true d src) : r ∈ (step b s e).regs := by
  cases e with
  | register f c cb =>
    simp only [step]; split
    · exact hr
    · exact List.mem_append_left _ hr
  | registerResult f cb => exact hr
  | resultCbs a f d src => exact hr
  | arrive a f ref reply acc d src =>
    simp only [step]; split
    · exact hr
    · rename_i hcond
      refine List.mem_filter.mpr ⟨hr, ?_⟩
      have hacc : acc = true := by cases acc <;> simp_all
      subst hacc
      have : ¬ (r.feat = f ∧ r.ctr = ref) := by
        rintro ⟨rfl, rfl⟩
        exact hno a reply d src rfl
      simp only [isFor, Bool.not_eq_true', Bool.and_eq_false_iff, decide_eq_false_iff_not]
      by_cases h1 : r.feat = f
      · exact Or.inr (fun h2 => this ⟨h1, h2⟩)
      · exact Or.inl h1

theorem waits (b : Bool) (mid : List Ev) : ∀ (s : St) (r : Reg), r ∈ s.regs →
    (∀ e ∈ mid, ∀ a reply d src, e ≠ Ev.arrive a r.feat r.ctr reply true d src) → r ∈ (mid.foldl (step b) s).regs := by
  induction mid with
  | nil => intro s r hr _; exact hr
  | cons e es ih =>
    intro s r hr hno
    exact ih _ r (waits_step b s e r hr (hno e (by simp))) (fun e' he' => hno e' (List.mem_cons_of_mem _ he'))

/-- C14, first sentence in one statement: a callback registered (not refused) for counter `c` on feature `f` is
    invoked exactly once — by the first accepted arrival for `f` referencing `c` that the feature delivers, with that
    arrival's data and origin — however the history continues -/
theorem exactly_once (b : Bool) (pre mid post : List Ev) (f c cb a d src : Nat) (reply : Bool)
    (hnew : ¬ (run b pre).regs.any (isDup f c cb) = true)
    (hmid : ∀ e ∈ mid, ∀ a' reply' d' src', e ≠ Ev.arrive a' f c reply' true d' src')
    (hd : Delivers b f reply) :
    let evs := pre ++ [Ev.register f c cb] ++ mid ++ Ev.arrive a f c reply true d src :: post
    ⟨(run b pre).next, a, d, src⟩ ∈ (run b evs).fired ∧
    ((run b evs).fired.map (·.reg)).count (run b pre).next = 1 := by
  intro evs
  have h1 := c14_registered_waits b pre f c cb hnew
  have h2 : (⟨(run b pre).next, f, c, cb⟩ : Reg) ∈ (run b (pre ++ [Ev.register f c cb] ++ mid)).regs := by
    rw [run_append]
    exact waits b mid _ _ h1 hmid
  have h3 := c14_fires b (pre ++ [Ev.register f c cb] ++ mid) post ⟨(run b pre).next, f, c, cb⟩ a d src reply h2 hd
  refine ⟨h3, ?_⟩
  have hle := c14_at_most_once b evs (run b pre).next
  have hpos : 0 < ((run b evs).fired.map (·.reg)).count (run b pre).next :=
    List.count_pos_iff.mpr (List.mem_map.mpr ⟨_, h3, rfl⟩)
  omega

/-- "registering the same callback twice for one counter is refused": the second registration changes nothing -/
theorem c14_duplicate_refused (b : Bool) (s : St) (f c cb : Nat)
    (h : ∃ r ∈ s.regs, r.feat = f ∧ r.ctr = c ∧ r.cb = cb) : step b s (.register f c cb) = s := by
  obtain ⟨r, hr, h1, h2, h3⟩ := h
  simp only [step]
  rw [if_pos]
  rw [List.any_eq_true]
  exact ⟨r, hr, by simp [isDup, h1, h2, h3]⟩

/-- non-vacuity: one registration, a reply for another counter, a reply for another feature, then the right one -/
example : (run true [.register 1 5 7, .arrive 100 1 6 true true 1 1, .arrive 101 2 5 true true 2 2,
    .arrive 102 1 5 true true 3 3, .arrive 103 1 5 true true 4 4]).fired = [⟨0, 102, 3, 3⟩] := by decide

/-! ## result callbacks -/

/-- AddResultCallback never refuses: the registration is in the list afterwards -/
theorem result_registered (b : Bool) (pre : List Ev) (f cb : Nat) :
    ⟨(run b pre).next, f, 0, cb⟩ ∈ (run b (pre ++ [Ev.registerResult f cb])).resRegs := by
  rw [run_snoc]; simp [step]

theorem resRegs_mono_step (b : Bool) (s : St) (e : Ev) (r : Reg) (h : r ∈ s.resRegs) : r ∈ (step b s e).resRegs := by
  cases e with
  | register f c cb => simp only [step]; split <;> exact h
  | registerResult f cb => exact List.mem_append_left _ h
  | resultCbs a f d src => exact h
  | arrive a f ref reply acc d src => simp only [step]; split <;> exact h

/-- a result callback stays registered for the rest of the history -/
theorem result_reg_persists (b : Bool) (pre post : List Ev) (r : Reg) (h : r ∈ (run b pre).resRegs) :
    r ∈ (run b (pre ++ post)).resRegs := by
  rw [run_append]
  generalize run b pre = s at h
  induction post generalizing s with
  | nil => exact h
  | cons e es ih => exact ih _ (resRegs_mono_step b s e r h)

theorem resFired_mono_step (b : Bool) (s : St) (e : Ev) (x : Fire) (h : x ∈ s.resFired) : x ∈ (step b s e).resFired := by
  cases e with
  | register f c cb => simp only [step]; split <;> exact h
  | registerResult f cb => exact h
  | resultCbs a f d src => exact List.mem_append_left _ h
  | arrive a f ref reply acc d src => simp only [step]; split <;> exact h

theorem resFired_mono (b : Bool) (es : List Ev) :
    ∀ (s : St) (x : Fire), x ∈ s.resFired → x ∈ (es.foldl (step b) s).resFired := by
  induction es with
  | nil => intro s x h; exact h
  | cons e es ih => intro s x h; exact ih _ x (resFired_mono_step b s e x h)

/-- C14, second sentence, "is invoked … for every result message that feature receives which references a
    request": a result callback registered after `pre` is invoked by every later result section of its feature, with
    the data and origin of that result, in both members -/
theorem c14_result_fires (b : Bool) (pre mid post : List Ev) (r : Reg) (a d src : Nat)
    (hr : r ∈ (run b pre).resRegs) :
    ⟨r.id, a, d, src⟩ ∈ (run b (pre ++ mid ++ Ev.resultCbs a r.feat d src :: post)).resFired := by
  have hr' := result_reg_persists b pre mid r hr
  rw [run_append, List.foldl_cons]
  apply resFired_mono
  simp only [step]
  apply List.mem_append_right
  exact List.mem_map.mpr ⟨r, List.mem_filter.mpr ⟨hr', by simp⟩, rfl⟩

theorem resRegs_registered (b : Bool) (evs : List Ev) :
    ∀ r ∈ (run b evs).resRegs, Ev.registerResult r.feat r.cb ∈ evs := by
  induction evs using snoc_induction with
  | nil => intro r hr; simp [run] at hr
  | snoc evs e ih =>
    intro r hr
    rw [run_snoc] at hr
    cases e with
    | register f c cb =>
      simp only [step] at hr
      split at hr <;> exact List.mem_append_left _ (ih r hr)
    | registerResult f cb =>
      simp only [step] at hr
      rcases List.mem_append.mp hr with hr | hr
      · exact List.mem_append_left _ (ih r hr)
      · simp only [List.mem_singleton] at hr; subst hr; simp
    | resultCbs a f d src => exact List.mem_append_left _ (ih r hr)
    | arrive a f ref reply acc d src =>
      simp only [step] at hr
      split at hr <;> exact List.mem_append_left _ (ih r hr)

/-- result callbacks are invoked by nothing else: every invocation stems from a result section `x.arr` of the
    feature on which a result callback was registered earlier, and carries that result's data and origin -/
theorem c14_result_only_for_result (b : Bool) (evs : List Ev) :
    ∀ x ∈ (run b evs).resFired, ∃ f cb pre post,
      evs = pre ++ Ev.resultCbs x.arr f x.data x.src :: post ∧ Ev.registerResult f cb ∈ pre := by
  induction evs using snoc_induction with
  | nil => intro x hx; simp [run] at hx
  | snoc evs e ih =>
    intro x hx
    rw [run_snoc] at hx
    have old : x ∈ (run b evs).resFired → ∃ f cb pre post,
        evs ++ [e] = pre ++ Ev.resultCbs x.arr f x.data x.src :: post ∧ Ev.registerResult f cb ∈ pre := by
      intro h
      obtain ⟨f, cb, pre, post, heq, hreg⟩ := ih x h
      exact ⟨f, cb, pre, post ++ [e], by simp [heq], hreg⟩
    cases e with
    | register f c cb =>
      simp only [step] at hx
      split at hx <;> exact old hx
    | registerResult f cb => exact old hx
    | arrive a f ref reply acc d src =>
      simp only [step] at hx
      split at hx <;> exact old hx
    | resultCbs a f d src =>
      simp only [step] at hx
      rcases List.mem_append.mp hx with hx | hx
      · exact old hx
      · obtain ⟨r, hr, rfl⟩ := List.mem_map.mp hx
        have hr' := List.mem_filter.mp hr
        have hrf : r.feat = f := by simpa using hr'.2
        refine ⟨f, r.cb, evs, [], rfl, ?_⟩
        have := resRegs_registered b evs r hr'.1
        rw [hrf] at this
        exact this

/-- the arrival numbers of the result sections of a history -/
def resArrivals : List Ev → List Nat
  | [] => []
  | .resultCbs a _ _ _ :: es => a :: resArrivals es
  | _ :: es => resArrivals es

theorem resArrivals_append (l₁ l₂ : List Ev) : resArrivals (l₁ ++ l₂) = resArrivals l₁ ++ resArrivals l₂ := by
  induction l₁ with
  | nil => rfl
  | cons e es ih => cases e <;> simp [resArrivals, ih]

structure RInv (s : St) (seen : List Nat) : Prop where
  fresh : ∀ r ∈ s.resRegs, r.id < s.next
  regNodup : (s.resRegs.map (·.id)).Nodup
  pairs : (s.resFired.map fun x => (x.reg, x.arr)).Nodup
  seenArr : ∀ x ∈ s.resFired, x.arr ∈ seen

theorem rinv_run (b : Bool) (evs : List Ev) (hnd : (resArrivals evs).Nodup) : RInv (run b evs) (resArrivals evs) := by
  induction evs using snoc_induction with
  | nil => exact ⟨by simp [run], by simp [run], by simp [run], by simp [run]⟩
  | snoc evs e ih =>
    rw [resArrivals_append] at hnd ⊢
    have hnd' := (List.nodup_append.mp hnd)
    have h := ih hnd'.1
    rw [run_snoc]
    have wk : ∀ x ∈ (run b evs).resFired, x.arr ∈ resArrivals evs ++ resArrivals [e] :=
      fun x hx => List.mem_append_left _ (h.seenArr x hx)
    cases e with
    | register f c cb =>
      simp only [step]
      split
      · exact ⟨h.fresh, h.regNodup, h.pairs, wk⟩
      · exact ⟨fun r hr => Nat.lt_succ_of_lt (h.fresh r hr), h.regNodup, h.pairs, wk⟩
    | arrive a f ref reply acc d src =>
      simp only [step]
      split <;> exact ⟨h.fresh, h.regNodup, h.pairs, wk⟩
    | registerResult f cb =>
      refine ⟨?_, ?_, h.pairs, wk⟩
      · intro r hr
        simp only [step] at hr
        rcases List.mem_append.mp hr with hr | hr
        · exact Nat.lt_succ_of_lt (h.fresh r hr)
        · simp only [List.mem_singleton] at hr; subst hr; exact Nat.lt_succ_self _
      · simp only [step, List.map_append, List.map_cons, List.map_nil]
        rw [List.nodup_append]
        refine ⟨h.regNodup, by simp, ?_⟩
        intro x hx y hy
        simp only [List.mem_singleton] at hy; subst hy
        obtain ⟨r, hr, rfl⟩ := List.mem_map.mp hx
        have := h.fresh r hr
        omega
    | resultCbs a f d src =>
      have hnew : a ∉ resArrivals evs := by
        intro hm
        exact hnd'.2.2 a hm a (by simp [resArrivals]) rfl
      have hsub : ((run b evs).resRegs.filter (·.feat = f)).Sublist (run b evs).resRegs := List.filter_sublist
      refine ⟨h.fresh, h.regNodup, ?_, ?_⟩
      · simp only [step, List.map_append, List.map_map]
        rw [List.nodup_append]
        refine ⟨h.pairs, ?_, ?_⟩
        · have : (((run b evs).resRegs.filter (·.feat = f)).map ((fun x : Fire => (x.reg, x.arr)) ∘ mkFire a d src))
              = ((run b evs).resRegs.filter (·.feat = f)).map (fun r => (r.id, a)) := by
            apply List.map_congr_left; intro r _; rfl
          rw [this]
          have hn : (((run b evs).resRegs.filter (·.feat = f)).map (·.id)).Nodup := (hsub.map _).nodup h.regNodup
          have : (((run b evs).resRegs.filter (·.feat = f)).map (fun r => (r.id, a)))
              = (((run b evs).resRegs.filter (·.feat = f)).map (·.id)).map (fun i => (i, a)) := by
            rw [List.map_map]; rfl
          rw [this]
          exact List.Pairwise.map (fun i => (i, a)) (fun x y hxy h' => hxy (Prod.mk.inj h').1) hn
        · intro x hx y hy hxy
          obtain ⟨x0, hx0, rfl⟩ := List.mem_map.mp hx
          obtain ⟨r, _, rfl⟩ := List.mem_map.mp hy
          have : x0.arr = a := by
            have := (Prod.mk.inj hxy).2
            simpa [mkFire, Function.comp] using this
          exact hnew (this ▸ h.seenArr x0 hx0)
      · intro x hx
        simp only [step] at hx
        rcases List.mem_append.mp hx with hx | hx
        · exact wk x hx
        · obtain ⟨r, _, rfl⟩ := List.mem_map.mp hx
          exact List.mem_append_right _ (by simp [resArrivals, mkFire])

/-- C14, second sentence, "invoked *once* for every result message": when the result messages are distinct
    (pairwise distinct arrival numbers), no result callback is invoked twice for the same result -/
theorem c14_result_at_most_once (b : Bool) (evs : List Ev) (hnd : (resArrivals evs).Nodup) (r a : Nat) :
    ((run b evs).resFired.map fun x => (x.reg, x.arr)).count (r, a) ≤ 1 :=
  count_le_one_of_nodup _ _ (rinv_run b evs hnd).pairs

/-- non-vacuity: two result callbacks on feature 1, one on feature 2; a reply and two results -/
example : (run true [.registerResult 1 7, .registerResult 2 7, .arrive 100 1 5 true true 1 1,
    .arrive 101 1 5 false true 2 1, .resultCbs 101 1 2 1, .registerResult 1 8,
    .arrive 102 1 6 false true 3 1, .resultCbs 102 1 3 1]).resFired
    = [⟨0, 101, 2, 1⟩, ⟨0, 102, 3, 1⟩, ⟨2, 102, 3, 1⟩] := by decide

/-- a list splits into what a predicate keeps and what it drops -/
theorem length_filter_add {α} (p : α → Bool) : ∀ l : List α,
    (l.filter p).length + (l.filter fun x => !p x).length = l.length
  | [] => rfl
  | x :: xs => by
    have ih := length_filter_add p xs
    cases h : p x <;> simp [h] <;> omega


end Spine.CB
