import Spine.Callbacks
/-! C14, the "right message" half: a registration is invoked only by an accepted arrival for its own feature and
    counter that comes after the registration, and it *is* invoked by the first such arrival. Together with
    `c14_at_most_once`: exactly once. -/
namespace Spine.CB

/-- an arrival that the feature hands to the response callbacks -/
def Delivers (b : Bool) (f : Nat) (reply : Bool) : Prop := ¬ (b = true ∧ f = 0 ∧ reply = true)

theorem snoc_induction {α} {P : List α → Prop} (nil : P []) (snoc : ∀ l a, P l → P (l ++ [a])) : ∀ l, P l := by
  have h : ∀ l : List α, P l.reverse := by
    intro l
    induction l with
    | nil => exact nil
    | cons a l ih => rw [List.reverse_cons]; exact snoc _ _ ih
  intro l
  have := h l.reverse
  rwa [List.reverse_reverse] at this

theorem run_snoc (b : Bool) (evs : List Ev) (e : Ev) : run b (evs ++ [e]) = step b (run b evs) e := by
  simp [run, List.foldl_append]

/-- every registration in the registry stems from a `register` event with its feature, counter and function -/
theorem regs_registered (b : Bool) (evs : List Ev) :
    ∀ r ∈ (run b evs).regs, Ev.register r.feat r.ctr r.cb ∈ evs := by
  induction evs using snoc_induction with
  | nil => intro r hr; simp [run] at hr
  | snoc evs e ih =>
    intro r hr
    rw [run_snoc] at hr
    cases e with
    | register f c cb =>
      simp only [step] at hr
      split at hr
      · exact List.mem_append_left _ (ih r hr)
      · rcases List.mem_append.mp hr with hr | hr
        · exact List.mem_append_left _ (ih r hr)
        · simp only [List.mem_singleton] at hr; subst hr; simp
    | arrive a f ref reply acc =>
      simp only [step] at hr
      split at hr
      · exact List.mem_append_left _ (ih r hr)
      · exact List.mem_append_left _ (ih r (List.mem_filter.mp hr).1)

/-- C14, "never for another reference or another feature, never before it was registered": every invocation
    (registration `x.1`, arrival `x.2`) is caused by an accepted arrival `x.2` for a feature and counter for which a
    registration was made earlier in the history, and that arrival is one the feature delivers -/
theorem c14_only_for_own_message (b : Bool) (evs : List Ev) :
    ∀ x ∈ (run b evs).fired, ∃ f c cb reply pre post,
      evs = pre ++ Ev.arrive x.2 f c reply true :: post ∧ Ev.register f c cb ∈ pre ∧ Delivers b f reply := by
  induction evs using snoc_induction with
  | nil => intro x hx; simp [run] at hx
  | snoc evs e ih =>
    intro x hx
    rw [run_snoc] at hx
    have old : x ∈ (run b evs).fired → ∃ f c cb reply pre post,
        evs ++ [e] = pre ++ Ev.arrive x.2 f c reply true :: post ∧ Ev.register f c cb ∈ pre ∧ Delivers b f reply := by
      intro h
      obtain ⟨f, c, cb, reply, pre, post, heq, hreg, hd⟩ := ih x h
      exact ⟨f, c, cb, reply, pre, post ++ [e], by simp [heq], hreg, hd⟩
    cases e with
    | register f c cb =>
      simp only [step] at hx
      split at hx <;> exact old hx
    | arrive a f ref reply acc =>
      simp only [step] at hx
      split at hx
      · exact old hx
      · rename_i hcond
        rcases List.mem_append.mp hx with hx | hx
        · exact old hx
        · obtain ⟨r, hr, rfl⟩ := List.mem_map.mp hx
          have hr' := List.mem_filter.mp hr
          have hrf : r.feat = f ∧ r.ctr = ref := by simpa using hr'.2
          have hacc : acc = true ∧ Delivers b f reply := by
            unfold Delivers
            cases acc <;> cases b <;> cases reply <;> simp_all
          obtain ⟨hacc, hdel⟩ := hacc
          subst hacc
          refine ⟨f, ref, r.cb, reply, evs, [], rfl, ?_, hdel⟩
          have := regs_registered b evs r hr'.1
          rw [hrf.1, hrf.2] at this
          exact this

theorem fired_mono_step (b : Bool) (s : St) (e : Ev) (x : Nat × Nat) (h : x ∈ s.fired) : x ∈ (step b s e).fired := by
  cases e with
  | register f c cb => simp only [step]; split <;> exact h
  | arrive a f ref reply acc =>
    simp only [step]; split
    · exact h
    · exact List.mem_append_left _ h

theorem fired_mono (b : Bool) (es : List Ev) : ∀ (s : St) (x : Nat × Nat), x ∈ s.fired → x ∈ (es.foldl (step b) s).fired := by
  induction es with
  | nil => intro s x h; exact h
  | cons e es ih => intro s x h; exact ih _ x (fired_mono_step b s e x h)

/-- C14, "invoked when an accepted reply or a result referencing that counter arrives for that feature": a
    registration that is waiting after `pre` is invoked by the next delivered arrival for its feature and counter,
    whatever happens afterwards -/
theorem c14_fires (b : Bool) (pre post : List Ev) (r : Reg) (a : Nat) (reply : Bool)
    (hr : r ∈ (run b pre).regs) (hd : Delivers b r.feat reply) :
    (r.id, a) ∈ (run b (pre ++ Ev.arrive a r.feat r.ctr reply true :: post)).fired := by
  have : run b (pre ++ Ev.arrive a r.feat r.ctr reply true :: post)
      = post.foldl (step b) (step b (run b pre) (Ev.arrive a r.feat r.ctr reply true)) := by
    simp [run, List.foldl_append]
  rw [this]
  apply fired_mono
  have hc : (!true || (b && decide (r.feat = 0) && reply)) = false := by
    unfold Delivers at hd
    cases b <;> cases reply <;> simp_all
  simp only [step, hc, Bool.false_eq_true, if_false]
  apply List.mem_append_right
  exact List.mem_map.mpr ⟨r, List.mem_filter.mpr ⟨hr, by simp⟩, rfl⟩

/-- the premise of `c14_fires` is met: a registration that was not refused is waiting -/
theorem c14_registered_waits (b : Bool) (pre : List Ev) (f c cb : Nat)
    (hnew : ¬ (run b pre).regs.any (fun r => r.feat = f && r.ctr = c && r.cb = cb) = true) :
    ⟨(run b pre).next, f, c, cb⟩ ∈ (run b (pre ++ [Ev.register f c cb])).regs := by
  rw [run_snoc]
  simp only [step]
  rw [if_neg hnew]
  simp

/-- "registering the same callback twice for one counter is refused": the second registration changes nothing -/
theorem c14_duplicate_refused (b : Bool) (s : St) (f c cb : Nat)
    (h : ∃ r ∈ s.regs, r.feat = f ∧ r.ctr = c ∧ r.cb = cb) : step b s (.register f c cb) = s := by
  obtain ⟨r, hr, h1, h2, h3⟩ := h
  simp only [step]
  rw [if_pos]
  rw [List.any_eq_true]
  exact ⟨r, hr, by simp [h1, h2, h3]⟩

/-- non-vacuity: one registration, a reply for another counter, a reply for another feature, then the right one -/
example : (run true [.register 1 5 7, .arrive 100 1 6 true true, .arrive 101 2 5 true true, .arrive 102 1 5 true true,
    .arrive 103 1 5 true true]).fired = [(0, 102)] := by decide

end Spine.CB
