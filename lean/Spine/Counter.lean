/-! Event-sourced model of the per-connection message counter under concurrent senders (spine/send.go):
    every send first draws a counter with one atomic fetch-add, later writes its datagram. -/
namespace Spine.Ctr

structure St where
  msgNum : Nat := 0
  inflight : List (Nat × Nat) := []   -- (operation, counter drawn, datagram not yet written)
  wire : List Nat := []               -- counters of the datagrams written, in write order

inductive Ev
  | take (op : Nat)      -- getMsgCounter: atomic.AddUint64
  | emit (op : Nat)      -- sendSpineMessage

def step (s : St) : Ev → St
  | .take op => { s with msgNum := s.msgNum + 1, inflight := (op, s.msgNum + 1) :: s.inflight }
  | .emit op =>
    match s.inflight.find? (·.1 = op) with
    | none => s
    | some (_, c) => { s with inflight := s.inflight.erase (op, c), wire := s.wire ++ [c] }

def issued (s : St) : List Nat := s.inflight.map (·.2) ++ s.wire

def Inv (s : St) : Prop := (issued s).Nodup ∧ ∀ c ∈ issued s, c ≤ s.msgNum

theorem step_inv (s : St) (ev : Ev) (h : Inv s) : Inv (step s ev) := by
  cases ev with
  | take op =>
    obtain ⟨h1, h2⟩ := h
    refine ⟨?_, ?_⟩
    · simp only [step, issued, List.map_cons, List.cons_append, List.nodup_cons]
      refine ⟨fun hm => ?_, h1⟩
      have := h2 _ hm
      omega
    · intro c hc
      simp only [step, issued, List.map_cons, List.cons_append, List.mem_cons] at hc
      rcases hc with rfl | hc
      · exact Nat.le_refl _
      · exact Nat.le_succ_of_le (h2 c hc)
  | emit op =>
    simp only [step]
    split
    · exact h
    · rename_i x c hf
      obtain ⟨h1, h2⟩ := h
      have hmem : (op, c) ∈ s.inflight := by
        have := List.mem_of_find?_eq_some hf
        have hp := List.find?_some hf
        simp only [decide_eq_true_eq] at hp
        rw [← hp]; exact this
      -- the issued counters are the same multiset: one moves from `inflight` to `wire`
      have hperm : (issued { s with inflight := s.inflight.erase (op, c), wire := s.wire ++ [c] }).Perm (issued s) := by
        simp only [issued]
        have h3 : (s.inflight.map (·.2)).Perm (c :: (s.inflight.erase (op, c)).map (·.2)) := by
          have := (List.perm_cons_erase hmem).map (·.2)
          simpa using this
        have e1 : (s.inflight.erase (op, c)).map (·.2) ++ (s.wire ++ [c]) =
            ((s.inflight.erase (op, c)).map (·.2) ++ s.wire) ++ [c] := by simp
        have p1 := List.perm_append_singleton c ((s.inflight.erase (op, c)).map (·.2) ++ s.wire)
        have p2 : List.Perm ((c :: (s.inflight.erase (op, c)).map (·.2)) ++ s.wire)
            (s.inflight.map (·.2) ++ s.wire) := (h3.symm).append_right _
        rw [e1]
        exact p1.trans (by simpa using p2)
      exact ⟨hperm.nodup_iff.mpr h1, fun c' hc' => h2 c' (hperm.subset hc')⟩

/-- C13: under every interleaving of any number of concurrent senders, the datagrams written to a connection
    carry pairwise distinct message counters -/
theorem c13_unique (evs : List Ev) : (evs.foldl step {}).wire.Nodup := by
  have : Inv (evs.foldl step {}) := by
    suffices ∀ s, Inv s → Inv (evs.foldl step s) from this {} ⟨by simp [issued], by simp [issued]⟩
    induction evs with
    | nil => intro s h; exact h
    | cons e es ih => intro s h; exact ih _ (step_inv s e h)
  exact (List.nodup_append.mp this.1).2.1

/-- C13: a send that starts after another one has been written gets a larger counter -/
theorem c13_monotone_nonoverlap (s : St) (h : Inv s) (op : Nat) :
    ∀ c ∈ s.wire, c < (step s (.take op)).msgNum := by
  intro c hc
  have := h.2 c (by simp [issued, hc])
  simp only [step]; omega

end Spine.Ctr
