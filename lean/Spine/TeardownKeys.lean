/-! C10 — the teardown of a peer or of a remote entity over IDENTITY KEYS.

    `Spine.Td` / `Spine.Reg` identify a peer by one number. The code does not: a registry entry's client feature
    carries the CONNECTION it came in on (`DeviceRemote.Ski()`), the DEVICE ADDRESS that connection announced and an
    ENTITY address, and every clean-up function compares its own choice of these (`RemoveSubscriptionsForEntity`: device
    address and entity; `RemoveBindingsForEntity`: connection and entity; `CleanRemoteDeviceCaches`: device address;
    the map of connected devices: connection). This model keeps the three components apart and is PARAMETRIC in which of
    them each clean-up compares (`Facts`, one `Cmp` per function). The values of `Facts` for the tree under test are
    regenerated on every run by the translator (generator `cleanup`, which calls the real functions) —
    `Spine/Props/C10Gen.lean` instantiates the theorems below with them.

    Also in the model (they were monitored only before): the removal EVENTS (one per removed registry entry, one per
    device / entity) and the two RESOLUTION functions `RemoteDeviceForSki` / `RemoteDeviceForAddress`. -/
namespace Spine.TdK

/-- which identity components a clean-up function compares with its target -/
structure Cmp where
  ski : Bool
  dev : Bool
  ent : Bool
deriving DecidableEq, Repr

/-- the client side of a registry entry, and the target of a clean-up, as the code sees them -/
structure Ref where
  ski : Nat          -- connection: DeviceRemote.Ski() of the client feature's device
  dev : Nat          -- device address that connection announced (device part of the feature address)
  ent : List Nat     -- entity address
deriving DecidableEq, Repr

/-- the retain / remove decision of a clean-up loop: every compared component agrees -/
def Cmp.hit (c : Cmp) (x t : Ref) : Bool :=
  (!c.ski || x.ski == t.ski) && (!c.dev || x.dev == t.dev) && (!c.ent || x.ent == t.ent)

/-- the comparison names the peer (connection or device address) and the entity -/
def Cmp.identifies (c : Cmp) : Bool := (c.ski || c.dev) && c.ent

structure Entry where
  id : Nat
  sEnt : List Nat
  sFeat : Nat
  cl : Ref
  cFeat : Nat
deriving DecidableEq, Repr

/-- a remote feature address remembered by a local client feature (`FeatureLocal.subscriptions / bindings`): no connection -/
structure Book where
  dev : Nat
  ent : List Nat
  feat : Nat
deriving DecidableEq, Repr

def Book.hit (c : Cmp) (b : Book) (dev : Nat) (ent : List Nat) : Bool :=
  (!c.dev || b.dev == dev) && (!c.ent || b.ent == ent)

/-- one value of `DeviceLocal.remoteDevices`: key (SKI), announced device address, known entities -/
structure Conn where
  ski : Nat
  dev : Nat
  ents : List (List Nat)
deriving DecidableEq, Repr

/-- what each clean-up function compares (regenerated: `Generated.Cleanup`) -/
structure Facts where
  subs : Cmp        -- SubscriptionManager.RemoveSubscriptionsForEntity
  binds : Cmp       -- BindingManager.RemoveBindingsForEntity
  cacheDev : Cmp    -- FeatureLocal.CleanRemoteDeviceCaches
  cacheEnt : Cmp    -- FeatureLocal.CleanRemoteEntityCaches
deriving DecidableEq, Repr

/-- the comparisons of the repaired tree (HEAD) -/
def Facts.head : Facts :=
  { subs := ⟨false, true, true⟩, binds := ⟨true, false, true⟩, cacheDev := ⟨false, true, false⟩, cacheEnt := ⟨false, true, true⟩ }

/-- the comparisons of the pinned commit: `RemoveBindingsForEntity` compared the entity address only -/
def Facts.pinned : Facts := { Facts.head with binds := ⟨false, false, true⟩ }

/-- every registry clean-up names peer and entity; the bookkeeping clean-ups compare the device address (and the entity) -/
def Facts.ok (F : Facts) : Bool :=
  F.subs.identifies && F.binds.identifies && (F.cacheDev.dev && !F.cacheDev.ent) && (F.cacheEnt.dev && F.cacheEnt.ent)

structure St where
  conns : List Conn
  subs : List Entry := []
  binds : List Entry := []
  csubs : List Book := []
  cbinds : List Book := []
deriving Repr

inductive Ev
  | subRemoved (e : Entry)
  | bindRemoved (e : Entry)
  | deviceRemoved (ski : Nat)
  | entityRemoved (ski : Nat) (ent : List Nat)
deriving DecidableEq, Repr

/-- RemoteDeviceForSki -/
def forSki (s : St) (k : Nat) : Option Conn := s.conns.find? (·.ski == k)
/-- RemoteDeviceForAddress -/
def forAddress (s : St) (d : Nat) : Option Conn := s.conns.find? (·.dev == d)

/-- the entities of a connected device as clean-up targets -/
def refs (c : Conn) : List Ref := c.ents.map fun e => ⟨c.ski, c.dev, e⟩

/-- one pass (`Remove…ForEntity`): what stays, what goes (one removal event each) -/
def pass (c : Cmp) (es : List Entry) (t : Ref) : List Entry := es.filter fun e => !c.hit e.cl t
def gone (c : Cmp) (es : List Entry) (t : Ref) : List Entry := es.filter fun e => c.hit e.cl t

/-- `Remove…ForDevice`: one pass per entity of the device -/
def passes (c : Cmp) : List Entry → List Ref → List Entry
  | es, [] => es
  | es, t :: ts => passes c (pass c es t) ts

/-- the entries the passes remove, in the order the events are published -/
def goneAll (c : Cmp) : List Entry → List Ref → List Entry
  | _, [] => []
  | es, t :: ts => gone c es t ++ goneAll c (pass c es t) ts

/-- RemoveRemoteDeviceConnection(ski): state afterwards and the events published -/
def drop (F : Facts) (s : St) (k : Nat) : St × List Ev :=
  match forSki s k with
  | none => (s, [.deviceRemoved k])
  | some c =>
    ({ s with conns := s.conns.filter (·.ski != k),
              subs := passes F.subs s.subs (refs c),
              binds := passes F.binds s.binds (refs c),
              csubs := s.csubs.filter (fun b => !b.hit F.cacheDev c.dev []),
              cbinds := s.cbinds.filter (fun b => !b.hit F.cacheDev c.dev []) },
     (goneAll F.subs s.subs (refs c)).map .subRemoved ++ (goneAll F.binds s.binds (refs c)).map .bindRemoved ++ [.deviceRemoved k])

def dropConnEnt (k : Nat) (ent : List Nat) (c : Conn) : Conn :=
  if c.ski == k then { c with ents := c.ents.filter (· != ent) } else c

/-- one removal entry of a discovery notification of connection `k` about entity `ent` -/
def dropEntity (F : Facts) (s : St) (k : Nat) (ent : List Nat) : St × List Ev :=
  match forSki s k with
  | none => (s, [])
  | some c =>
    if ent == [0] || !c.ents.contains ent then (s, []) else
    let t : Ref := ⟨k, c.dev, ent⟩
    ({ s with conns := s.conns.map (dropConnEnt k ent),
              subs := pass F.subs s.subs t,
              binds := pass F.binds s.binds t,
              csubs := s.csubs.filter (fun b => !b.hit F.cacheEnt c.dev ent),
              cbinds := s.cbinds.filter (fun b => !b.hit F.cacheEnt c.dev ent) },
     [.entityRemoved k ent] ++ (gone F.subs s.subs t).map .subRemoved ++ (gone F.binds s.binds t).map .bindRemoved)

/-- a granted subscription / binding request of connection `k` (the harness issues requests that are granted) -/
def addEntry (s : St) (bind : Bool) (id k : Nat) (ent : List Nat) (cFeat : Nat) (sEnt : List Nat) (sFeat : Nat) : St :=
  match forSki s k with
  | none => s
  | some c =>
    if !c.ents.contains ent then s else
    let e : Entry := ⟨id, sEnt, sFeat, ⟨k, c.dev, ent⟩, cFeat⟩
    if bind then { s with binds := s.binds ++ [e] } else { s with subs := s.subs ++ [e] }

/-- the local client feature subscribes / binds to a remote feature address -/
def addBook (s : St) (bind : Bool) (b : Book) : St :=
  match forAddress s b.dev with
  | none => s
  | some _ => if bind then { s with cbinds := s.cbinds ++ [b] } else { s with csubs := s.csubs ++ [b] }

/-- a new connection that has announced its address and entities -/
def connect (s : St) (c : Conn) : St :=
  if (forSki s c.ski).isSome then s else { s with conns := s.conns ++ [c] }

inductive Op
  | connect (c : Conn)
  | entry (bind : Bool) (id k : Nat) (ent : List Nat) (cFeat : Nat) (sEnt : List Nat) (sFeat : Nat)
  | book (bind : Bool) (b : Book)
  | drop (k : Nat)
  | dropEnt (k : Nat) (ent : List Nat)
deriving Repr

def step (F : Facts) (s : St) : Op → St
  | .connect c => connect s c
  | .entry b id k e cf se sf => addEntry s b id k e cf se sf
  | .book b x => addBook s b x
  | .drop k => (drop F s k).1
  | .dropEnt k e => (dropEntity F s k e).1

def run (F : Facts) (s : St) (ops : List Op) : St := ops.foldl (step F) s

/-! ## what the passes do, for ANY comparison -/

theorem passes_eq_filter (c : Cmp) (ts : List Ref) : ∀ es : List Entry,
    passes c es ts = es.filter (fun e => !(ts.any (c.hit e.cl))) := by
  induction ts with
  | nil => intro es; simp only [passes, List.any_nil, Bool.not_false]; exact (List.filter_eq_self.2 (by simp)).symm
  | cons t ts ih =>
    intro es
    simp only [passes, ih, pass, List.filter_filter, List.any_cons, Bool.not_or]
    congr 1; funext e; exact Bool.and_comm _ _

theorem filter_or_perm {α : Type} (p q : α → Bool) : ∀ l : List α,
    (l.filter p ++ (l.filter (fun a => !p a)).filter q).Perm (l.filter (fun a => p a || q a)) := by
  intro l
  induction l with
  | nil => exact List.Perm.refl _
  | cons a l ih =>
    by_cases hp : p a = true
    · have e1 : (a :: l).filter p = a :: l.filter p := by simp [List.filter_cons, hp]
      have e2 : (a :: l).filter (fun a => !p a) = l.filter (fun a => !p a) := by simp [List.filter_cons, hp]
      have e3 : (a :: l).filter (fun a => p a || q a) = a :: l.filter (fun a => p a || q a) := by simp [List.filter_cons, hp]
      rw [e1, e2, e3]
      exact List.Perm.cons a ih
    · have hp' : p a = false := by simpa using hp
      have e1 : (a :: l).filter p = l.filter p := by simp [List.filter_cons, hp']
      have e2 : (a :: l).filter (fun a => !p a) = a :: l.filter (fun a => !p a) := by simp [List.filter_cons, hp']
      by_cases hq : q a = true
      · have e3 : (a :: l).filter (fun a => p a || q a) = a :: l.filter (fun a => p a || q a) := by simp [List.filter_cons, hq]
        have e4 : (a :: l.filter (fun a => !p a)).filter q = a :: (l.filter (fun a => !p a)).filter q := by
          rw [List.filter_cons]; simp [hq]
        rw [e1, e2, e3, e4]
        exact List.perm_middle.trans (List.Perm.cons a ih)
      · have hq' : q a = false := by simpa using hq
        have e3 : (a :: l).filter (fun a => p a || q a) = l.filter (fun a => p a || q a) := by simp [List.filter_cons, hp', hq']
        have e4 : (a :: l.filter (fun a => !p a)).filter q = (l.filter (fun a => !p a)).filter q := by
          rw [List.filter_cons]; simp [hq']
        rw [e1, e2, e3, e4]
        exact ih

/-- the events of a device teardown are, as a multiset, the entries that some pass hits: one event per removed entry -/
theorem goneAll_perm (c : Cmp) (ts : List Ref) : ∀ es : List Entry,
    (goneAll c es ts).Perm (es.filter (fun e => ts.any (c.hit e.cl))) := by
  induction ts with
  | nil => intro es; simp [goneAll]
  | cons t ts ih =>
    intro es
    simp only [goneAll, gone, pass, List.any_cons]
    exact (List.Perm.append_left _ (ih _)).trans (filter_or_perm (fun e => c.hit e.cl t) (fun e => ts.any (c.hit e.cl)) es)

/-! ## the frame: under which conditions "hit by some pass" means "belongs to the removed connection" -/

/-- every entry of the list refers to a connected device consistently: its connection and its device address name the
    same connected device, and its entity is one that device has (what `AddSubscription` / `AddBinding` establish: the
    client feature is looked up in the device the request came in on; distinct connections announce distinct addresses) -/
structure Coherent (conns : List Conn) (es : List Entry) : Prop where
  ident : ∀ e ∈ es, ∀ c ∈ conns, (e.cl.ski = c.ski ↔ e.cl.dev = c.dev)
  known : ∀ e ∈ es, ∀ c ∈ conns, e.cl.ski = c.ski → e.cl.ent ∈ c.ents

theorem any_hit_iff (cmp : Cmp) (h : cmp.identifies = true) (conns : List Conn) (es : List Entry) (hc : Coherent conns es)
    (c : Conn) (hmem : c ∈ conns) (e : Entry) (he : e ∈ es) :
    (refs c).any (cmp.hit e.cl) = (e.cl.ski == c.ski) := by
  have hid := hc.ident e he c hmem
  have hkn := hc.known e he c hmem
  simp only [Cmp.identifies, Bool.and_eq_true, Bool.or_eq_true] at h
  obtain ⟨hpeer, hent⟩ := h
  by_cases hs : e.cl.ski = c.ski
  · have hd := hid.mp hs
    have hk := hkn hs
    have : (refs c).any (cmp.hit e.cl) = true := by
      rw [List.any_eq_true]
      refine ⟨⟨c.ski, c.dev, e.cl.ent⟩, ?_, ?_⟩
      · simp only [refs, List.mem_map]; exact ⟨e.cl.ent, hk, rfl⟩
      · simp [Cmp.hit, hs, hd]
    rw [this]; simp [hs]
  · have hd : e.cl.dev ≠ c.dev := fun hd => hs (hid.mpr hd)
    have : (refs c).any (cmp.hit e.cl) = false := by
      rw [List.any_eq_false]
      intro t ht
      simp only [refs, List.mem_map] at ht
      obtain ⟨x, _, rfl⟩ := ht
      rcases hpeer with hp | hp
      · simp [Cmp.hit, hp, hs]
      · simp [Cmp.hit, hp, hd]
    rw [this]; simp [hs]

theorem forSki_some {s : St} {k : Nat} {c : Conn} (h : forSki s k = some c) : c ∈ s.conns ∧ c.ski = k := by
  unfold forSki at h
  exact ⟨List.mem_of_find?_eq_some h, by simpa using List.find?_some h⟩

theorem filter_congr_mem {α : Type} {p q : α → Bool} : ∀ {l : List α}, (∀ a ∈ l, p a = q a) → l.filter p = l.filter q := by
  intro l h
  induction l with
  | nil => rfl
  | cons a l ih =>
    have ha := h a (by simp)
    have ih' := ih (fun b hb => h b (by simp [hb]))
    simp [List.filter_cons, ha, ih']

/-- Device teardown, registries: with comparisons that name peer and entity, in a coherent world, the passes leave exactly
    the entries of the other connections. -/
theorem passes_exact (cmp : Cmp) (h : cmp.identifies = true) (conns : List Conn) (es : List Entry) (hc : Coherent conns es)
    (c : Conn) (hmem : c ∈ conns) :
    passes cmp es (refs c) = es.filter (fun e => e.cl.ski != c.ski) := by
  rw [passes_eq_filter]
  apply filter_congr_mem
  intro e he
  rw [any_hit_iff cmp h conns es hc c hmem e he]
  simp [bne]

/-- … and the removal events are, as a multiset, exactly the entries of the removed connection: one each, none else. -/
theorem goneAll_exact (cmp : Cmp) (h : cmp.identifies = true) (conns : List Conn) (es : List Entry) (hc : Coherent conns es)
    (c : Conn) (hmem : c ∈ conns) :
    (goneAll cmp es (refs c)).Perm (es.filter (fun e => e.cl.ski == c.ski)) := by
  refine (goneAll_perm cmp (refs c) es).trans ?_
  rw [filter_congr_mem (q := fun e => e.cl.ski == c.ski)]
  intro e he
  exact any_hit_iff cmp h conns es hc c hmem e he

/-- one pass for entity `ent` of connection `c`: exactly the entries of (that connection, that entity) go -/
theorem pass_exact (cmp : Cmp) (h : cmp.identifies = true) (conns : List Conn) (es : List Entry) (hc : Coherent conns es)
    (c : Conn) (hmem : c ∈ conns) (ent : List Nat) :
    pass cmp es ⟨c.ski, c.dev, ent⟩ = es.filter (fun e => !(e.cl.ski == c.ski && e.cl.ent == ent)) ∧
    gone cmp es ⟨c.ski, c.dev, ent⟩ = es.filter (fun e => e.cl.ski == c.ski && e.cl.ent == ent) := by
  have key : ∀ e ∈ es, cmp.hit e.cl ⟨c.ski, c.dev, ent⟩ = (e.cl.ski == c.ski && e.cl.ent == ent) := by
    intro e he
    have hid := hc.ident e he c hmem
    simp only [Cmp.identifies, Bool.and_eq_true, Bool.or_eq_true] at h
    obtain ⟨hpeer, hent⟩ := h
    by_cases hs : e.cl.ski = c.ski
    · have hd := hid.mp hs
      simp [Cmp.hit, hs, hd, hent]
    · have hd : e.cl.dev ≠ c.dev := fun hd => hs (hid.mpr hd)
      have hsb : (e.cl.ski == c.ski) = false := by simpa using hs
      have hdb : (e.cl.dev == c.dev) = false := by simpa using hd
      rcases hpeer with hp | hp
      · simp [Cmp.hit, hp, hsb]
      · simp [Cmp.hit, hp, hdb, hsb]
  constructor
  · unfold pass; apply filter_congr_mem; intro e he; rw [key e he]
  · unfold gone; apply filter_congr_mem; intro e he; rw [key e he]

/-! ## resolution -/

theorem forSki_drop_self (F : Facts) (s : St) (k : Nat) : forSki (drop F s k).1 k = none := by
  unfold drop
  cases hk : forSki s k with
  | none => simpa using hk
  | some c =>
    simp only [forSki, List.find?_eq_none, List.mem_filter]
    intro x hx; simpa using hx.2

theorem find?_filter_of_imp {α : Type} (p q : α → Bool) :
    ∀ l : List α, (∀ a ∈ l, q a = true → p a = true) → (l.filter p).find? q = l.find? q := by
  intro l
  induction l with
  | nil => intro _; rfl
  | cons a l ih =>
    intro h
    have ih' := ih (fun b hb => h b (by simp [hb]))
    by_cases hq : q a = true
    · simp [List.filter_cons, h a (by simp) hq, List.find?_cons, hq]
    · have hq' : q a = false := by simpa using hq
      by_cases hp : p a = true
      · simp [List.filter_cons, hp, List.find?_cons, hq', ih']
      · have hp' : p a = false := by simpa using hp
        simp [List.filter_cons, hp', List.find?_cons, hq', ih']

/-- every other connection resolves by its SKI exactly as before -/
theorem forSki_drop_other (F : Facts) (s : St) (k q : Nat) (hq : q ≠ k) : forSki (drop F s k).1 q = forSki s q := by
  unfold drop
  cases hk : forSki s k with
  | none => rfl
  | some c =>
    simp only [forSki]
    apply find?_filter_of_imp
    intro a _ ha
    have : a.ski = q := by simpa using ha
    simp [this, hq]

/-- `remoteDevices` is a map: one value per SKI -/
def IsMap (conns : List Conn) : Prop := ∀ a ∈ conns, ∀ b ∈ conns, a.ski = b.ski → a = b

/-- distinct connections announce distinct device addresses (assumption of C10, see `shared_address_leaks`) -/
def DevInj (conns : List Conn) : Prop := ∀ a ∈ conns, ∀ b ∈ conns, a.dev = b.dev → a.ski = b.ski

/-- the removed device no longer resolves by its address … -/
theorem forAddress_drop_self (F : Facts) (s : St) (k : Nat) (c : Conn) (hk : forSki s k = some c) (hinj : DevInj s.conns) :
    forAddress (drop F s k).1 c.dev = none := by
  obtain ⟨hmem, hski⟩ := forSki_some hk
  unfold drop
  simp only [hk, forAddress, List.find?_eq_none, List.mem_filter]
  intro x hx
  have hne : x.ski ≠ k := by simpa using hx.2
  intro hd
  have : x.dev = c.dev := by simpa using hd
  exact hne ((hinj x hx.1 c hmem this).trans hski)

/-- … and every other address resolves exactly as before -/
theorem forAddress_drop_other (F : Facts) (s : St) (k : Nat) (c : Conn) (hk : forSki s k = some c) (hmap : IsMap s.conns)
    (d : Nat) (hd : d ≠ c.dev) : forAddress (drop F s k).1 d = forAddress s d := by
  obtain ⟨hmem, hski⟩ := forSki_some hk
  unfold drop
  simp only [hk, forAddress]
  apply find?_filter_of_imp
  intro a ha hq
  have hda : a.dev = d := by simpa using hq
  have : a.ski ≠ k := by
    intro hak
    have : a = c := hmap a ha c hmem (hak.trans hski.symm)
    exact hd (by rw [← hda, this])
  simpa using this

end Spine.TdK
